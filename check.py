#!/venv/bin/python
"""check.py <property-id> [--tier quick|thorough] [--replay FILE]

One pipeline for every property (DESIGN.md §2):
  1. regenerate EV/Gen/Consts.lean from /repo's working tree, rebuild the property's Lean module
     and the driver;
  2. proof obligations: the property theorems exist, are kernel-checked, depend only on
     {propext, Classical.choice, Quot.sound}; no forbidden token in the Lean tree;
  3. correspondence: real code vs Lean model on generated / enumerated cases;
  4. direct oracle: the theorem statements evaluated on the real code (failing-input search);
  5. verdict, evidence file, replay file.
Exit 0: held.  Exit 1 + "VIOLATION property=<id> replay=<path>": violated / no longer shown.
Exit 2: harness error or timeout (never a VIOLATION line).
"""
import argparse
import importlib
import json
import os
import re
import subprocess
import sys
import time
import traceback

VERIF = os.path.dirname(os.path.abspath(__file__))
sys.path.insert(0, VERIF)
from harness import common  # noqa: E402  (puts /repo first on sys.path)
from harness.registry import PROPS, TRUSTED_COMMON  # noqa: E402

LEAN_DIR = common.LEAN_DIR
ALLOWED_AXIOMS = {'propext', 'Classical.choice', 'Quot.sound'}
FORBIDDEN = re.compile(r'\bsorry\b|\badmit\b|^\s*axiom\s|native_decide|bv_decide|implemented_by|'
                       r'\bunsafe\s|maxHeartbeats\s+0\b|\bextern\b', re.M)


def sh(cmd, cwd=None, timeout=3600):
    p = subprocess.run(cmd, cwd=cwd, stdout=subprocess.PIPE, stderr=subprocess.STDOUT,
                       timeout=timeout, text=True)
    return p.returncode, p.stdout


def strip_lean_comments(text):
    # nested block comments /- ... -/ and line comments --
    out = []
    i, depth, n = 0, 0, len(text)
    while i < n:
        if text.startswith('/-', i):
            depth += 1
            i += 2
        elif depth and text.startswith('-/', i):
            depth -= 1
            i += 2
        elif depth:
            i += 1
        elif text.startswith('--', i):
            j = text.find('\n', i)
            i = n if j < 0 else j
        elif text[i] == '"':
            j = i + 1
            while j < n and text[j] != '"':
                j += 2 if text[j] == '\\' else 1
            out.append(' ')
            i = j + 1
        else:
            out.append(text[i])
            i += 1
    return ''.join(out)


def forbidden_tokens():
    hits = []
    for root, _dirs, files in os.walk(LEAN_DIR):
        if '.lake' in root:
            continue
        for f in files:
            if f.endswith('.lean'):
                path = os.path.join(root, f)
                body = strip_lean_comments(open(path).read())
                for m in FORBIDDEN.finditer(body):
                    hits.append(f'{os.path.relpath(path, LEAN_DIR)}: {m.group(0).strip()}')
    return hits


def lean_obligations(pid, spec, tier, log):
    """Returns (obligations, discharged, failures, axioms_seen)."""
    theorems = spec['theorems']
    obligations = [f'theorem {t}' for t in theorems] + ['axiom audit', 'forbidden-token audit',
                                                        'lake build of the property module and driver']
    failures = []
    axioms_seen = set()
    with common.Lock():
        # 1. regenerate constants from the source
        from harness import gen_consts
        try:
            changed = gen_consts.regenerate()
            if changed:
                log(f'Gen/Consts.lean regenerated: {changed}')
        except Exception as e:  # the introspection itself broke: treat as a broken tie
            failures.append(f'gen_consts failed: {e!r}')
        # 2. build
        rc, out = sh(['lake', 'build', spec['module'], 'evdrv'], cwd=LEAN_DIR)
        if rc != 0:
            bad = [l for l in out.splitlines() if 'error' in l.lower()][:8]
            failures.append('lake build failed: ' + ' / '.join(bad))
            # which theorems are affected is unknown: all are undischarged
            return obligations, [], failures + [f'theorem {t}' for t in theorems], axioms_seen
        # 3. axiom audit
        audit_dir = os.path.join(LEAN_DIR, '.audit')
        os.makedirs(audit_dir, exist_ok=True)
        audit = os.path.join(audit_dir, f'{pid}_{os.getpid()}.lean')
        with open(audit, 'w') as f:
            f.write(f'import {spec["module"]}\n')
            for t in theorems:
                f.write(f'#print axioms {t}\n')
        rc, out = sh(['lake', 'env', 'lean', audit], cwd=LEAN_DIR)
        os.unlink(audit)
    discharged = []
    per = {}
    # output: "'Name' depends on axioms: [a, b]" (possibly wrapped) or "does not depend on any axioms"
    flat = re.sub(r'\s+', ' ', out)
    for t in theorems:
        m = re.search(r"'" + re.escape(t) + r"' (does not depend on any axioms|depends on axioms: \[([^\]]*)\])", flat)
        if not m:
            failures.append(f'theorem {t}: not found / not checked')
            continue
        axs = set() if m.group(2) is None else {a.strip() for a in m.group(2).split(',') if a.strip()}
        per[t] = sorted(axs)
        axioms_seen |= axs
        if axs <= ALLOWED_AXIOMS:
            discharged.append(f'theorem {t}')
        else:
            failures.append(f'theorem {t}: depends on {sorted(axs - ALLOWED_AXIOMS)}')
    if all(f'theorem {t}' in discharged for t in theorems):
        discharged.append('axiom audit')
    hits = forbidden_tokens()
    if hits:
        failures.append('forbidden tokens: ' + '; '.join(hits[:5]))
    else:
        discharged.append('forbidden-token audit')
    discharged.append('lake build of the property module and driver')
    if tier == 'thorough' and not failures:
        obligations.append('leanchecker re-check of the property module')
        rc, out = sh(['lake', 'env', 'leanchecker', spec['module']], cwd=LEAN_DIR, timeout=3000)
        if rc == 0:
            discharged.append('leanchecker re-check of the property module')
        else:
            failures.append('leanchecker: ' + out[-300:])
    return obligations, discharged, failures, axioms_seen


def load_known():
    path = os.path.join(VERIF, 'known_findings.json')
    if not os.path.exists(path):
        return []
    return json.load(open(path)).get('findings', [])


def write_replay(pid, tier, seed, n, obj):
    os.makedirs(os.path.join(VERIF, 'replays'), exist_ok=True)
    rel = os.path.join('replays', f'{pid}-{tier}-{seed}-{n}.json')
    with open(os.path.join(VERIF, rel), 'w') as f:
        json.dump(obj, f, indent=1, default=str)
    return rel


def run_suites(spec, tier, seed, log, extended=False):
    results = []
    for name in spec['suites']:
        mod = importlib.import_module(f'harness.suites.{name}')
        if extended and not getattr(mod, 'HONOURS_DEADLINE', False):
            # the extended failing-input search: suites whose loops watch the time budget run with the
            # thorough case counts; the others run their quick tier again with the next three seeds
            for k in (0, 1, 2):
                results += run_suites(dict(spec, suites=[name]), 'quick', seed + k, log)
            continue
        t0 = time.time()
        fn = getattr(mod, spec.get('entry', {}).get(name, 'run'))
        try:
            res = fn(tier, seed)
        except subprocess.TimeoutExpired:
            raise
        except Exception:
            # the suite could not be driven against the current source (an interface it calls
            # changed shape, or the real code raised where the harness does not expect it): the
            # correspondence no longer checks.  Not a harness error: the other suites still run and
            # the verdict is a violation (with a failing input if one of them finds it).
            res = common.SuiteResult(name)
            res.disagreements.append({'suite': name, 'where': 'suite could not be run against the current source',
                                      'traceback': traceback.format_exc()[-3000:]})
            log(f'suite {name}: raised; counted as a broken correspondence')
        log(f'suite {name}: {res.evaluations} evaluations, {len(res.nontrivial)} distinct non-trivial, '
            f'{len(res.disagreements)} disagreements, {len(res.violations)} direct violations '
            f'({time.time() - t0:.1f}s)')
        results.append((mod, res))
    return results


def main():
    ap = argparse.ArgumentParser()
    ap.add_argument('pid')
    ap.add_argument('--tier', default=os.environ.get('VERIF_TIER', 'quick'))
    ap.add_argument('--replay')
    args = ap.parse_args()
    pid = args.pid
    tier = args.tier if args.tier in ('quick', 'thorough') else 'quick'
    seed = int(os.environ.get('VERIF_SEED', '0') or 0)
    spec = PROPS[pid]
    t_start = time.time()

    def log(msg):
        print(f'[{pid} {time.time() - t_start:6.1f}s] {msg}', flush=True)

    if args.replay:
        case = json.load(open(args.replay))
        if case.get('kind') == 'obligation':
            print('replay of a broken proof obligation: re-running the obligations')
            obl, dis, fails, _ = lean_obligations(pid, spec, 'quick', log)
            for f in fails:
                print('  still failing:', f)
            sys.exit(1 if fails else 0)
        mod = importlib.import_module(f'harness.suites.{case["suite"]}')
        fails = mod.replay(case)
        for f in fails:
            print('  reproduced:', f)
        print('reproduced' if fails else 'did not reproduce')
        sys.exit(1 if fails else 0)

    # ---- 1+2: obligations
    obligations, discharged, lean_fail, axioms_seen = lean_obligations(pid, spec, tier, log)
    for f in lean_fail:
        log(f'OBLIGATION FAILED: {f}')

    # ---- 3+4: correspondence and direct oracle
    results = []
    harness_errors = []
    if os.path.exists(common.EVDRV):
        try:
            results = run_suites(spec, tier, seed, log)
        except Exception:
            harness_errors.append(traceback.format_exc())
    else:
        harness_errors.append('driver executable missing (build failed)')

    # suites shared by several properties tag what they find; a property counts only what lies in the
    # part of the behaviour its statement (and its theorems) are about -- see 'claims' in harness/props
    def claimed(item, is_violation):
        rule = spec.get('claims')
        tags = item.get('tags')
        if rule and not (set(rule) & {'exclude_tags', 'violation_tags', 'violation_require', 'disagreement_tags'}):
            rule = rule.get(item.get('suite'))       # rules given per suite
        if not rule or tags is None:
            return True
        tags = set(tags)
        if tags & set(rule.get('exclude_tags', [])):
            return False
        if not is_violation and rule.get('disagreement_tags') and not tags & set(rule['disagreement_tags']):
            return False
        if is_violation:
            if rule.get('violation_require') and not set(rule['violation_require']) <= tags:
                return False
            if rule.get('violation_tags') and not tags & set(rule['violation_tags']):
                return False
        return True
    # a violation that a shared suite has classified as the shape of a known finding recorded under
    # ANOTHER property (tag = that finding's id) is that property's, not this one's
    foreign_ids = {k.get('id') for k in load_known() if k.get('property') != pid and k.get('id') and 'fixed' not in k}
    inner_claimed = claimed

    def claimed(item, is_violation):   # noqa: F811
        if is_violation and foreign_ids & set(item.get('tags') or []):
            return False
        return inner_claimed(item, is_violation)
    all_dis = [d for _m, r in results for d in r.disagreements]
    all_vio = [(m, v) for m, r in results for v in r.violations]
    disagreements = [d for d in all_dis if claimed(d, False)]
    violations = [(m, v) for m, v in all_vio if claimed(v, True)]
    unclaimed = (len(all_dis) - len(disagreements), len(all_vio) - len(violations))
    if any(unclaimed):
        log(f'{unclaimed[0]} disagreements and {unclaimed[1]} violations seen that belong to other properties '
            f'sharing the suite (not counted here)')
    for _m, r in results:
        harness_errors += r.harness_errors
    for name in spec['suites']:
        obligations.append(f'correspondence suite {name}')
    for m, r in results:
        if not [d for d in r.disagreements if claimed(d, False)] and not r.harness_errors:
            discharged.append(f'correspondence suite {r.name}')

    # ---- extended search when the tie is broken but no failing input yet
    tie_broken = bool(lean_fail or disagreements)
    known = [k for k in load_known() if k.get('property') == pid and 'fixed' not in k]

    def is_known(v):
        return any(getattr(importlib.import_module(f'harness.suites.{k["suite"]}'), 'matches_known')(v, k) for k in known)
    # (violations of the shape of a recorded finding are no failing input for a NEW break of the tie)
    if tie_broken and not [v for _m, v in violations if not is_known(v)] and tier == 'quick' \
            and os.path.exists(common.EVDRV):
        log('tie broken and no failing input yet: extended search (thorough budget, next seed, at most 6 minutes)')
        os.environ['VERIF_DEADLINE'] = str(time.time() + 360)
        try:
            for m, r in run_suites(spec, 'thorough', seed + 1, log, extended=True):
                violations += [(m, v) for v in r.violations if claimed(v, True)]
        except Exception:
            harness_errors.append(traceback.format_exc())

    # ---- known findings
    known_lines = []
    for k in known:
        mod = importlib.import_module(f'harness.suites.{k["suite"]}')
        try:
            reproduces = mod.known_reproduces(k)
        except Exception:
            # the recorded history can no longer be played on the current source: the code around the
            # finding changed.  That is a broken tie (not a violation by itself), never a crash of the check
            reproduces = False
            disagreements.append({'suite': k['suite'], 'where': f'replay of known finding {k.get("id", "")}',
                                  'code': traceback.format_exc()[-1500:],
                                  'model': 'the recorded history of the known finding is replayable'})
            tie_broken = True
        if reproduces:
            known_lines.append(f'KNOWN-FINDING: property={pid} {k["what"]}')
    new_violations = []
    for m, v in violations:
        if is_known(v):
            continue
        new_violations.append(v)

    # ---- verdict
    exit_code = 0
    out_lines = []
    n = 0
    if new_violations:
        for v in new_violations[:3]:
            rel = write_replay(pid, tier, seed, n, dict(v, property=pid, kind='input'))
            out_lines.append(f'VIOLATION property={pid} replay={rel}')
            n += 1
        exit_code = 1
    elif tie_broken:
        rel = write_replay(pid, tier, seed, n, {
            'property': pid, 'kind': 'obligation',
            'no_longer_checks': lean_fail,
            'correspondence_disagreements': disagreements[:5],
            'note': 'the proof obligations or the model/code correspondence no longer check and the '
                    'failing-input search found no input on which the property itself fails'})
        out_lines.append(f'VIOLATION property={pid} replay={rel} no-failing-input-found')
        exit_code = 1
    elif harness_errors:
        for e in harness_errors:
            log('HARNESS ERROR: ' + e)
        exit_code = 2

    # ---- evidence
    evaluations = sum(r.evaluations for _m, r in results)
    nontriv = sum(len(r.nontrivial) for _m, r in results)
    samples = [s for _m, r in results for s in r.samples][:8] or [{'obligation': o} for o in obligations[:3]]
    stats = {r.name: r.stats for _m, r in results}
    evidence = {
        'property_id': pid,
        'tier': tier,
        'seed': seed,
        'level': 'proof',
        'coverage': {
            'obligations': len(obligations),
            'discharged': len([o for o in obligations if o in discharged]),
            'obligation_list': obligations,
            'undischarged': [o for o in obligations if o not in discharged],
            'checker_cmd': f'cd lean && lake build {spec["module"]} evdrv && lake env lean <audit file with '
                           f'#print axioms for each theorem>' + (' && lake env leanchecker ' + spec['module']
                                                                  if tier == 'thorough' else ''),
            'trusted_base': TRUSTED_COMMON + spec.get('trusted', []),
            'axioms_used': sorted(axioms_seen),
            'evaluations': evaluations,
            'distinct_nontrivial': nontriv,
            'rule': ' || '.join(r.rule for _m, r in results),
            'samples': samples,
            'exhaustive': all(r.exhaustive for _m, r in results) if results else False,
            'generator_stats': stats,
            'correspondence_disagreements': len(disagreements),
            'direct_violations': len(violations),
            'seen_but_belonging_to_other_properties': {'disagreements': unclaimed[0], 'violations': unclaimed[1]},
            'known_findings_printed': known_lines,
            'harness_errors': harness_errors,
            'traces_validated_against_impl': evaluations,
        },
        'assumptions': spec.get('assumptions', []),
        'wall_s': round(time.time() - t_start, 2),
        'violations': len(new_violations) + (1 if (tie_broken and not new_violations) else 0),
    }
    os.makedirs(os.path.join(VERIF, 'evidence'), exist_ok=True)
    with open(os.path.join(VERIF, 'evidence', f'{pid}.json'), 'w') as f:
        json.dump(evidence, f, indent=1, default=str)

    for l in known_lines:
        print(l)
    for l in out_lines:
        print(l)
    log(f'done: exit {exit_code}; obligations {evidence["coverage"]["discharged"]}/{len(obligations)}; '
        f'{evaluations} evaluations')
    sys.exit(exit_code)


if __name__ == '__main__':
    # the real code iterates sets of bytes (touched sets ...): with a random string-hash seed two runs of
    # the same VERIF_SEED can differ; pin it so that every run, and every replay, is reproducible
    if os.environ.get('PYTHONHASHSEED') != '0':
        os.environ['PYTHONHASHSEED'] = '0'
        os.execv(sys.executable, [sys.executable] + sys.argv)
    try:
        main()
    except subprocess.TimeoutExpired:
        print('timeout', file=sys.stderr)
        sys.exit(2)

-- Root of the `EV` library: models, specifications, proofs, property theorems.
import EV.Gen.Consts
import EV.Model.Wire
import EV.Model.Notif
import EV.Props.C20
import EV.Model.Index
import EV.Spec.Chain
import EV.Model.Merkle
import EV.Props.C12

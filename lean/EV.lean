-- Root of the `EV` library: models, specifications, proofs, property theorems.
import EV.Gen.Consts
import EV.Model.Wire
import EV.Model.Notif
import EV.Props.C20
import EV.Model.Index
import EV.Spec.Chain
import EV.Model.Merkle
import EV.Props.C12
import EV.Model.Peers
import EV.Props.C19
import EV.Props.C01
import EV.Proofs.IndexFlushUtxo
import EV.Proofs.IndexUndo
import EV.Proofs.IndexMap

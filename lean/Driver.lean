import EV.Drv.Notif
import EV.Drv.Index
import EV.Drv.Compact
import EV.Drv.Crash
import EV.Drv.SyncLoop
import EV.Drv.TxCache
import EV.Drv.ShutdownTask
import EV.Drv.Merkle
import EV.Drv.Peers
import EV.Drv.Reorg
import EV.Drv.Daemon
import EV.Drv.TxCodec
import EV.Drv.HeaderCache
import EV.Drv.Rpc
import EV.Drv.System
import EV.Drv.Shutdown
import EV.Drv.Mempool

/-!
`evdrv <suite>`: reads one operation per line on stdin, applies it to the Lean model of that
suite, prints one canonical result line per input line.  Each suite lives in `EV/Drv/<Suite>.lean`
and exposes `stepLine : σ → String → σ × String` and an initial state.
-/

namespace Drv

partial def loop {σ : Type} (h : IO.FS.Stream) (out : IO.FS.Stream) (f : σ → String → σ × String)
    (s : σ) : IO Unit := do
  let line ← h.getLine
  if line.isEmpty then
    out.flush
    return ()
  let line := (line.trimAsciiEnd).toString
  let (s', o) := f s line
  out.putStrLn o
  loop h out f s'

end Drv

def main (args : List String) : IO UInt32 := do
  let stdin ← IO.getStdin
  let stdout ← IO.getStdout
  match args with
  | ["notif"] => Drv.loop stdin stdout (Drv.NotifD.stepLine 0) EV.Notif.init; return 0
  | ["notif-orig"] => Drv.loop stdin stdout (Drv.NotifD.stepLine 1) EV.Notif.init; return 0
  | ["index"] => Drv.loop stdin stdout Drv.IndexD.stepLine {}; return 0
  | ["txcache"] => Drv.loop stdin stdout Drv.TxCacheD.stepLine {}; return 0
  | ["shutdowntask"] => Drv.loop stdin stdout Drv.ShutdownTaskD.stepLine {}; return 0
  | ["syncloop"] => Drv.loop stdin stdout Drv.SyncLoopD.stepLine {}; return 0
  | ["crash"] => Drv.loop stdin stdout Drv.CrashD.stepLine {}; return 0
  | ["compaction"] => Drv.loop stdin stdout Drv.CompactD.stepLine {}; return 0
  | ["merkle"] => Drv.loop stdin stdout Drv.MerkleD.stepLine Drv.MerkleD.init; return 0
  | ["peers"] => Drv.loop stdin stdout Drv.PeersD.stepLine (); return 0
  | ["reorgrange"] => Drv.loop stdin stdout Drv.ReorgD.stepLine (); return 0
  | ["daemon"] => Drv.loop stdin stdout Drv.DaemonD.stepLine Drv.DaemonD.init; return 0
  | ["txcodec"] => Drv.loop stdin stdout (Drv.TxCodecD.stepLine 0) Drv.TxCodecD.init; return 0
  | ["txcodec-orig"] => Drv.loop stdin stdout (Drv.TxCodecD.stepLine 1) Drv.TxCodecD.init; return 0
  | ["headercache"] => Drv.loop stdin stdout Drv.HeaderCacheD.stepLine {}; return 0
  | ["rpc"] => Drv.loop stdin stdout Drv.RpcD.stepLine {}; return 0
  | ["system"] => Drv.loop stdin stdout Drv.SystemD.stepLine {}; return 0
  | ["shutdown"] => Drv.loop stdin stdout Drv.ShutdownD.stepLine (some {}); return 0
  | ["mempool"] => Drv.loop stdin stdout Drv.MempoolD.stepLine {}; return 0
  | _ => IO.eprintln "usage: evdrv <suite>"; return 2

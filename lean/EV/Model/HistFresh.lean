import EV.Model.Rpc

/-!
# Model of the freshness loop of `SessionManager.limited_history` (C17, second half)

The C17 theorems over `EV.Model.Rpc` are about ONE request against a FIXED index.  This file models
what happens when the index moves while requests are suspended in their database read: the
`_notify_count` re-read loop of `SessionManager.limited_history` and the two halves of
`SessionManager._notify_sessions` (electrumx/server/session.py), as a small transition system with
arbitrary interleaving of any number of requests, blocks and notifications.

## The index

`hist : Nat → Bytes → List Entry` is the sequence of index versions (`hist v hx` = the full confirmed
history of `hx` in version `v`, what `DB.limited_history(hx, limit=None)` would return from a
database in that state); `State.ver` is the current version.  The model never inspects `hist` except
through `cut limit (hist v hx)`; that only touched script hashes change in a block is a hypothesis
of the theorems (`EvOK` in `EV/Proofs/HistFresh.lean`), growth and shrink (reorg) alike.

## Events and the source lines they stand for

* `block touched` — a flush of the block processor becomes visible to database reads: the index moves
  from version `ver` to `ver+1`.  `touched` is the set the block processor accumulated for it
  (advance or back-out).  Ghost: every member becomes `dirty` (changed, no notification begun yet).
* `notifyBegin touched` — `_notify_sessions(height, touched)` up to its first suspension:
      self._notify_count += 1                         (first statement, before any await)
  The argument `touched` is fixed at the call.  Ghost: the members of `touched` leave `dirty` and the
  call is recorded in `inflight` together with what was dirty at that moment (so that "pending" can
  be said exactly: a notification naming a script hash that no block changed makes nothing stale).  When `height_changed` the function then suspends in
  `await self._refresh_hsub_results(height)` (a header read in a worker thread), so other tasks —
  requests, blocks, further notifications (`Notifications.on_block` and `on_mempool` run in
  different tasks) — may run before the second half.
* `notifyDrop i` — the second half of the `i`-th in-flight call:
      for hashX in set(cache).intersection(touched): del cache[hashX]
  which runs without suspension and BEFORE the sessions are notified (`session.notify` is spawned
  afterwards; the `limited_history` calls those make are ordinary `request` events).  A mempool-only
  notification (`height_changed` false) has no await between the two halves: that is
  `notifyBegin t` immediately followed by `notifyDrop`.  Block notifications, merged notifications
  (several blocks' touched sets in one call), late ones and mempool-only ones with arbitrary touched
  sets are all `notifyBegin t` for some `t`; NO assumption on `t` is needed for safety — a
  notification simply covers what it covers.  (`dirty = []` is reached when the touched sets cover
  every changed script hash, which is what `Notifications._maybe_notify` hands over.)
* `request hx` — a call of `limited_history(hashX)` up to its first suspension:
      try: result = self._history_cache[hashX]        → hit: answered at once (`out`)
      except KeyError:
          while True:
              notify_count = self._notify_count        → `snap`
              result = await self.db.limited_history(hashX, limit=limit)     → suspended: a `Req`
  There is no await between the cache lookup, the snapshot and the start of the read.
* `resume i v` — the `i`-th suspended request is resumed with the result of its read.  The read saw
  the index as of version `v`, ANY version with `startVer ≤ v ≤ ver` (between the moment the read was
  started and the moment the coroutine is resumed — the weaker of the two assumptions offered; "the
  moment it started" is the special case `v = startVer`).  This merges "the worker thread finished"
  and "the coroutine runs its check": events between the two are covered because `v` may be any
  older version back to `startVer`.  Then, without suspension:
              if notify_count == self._notify_count: break          → `accepts`
          (loop: snapshot again, read again)                        → `snap := count, startVer := ver`
          if len(result) >= limit: result = RPCError(BAD_REQUEST, 'history too large')   → `cut`
          self._history_cache[hashX] = result                       → `dSet`
      the result is returned / raised                               → `out`
  `result` is `DB.limited_history(hashX, limit=limit)` = the first `limit` entries of the history of
  the version read (C02; the inner retry loop of db.py is `EV.Index.limitedHistoryLoop`, C17retry).
* `evict hx` — the LRU cache (1000 entries) may drop any entry at any time.

Scheduling assumption (asyncio, one thread): code between two `await`s runs atomically.  Inside the
loop the only suspension is the database read; `_notify_sessions` increments the counter before its
first await and deletes the cache entries before notifying sessions — both checked against the
source at the pinned commit; the one await in between (`_refresh_hsub_results`) is modelled by the
split into `notifyBegin` / `notifyDrop`.

`stepWith` takes two flags for the two seeded regressions that the counterexamples in
`EV/Props/C17fresh.lean` replay; the code is `step = stepWith false false`.
-/
namespace EV.HistFresh

open EV.Rpc (Bytes HistRes dGet dSet dErase)

abbrev Entry := Bytes × Nat
abbrev Index := Nat → Bytes → List Entry

/-- what a miss makes of the full history `h` of the version it read: `result = h[:limit]`
    (`DB.limited_history`), then `if len(result) >= limit: result = RPCError(...)`. -/
def cut (limit : Nat) (h : List Entry) : HistRes :=
  if limit ≤ (h.take limit).length then .tooLarge else .ok (h.take limit)

/-- a request suspended in `await self.db.limited_history(hashX, limit=limit)` -/
structure Req where
  hx : Bytes
  snap : Nat        -- `notify_count`, read at the head of the current loop iteration
  startVer : Nat    -- ghost: index version when the current read was started
  arrVer : Nat      -- ghost: index version when the request arrived
  loops : Nat       -- ghost: failed checks so far
deriving Repr, DecidableEq, Inhabited

/-- a reply (`.ok l` = `(l, cost)` returned, `.tooLarge` = the RPCError raised) with ghost data -/
structure Ans where
  hx : Bytes
  res : HistRes
  hit : Bool        -- answered from `_history_cache`
  arrVer : Nat      -- index version when the request arrived
  ansVer : Nat      -- index version when it was answered
  loops : Nat
  dirty : Bool      -- at the answer, a block had touched `hx` and no notification naming it had begun
  inflight : Bool   -- at the answer, a notification that took `hx` out of `dirty` had incremented but
                    -- not yet deleted
deriving Repr, DecidableEq, Inhabited

structure State where
  ver : Nat := 0                               -- ghost: current index version
  count : Nat := 0                             -- `_notify_count`
  cache : List (Bytes × HistRes) := []         -- `_history_cache`
  reqs : List Req := []                        -- suspended requests
  dirty : List Bytes := []                     -- ghost
  inflight : List (List Bytes × List Bytes) := []
                                               -- notifications between their halves: `touched`, and
                                               -- (ghost) what was dirty when the call was made
  lastTouched : List Bytes := []               -- only read by the seeded variant `au`
deriving Repr, DecidableEq, Inhabited

inductive Ev where
  | block (touched : List Bytes)
  | notifyBegin (touched : List Bytes)
  | notifyDrop (i : Nat)
  | request (hx : Bytes)
  | resume (i : Nat) (v : Nat)
  | evict (hx : Bytes)
deriving Repr, DecidableEq, Inhabited

/-- the loop's exit test.  `au` (seeded variant): also accept when the LATEST notification's touched
    set does not contain the script hash. -/
def accepts (au : Bool) (s : State) (q : Req) : Bool :=
  q.snap == s.count || (au && !s.lastTouched.contains q.hx)

/-- (ghost) some notification that is between its halves names `hx`, and `hx` was dirty at its call -/
def inflightHas (s : State) (hx : Bytes) : Bool :=
  s.inflight.any (fun n => n.1.contains hx && n.2.contains hx)

/-- `kr` (seeded variant): the deletion of `_notify_sessions` keeps cached refusals. -/
def stepWith (au kr : Bool) (hist : Index) (limit : Nat) (s : State) : Ev → State
  | .block t => { s with ver := s.ver + 1, dirty := t ++ s.dirty }
  | .notifyBegin t =>
    { s with count := s.count + 1, dirty := s.dirty.filter (fun h => !t.contains h),
             inflight := s.inflight ++ [(t, s.dirty)], lastTouched := t }
  | .notifyDrop i =>
    match s.inflight[i]? with
    | none => s
    | some n =>
      { s with cache := s.cache.filter (fun e => !n.1.contains e.1 || (kr && e.2 == HistRes.tooLarge)),
               inflight := s.inflight.eraseIdx i }
  | .request hx =>
    match dGet hx s.cache with
    | some _ => s
    | none => { s with reqs := s.reqs ++ [{ hx := hx, snap := s.count, startVer := s.ver,
                                            arrVer := s.ver, loops := 0 }] }
  | .resume i v =>
    match s.reqs[i]? with
    | none => s
    | some q =>
      if q.startVer ≤ v ∧ v ≤ s.ver then
        if accepts au s q then
          { s with cache := dSet q.hx (cut limit (hist v q.hx)) s.cache, reqs := s.reqs.eraseIdx i }
        else
          { s with reqs := s.reqs.set i { q with snap := s.count, startVer := s.ver,
                                                 loops := q.loops + 1 } }
      else s
  | .evict hx => { s with cache := dErase hx s.cache }

/-- the reply an event sends, if any -/
def outWith (au : Bool) (hist : Index) (limit : Nat) (s : State) : Ev → Option Ans
  | .request hx =>
    match dGet hx s.cache with
    | some r => some { hx := hx, res := r, hit := true, arrVer := s.ver, ansVer := s.ver, loops := 0,
                       dirty := s.dirty.contains hx, inflight := inflightHas s hx }
    | none => none
  | .resume i v =>
    match s.reqs[i]? with
    | none => none
    | some q =>
      if q.startVer ≤ v ∧ v ≤ s.ver then
        if accepts au s q then
          some { hx := q.hx, res := cut limit (hist v q.hx), hit := false, arrVer := q.arrVer,
                 ansVer := s.ver, loops := q.loops,
                 dirty := s.dirty.contains q.hx, inflight := inflightHas s q.hx }
        else none
      else none
  | _ => none

def runWith (au kr : Bool) (hist : Index) (limit : Nat) : State → List Ev → State
  | s, [] => s
  | s, e :: r => runWith au kr hist limit (stepWith au kr hist limit s e) r

/-- the replies sent during a run, in order -/
def repliesWith (au kr : Bool) (hist : Index) (limit : Nat) : State → List Ev → List Ans
  | _, [] => []
  | s, e :: r => (outWith au hist limit s e).toList ++
                 repliesWith au kr hist limit (stepWith au kr hist limit s e) r

/-- the code at the pinned commit -/
def step := stepWith false false
def out := outWith false
def run := runWith false false
def replies := repliesWith false false

def init : State := {}

end EV.HistFresh

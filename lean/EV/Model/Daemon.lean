/-
Model of `electrumx/server/daemon.py :: Daemon` — `_send` (with `log_error` / `failover`),
`_post_json`, `_get_to_file`, `_send_single`, `_send_vector`, `height`, `block_hex_hashes`,
`mempool_hashes`, `getrawtransactions`, `get_block`.

Time.  `init_retry`, `max_retry` and every value `retry` takes are exact binary fractions
(doubling, `min`, `max` are exact in IEEE arithmetic), so `retry` is a `Nat` multiple of a unit;
the unit is irrelevant to the model.  `Cfg` carries `initRetry`, `maxRetry` in that unit.

Input.  `_send(func, *args)` is a loop around *attempts* `await func(*args)`.  What an attempt does is
decided by the outside world (the daemon, the network), so the model takes the list of what the
successive attempts meet (`ι`), a classifier `cls : ι → Outcome` (what `func` returns / raises on it)
and an effect `eff : σ → ι → σ` on a side state (the block file for `_get_to_file`, nothing for
`_post_json`).  When the list runs out the call is still retrying: `Res.pending`.

Exceptions are data.  An exception raised by the transport is described by the answers to the
five `isinstance` questions the `except` chain of `_send` asks, in the order it asks them
(`ExcClass`); the chain itself is `catchExc`.

No imports other than the generated constants: this file is linked into the `evdrv` executable.
-/
import EV.Gen.Consts

namespace EV.Daemon

abbrev Bytes := List Nat

/-! ### `_send` -/

structure Cfg where
  nUrls : Nat        -- len(self.urls)
  initRetry : Nat    -- self.init_retry  (in units)
  maxRetry : Nat     -- self.max_retry   (in units)
deriving Repr, DecidableEq, Inhabited

/-- the seven `except` clauses of `_send` -/
inductive Transient where
  | timeout | disconnected | reset | connection | clientError | serviceRefused | warmingUp
deriving Repr, DecidableEq, Inhabited

/-- `on_good_message` -/
inductive GoodMsg where
  | restored   -- 'connection restored'
  | normal     -- 'running normally'
deriving Repr, DecidableEq, Inhabited

/-- what one attempt `await func(*args)` amounts to -/
inductive Outcome (α ε : Type) where
  | transient (k : Transient)   -- raised something one of the seven clauses catches
  | ok (v : α)                  -- returned
  | fatal (e : ε)               -- raised anything else (`DaemonError`, `KeyError`, ...)
deriving Repr, DecidableEq

inductive Res (α ε : Type) where
  | returned (v : α)
  | raised (e : ε)
  | pending                     -- the attempt list ran out: still retrying
deriving Repr, DecidableEq

structure SendOut (α ε σ : Type) where
  res : Res α ε
  urlIndex : Nat                -- self.url_index afterwards
  sleeps : List Nat             -- arguments of the successive `asyncio.sleep(retry)`
  contacted : List Nat          -- url_index in force at each attempt
  logged : Option GoodMsg       -- the `on_good_message` logged on success
  side : σ
deriving Repr, DecidableEq

/-- `Daemon.failover`: (new `url_index`, return value) -/
def failover (c : Cfg) (u : Nat) : Nat × Bool :=
  if 1 < c.nUrls then ((u + 1) % c.nUrls, true) else (u, false)

/-- the last two lines of `log_error`: `if retry == self.max_retry and self.failover(): retry = 0`;
    result = (`url_index`, `retry`) -/
def logError (c : Cfg) (u retry : Nat) : Nat × Nat :=
  if retry = c.maxRetry then
    (if (failover c u).2 then ((failover c u).1, 0) else ((failover c u).1, retry))
  else (u, retry)

/-- `retry = max(min(self.max_retry, retry * 2), self.init_retry)` -/
def nextRetry (c : Cfg) (retry : Nat) : Nat := max (min c.maxRetry (retry * 2)) c.initRetry

/-- the assignment to `on_good_message` in each `except` clause -/
def goodAfter : Transient → Option GoodMsg → Option GoodMsg
  | .timeout, g => g
  | .disconnected, _ => some .restored
  | .reset, _ => some .restored
  | .connection, _ => some .restored
  | .clientError, _ => none
  | .serviceRefused, _ => some .normal
  | .warmingUp, _ => some .normal

def consStep {α ε σ : Type} (u sleep : Nat) (o : SendOut α ε σ) : SendOut α ε σ :=
  ⟨o.res, o.urlIndex, sleep :: o.sleeps, u :: o.contacted, o.logged, o.side⟩

/-- the `while True` loop of `_send`; arguments: `url_index`, `retry`, `on_good_message`, side state,
    what the remaining attempts meet -/
def sendLoop {α ε σ ι : Type} (c : Cfg) (cls : ι → Outcome α ε) (eff : σ → ι → σ) :
    Nat → Nat → Option GoodMsg → σ → List ι → SendOut α ε σ
  | u, _, _, s, [] => ⟨.pending, u, [], [], none, s⟩
  | u, r, g, s, x :: xs =>
    match cls x with
    | .ok v => ⟨.returned v, u, [], [u], g, eff s x⟩
    | .fatal e => ⟨.raised e, u, [], [u], none, eff s x⟩
    | .transient k =>
      consStep u (logError c u r).2
        (sendLoop c cls eff (logError c u r).1 (nextRetry c (logError c u r).2) (goodAfter k g)
          (eff s x) xs)

/-- `_send(func, *args)`: `retry = self.init_retry`, `on_good_message = None` -/
def send {α ε σ ι : Type} (c : Cfg) (cls : ι → Outcome α ε) (eff : σ → ι → σ) (u : Nat) (s : σ)
    (xs : List ι) : SendOut α ε σ :=
  sendLoop c cls eff u c.initRetry none s xs

/-! ### exceptions and the `except` chain -/

/-- the answers to the `isinstance` questions asked by the `except` clauses, in order; `tag` names
    the concrete class (only used when the exception propagates) -/
structure ExcClass where
  isTimeout : Bool              -- asyncio.TimeoutError
  isServerDisconnected : Bool   -- aiohttp.ServerDisconnectedError
  isConnectionReset : Bool      -- ConnectionResetError
  isClientConnection : Bool     -- aiohttp.ClientConnectionError
  isClientError : Bool          -- aiohttp.ClientError
  tag : Nat
deriving Repr, DecidableEq, Inhabited

/-- a JSON `error` member -/
inductive JErr where
  | null
  | falsy (tag : Nat)                      -- `{}`, `0`, `""`, `false`, `[]`
  | obj (code : Option Int) (tag : Nat)    -- a non-empty object; `code` = `err.get('code')` if an int
  | nonObj (tag : Nat)                     -- a truthy value without `.get`
deriving Repr, DecidableEq, Inhabited

def JErr.truthy : JErr → Bool
  | .null => false
  | .falsy _ => false
  | .obj _ _ => true
  | .nonObj _ => true

inductive Exc where
  | daemonErrorOne (e : JErr)            -- `DaemonError(err)` of `_send_single`
  | daemonErrorMany (es : List JErr)     -- `DaemonError(errs)` of `_send_vector`
  | typeError
  | attributeError
  | valueError
  | other (tag : Nat)                    -- a transport exception no clause catches
deriving Repr, DecidableEq, Inhabited

/-- first five `except` clauses of `_send`, first match wins; anything else propagates -/
def catchExc {α : Type} (x : ExcClass) : Outcome α Exc :=
  if x.isTimeout then .transient .timeout
  else if x.isServerDisconnected then .transient .disconnected
  else if x.isConnectionReset then .transient .reset
  else if x.isClientConnection then .transient .connection
  else if x.isClientError then .transient .clientError
  else .fatal (.other x.tag)

/-! ### `_post_json` and the two processors -/

/-- a JSON `result` member -/
inductive Val where
  | null
  | str (s : List Char)
  | other (truthy : Bool) (tok : String)   -- any other JSON value, by canonical text
deriving Repr, DecidableEq, Inhabited

structure Item where
  error : JErr
  result : Val
deriving Repr, DecidableEq, Inhabited

inductive JReply where
  | obj (it : Item)          -- `{"error":…, "result":…, "id":…}`
  | arr (its : List Item)    -- a batch reply
deriving Repr, DecidableEq, Inhabited

/-- what one `session.post` attempt meets -/
inductive Reply where
  | raises (x : ExcClass)    -- post / entering the response / reading the body raised
  | nonJson                  -- Content-Type is not application/json → `ServiceRefusedError`
  | json (j : JReply)
deriving Repr, DecidableEq, Inhabited

/-- `_post_json(payload, processor)` inside the `try` of `_send` -/
def classify {α : Type} (proc : JReply → Outcome α Exc) : Reply → Outcome α Exc
  | .raises x => catchExc x
  | .nonJson => .transient .serviceRefused
  | .json j => proc j

/-- `processor` of `_send_single`; `wu` = `self.WARMING_UP` -/
def procSingle (wu : Int) : JReply → Outcome Val Exc
  | .arr _ => .fatal .typeError               -- `result['error']` on a list
  | .obj it =>
    match it.error with
    | .null => .ok it.result
    | .falsy _ => .ok it.result
    | .obj code _ =>
      if code = some wu then .transient .warmingUp else .fatal (.daemonErrorOne it.error)
    | .nonObj _ => .fatal .attributeError      -- `err.get`

/-- `[item['error'] for item in result if item['error']]` -/
def errsOf (its : List Item) : List JErr := (its.map (·.error)).filter JErr.truthy

/-- `any(err.get('code') == self.WARMING_UP for err in errs)`, left to right, short-circuit -/
def anyWarm (wu : Int) : List JErr → Except Exc Bool
  | [] => .ok false
  | .obj code _ :: es => if code = some wu then .ok true else anyWarm wu es
  | .nonObj _ :: _ => .error .attributeError
  | .null :: es => anyWarm wu es          -- unreachable: filtered out of `errs`
  | .falsy _ :: es => anyWarm wu es       -- unreachable

/-- `processor` of `_send_vector` -/
def procVector (wu : Int) (replace : Bool) : JReply → Outcome (List Val) Exc
  | .obj _ => .fatal .typeError               -- iterating a dict yields its keys; `'error'['error']`
  | .arr its =>
    match anyWarm wu (errsOf its) with
    | .error e => .fatal e
    | .ok true => .transient .warmingUp
    | .ok false =>
      if (errsOf its).isEmpty || replace then .ok (its.map (·.result))
      else .fatal (.daemonErrorMany (errsOf its))

def noEff (s : Unit) (_ : Reply) : Unit := s

/-- `_send_single(method, params)` -/
def sendSingle (c : Cfg) (wu : Int) (u : Nat) (replies : List Reply) : SendOut Val Exc Unit :=
  send c (classify (procSingle wu)) noEff u () replies

/-- `_send_vector(method, params_iterable, replace_errs)`; `reqs` = the payload -/
def sendVector {ρ : Type} (c : Cfg) (wu : Int) (u : Nat) (replace : Bool) (reqs : List ρ)
    (replies : List Reply) : SendOut (List Val) Exc Unit :=
  if reqs.isEmpty then ⟨.returned [], u, [], [], none, ()⟩     -- `if payload: … ; return []`
  else send c (classify (procVector wu replace)) noEff u () replies

/-- `self._height = await self._send_single('getblockcount')`: assigned only if the call returns -/
def cachedAfter {ε : Type} (cached : Option Val) : Res Val ε → Option Val
  | .returned v => some v
  | _ => cached

/-- `height()`: result and the new `cached_height()` -/
def height (c : Cfg) (wu : Int) (u : Nat) (cached : Option Val) (replies : List Reply) :
    SendOut Val Exc Unit × Option Val :=
  (sendSingle c wu u replies, cachedAfter cached (sendSingle c wu u replies).res)

/-- `mempool_hashes()` -/
def mempoolHashes (c : Cfg) (wu : Int) (u : Nat) (replies : List Reply) : SendOut Val Exc Unit :=
  sendSingle c wu u replies

/-- `block_hex_hashes(first, count)`: params `(h,) for h in range(first, first + count)` -/
def blockHexHashes (c : Cfg) (wu : Int) (u : Nat) (first count : Nat) (replies : List Reply) :
    SendOut (List Val) Exc Unit :=
  sendVector c wu u false (List.range' first count) replies

/-! ### `getrawtransactions`: hex → bytes -/

def isSpace (c : Char) : Bool :=
  c = ' ' || c = '\t' || c = '\n' || c = '\r' || c.toNat = 11 || c.toNat = 12

def unhexDigit (c : Char) : Option Nat :=
  if '0' ≤ c ∧ c ≤ '9' then some (c.toNat - 48)
  else if 'a' ≤ c ∧ c ≤ 'f' then some (c.toNat - 87)
  else if 'A' ≤ c ∧ c ≤ 'F' then some (c.toNat - 55)
  else none

/-- `bytes.fromhex` (CPython 3.12): ASCII whitespace is skipped between bytes, not inside one -/
def fromHex : List Char → Option Bytes
  | [] => some []
  | [c] => if isSpace c then some [] else none
  | c :: d :: rest =>
    if isSpace c then fromHex (d :: rest)
    else
      match unhexDigit c, unhexDigit d with
      | some x, some y =>
        match fromHex rest with
        | some bs => some ((x * 16 + y) :: bs)
        | none => none
      | _, _ => none

/-- `hex_to_bytes(tx) if tx else None` -/
def hexToBytes : Val → Except Exc (Option Bytes)
  | .null => .ok none
  | .str [] => .ok none
  | .str (ch :: s) =>
    match fromHex (ch :: s) with
    | some b => .ok (some b)
    | none => .error .valueError
  | .other t _ => if t then .error .typeError else .ok none

/-- the list comprehension `[hex_to_bytes(tx) if tx else None for tx in txs]` -/
def convAll : List Val → Except Exc (List (Option Bytes))
  | [] => .ok []
  | v :: vs =>
    match hexToBytes v with
    | .error e => .error e
    | .ok b =>
      match convAll vs with
      | .error e => .error e
      | .ok bs => .ok (b :: bs)

def convRes : Res (List Val) Exc → Res (List (Option Bytes)) Exc
  | .returned txs =>
    match convAll txs with
    | .ok l => .returned l
    | .error e => .raised e
  | .raised e => .raised e
  | .pending => .pending

/-- `getrawtransactions(hex_hashes, replace_errs)` -/
def getRawTransactions {ρ : Type} (c : Cfg) (wu : Int) (u : Nat) (replace : Bool) (hashes : List ρ)
    (replies : List Reply) : SendOut (List (Option Bytes)) Exc Unit :=
  ⟨convRes (sendVector c wu u replace hashes replies).res,
   (sendVector c wu u replace hashes replies).urlIndex,
   (sendVector c wu u replace hashes replies).sleeps,
   (sendVector c wu u replace hashes replies).contacted,
   (sendVector c wu u replace hashes replies).logged, ()⟩

/-! ### `_get_to_file` / `get_block` -/

inductive StreamEnd where
  | done
  | raises (x : ExcClass)       -- `iter_chunks()` / `file.write` raised after the chunks so far
deriving Repr, DecidableEq, Inhabited

/-- what one `session.get` attempt meets -/
inductive FileReply where
  | raises (x : ExcClass)       -- get / entering the response raised
  | wrongType                   -- Content-Type is not application/octet-stream
  | stream (chunks : List Bytes) (fin : StreamEnd)
deriving Repr, DecidableEq, Inhabited

/-- `size = 0; for part: size += file.write(part)` -/
def sizeOf (chunks : List Bytes) : Nat := chunks.foldl (fun size part => size + part.length) 0

def fileOutcome : FileReply → Outcome Nat Exc
  | .raises x => catchExc x
  | .wrongType => .transient .serviceRefused
  | .stream chunks .done => .ok (sizeOf chunks)
  | .stream _ (.raises x) => catchExc x

/-- `open_truncate` = `open(filename, 'wb+')` -/
def truncate (_ : Bytes) : Bytes := []

/-- the file after the attempt: truncated on open, then every chunk received is appended (the
    `with` block flushes and closes it on the way out, exception or not) -/
def fileEffect (file : Bytes) : FileReply → Bytes
  | .raises _ => truncate file
  | .wrongType => truncate file
  | .stream chunks _ => chunks.foldl (fun f part => f ++ part) (truncate file)

/-- `get_block(hex_hash, filename)`; side state = the file's contents -/
def getBlock (c : Cfg) (u : Nat) (file : Bytes) (replies : List FileReply) : SendOut Nat Exc Bytes :=
  send c fileOutcome fileEffect u file replies

/-! ### the configuration of a default-constructed `Daemon` -/

def defaultCfg (nUrls : Nat) : Cfg := ⟨nUrls, Gen.daemonInitRetry, Gen.daemonMaxRetry⟩

end EV.Daemon

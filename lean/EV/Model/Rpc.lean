import EV.Gen.Consts
import EV.Model.Wire

/-
Model of the request path of an Electrum session (C16, C17):

  electrumx/server/session.py   module-level validators (`scripthash_to_hashX`, `non_negative_integer`,
                                `assert_tx_hash`, `assert_raw_bytes`), `SessionBase.handle_request`,
                                the `ElectrumX` handlers and `set_request_handlers`,
                                `SessionManager.limited_history`, `tx_hashes_at_blockheight`,
                                `_merkle_branch` (cache bookkeeping only), `raw_header`,
                                `_notify_sessions`, `ElectrumX._notify_inner`
  electrumx/lib/util.py         `protocol_tuple`, `protocol_version`
  electrumx/server/peers.py     `PeerManager.on_add_peer` (up to the `getaddrinfo` call)
  electrumx/server/db.py        `DB.read_headers`, `DB.raw_header`
  aiorpcx/jsonrpc.py            `handler_invocation`

Shape.  A request is `dispatch world state method args`:
    look the method up in the handler table of the session's protocol version (`Gen.handlers…`,
    generated from the real `set_request_handlers` + `aiorpcx.signature_info`)
    → `invoke`: arity / named-argument checks of `handler_invocation`
    → `parse`: the handler's *validation prefix* (the validators, in the handler's order)
    → `exec`: the handler body over validated values: session / manager state changes and an
      abstract backend (`World`: chain height, headers file, block tx hashes, confirmed histories,
      mempool, daemon answers, `getaddrinfo` outcome) that returns a result or a mapped error.

Python exceptions are data (`PyExc`).  A `try … except (A, B)` is `guard caught`, where `caught`
is the list of exception class names that the real function was *observed* to convert
(`Gen.*Caught`, produced by harness/gen_consts.py feeding one value per exception class).

Everything is total and computable; only `EV.Gen.Consts` and `EV.Model.Wire` are imported.
-/
namespace EV.Rpc

abbrev Bytes := List Nat

/-! ## JSON values as `json.loads` produces them -/

/-- A Python float: a finite one is the exact ratio `float.as_integer_ratio()` gives. -/
inductive PyFloat where
  | fin (num : Int) (den : Nat)
  | nan
  | inf
  | ninf
deriving Repr, DecidableEq, Inhabited

inductive J where
  | null
  | bool (b : Bool)
  | int (i : Int)
  | float (f : PyFloat)
  | str (s : String)
  | arr (l : List J)
  | obj (kv : List (String × J))
deriving Inhabited

/-- The Python exception classes that occur. `rpcError` / `replyAndDisconnect` are the two ways a
    handler is *supposed* to fail; every other constructor is an internal error. -/
inductive PyExc where
  | valueError | typeError | overflowError | attributeError | indexError | keyError
  | unicodeError | gaiError | osError | recursionError | assertionError | zeroDivisionError
  | rpcError (code : Int)
  | replyAndDisconnect (code : Int)
deriving Repr, DecidableEq, Inhabited

/-- Python class name (the vocabulary shared with `Gen.*Caught`). -/
def PyExc.name : PyExc → String
  | .valueError => "ValueError"
  | .typeError => "TypeError"
  | .overflowError => "OverflowError"
  | .attributeError => "AttributeError"
  | .indexError => "IndexError"
  | .keyError => "KeyError"
  | .unicodeError => "UnicodeError"
  | .gaiError => "gaierror"
  | .osError => "OSError"
  | .recursionError => "RecursionError"
  | .assertionError => "AssertionError"
  | .zeroDivisionError => "ZeroDivisionError"
  | .rpcError _ => "RPCError"
  | .replyAndDisconnect _ => "ReplyAndDisconnect"

/-- `try: … except (caught): pass` followed by `raise RPCError(BAD_REQUEST, …)`: a caught class
    becomes the protocol error, anything else propagates unchanged. -/
def guard (caught : List String) (e : PyExc) : PyExc :=
  if caught.contains e.name then .rpcError Gen.badRequest else e

/-! ## Python builtins on JSON values -/

/-- `int(value)`.  `ios` is Python's `int()` on a `str` (`none` = `ValueError`; this covers bad
    literals as well as more than 4300 digits). -/
def pyInt (ios : String → Option Int) : J → Except PyExc Int
  | .null => .error .typeError
  | .bool b => .ok (if b then 1 else 0)
  | .int i => .ok i
  | .float (.fin n d) => .ok (Int.tdiv n d)
  | .float .nan => .error .valueError
  | .float .inf => .error .overflowError
  | .float .ninf => .error .overflowError
  | .str s => match ios s with
    | some i => .ok i
    | none => .error .valueError
  | .arr _ => .error .typeError
  | .obj _ => .error .typeError

/-- `bool(value)` -/
def truthy : J → Bool
  | .null => false
  | .bool b => b
  | .int i => i != 0
  | .float (.fin n _) => n != 0
  | .float _ => true
  | .str s => s != ""
  | .arr l => !l.isEmpty
  | .obj kv => !kv.isEmpty

/-- `value == b` for a Python bool `b` (`True == 1 == 1.0`). -/
def eqBool (v : J) (b : Bool) : Bool :=
  match v with
  | .bool c => c == b
  | .int i => i == (if b then 1 else 0)
  | .float (.fin n d) => n == (if b then (d : Int) else 0)
  | _ => false

/-- `value in (True, False)` -/
def inTrueFalse (v : J) : Bool := eqBool v true || eqBool v false

def isAsciiSpace (c : Char) : Bool :=
  c == ' ' || c == '\t' || c == '\n' || c == '\r' || c.toNat == 11 || c.toNat == 12

/-- `bytes.fromhex` on the characters of a `str`: ASCII whitespace is skipped *between* bytes; the
    two digits of a byte must be adjacent; anything else is `ValueError` (`none`). -/
def fromHexChars : List Char → Option Bytes
  | [] => some []
  | [c] => if isAsciiSpace c then some [] else none
  | c :: d :: rest =>
    if isAsciiSpace c then fromHexChars (d :: rest)
    else match Wire.unhexDigit c, Wire.unhexDigit d, fromHexChars rest with
      | some x, some y, some r => some ((x * 16 + y) :: r)
      | _, _, _ => none

/-- `bytes.fromhex(value)` -/
def fromHex : J → Except PyExc Bytes
  | .str s => match fromHexChars s.toList with
    | some b => .ok b
    | none => .error .valueError
  | _ => .error .typeError

/-! ## The validators of `session.py` (parametrised by the caught-class list) -/

/-- `non_negative_integer(value)` -/
def nonNegativeIntegerWith (caught : List String) (ios : String → Option Int) (v : J) :
    Except PyExc Nat :=
  match pyInt ios v with
  | .ok i => if 0 ≤ i then .ok i.toNat else .error (.rpcError Gen.badRequest)
  | .error e => .error (guard caught e)

/-- `hex_str_to_hash(value)` then `len(...) == 32` — shared by `scripthash_to_hashX` and
    `assert_tx_hash`. -/
def hash32With (caught : List String) (v : J) : Except PyExc Bytes :=
  match fromHex v with
  | .ok b => if b.length = 32 then .ok b.reverse else .error (.rpcError Gen.badRequest)
  | .error e => .error (guard caught e)

/-- `scripthash_to_hashX(scripthash)` : first `HASHX_LEN` bytes of the reversed hash -/
def scripthashToHashXWith (caught : List String) (v : J) : Except PyExc Bytes :=
  match hash32With caught v with
  | .ok b => .ok (b.take Gen.hashXLen)
  | .error e => .error e

/-- `assert_raw_bytes(value)` -/
def assertRawBytesWith (caught : List String) (v : J) : Except PyExc Bytes :=
  match fromHex v with
  | .ok b => .ok b
  | .error e => .error (guard caught e)

/-- `assert_boolean(value)` (defined in session.py; no handler uses it) -/
def assertBoolean (v : J) : Except PyExc J :=
  if inTrueFalse v then .ok v else .error (.rpcError Gen.badRequest)

def nonNegativeInteger := nonNegativeIntegerWith Gen.nonNegIntCaught
def scripthashToHashX := scripthashToHashXWith Gen.scripthashCaught
def assertTxHash := hash32With Gen.txHashCaught
def assertRawBytes := assertRawBytesWith Gen.rawBytesCaught

/-! ## `util.protocol_tuple` / `util.protocol_version` -/

/-- lexicographic `<` on tuples of ints -/
def tupleLt : List Int → List Int → Bool
  | [], [] => false
  | [], _ :: _ => true
  | _ :: _, [] => false
  | a :: as, b :: bs => if a < b then true else if b < a then false else tupleLt as bs

/-- `protocol_tuple(s)`: `tuple(int(part) for part in s.split('.'))`, `(0,)` when a caught class is
    raised (`AttributeError` for a non-`str`, `ValueError` from `int`). -/
def protocolTupleWith (caught : List String) (ios : String → Option Int) (v : J) :
    Except PyExc (List Int) :=
  match v with
  | .str s => match (s.splitOn ".").mapM ios with
    | some l => .ok l
    | none => if caught.contains PyExc.valueError.name then .ok [0] else .error .valueError
  | _ => if caught.contains PyExc.attributeError.name then .ok [0] else .error .attributeError

def protocolTuple := protocolTupleWith Gen.protocolTupleCaught

/-- Python `min(a, b)` / `max(a, b)` on tuples -/
def tupleMin (a b : List Int) : List Int := if tupleLt b a then b else a
def tupleMax (a b : List Int) : List Int := if tupleLt a b then b else a

/-- the `(client_min, client_max)` pair of `protocol_version` before conversion -/
def clientRange : J → J × J
  | .arr [a, b] => (a, b)
  | v => (v, v)

/-- `protocol_version(client_req, min_tuple, max_tuple)` → negotiated tuple or `none` -/
def protocolVersion (ios : String → Option Int) (req : J) (mn mx : List Int) :
    Except PyExc (Option (List Int)) :=
  match req with
  | .null => .ok (if tupleLt (tupleMin mn mx) (tupleMax mn mn) || tupleMin mn mx == [0] then none
                  else some (tupleMin mn mx))
  | _ =>
    match protocolTuple ios (clientRange req).1, protocolTuple ios (clientRange req).2 with
    | .ok cmin, .ok cmax =>
      .ok (if tupleLt (tupleMin cmax mx) (tupleMax cmin mn) || tupleMin cmax mx == [0] then none
           else some (tupleMin cmax mx))
    | .error e, _ => .error e
    | _, .error e => .error e

/-! ## `aiorpcx.handler_invocation` -/

/-- one row of the generated handler table -/
structure Sig where
  name : String
  minArgs : Nat
  maxArgs : Nat
  required : List String
  other : List String
deriving Repr, DecidableEq, Inhabited

def Sig.ofRow (r : String × Nat × Nat × List String × List String) : Sig :=
  { name := r.1, minArgs := r.2.1, maxArgs := r.2.2.1, required := r.2.2.2.1, other := r.2.2.2.2 }

inductive Args where
  | pos (l : List J)
  | named (kv : List (String × J))
deriving Inhabited

def lookupJ (k : String) : List (String × J) → Option J
  | [] => none
  | (k', v) :: r => if k' = k then some v else lookupJ k r

def hasKey (k : String) (kv : List (String × J)) : Bool := kv.any (fun e => e.1 == k)

/-- `handler_invocation(handler, request)`: `invalid_args` errors, else the arguments bound to the
    handler's parameters in order (`none` = parameter left at its default). -/
def invoke (sig : Sig) : Args → Except PyExc (List (Option J))
  | .pos l =>
    if l.length < sig.minArgs then .error (.rpcError Gen.invalidArgs)
    else if sig.maxArgs < l.length then .error (.rpcError Gen.invalidArgs)
    else .ok (l.map some ++ List.replicate (sig.maxArgs - l.length) none)
  | .named kv =>
    if (sig.required.filter (fun n => !hasKey n kv)) ≠ [] then .error (.rpcError Gen.invalidArgs)
    else if (kv.filter (fun e => !(sig.required.contains e.1 || sig.other.contains e.1))) ≠ []
      then .error (.rpcError Gen.invalidArgs)
    else .ok ((sig.required ++ sig.other).map (fun n => lookupJ n kv))

/-- the table `set_request_handlers(ptuple)` installs -/
def tableFor (ptuple : List Int) : List Sig :=
  if tupleLt ptuple Gen.unsubscribeSince then Gen.handlersMin.map Sig.ofRow
  else Gen.handlersMax.map Sig.ofRow

def lookupSig (m : String) : List Sig → Option Sig
  | [] => none
  | s :: r => if s.name = m then some s else lookupSig m r

/-! ## State -/

/-- a status before hashing: the confirmed history and the mempool summaries the status string is
    built from (`none` = Python `None`: both empty).  Not hashing is the free-term hash: two
    statuses are equal here only if they were computed from the same data. -/
structure StatusData where
  conf : List (Bytes × Nat)
  mp : List (Bytes × Bool)
deriving Repr, DecidableEq, Inhabited

abbrev Status := Option StatusData

/-- a `_history_cache` value: the history or the cached "history too large" error object -/
inductive HistRes where
  | ok (l : List (Bytes × Nat))
  | tooLarge
deriving Repr, DecidableEq, Inhabited

structure Sess where
  subs : List (Bytes × String) := []        -- hashX_subs : hashX -> alias
  mpStatus : List (Bytes × Status) := []    -- mempool_statuses
  subHeaders : Bool := false                -- subscribe_headers
  svSeen : Bool := false
  isPeer : Bool := false
  ptuple : List Int := Gen.protocolMin      -- protocol_tuple (selects the handler table)
deriving Repr, DecidableEq, Inhabited

structure Mgr where
  histCache : List (Bytes × HistRes) := []  -- _history_cache
  txCache : List Nat := []                  -- keys of _tx_hashes_cache
  merkleCache : List Nat := []              -- keys of _merkle_cache
deriving Repr, DecidableEq, Inhabited

structure St where
  sess : Sess := {}
  mgr : Mgr := {}
deriving Repr, DecidableEq, Inhabited

/-- Everything outside the session layer.  All of it is read-only during a request. -/
structure World where
  height : Nat                                  -- db.state.height
  hdrFile : Bytes                               -- meta/headers
  blockTxs : Nat → List Bytes                   -- tx hashes of the block at a height ≤ height
  history : Bytes → List (Bytes × Nat)          -- full confirmed history of a hashX
  mempool : Bytes → List (Bytes × Bool)         -- (tx hash, has_unconfirmed_inputs)
  daemonTxs : List Bytes                        -- txs `getrawtransaction` knows
  broadcastOk : String → Bool                   -- daemon accepts `sendrawtransaction`
  maxSend : Nat                                 -- env MAX_SEND as configured
  intOfStr : String → Option Int                -- Python `int(str)`
  dropClient : J → Bool                         -- env.drop_client matches str(client_name)
  discoveryOn : Bool                            -- env.peer_discovery == PD_ON
  skipResolve : String → Bool                   -- rate limited, or a tor host (no getaddrinfo)
  permitNoResolve : String → Bool
  resolve : String → Except PyExc Bool          -- getaddrinfo(host): permit, or the exception

/-! ### dict helpers (association lists with unique keys) -/

def dGet {α β : Type} [DecidableEq α] (k : α) : List (α × β) → Option β
  | [] => none
  | (k', v) :: r => if k' = k then some v else dGet k r

def dErase {α β : Type} [DecidableEq α] (k : α) (d : List (α × β)) : List (α × β) :=
  d.filter (fun e => !decide (e.1 = k))

def dSet {α β : Type} [DecidableEq α] (k : α) (v : β) (d : List (α × β)) : List (α × β) :=
  (k, v) :: dErase k d

def addKey (k : Nat) (l : List Nat) : List Nat := if l.contains k then l else k :: l

/-! ## C17: headers -/

/-- `DB.read_headers(start, count)` for `start, count ≥ 0`:
    `disk_count = max(0, min(count, height + 1 - start))`, then `count*80` bytes at `start*80`. -/
def diskCount (height start count : Nat) : Nat :=
  (max 0 (min (count : Int) ((height : Int) + 1 - (start : Int)))).toNat

def readHeaders (w : World) (start count : Nat) : Bytes × Nat :=
  if diskCount w.height start count ≠ 0 then
    (((w.hdrFile.drop (start * 80)).take (diskCount w.height start count * 80)),
     diskCount w.height start count)
  else ([], 0)

/-- `SessionManager.raw_header(height)`: `IndexError` of `DB.raw_header` → `RPCError` -/
def rawHeader (w : World) (h : Nat) : Except PyExc Bytes :=
  if (readHeaders w h 1).2 ≠ 1 then .error (.rpcError Gen.badRequest) else .ok (readHeaders w h 1).1

/-- `_merkle_proof(cp_height, height)`: the range check; the proof itself is C11/C12's. -/
def merkleProof (w : World) (cp h : Nat) : Except PyExc (Nat × Nat) :=
  if h ≤ cp ∧ cp ≤ w.height then .ok (cp, h) else .error (.rpcError Gen.badRequest)

/-- results (only what C16/C17 speak about) -/
inductive Res where
  | unit
  | bool (b : Bool)
  | header (raw : Bytes) (proof : Option (Nat × Nat))
  | headers (raw : Bytes) (count : Nat) (max : Nat) (proof : Option (Nat × Nat))
  | history (conf : List (Bytes × Nat)) (mp : List (Bytes × Bool))
  | status (s : Status)
  | tsc (targetType : J)
deriving Inhabited

/-- `cost = count / 50` with Python ints: `OverflowError` when the quotient does not fit a float. -/
def trueDivOverflows (count : Nat) : Bool := 50 * (2 ^ 1024 - 2 ^ 970) ≤ count

/-- body of `block_headers` after validation.  `costUnclamped` = the cost is computed from the
    requested count (before `min(count, MAX_CHUNK_SIZE)`), as at the pinned commit. -/
def blockHeadersCore (costUnclamped : Bool) (cap : Nat) (w : World) (start count cp : Nat) :
    Except PyExc Res :=
  if costUnclamped && trueDivOverflows count then .error .overflowError
  else if (readHeaders w start (min count cap)).2 ≠ 0 ∧ cp ≠ 0 then
    match merkleProof w cp (start + (readHeaders w start (min count cap)).2 - 1) with
    | .ok p => .ok (.headers (readHeaders w start (min count cap)).1
                      (readHeaders w start (min count cap)).2 cap (some p))
    | .error e => .error e
  else .ok (.headers (readHeaders w start (min count cap)).1
              (readHeaders w start (min count cap)).2 cap none)

/-- body of `block_header` after validation -/
def blockHeaderCore (w : World) (h cp : Nat) : Except PyExc Res :=
  match rawHeader w h with
  | .error e => .error e
  | .ok raw =>
    if cp = 0 then .ok (.header raw none)
    else match merkleProof w cp h with
      | .ok p => .ok (.header raw (some p))
      | .error e => .error e

/-! ## C17: histories -/

/-- `limit = max(350000, MAX_SEND) // 99` (`SessionManager.__init__` + `limited_history`) -/
def histLimit (maxSend : Nat) : Nat := max Gen.maxSendFloor maxSend / Gen.histDiv

/-- `DB.limited_history(hashX, limit=limit)`: the first `limit` entries (C02). -/
def dbLimitedHistory (w : World) (hx : Bytes) (limit : Nat) : List (Bytes × Nat) :=
  (w.history hx).take limit

/-- what a cache miss computes and stores -/
def histCompute (w : World) (hx : Bytes) : HistRes :=
  if histLimit w.maxSend ≤ (dbLimitedHistory w hx (histLimit w.maxSend)).length then .tooLarge
  else .ok (dbLimitedHistory w hx (histLimit w.maxSend))

def HistRes.toExcept : HistRes → Except PyExc (List (Bytes × Nat))
  | .ok l => .ok l
  | .tooLarge => .error (.rpcError Gen.badRequest)

/-- `SessionManager.limited_history(hashX)` -/
def limitedHistory (w : World) (m : Mgr) (hx : Bytes) : Mgr × Except PyExc (List (Bytes × Nat)) :=
  match dGet hx m.histCache with
  | some r => (m, r.toExcept)
  | none => ({ m with histCache := dSet hx (histCompute w hx) m.histCache },
             (histCompute w hx).toExcept)

/-- the data the status string is built from; `None` when there is none -/
def statusOf (hist : List (Bytes × Nat)) (mp : List (Bytes × Bool)) : Status :=
  if hist.isEmpty && mp.isEmpty then none else some { conf := hist, mp := mp }

/-- `ElectrumX.address_status(hashX)` -/
def addressStatus (w : World) (st : St) (hx : Bytes) : St × Except PyExc Status :=
  match limitedHistory w st.mgr hx with
  | (m, .error e) => ({ st with mgr := m }, .error e)
  | (m, .ok hist) =>
    ({ sess := { st.sess with
                 mpStatus := if (w.mempool hx).isEmpty then dErase hx st.sess.mpStatus
                             else dSet hx (statusOf hist (w.mempool hx)) st.sess.mpStatus },
       mgr := m },
     .ok (statusOf hist (w.mempool hx)))

/-- `unsubscribe_hashX` -/
def unsubscribeHashX (s : Sess) (hx : Bytes) : Sess :=
  { s with mpStatus := dErase hx s.mpStatus, subs := dErase hx s.subs }

/-- `subscription_address_status`: on `RPCError` the subscription is discarded, status `None` -/
def subscriptionAddressStatus (w : World) (st : St) (hx : Bytes) : St × Status :=
  match addressStatus w st hx with
  | (st', .ok s) => (st', s)
  | (st', .error _) => ({ st' with sess := unsubscribeHashX st'.sess hx }, none)

/-! ## caches of block tx hashes / merkle caches -/

/-- `SessionManager.tx_hashes_at_blockheight(height)` -/
def txHashesAt (w : World) (m : Mgr) (h : Nat) : Mgr × Except PyExc (List Bytes) :=
  if m.txCache.contains h then (m, .ok (w.blockTxs h))
  else if w.height < h then (m, .error (.rpcError Gen.badRequest))
  else ({ m with txCache := addKey h m.txCache }, .ok (w.blockTxs h))

/-- `_merkle_branch`: blocks of 200+ txs get a per-height `MerkleCache` -/
def merkleBranch (m : Mgr) (h : Nat) (txCount : Nat) : Mgr :=
  if 200 ≤ txCount then { m with merkleCache := addKey h m.merkleCache } else m

def daemonKnows (w : World) (hexTxid : String) : Bool :=
  w.daemonTxs.any (fun t => Wire.toHex t.reverse == hexTxid)

/-! ## validated requests -/

inductive Req where
  | blockHeader (h cp : Nat)
  | blockHeaders (start count cp : Nat)
  | estimateFee
  | headersSubscribe
  | relayFee
  | getBalance (hx : Bytes)
  | getHistory (hx : Bytes)
  | getMempool (hx : Bytes)
  | listUnspent (hx : Bytes)
  | subscribe (hx : Bytes) (alias : String)
  | unsubscribe (hx : Bytes)
  | broadcast (raw : String)
  | txGet (txid : String)
  | getMerkle (tx : Bytes) (h : Nat)
  | getTscMerkle (tx : Bytes) (h : Nat) (wantTx : Bool) (target : J)
  | idFromPos (h pos : Nat) (merkle : Bool)
  | feeHistogram
  | addPeer (features : J)
  | banner
  | donationAddress
  | features
  | peersSubscribe
  | ping
  | version (name pv : J)
deriving Inhabited

def aliasOf : J → String
  | .str s => s
  | _ => ""

def tscTargets : List String := ["block_hash", "block_header", "merkle_root"]

def isTarget : J → Bool
  | .str s => tscTargets.contains s
  | _ => false

def eqStr (v : J) (s : String) : Bool :=
  match v with
  | .str t => t == s
  | _ => false

/-! ### The validation prefix of each handler

The bound arguments (`none` = parameter left at its default) → a validated request, or the error
the validators raise, in the handler's own order.  A shape that `handler_invocation` cannot
produce for the handler's signature is Python's own `TypeError`. -/

abbrev Parser := (String → Option Int) → List (Option J) → Except PyExc Req

def parseBlockHeader : Parser
  | ios, [some h, cp] =>
    match nonNegativeInteger ios h with
    | .error e => .error e
    | .ok h' => match nonNegativeInteger ios (cp.getD (.int 0)) with
      | .error e => .error e
      | .ok cp' => .ok (.blockHeader h' cp')
  | _, _ => .error .typeError

def parseBlockHeaders : Parser
  | ios, [some s, some c, cp] =>
    match nonNegativeInteger ios s with
    | .error e => .error e
    | .ok s' => match nonNegativeInteger ios c with
      | .error e => .error e
      | .ok c' => match nonNegativeInteger ios (cp.getD (.int 0)) with
        | .error e => .error e
        | .ok cp' => .ok (.blockHeaders s' c' cp')
  | _, _ => .error .typeError

/-- handlers without parameters -/
def parseNullary (r : Req) : Parser
  | _, [] => .ok r
  | _, _ => .error .typeError

def parseEstimateFee : Parser
  | _, [some _] => .ok .estimateFee
  | _, _ => .error .typeError

/-- the `blockchain.scripthash.*` handlers: `scripthash_to_hashX` first -/
def parseScripthash (k : Bytes → J → Req) : Parser
  | _, [some sh] =>
    match scripthashToHashX sh with
    | .error e => .error e
    | .ok hx => .ok (k hx sh)
  | _, _ => .error .typeError

def parseBroadcast : Parser
  | _, [some raw] =>
    match assertRawBytes raw with
    | .error e => .error e
    | .ok _ => .ok (.broadcast (aliasOf raw))
  | _, _ => .error .typeError

def parseTxGet : Parser
  | _, [some tx, verbose] =>
    match assertTxHash tx with
    | .error e => .error e
    | .ok _ =>
      if inTrueFalse (verbose.getD (.bool false)) then .ok (.txGet (aliasOf tx))
      else .error (.rpcError Gen.badRequest)
  | _, _ => .error .typeError

def parseGetMerkle : Parser
  | ios, [some tx, some h] =>
    match assertTxHash tx with
    | .error e => .error e
    | .ok t => match nonNegativeInteger ios h with
      | .error e => .error e
      | .ok h' => .ok (.getMerkle t h')
  | _, _ => .error .typeError

/-- `tscChecked` = the handler refuses a `target_type` outside the documented three values -/
def parseGetTscMerkleWith (tscChecked : Bool) : Parser
  | ios, [some tx, some h, txOrId, target] =>
    match assertTxHash tx with
    | .error e => .error e
    | .ok t => match nonNegativeInteger ios h with
      | .error e => .error e
      | .ok h' =>
        if tscChecked && !isTarget (target.getD (.str "block_hash"))
        then .error (.rpcError Gen.badRequest)
        else .ok (.getTscMerkle t h' (eqStr (txOrId.getD (.str "txid")) "tx")
                    (target.getD (.str "block_hash")))
  | _, _ => .error .typeError

def parseGetTscMerkle : Parser := parseGetTscMerkleWith Gen.tscTargetChecked

def parseIdFromPos : Parser
  | ios, [some h, some pos, merkle] =>
    match nonNegativeInteger ios pos with
    | .error e => .error e
    | .ok pos' => match nonNegativeInteger ios h with
      | .error e => .error e
      | .ok h' =>
        if inTrueFalse (merkle.getD (.bool false))
        then .ok (.idFromPos h' pos' (truthy (merkle.getD (.bool false))))
        else .error (.rpcError Gen.badRequest)
  | _, _ => .error .typeError

def parseAddPeer : Parser
  | _, [some f] => .ok (.addPeer f)
  | _, _ => .error .typeError

def parseVersion : Parser
  | _, [name, pv] => .ok (.version (name.getD (.str "")) (pv.getD .null))
  | _, _ => .error .typeError

/-- the handler each method name is bound to by `set_request_handlers` -/
def parserFor : String → Option Parser
  | "blockchain.block.header" => some parseBlockHeader
  | "blockchain.block.headers" => some parseBlockHeaders
  | "blockchain.estimatefee" => some parseEstimateFee
  | "blockchain.headers.subscribe" => some (parseNullary .headersSubscribe)
  | "blockchain.relayfee" => some (parseNullary .relayFee)
  | "blockchain.scripthash.get_balance" => some (parseScripthash fun hx _ => .getBalance hx)
  | "blockchain.scripthash.get_history" => some (parseScripthash fun hx _ => .getHistory hx)
  | "blockchain.scripthash.get_mempool" => some (parseScripthash fun hx _ => .getMempool hx)
  | "blockchain.scripthash.listunspent" => some (parseScripthash fun hx _ => .listUnspent hx)
  | "blockchain.scripthash.subscribe" => some (parseScripthash fun hx sh => .subscribe hx (aliasOf sh))
  | "blockchain.scripthash.unsubscribe" => some (parseScripthash fun hx _ => .unsubscribe hx)
  | "blockchain.transaction.broadcast" => some parseBroadcast
  | "blockchain.transaction.get" => some parseTxGet
  | "blockchain.transaction.get_merkle" => some parseGetMerkle
  | "blockchain.transaction.get_tsc_merkle" => some parseGetTscMerkle
  | "blockchain.transaction.id_from_pos" => some parseIdFromPos
  | "mempool.get_fee_histogram" => some (parseNullary .feeHistogram)
  | "server.add_peer" => some parseAddPeer
  | "server.banner" => some (parseNullary .banner)
  | "server.donation_address" => some (parseNullary .donationAddress)
  | "server.features" => some (parseNullary .features)
  | "server.peers.subscribe" => some (parseNullary .peersSubscribe)
  | "server.ping" => some (parseNullary .ping)
  | "server.version" => some parseVersion
  | _ => none

/-- a method in the generated table that the model has no handler for is an internal error (so the
    totality theorem stops checking when the real table grows) -/
def parse (ios : String → Option Int) (m : String) (argv : List (Option J)) : Except PyExc Req :=
  match parserFor m with
  | some p => p ios argv
  | none => .error .keyError

/-- first host of `Peer.peers_from_features(features, source)` -/
def firstHost : J → Option String
  | .obj kv => match lookupJ "hosts" kv with
    | some (.obj ((h, _) :: _)) => some h
    | _ => none
  | _ => none

/-- index of a tx hash in a block (`list.index`) -/
def indexOf (t : Bytes) : List Bytes → Option Nat
  | [] => none
  | x :: r => if x = t then some 0 else (indexOf t r).map (· + 1)

/-! ### The handler bodies over validated requests -/

def execGetHistory (w : World) (st : St) (hx : Bytes) : St × Except PyExc Res :=
  match limitedHistory w st.mgr hx with
  | (m, .ok hist) => ({ st with mgr := m }, .ok (.history hist (w.mempool hx)))
  | (m, .error e) => ({ st with mgr := m }, .error e)

/-- `hashX_subscribe`: the subscription is stored only after `address_status` succeeded -/
def execSubscribe (w : World) (st : St) (hx : Bytes) (alias : String) : St × Except PyExc Res :=
  match addressStatus w st hx with
  | (st', .ok s) =>
    ({ st' with sess := { st'.sess with subs := dSet hx alias st'.sess.subs } }, .ok (.status s))
  | (st', .error e) => (st', .error e)

def execGetMerkle (w : World) (st : St) (t : Bytes) (h : Nat) : St × Except PyExc Res :=
  match txHashesAt w st.mgr h with
  | (m, .error e) => ({ st with mgr := m }, .error e)
  | (m, .ok txs) =>
    match indexOf t txs with
    | none => ({ st with mgr := m }, .error (.rpcError Gen.badRequest))
    | some _ => ({ st with mgr := merkleBranch m h txs.length }, .ok .unit)

def execGetTscMerkle (w : World) (st : St) (t : Bytes) (h : Nat) (wantTx : Bool) (target : J) :
    St × Except PyExc Res :=
  match txHashesAt w st.mgr h with
  | (m, .error e) => ({ st with mgr := m }, .error e)
  | (m, .ok txs) =>
    match indexOf t txs with
    | none => ({ st with mgr := m }, .error (.rpcError Gen.badRequest))
    | some _ =>
      match rawHeader w h with
      | .error e => ({ st with mgr := merkleBranch m h txs.length }, .error e)
      | .ok _ =>
        if wantTx && !daemonKnows w (Wire.toHex t.reverse)
        then ({ st with mgr := merkleBranch m h txs.length }, .error (.rpcError Gen.daemonError))
        else ({ st with mgr := merkleBranch m h txs.length }, .ok (.tsc target))

def execIdFromPos (w : World) (st : St) (h pos : Nat) (merkle : Bool) : St × Except PyExc Res :=
  match txHashesAt w st.mgr h with
  | (m, .error e) => ({ st with mgr := m }, .error e)
  | (m, .ok txs) =>
    if txs.length ≤ pos then ({ st with mgr := m }, .error (.rpcError Gen.badRequest))
    else if merkle then ({ st with mgr := merkleBranch m h txs.length }, .ok .unit)
    else ({ st with mgr := m }, .ok .unit)

/-- `ElectrumX.add_peer` + `PeerManager.on_add_peer` up to and including `getaddrinfo`;
    `caught` = the failures of `getaddrinfo` that are turned into a refusal -/
def execAddPeerWith (caught : List String) (w : World) (st : St) (f : J) : St × Except PyExc Res :=
  if !w.discoveryOn then ({ st with sess := { st.sess with isPeer := true } }, .ok (.bool false))
  else match firstHost f with
    | none => ({ st with sess := { st.sess with isPeer := true } }, .ok (.bool false))
    | some host =>
      if w.skipResolve host
      then ({ st with sess := { st.sess with isPeer := true } }, .ok (.bool (w.permitNoResolve host)))
      else match w.resolve host with
        | .ok permit => ({ st with sess := { st.sess with isPeer := true } }, .ok (.bool permit))
        | .error e =>
          if caught.contains e.name
          then ({ st with sess := { st.sess with isPeer := true } }, .ok (.bool false))
          else ({ st with sess := { st.sess with isPeer := true } }, .error e)

/-- `ElectrumX.server_version` -/
def execVersion (w : World) (st : St) (name pv : J) : St × Except PyExc Res :=
  if st.sess.svSeen then (st, .error (.rpcError Gen.badRequest))
  else if truthy name && w.dropClient name
  then ({ st with sess := { st.sess with svSeen := true } },
        .error (.replyAndDisconnect Gen.badRequest))
  else match protocolVersion w.intOfStr pv Gen.protocolMin Gen.protocolMax with
    | .error e => ({ st with sess := { st.sess with svSeen := true } }, .error e)
    | .ok none => ({ st with sess := { st.sess with svSeen := true } },
                   .error (.replyAndDisconnect Gen.badRequest))
    | .ok (some pt) =>
      ({ st with sess := { st.sess with svSeen := true, ptuple := pt } }, .ok .unit)

def exec (w : World) (st : St) : Req → St × Except PyExc Res
  | .blockHeader h cp => (st, blockHeaderCore w h cp)
  | .blockHeaders s c cp =>
    (st, blockHeadersCore Gen.headersCostUnclamped Gen.maxChunkSize w s c cp)
  | .estimateFee => (st, .ok .unit)
  | .headersSubscribe => ({ st with sess := { st.sess with subHeaders := true } }, .ok .unit)
  | .relayFee => (st, .ok .unit)
  | .getBalance _ => (st, .ok .unit)
  | .getHistory hx => execGetHistory w st hx
  | .getMempool _ => (st, .ok .unit)
  | .listUnspent _ => (st, .ok .unit)
  | .subscribe hx alias => execSubscribe w st hx alias
  | .unsubscribe hx =>
    ({ st with sess := unsubscribeHashX st.sess hx }, .ok (.bool (dGet hx st.sess.subs).isSome))
  | .broadcast raw =>
    if w.broadcastOk raw then (st, .ok .unit) else (st, .error (.rpcError Gen.badRequest))
  | .txGet txid =>
    if daemonKnows w txid then (st, .ok .unit) else (st, .error (.rpcError Gen.daemonError))
  | .getMerkle t h => execGetMerkle w st t h
  | .getTscMerkle t h wantTx target => execGetTscMerkle w st t h wantTx target
  | .idFromPos h pos merkle => execIdFromPos w st h pos merkle
  | .feeHistogram => (st, .ok .unit)
  | .addPeer f => execAddPeerWith Gen.addPeerCaught w st f
  | .banner => (st, .ok .unit)
  | .donationAddress => (st, .ok .unit)
  | .features => (st, .ok .unit)
  | .peersSubscribe => (st, .ok .unit)
  | .ping => (st, .ok .unit)
  | .version name pv => execVersion w st name pv

/-- lookup → `handler_invocation` → validation prefix: everything that can refuse a request before
    the handler body touches anything. -/
def parseRequest (w : World) (st : St) (m : String) (args : Args) : Except PyExc Req :=
  match lookupSig m (tableFor st.sess.ptuple) with
  | none => .error (.rpcError Gen.methodNotFound)
  | some sig =>
    match invoke sig args with
    | .error e => .error e
    | .ok argv => parse w.intOfStr m argv

/-- `SessionBase.handle_request(request)` -/
def dispatch (w : World) (st : St) (m : String) (args : Args) : St × Except PyExc Res :=
  match parseRequest w st m args with
  | .error e => (st, .error e)
  | .ok r => exec w st r

/-! ## notifications -/

/-- first loop of `_notify_inner`: the touched subscriptions -/
def notifyTouched (w : World) : St → List Bytes → St × List (String × Status)
  | st, [] => (st, [])
  | st, hx :: rest =>
    match dGet hx st.sess.subs with
    | none => notifyTouched w st rest
    | some alias =>
      if alias = "" then notifyTouched w st rest
      else
        ((notifyTouched w (subscriptionAddressStatus w st hx).1 rest).1,
         (alias, (subscriptionAddressStatus w st hx).2) ::
           (notifyTouched w (subscriptionAddressStatus w st hx).1 rest).2)

/-- second loop: re-check every hashX that had mempool txs (over a *copy* of `mempool_statuses`) -/
def notifyMempool (w : World) : St → List (Bytes × Status) → St × List (String × Status)
  | st, [] => (st, [])
  | st, (hx, old) :: rest =>
    match dGet hx st.sess.subs with
    | none => notifyMempool w st rest
    | some alias =>
      if alias = "" then notifyMempool w st rest
      else if (subscriptionAddressStatus w st hx).2 ≠ old then
        ((notifyMempool w (subscriptionAddressStatus w st hx).1 rest).1,
         (alias, (subscriptionAddressStatus w st hx).2) ::
           (notifyMempool w (subscriptionAddressStatus w st hx).1 rest).2)
      else notifyMempool w (subscriptionAddressStatus w st hx).1 rest

/-- `ElectrumX._notify_inner(touched, height_changed)`: new state, whether a header notification
    is sent, and the `(alias, status)` notifications (as a dict: later entries win). -/
def notifyInner (w : World) (st : St) (touched : List Bytes) (heightChanged : Bool) :
    St × Bool × List (String × Status) :=
  if (touched.filter (fun hx => (dGet hx st.sess.subs).isSome)) ≠ [] ||
     (heightChanged && !st.sess.mpStatus.isEmpty) then
    ((notifyMempool w (notifyTouched w st (touched.filter (fun hx => (dGet hx st.sess.subs).isSome))).1
        (notifyTouched w st (touched.filter (fun hx => (dGet hx st.sess.subs).isSome))).1.sess.mpStatus).1,
     heightChanged && st.sess.subHeaders,
     (notifyTouched w st (touched.filter (fun hx => (dGet hx st.sess.subs).isSome))).2 ++
     (notifyMempool w (notifyTouched w st (touched.filter (fun hx => (dGet hx st.sess.subs).isSome))).1
        (notifyTouched w st (touched.filter (fun hx => (dGet hx st.sess.subs).isSome))).1.sess.mpStatus).2)
  else (st, heightChanged && st.sess.subHeaders, [])

/-- `_notify_sessions`: drop the touched hashXs from the history cache — when the height changed,
    or on every notification if the code does so (`always`; observed into `Gen.invalidateAlways`) -/
def invalidateWith (always : Bool) (m : Mgr) (touched : List Bytes) (heightChanged : Bool) : Mgr :=
  if heightChanged || always then
    { m with histCache := m.histCache.filter (fun e => !touched.contains e.1) }
  else m

def invalidate := invalidateWith Gen.invalidateAlways

end EV.Rpc

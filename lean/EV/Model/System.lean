/-
Model of the status / history-cache / tip coherence protocol between `SessionManager`
(`limited_history`, `_notify_sessions`, `_refresh_hsub_results`) and `ElectrumX` sessions
(`hashX_subscribe`, `unsubscribe_hashX`, `address_status`, `_notify_inner`, `headers_subscribe`,
`confirmed_and_unconfirmed_history`) — C07, C10.

True state of a script hash `x` = (`conf x`, `mem x`):
  `conf x`  version of its confirmed history (what `DB.limited_history` reads);
  `mem x`   its mempool part (what `MemPool.transaction_summaries` returns, read without
            suspension): `0` = no mempool transaction, otherwise a number standing for the list
            of `(tx hash, has_unconfirmed_inputs)` pairs.
A status is the pair `(c, m)` of the two values `address_status` combined.

Environment events and the ghost sets that state what the environment owes:
  `change x`      a block / back-out touching `x` is flushed: `conf x` bumps, `x` joins `carrier`
                  (the touched sets travelling BlockProcessor.touched -> Notifications ->
                  `_notify_sessions`; C07carrier + C20);
  `mpChange x m`  a mempool refresh adds / removes a transaction of `x`: `mem x := m`, carried
                  (C08_touched + C20);
  `flip x m`      the `has_unconfirmed_inputs` flag of a mempool transaction of `x` flips because
                  a PARENT entered or left the server's mempool view: `mem x := m` (both non-zero),
                  `x` is in NO touched set.  `x` joins the ghost set `flipped`: the environment owes
                  a later `_notify_sessions` call with `height_changed = true` (a parent enters or
                  leaves the mempool without its child only by being orphaned / confirmed, i.e.
                  together with a change of the chain);
  `advance d` / `backup` / `reorgSignal`   the DB's chain grows by a block with header `d` /
                  loses its tip (`flush_backup`) / `_handle_chain_reorgs` bumps `_reorg_count`.
`_notify_sessions(h, xs)` = `notify h xs`; it is cut at `await self._refresh_hsub_results(height)`
(between `_notify_count += 1` and the cache invalidation): the header read (`DB.raw_header` in a
worker thread) is a record in `hreads`, performed by `hdrDo` (it sees the chain of *then*) and
delivered by `hdrFinish` (F16: an IndexError is retried at `min(height, db height)`; the pinned
variant raised when the DB was back at that height — the notification was then lost: ghost `lost`).
A history read (`DB.limited_history` in a worker thread) is cut in three as before (`tasks`).

Ghost fields (not in the code, never read by it): `carrier`, `flipped`, `lost`, `suppressed`,
`seen`, `tipDone`, and the `flips` component of a header read.

Flags: the default `{}` is the current code; the others select pinned earlier behaviour:
  `checkCount = false`  accept every read (F5);
  `batch = true`        `_notify_inner` sends all statuses after computing all of them (F15);
  `recheck = false`     no second loop over `mempool_statuses` (the shape of seeded change C07-1);
  `cmpLive = false`     the second loop compares the new status with the COPY of `mempool_statuses`
                        taken before the loop (stale after a suspension) instead of the value that
                        is in `mempool_statuses` at the moment it is replaced (fixed in ee7f7d3);
  `raiseOnRace = true`  `_refresh_hsub_results` raises when the header read failed (the DB was lowered
                        under it) and the DB is back at that height when the error arrives, instead
                        of reading again: the notification is lost (ghost `lost`).
No imports: linked into `evdrv`.
-/
namespace EV.System

structure Flags where
  checkCount : Bool := true
  batch : Bool := false
  recheck : Bool := true
  cmpLive : Bool := true
  raiseOnRace : Bool := false
deriving Repr, DecidableEq, Inhabited

/-- (version of the confirmed history, mempool part) -/
abbrev Status := Nat × Nat

/-- what the suspended coroutine does with the accepted history -/
inductive Cont where
  | sub (s hx : Nat)                                   -- hashX_subscribe
  | query                                              -- get_history
  /-- `_notify_inner`, first loop (over touched ∩ subscribed) -/
  | notify (s : Nat) (rest : List Nat) (changed : List (Nat × Status))
  /-- `_notify_inner`, second loop (over the copy of `mempool_statuses`); `old` = the copy's value -/
  | notify2 (s : Nat) (old : Status) (rest : List (Nat × Status)) (changed : List (Nat × Status))
deriving Repr, DecidableEq, Inhabited

structure Task where
  hx : Nat
  countAtStart : Nat
  value : Option Nat := none
  cont : Cont
deriving Repr, DecidableEq, Inhabited

/-- a `_notify_sessions` call suspended in `_refresh_hsub_results`: the header read at height `h`
    (`value`: not performed / `some none` = IndexError / `some (some d)` = header `d`); `xs` = its
    touched set; `flips` (ghost) = the flips it has taken responsibility for -/
structure HRead where
  h : Nat
  value : Option (Option Nat) := none
  xs : List Nat
  flips : List Nat
deriving Repr, DecidableEq, Inhabited

structure St where
  conf : List Nat := []
  mem : List Nat := []
  carrier : List Nat := []
  flipped : List Nat := []
  lost : List Nat := []
  suppressed : List Nat := []
  chain : List Nat := [0]
  seen : List (Nat × Nat) := [(0, 0)]
  reorgCount : Nat := 0
  notifiedReorgCount : Nat := 0
  notifiedHeight : Nat := 0
  hsub : Nat × Nat := (0, 0)
  tipDone : Bool := true
  cache : List (Nat × Nat) := []
  subs : List (List Nat) := []
  ms : List (List (Nat × Status)) := []
  held : List (List (Nat × Status)) := []
  hdrSub : List Bool := []
  heldHdr : List (Option (Nat × Nat)) := []
  alive : List Bool := []
  notifyCount : Nat := 0
  tasks : List Task := []
  hreads : List HRead := []
deriving Repr, DecidableEq, Inhabited

inductive Ev where
  | change (x : Nat)
  | mpChange (x m : Nat)
  | flip (x m : Nat)
  | advance (d : Nat)
  | backup
  | reorgSignal
  | notify (h : Nat) (xs : List Nat)
  | subscribe (s x : Nat)
  | unsubscribe (s x : Nat)
  | closeSession (s : Nat)
  | subscribeHeaders (s : Nat)
  | getHistory (s x : Nat)
  | evict (x : Nat)
  | readDo (i : Nat)
  | readFinish (i : Nat)
  | hdrDo (i : Nat)
  | hdrFinish (i : Nat)
deriving Repr, DecidableEq, Inhabited

def lookup {β : Type} (k : Nat) : List (Nat × β) → Option β
  | [] => none
  | (k', v) :: r => if k' = k then some v else lookup k r

def put {β : Type} (k : Nat) (v : β) (l : List (Nat × β)) : List (Nat × β) :=
  (k, v) :: l.filter (fun e => e.1 != k)

/-- Python `d[k] = v`: in place if present (first occurrence), else appended -/
def dictSet {β : Type} (k : Nat) (v : β) : List (Nat × β) → List (Nat × β)
  | [] => [(k, v)]
  | (k', v') :: r => if k' = k then (k, v) :: r else (k', v') :: dictSet k v r

/-- Python `d.pop(k, None)` -/
def dictErase {β : Type} (k : Nat) (l : List (Nat × β)) : List (Nat × β) :=
  l.filter (fun e => e.1 != k)

def modifyAt {α : Type} (l : List α) (i : Nat) (f : α → α) : List α :=
  l.zipIdx.map (fun (a, j) => if j = i then f a else a)

def confOf (st : St) (hx : Nat) : Nat := st.conf.getD hx 0
def memOf (st : St) (hx : Nat) : Nat := st.mem.getD hx 0
/-- the protocol-defined status now -/
def curOf (st : St) (hx : Nat) : Status := (confOf st hx, memOf st hx)

def subsOf (st : St) (s : Nat) : List Nat := st.subs.getD s []
def msOf (st : St) (s : Nat) : List (Nat × Status) := st.ms.getD s []
def aliveOf (st : St) (s : Nat) : Bool := st.alive.getD s false
def hdrSubOf (st : St) (s : Nat) : Bool := st.hdrSub.getD s false
def heldHdrOf (st : St) (s : Nat) : Option (Nat × Nat) := st.heldHdr.getD s none

def heldOf (st : St) (s hx : Nat) : Option Status := lookup hx (st.held.getD s [])

/-- `DB.state.height` -/
def dbHeight (st : St) : Nat := st.chain.length - 1
/-- the current tip: (height, header) -/
def tipOf (st : St) : Nat × Nat := (dbHeight st, st.chain.getD (dbHeight st) 0)

/-- the client of session `s` receives status `v` for `hx` (subscribe reply or notification) -/
def deliver (st : St) (s hx : Nat) (v : Status) : St :=
  { st with held := modifyAt st.held s (put hx v) }

/-- the end of `address_status`: `mempool_statuses[hashX] = status` if there are mempool
    transactions, else `pop` -/
def setMs (st : St) (s hx : Nat) (v : Status) : St :=
  { st with ms := modifyAt st.ms s (fun d => if v.2 != 0 then dictSet hx v d else dictErase hx d) }

def insertSorted (x : Nat) : List Nat → List Nat
  | [] => [x]
  | y :: r => if x < y then x :: y :: r else if x = y then y :: r else y :: insertSorted x r

/-- batch mode: send everything computed -/
def flushChanged (st : St) (s : Nat) (changed : List (Nat × Status)) : St :=
  changed.foldl (fun st (e : Nat × Status) => deliver st s e.1 e.2) st

/-- one iteration of the first loop once the history (version `c`) is there: compute, store in
    `mempool_statuses`, send (or collect, batch mode) -/
def visit1 (f : Flags) (st : St) (s hx c : Nat) (changed : List (Nat × Status)) :
    St × List (Nat × Status) :=
  if f.batch then (setMs st s hx (c, memOf st hx), changed ++ [(hx, (c, memOf st hx))])
  else (deliver (setMs st s hx (c, memOf st hx)) s hx (c, memOf st hx), changed)

/-- `status != old_status` of the second loop -/
def differs (f : Flags) (st : St) (s hx c : Nat) (old : Status) : Bool :=
  if f.cmpLive then lookup hx (msOf st s) != some (c, memOf st hx) else (c, memOf st hx) != old

/-- one iteration of the second loop once the history is there.  When nothing is sent although the
    client holds something else, the script hash joins the ghost set `suppressed`. -/
def visit2 (f : Flags) (st : St) (s hx c : Nat) (old : Status) (changed : List (Nat × Status)) :
    St × List (Nat × Status) :=
  if differs f st s hx c old then visit1 f st s hx c changed
  else ({ (setMs st s hx (c, memOf st hx)) with
            suppressed := if heldOf st s hx != some (c, memOf st hx) then st.suppressed ++ [hx]
                          else st.suppressed }, changed)

/-- the second loop of `_notify_inner` over the copy of `mempool_statuses` -/
def notifyGo2 (f : Flags) (st : St) (s : Nat) : List (Nat × Status) → List (Nat × Status) → St
  | [], changed => flushChanged st s changed
  | (hx, old) :: rest, changed =>
    if !(subsOf st s).contains hx then notifyGo2 f st s rest changed
    else
      match lookup hx st.cache with
      | some c => notifyGo2 f (visit2 f st s hx c old changed).1 s rest (visit2 f st s hx c old changed).2
      | none =>
        { st with tasks := st.tasks ++ [{ hx := hx, countAtStart := st.notifyCount,
                                          cont := .notify2 s old rest changed }] }

/-- the first loop of `_notify_inner` over the touched ∩ subscribed script hashes (ascending);
    at its end the copy of `mempool_statuses` is taken and the second loop starts -/
def notifyGo (f : Flags) (st : St) (s : Nat) : List Nat → List (Nat × Status) → St
  | [], changed =>
    if f.recheck then notifyGo2 f st s (msOf st s) changed else flushChanged st s changed
  | hx :: rest, changed =>
    if !(subsOf st s).contains hx then notifyGo f st s rest changed
    else
      match lookup hx st.cache with
      | some c => notifyGo f (visit1 f st s hx c changed).1 s rest (visit1 f st s hx c changed).2
      | none =>
        { st with tasks := st.tasks ++ [{ hx := hx, countAtStart := st.notifyCount,
                                          cont := .notify s rest changed }] }

/-- continue a coroutine with an accepted history of version `c` -/
def resume (f : Flags) (st : St) (hx c : Nat) : Cont → St
  | .sub s x =>
    { (deliver (setMs st s x (c, memOf st x)) s x (c, memOf st x)) with
        subs := modifyAt st.subs s (insertSorted x) }
  | .query => st
  | .notify s rest changed =>
    notifyGo f (visit1 f st s hx c changed).1 s rest (visit1 f st s hx c changed).2
  | .notify2 s old rest changed =>
    notifyGo2 f (visit2 f st s hx c old changed).1 s rest (visit2 f st s hx c old changed).2

/-- start `limited_history(hx)` for a coroutine: cache hit continues at once -/
def startRead (f : Flags) (st : St) (hx : Nat) (c : Cont) : St :=
  match lookup hx st.cache with
  | some v => resume f st hx v c
  | none => { st with tasks := st.tasks ++ [{ hx := hx, countAtStart := st.notifyCount, cont := c }] }

/-- index in `tasks` of the i-th task whose `value.isSome = performed` -/
def nthIdx (tasks : List Task) (performed : Bool) (i : Nat) : Option Nat :=
  ((tasks.zipIdx.filter (fun (t, _) => t.value.isSome == performed)).map (·.2))[i]?

def nthIdxH (rs : List HRead) (performed : Bool) (i : Nat) : Option Nat :=
  ((rs.zipIdx.filter (fun (r, _) => r.value.isSome == performed)).map (·.2))[i]?

/-- `touched.intersection(self.hashX_subs)` in the order the harness fixes: ascending, each once
    (insertion sort: structural, so that concrete runs evaluate in the kernel) -/
def touchedOf (st : St) (s : Nat) (xs : List Nat) : List Nat :=
  (xs.filter (subsOf st s).contains).foldr insertSorted []

/-- the header notification at the head of `_notify_inner` -/
def hdrNotify (st : St) (s : Nat) (hc : Bool) : St :=
  if hc && hdrSubOf st s then { st with heldHdr := modifyAt st.heldHdr s (fun _ => some st.hsub) }
  else st

/-- `session.notify(touched, height_changed)` up to its first suspension -/
def sessionNotify (f : Flags) (st : St) (s : Nat) (xs : List Nat) (hc : Bool) : St :=
  if !aliveOf st s then st
  else if !(touchedOf st s xs).isEmpty || (hc && !(msOf st s).isEmpty) then
    notifyGo f (hdrNotify st s hc) s (touchedOf st s xs) []
  else hdrNotify st s hc

/-- `_notify_sessions` after `_refresh_hsub_results`: invalidate the history cache for the touched
    script hashes, then every session's `notify` -/
def finishNotify (f : Flags) (st : St) (xs : List Nat) (hc : Bool) : St :=
  (List.range st.subs.length).foldl (fun acc s => sessionNotify f acc s xs hc)
    { st with cache := st.cache.filter (fun e => !xs.contains e.1) }

/-- ghost: does the header read `r` aim at the current tip (and, if performed, has it seen it) -/
def goodRead (st : St) (r : HRead) : Bool :=
  r.h == dbHeight st && (r.value == none || r.value == some (some (tipOf st).2))

def step (f : Flags) (st : St) : Ev → St
  | .change x =>
    { st with conf := modifyAt st.conf x (· + 1),
              carrier := if st.carrier.contains x then st.carrier else st.carrier ++ [x] }
  | .mpChange x m =>
    { st with mem := modifyAt st.mem x (fun _ => m),
              carrier := if st.carrier.contains x then st.carrier else st.carrier ++ [x] }
  | .flip x m =>
    if memOf st x != 0 && m != 0 then
      { st with mem := modifyAt st.mem x (fun _ => m),
                flipped := if st.flipped.contains x then st.flipped else st.flipped ++ [x] }
    else st
  | .advance d =>
    { st with chain := st.chain ++ [d], seen := st.seen ++ [(st.chain.length, d)], tipDone := false }
  | .backup =>
    if st.chain.length ≤ 1 then st else { st with chain := st.chain.dropLast, tipDone := false }
  | .reorgSignal => { st with reorgCount := st.reorgCount + 1 }
  | .notify h xs =>
    if h != st.notifiedHeight || st.reorgCount != st.notifiedReorgCount then
      -- height_changed: suspend in _refresh_hsub_results
      { st with
        notifyCount := st.notifyCount + 1,
        carrier := st.carrier.filter (fun x => !xs.contains x),
        notifiedReorgCount := st.reorgCount,
        flipped := [],
        tipDone := decide (dbHeight st ≤ h) && st.hreads.all (goodRead st),
        hreads := st.hreads ++ [{ h := min h (dbHeight st), xs := xs, flips := st.flipped }] }
    else
      finishNotify f { st with notifyCount := st.notifyCount + 1,
                               carrier := st.carrier.filter (fun x => !xs.contains x) } xs false
  | .subscribe s x => startRead f st x (.sub s x)
  | .unsubscribe s x =>
    { st with subs := modifyAt st.subs s (fun l => l.filter (· != x)),
              ms := modifyAt st.ms s (dictErase x) }
  | .closeSession s => { st with alive := modifyAt st.alive s (fun _ => false) }
  | .subscribeHeaders s =>
    { st with hdrSub := modifyAt st.hdrSub s (fun _ => true),
              heldHdr := modifyAt st.heldHdr s (fun _ => some st.hsub) }
  | .getHistory _ x => startRead f st x .query
  | .evict x => { st with cache := st.cache.filter (fun e => e.1 != x) }   -- LRU eviction
  | .readDo i =>
    match nthIdx st.tasks false i with
    | none => st
    | some j => { st with tasks := modifyAt st.tasks j (fun t => { t with value := some (confOf st t.hx) }) }
  | .readFinish i =>
    match nthIdx st.tasks true i with
    | none => st
    | some j =>
      match st.tasks[j]? with
      | none => st
      | some t =>
        match t.value with
        | none => st
        | some v =>
          if f.checkCount && t.countAtStart != st.notifyCount then
            -- a notification was processed whilst the read was in flight: read again
            { st with tasks := st.tasks.eraseIdx j ++
                [{ hx := t.hx, countAtStart := st.notifyCount, cont := t.cont }] }
          else
            resume f { st with tasks := st.tasks.eraseIdx j, cache := put t.hx v st.cache } t.hx v t.cont
  | .hdrDo i =>
    match nthIdxH st.hreads false i with
    | none => st
    | some j => { st with hreads := modifyAt st.hreads j (fun r => { r with value := some st.chain[r.h]? }) }
  | .hdrFinish i =>
    match nthIdxH st.hreads true i with
    | none => st
    | some j =>
      match st.hreads[j]? with
      | none => st
      | some r =>
        match r.value with
        | none => st
        | some (some d) =>
          finishNotify f { st with hreads := st.hreads.eraseIdx j, hsub := (r.h, d),
                                   notifiedHeight := r.h } r.xs true
        | some none =>
          if f.raiseOnRace && decide (r.h ≤ dbHeight st) then
            -- pinned: `if height <= self.db.state.height: raise`: the notification is lost
            { st with hreads := st.hreads.eraseIdx j, lost := st.lost ++ r.xs ++ r.flips }
          else
            -- IndexError: the DB was lowered whilst the header was read; clamp again and re-read
            { st with hreads := st.hreads.eraseIdx j ++
                [{ h := min r.h (dbHeight st), xs := r.xs, flips := r.flips }] }

def run (f : Flags) (st : St) (evs : List Ev) : St := evs.foldl (step f) st

def init (nsessions nhx : Nat) : St :=
  { conf := List.replicate nhx 0, mem := List.replicate nhx 0,
    subs := List.replicate nsessions [], ms := List.replicate nsessions [],
    held := List.replicate nsessions [], hdrSub := List.replicate nsessions false,
    heldHdr := List.replicate nsessions none, alive := List.replicate nsessions true }

end EV.System

/-
Model of the status / history-cache coherence protocol between `SessionManager`
(`limited_history`, `_notify_sessions`) and `ElectrumX` sessions (`hashX_subscribe`,
`_notify_inner`, `confirmed_and_unconfirmed_history`) — C07, C10.

Abstraction: the true confirmed+unconfirmed state of a script hash is a *version* number
(`cur`); a block / reorg / mempool change that alters it bumps the version and puts the script
hash into the `carrier` (the touched sets travelling through `BlockProcessor.touched`,
`MemPool` and `Notifications` — C01–C03, C08 and C20 are what justify "every change is carried").
`_notify_sessions(height, touched)` takes script hashes out of the carrier.
A history read (`DB.limited_history` in a worker thread) is cut in three: the coroutine starts it
(remembering `_notify_count`), the worker performs it (it sees the version current *then*), the
result reaches the coroutine (accepted only if no notification was processed meanwhile; otherwise
read again).

Flags select the pinned behaviour for the machine-checked counterexamples:
  `checkCount = false`  – accept every read (F5),
  `batch = true`        – `_notify_inner` sends all statuses after computing all of them (F15).
No imports: linked into `evdrv`.
-/
namespace EV.System

structure Flags where
  checkCount : Bool := true
  batch : Bool := false
deriving Repr, DecidableEq, Inhabited

/-- what the suspended coroutine does with the accepted history -/
inductive Cont where
  | sub (s hx : Nat)                                   -- hashX_subscribe
  | query                                              -- get_history
  | notify (s : Nat) (rest : List Nat) (changed : List (Nat × Nat))   -- _notify_inner
deriving Repr, DecidableEq, Inhabited

structure Task where
  hx : Nat
  countAtStart : Nat
  value : Option Nat := none
  cont : Cont
deriving Repr, DecidableEq, Inhabited

structure St where
  cur : List Nat := []
  carrier : List Nat := []
  cache : List (Nat × Nat) := []
  subs : List (List Nat) := []
  held : List (List (Nat × Nat)) := []
  notifyCount : Nat := 0
  tasks : List Task := []
deriving Repr, DecidableEq, Inhabited

inductive Ev where
  | change (x : Nat)
  | notify (xs : List Nat)
  | subscribe (s x : Nat)
  | getHistory (s x : Nat)
  | readDo (i : Nat)
  | readFinish (i : Nat)
deriving Repr, DecidableEq, Inhabited

def lookup (k : Nat) : List (Nat × Nat) → Option Nat
  | [] => none
  | (k', v) :: r => if k' = k then some v else lookup k r

def put (k v : Nat) (l : List (Nat × Nat)) : List (Nat × Nat) :=
  (k, v) :: l.filter (fun e => e.1 != k)

def modifyAt {α : Type} (l : List α) (i : Nat) (f : α → α) : List α :=
  l.zipIdx.map (fun (a, j) => if j = i then f a else a)

def curOf (st : St) (hx : Nat) : Nat := st.cur.getD hx 0

def subsOf (st : St) (s : Nat) : List Nat := st.subs.getD s []

def heldOf (st : St) (s hx : Nat) : Option Nat := lookup hx (st.held.getD s [])

def deliver (st : St) (s hx v : Nat) : St :=
  { st with held := modifyAt st.held s (put hx v) }

def insertSorted (x : Nat) : List Nat → List Nat
  | [] => [x]
  | y :: r => if x < y then x :: y :: r else if x = y then y :: r else y :: insertSorted x r

/-- the loop of `_notify_inner` over the touched ∩ subscribed script hashes (in ascending order):
    runs until a history has to be read -/
def notifyGo (f : Flags) (st : St) (s : Nat) : List Nat → List (Nat × Nat) → St
  | [], changed =>
    -- batch mode: now send everything computed
    changed.foldl (fun st (hx, v) => deliver st s hx v) st
  | hx :: rest, changed =>
    if !(subsOf st s).contains hx then notifyGo f st s rest changed
    else
      match lookup hx st.cache with
      | some v =>
        if f.batch then notifyGo f st s rest (changed ++ [(hx, v)])
        else notifyGo f (deliver st s hx v) s rest changed
      | none =>
        { st with tasks := st.tasks ++ [{ hx := hx, countAtStart := st.notifyCount,
                                          cont := .notify s rest changed }] }

/-- continue a coroutine with an accepted history of version `v` -/
def resume (f : Flags) (st : St) (hx v : Nat) : Cont → St
  | .sub s x =>
    { (deliver st s x v) with subs := modifyAt st.subs s (insertSorted x) }
  | .query => st
  | .notify s rest changed =>
    if f.batch then notifyGo f st s rest (changed ++ [(hx, v)])
    else notifyGo f (deliver st s hx v) s rest changed

/-- start `limited_history(hx)` for a coroutine: cache hit continues at once -/
def startRead (f : Flags) (st : St) (hx : Nat) (c : Cont) : St :=
  match lookup hx st.cache with
  | some v => resume f st hx v c
  | none => { st with tasks := st.tasks ++ [{ hx := hx, countAtStart := st.notifyCount, cont := c }] }

/-- index in `tasks` of the i-th task whose `value.isSome = performed` -/
def nthIdx (tasks : List Task) (performed : Bool) (i : Nat) : Option Nat :=
  ((tasks.zipIdx.filter (fun (t, _) => t.value.isSome == performed)).map (·.2))[i]?

def step (f : Flags) (st : St) : Ev → St
  | .change x =>
    { st with cur := modifyAt st.cur x (· + 1),
              carrier := if st.carrier.contains x then st.carrier else st.carrier ++ [x] }
  | .notify xs =>
    let st1 : St := { st with
      carrier := st.carrier.filter (fun x => !xs.contains x),
      notifyCount := st.notifyCount + 1,
      cache := st.cache.filter (fun e => !((xs.filter st.carrier.contains).contains e.1)) }
    (List.range st.subs.length).foldl (fun acc s =>
      notifyGo f acc s (((xs.filter st.carrier.contains).filter (subsOf acc s).contains).mergeSort
        (fun a b => decide (a ≤ b))).eraseDups []) st1
  | .subscribe s x => startRead f st x (.sub s x)
  | .getHistory _ x => startRead f st x .query
  | .readDo i =>
    match nthIdx st.tasks false i with
    | none => st
    | some j => { st with tasks := modifyAt st.tasks j (fun t => { t with value := some (curOf st t.hx) }) }
  | .readFinish i =>
    match nthIdx st.tasks true i with
    | none => st
    | some j =>
      match st.tasks[j]? with
      | none => st
      | some t =>
        match t.value with
        | none => st
        | some v =>
          if f.checkCount && t.countAtStart != st.notifyCount then
            -- a notification was processed whilst the read was in flight: read again
            { st with tasks := st.tasks.eraseIdx j ++
                [{ hx := t.hx, countAtStart := st.notifyCount, cont := t.cont }] }
          else
            resume f { st with tasks := st.tasks.eraseIdx j, cache := put t.hx v st.cache } t.hx v t.cont

def run (f : Flags) (st : St) (evs : List Ev) : St := evs.foldl (step f) st

def init (nsessions nhx : Nat) : St :=
  { cur := List.replicate nhx 0, subs := List.replicate nsessions [],
    held := List.replicate nsessions [] }

end EV.System

import EV.Gen.Consts
/-
Model of the peer-advertising code:

  * part 1 — `electrumx/server/peers.py :: PeerManager.on_peers_subscribe`
             (with `_get_recent_good_peers`, `STALE_SECS`);
  * part 2 — `electrumx/lib/peer.py :: Peer.__init__`, `peers_from_features`, `_port`, `_integer`,
             `_string`, `pruning`, `_protocol_version_string` (with `util.protocol_tuple`,
             `util.version_string`), `is_tor`, `ip_address`, `is_valid`, `is_public`
             over arbitrary (attacker supplied) JSON.

External parties are parameters (DESIGN.md §4): `random.shuffle` is a function `shuf i l` giving
the outcome of the `i`-th shuffle call of one `on_peers_subscribe` invocation; CPython's `int(str)`
and `str(int)` are the record `Py`; `ipaddress.ip_address` with the four address flags the code
reads and `aiorpcx.is_valid_hostname` are the record `Net`.  Executable instances of `Py`
(`pyAscii`) are provided for the driver and pinned on a table by the `peers` suite.

Python exceptions are data (`PyExc`).  The only imports are inside `EV.*` (linked into `evdrv`).
-/
namespace EV.Peers

/-! ## Part 1 — `on_peers_subscribe` -/

/-- What `on_peers_subscribe` reads of a `Peer` object.  `id` is the object identity (`Peer` has
no `__eq__`/`__hash__`, so the Python `set`s are sets of object identities); `bucket` is the value
of `bucket_for_external_interface()`. -/
structure PeerV where
  id : Nat
  host : String := ""
  ipAddr : Option String := none
  lastGood : Int := 0
  bad : Bool := false
  isTor : Bool := false
  isPublic : Bool := true
  bucket : String := ""
deriving Repr, DecidableEq, Inhabited

/-- `peer.last_good > cutoff` where `cutoff = time.time() - STALE_SECS` -/
def fresh (now : Int) (p : PeerV) : Bool := decide (p.lastGood > now - EV.Gen.staleSecs)

/-- `_get_recent_good_peers`: `[peer for peer in self.peers if peer.last_good > cutoff and not
peer.bad and peer.is_public]` -/
def recentGood (now : Int) (peers : List PeerV) : List PeerV :=
  peers.filter fun p => fresh now p && !p.bad && p.isPublic

/-- `set.add` (sets of object identities, kept in insertion order) -/
def setAdd (s : List PeerV) (p : PeerV) : List PeerV :=
  if s.any (fun q => q.id == p.id) then s else s ++ [p]

/-- `set.update(iterable)` / `set(iterable)` -/
def setUpdate (s : List PeerV) (l : List PeerV) : List PeerV := l.foldl setAdd s

/-- `peers = set(myself for myself in self.myselves if myself.last_good > cutoff)` -/
def initSet (now : Int) (myselves : List PeerV) : List PeerV :=
  setUpdate [] (myselves.filter (fresh now))

/-- `buckets[key].append(peer)` on a `defaultdict(list)` (insertion ordered) -/
def bucketAdd : List (String × List PeerV) → PeerV → List (String × List PeerV)
  | [], p => [(p.bucket, [p])]
  | (k, l) :: rest, p =>
    if k = p.bucket then (k, l ++ [p]) :: rest else (k, l) :: bucketAdd rest p

/-- one iteration of `for peer in recent:` — state is `(onion_peers, buckets)` -/
def splitStep (acc : List PeerV × List (String × List PeerV)) (p : PeerV) :
    List PeerV × List (String × List PeerV) :=
  if p.isTor then (acc.1 ++ [p], acc.2) else (acc.1, bucketAdd acc.2 p)

/-- the loop `for peer in recent: if peer.is_tor: onion_peers.append(peer) else: buckets[...]` -/
def split (recent : List PeerV) : List PeerV × List (String × List PeerV) :=
  recent.foldl splitStep ([], [])

/-- `for bucket_peers in buckets.values(): random.shuffle(bucket_peers);
    peers.update(bucket_peers[:2])`; `i` counts the shuffle calls made so far -/
def pickBuckets (shuf : Nat → List PeerV → List PeerV) :
    Nat → List (String × List PeerV) → List PeerV → List PeerV
  | _, [], s => s
  | i, (_, l) :: rest, s =>
    pickBuckets shuf (i + 1) rest (setUpdate s ((shuf i l).take EV.Gen.bucketCap))

/-- `max_onion = 50 if is_tor else max(10, len(peers) // 4)` -/
def maxOnion (isTor : Bool) (n : Nat) : Nat :=
  if isTor then EV.Gen.onionCapTor else max EV.Gen.onionFloor (n / EV.Gen.onionDiv)

/-- the set `peers` just before the onion peers are added (“the clearnet part”): our own recently
verified identities plus the bucket picks -/
def clearPart (now : Int) (peers myselves : List PeerV) (shuf : Nat → List PeerV → List PeerV) :
    List PeerV :=
  pickBuckets shuf 0 (split (recentGood now peers)).2 (initSet now myselves)

/-- `random.shuffle(onion_peers); … onion_peers[:max_onion]` -/
def onionPicks (now : Int) (peers myselves : List PeerV) (isTor : Bool)
    (shuf : Nat → List PeerV → List PeerV) : List PeerV :=
  (shuf (split (recentGood now peers)).2.length (split (recentGood now peers)).1).take
    (maxOnion isTor (clearPart now peers myselves shuf).length)

/-- `on_peers_subscribe(is_tor)`: the set of peers whose `to_tuple()` is returned. -/
def onPeersSubscribe (now : Int) (peers myselves : List PeerV) (isTor : Bool)
    (shuf : Nat → List PeerV → List PeerV) : List PeerV :=
  setUpdate (clearPart now peers myselves shuf) (onionPicks now peers myselves isTor shuf)

/-- `(self.ip_addr or self.host, self.host)` — the first two components of `to_tuple()` -/
def toTuple (p : PeerV) : String × String :=
  (match p.ipAddr with
   | some a => if a = "" then p.host else a
   | none => p.host, p.host)

/-- "`r` is one of our own identities" (object identity) -/
def isMyself (myselves : List PeerV) (r : PeerV) : Bool := myselves.any (fun m => m.id == r.id)

/-! ## Part 2 — `Peer` construction from JSON -/

/-- A decoded JSON value (`json.loads`): `flt` keeps only the truth value of a float
(`0.0`/`-0.0` are falsy; `nan`, `inf` truthy) — nothing else of a float is ever read. -/
inductive J where
  | null
  | bool (b : Bool)
  | int (i : Int)
  | flt (truthy : Bool)
  | str (s : String)
  | arr (l : List J)
  | obj (kv : List (String × J))
deriving Repr, Inhabited

inductive PyExc where
  | assertionError | typeError | valueError
deriving Repr, DecidableEq, Inhabited

/-- CPython behaviour the code relies on: `int(s)` for a `str` (`none` = `ValueError`) and
`str(i)` for an `int` (`none` = `ValueError`, the integer-string-conversion digit limit). -/
structure Py where
  intOfString : String → Option Int
  strOfInt : Int → Option String

/-- What the code reads of `ipaddress.ip_address(host)` -/
structure Addr where
  isGlobal : Bool
  isPrivate : Bool
  isMulticast : Bool
  isUnspecified : Bool
deriving Repr, DecidableEq, Inhabited

/-- `ipaddress.ip_address` (`none` = `ValueError`, i.e. `Peer.ip_address is None`) and
`aiorpcx.is_valid_hostname` -/
structure Net where
  ipOf : String → Option Addr
  validHostname : String → Bool

/-- `bool(x)` -/
def truthy : J → Bool
  | .null => false
  | .bool b => b
  | .int i => i != 0
  | .flt t => t
  | .str s => s != ""
  | .arr l => !l.isEmpty
  | .obj kv => !kv.isEmpty

/-- `d.get(key)` on a dict (`None` when absent) -/
def dictGet (kv : List (String × J)) (key : String) : J := (kv.lookup key).getD .null

/-- `d[key] = v` -/
def setKey : List (String × J) → String → J → List (String × J)
  | [], k, v => [(k, v)]
  | (k', v') :: rest, k, v => if k' = k then (k', v) :: rest else (k', v') :: setKey rest k v

/-- `d.get(key) if isinstance(d, dict) else None` -/
def getIfDict (d : J) (key : String) : J :=
  match d with
  | .obj kv => dictGet kv key
  | _ => .null

/-- the tail of `_integer`: `if isinstance(result, str): try: result = int(result) except
ValueError: pass` then `return result if isinstance(result, int) else None`.
`bool` is a subclass of `int`: `True` is returned as is and equals 1. -/
def asInt (P : Py) : J → Option Int
  | .int i => some i
  | .bool b => some (if b then 1 else 0)
  | .str s => P.intOfString s
  | _ => none

/-- `_integer(key, d)`: `d = d or self.features; result = d.get(key) if isinstance(d, dict) else None; …` -/
def integer (P : Py) (feats : List (String × J)) (key : String) (d : J) : Option Int :=
  asInt P (getIfDict (if truthy d then d else .obj feats) key)

/-- `_port(key)` -/
def port (P : Py) (host : String) (feats : List (String × J)) (key : String) : Option Int :=
  match dictGet feats "hosts" with
  | .obj hosts =>
    match integer P feats key (dictGet hosts host) with
    | some p => if p != 0 && (0 < p && p < 65536) then some p else none
    | none => none
  | _ => none

/-- `pruning` property: `pruning = self._integer('pruning'); if pruning and pruning > 0: …` -/
def pruning (P : Py) (feats : List (String × J)) : Option Int :=
  match integer P feats "pruning" .null with
  | some p => if p != 0 && 0 < p then some p else none
  | none => none

/-- `_string(key)` -/
def stringF (feats : List (String × J)) (key : String) : Option String :=
  match dictGet feats key with
  | .str s => some s
  | _ => none

/-- `mapM` for `Option`, written out (generator inside `tuple(...)`: the first failure raises) -/
def mapO {α β : Type} (f : α → Option β) : List α → Option (List β)
  | [] => some []
  | a :: as =>
    match f a with
    | none => none
    | some b =>
      match mapO f as with
      | none => none
      | some bs => some (b :: bs)

/-- `util.protocol_tuple(s)`: `tuple(int(part) for part in s.split('.'))`, with
`except (TypeError, ValueError, AttributeError): return (0, )` (a non-`str` has no `split`). -/
def protocolTuple (P : Py) : J → List Int
  | .str s =>
    match mapO P.intOfString (s.splitOn ".") with
    | some t => t
    | none => [0]
  | _ => [0]

/-- `util.version_string(ptuple)`: pad with zeros to length 2, `'.'.join(str(p) for p in ptuple)` -/
def versionString (P : Py) (t : List Int) : Except PyExc String :=
  match mapO P.strOfInt (t ++ List.replicate (2 - t.length) 0) with
  | some ss => .ok (".".intercalate ss)
  | none => .error .valueError

/-- `_protocol_version_string(key)` -/
def protoStr (P : Py) (feats : List (String × J)) (key : String) : Except PyExc String :=
  versionString P (protocolTuple P (dictGet feats key))

def ofOptInt : Option Int → J
  | some i => .int i
  | none => .null

def ofOptStr : Option String → J
  | some s => .str s
  | none => .null

def isPrefixL : List Char → List Char → Bool
  | [], _ => true
  | _ :: _, [] => false
  | a :: as, b :: bs => a == b && isPrefixL as bs

/-- Python `sub in s` on strings -/
def isInfixL (p : List Char) : List Char → Bool
  | [] => p.isEmpty
  | c :: cs => isPrefixL p (c :: cs) || isInfixL p cs

/-- `host in x` for a decoded JSON `x` -/
def pyIn (host : String) : J → Except PyExc Bool
  | .obj kv => .ok (kv.any fun e => e.1 == host)
  | .arr l => .ok (l.any fun j => match j with
      | .str s => s == host
      | _ => false)
  | .str s => .ok (isInfixL host.toList s.toList)
  | _ => .error .typeError

/-- A constructed `Peer`: the cleaned feature values (the cached properties) and the cleaned
feature dictionary. -/
structure Peer where
  host : String
  source : String
  features : List (String × J)
  pruning : Option Int
  serverVersion : Option String
  protocolMin : String
  protocolMax : String
  sslPort : Option Int
  tcpPort : Option Int
deriving Repr, Inhabited

/-! The loop `for feature in self.FEATURES: self.features[feature] = getattr(self, feature)`,
`FEATURES = ('pruning', 'server_version', 'protocol_min', 'protocol_max', 'ssl_port', 'tcp_port')`:
each cached property is computed from the dictionary *as mutated so far*. -/

def feats1 (P : Py) (kv : List (String × J)) : List (String × J) :=
  setKey kv "pruning" (ofOptInt (pruning P kv))

def feats2 (P : Py) (kv : List (String × J)) : List (String × J) :=
  setKey (feats1 P kv) "server_version" (ofOptStr (stringF (feats1 P kv) "server_version"))

def feats3 (P : Py) (kv : List (String × J)) (pmin : String) : List (String × J) :=
  setKey (feats2 P kv) "protocol_min" (.str pmin)

def feats4 (P : Py) (kv : List (String × J)) (pmin pmax : String) : List (String × J) :=
  setKey (feats3 P kv pmin) "protocol_max" (.str pmax)

def feats5 (P : Py) (host : String) (kv : List (String × J)) (pmin pmax : String) :
    List (String × J) :=
  setKey (feats4 P kv pmin pmax) "ssl_port" (ofOptInt (port P host (feats4 P kv pmin pmax) "ssl_port"))

def feats6 (P : Py) (host : String) (kv : List (String × J)) (pmin pmax : String) :
    List (String × J) :=
  setKey (feats5 P host kv pmin pmax) "tcp_port"
    (ofOptInt (port P host (feats5 P host kv pmin pmax) "tcp_port"))

/-- the body of `Peer.__init__` after the asserts -/
def cleanup (P : Py) (host : String) (kv : List (String × J)) (source : String) :
    Except PyExc Peer :=
  match protoStr P (feats2 P kv) "protocol_min" with
  | .error e => .error e
  | .ok pmin =>
    match protoStr P (feats3 P kv pmin) "protocol_max" with
    | .error e => .error e
    | .ok pmax =>
      .ok { host := host, source := source
            features := feats6 P host kv pmin pmax
            pruning := pruning P kv
            serverVersion := stringF (feats1 P kv) "server_version"
            protocolMin := pmin
            protocolMax := pmax
            sslPort := port P host (feats4 P kv pmin pmax) "ssl_port"
            tcpPort := port P host (feats5 P host kv pmin pmax) "tcp_port" }

/-- `Peer(host, features, source)` for a `str` host: `assert isinstance(features, dict)`,
`assert host in features.get('hosts', {})`, then the clean-up loop. -/
def mkPeer (P : Py) (host : String) (features : J) (source : String) : Except PyExc Peer :=
  match features with
  | .obj kv =>
    match pyIn host ((kv.lookup "hosts").getD (.obj [])) with
    | .error e => .error e
    | .ok false => .error .assertionError
    | .ok true => cleanup P host kv source
  | _ => .error .assertionError

/-- list comprehension whose element expression may raise -/
def mapE {α β : Type} (f : α → Except PyExc β) : List α → Except PyExc (List β)
  | [] => .ok []
  | a :: as =>
    match f a with
    | .error e => .error e
    | .ok b =>
      match mapE f as with
      | .error e => .error e
      | .ok bs => .ok (b :: bs)

/-- `Peer.peers_from_features(features, source)`; the keys of a decoded JSON object are all `str`,
so the filter `isinstance(host, str)` keeps every key. -/
def peersFromFeatures (P : Py) (features : J) (source : String) : Except PyExc (List Peer) :=
  match features with
  | .obj kv =>
    match dictGet kv "hosts" with
    | .obj hosts => mapE (fun host => mkPeer P host features source) (hosts.map (·.1))
    | _ => .ok []
  | _ => .ok []

/-- `is_tor` -/
def isTorHost (host : String) : Bool := host.endsWith ".onion"

/-- `is_valid` -/
def isValidHost (N : Net) (host : String) : Bool :=
  match N.ipOf host with
  | some a => (a.isGlobal || a.isPrivate) && !(a.isMulticast || a.isUnspecified)
  | none => N.validHostname host

/-- `is_public` -/
def isPublicHost (N : Net) (host : String) : Bool :=
  match N.ipOf host with
  | some a => isValidHost N host && !a.isPrivate
  | none => isValidHost N host && host != "localhost"

def Peer.isTor (p : Peer) : Bool := isTorHost p.host
def Peer.isValid (N : Net) (p : Peer) : Bool := isValidHost N p.host
def Peer.isPublic (N : Net) (p : Peer) : Bool := isPublicHost N p.host

/-- the view `on_peers_subscribe` has of a constructed peer with the given metadata;
`bucketOf` is `bucket_for_external_interface` on the `ip_addr` of a clearnet peer -/
def viewOf (N : Net) (bucketOf : Option String → String) (id : Nat) (p : Peer)
    (ipAddr : Option String) (lastGood : Int) (bad : Bool) : PeerV :=
  { id := id, host := p.host, ipAddr := ipAddr, lastGood := lastGood, bad := bad
    isTor := p.isTor, isPublic := p.isPublic N
    bucket := if p.isTor then "onion" else bucketOf ipAddr }

/-! ### An executable instance of `Py` on ASCII strings (used by the driver, pinned by the suite) -/

/-- `Py_ISSPACE` -/
def isPySpace (c : Char) : Bool := c == ' ' || (9 ≤ c.toNat && c.toNat ≤ 13)

/-- digits with single underscores between them; `last` = the previous character was a digit -/
def digitsU : List Char → Bool → List Nat → Option (List Nat)
  | [], last, acc => if last then some acc.reverse else none
  | c :: cs, last, acc =>
    if c.isDigit then digitsU cs true ((c.toNat - 48) :: acc)
    else if c == '_' && last then digitsU cs false acc
    else none

/-- `sys.int_info.default_max_str_digits` -/
def maxStrDigits : Nat := 4300

def natOfDigits (ds : List Nat) : Option Int :=
  if ds.length > maxStrDigits then none else some (Int.ofNat (ds.foldl (fun a d => a * 10 + d) 0))

/-- `int(s)` for an ASCII string `s` -/
def pyIntAscii (s : String) : Option Int :=
  match ((s.toList.dropWhile isPySpace).reverse.dropWhile isPySpace).reverse with
  | '-' :: cs =>
    match digitsU cs false [] with
    | some ds => (natOfDigits ds).map (fun v => -v)
    | none => none
  | '+' :: cs =>
    match digitsU cs false [] with
    | some ds => natOfDigits ds
    | none => none
  | cs =>
    match digitsU cs false [] with
    | some ds => natOfDigits ds
    | none => none

/-- `str(i)` with the digit limit -/
def pyStrOfInt (i : Int) : Option String :=
  if i.natAbs < 10 ^ maxStrDigits then some (toString i) else none

def pyAscii : Py := { intOfString := pyIntAscii, strOfInt := pyStrOfInt }

end EV.Peers

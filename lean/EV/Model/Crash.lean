import EV.Model.Index

/-!
Crash layer over the index model (C04, C05).

The persistent store is changed only by the `Effect`s of `EV/Model/Index.lean`
(`flushDbs` = `DB.flush_dbs`, `backupFull` = `BlockProcessor.backup_block` + `DB.flush_backup`,
`openDbs` = `DB._open_dbs`).  A process crash leaves behind a *cut* of the effect list that was
being executed: a prefix of it in which the last effect, if it is a file write, may itself be cut
to any prefix of its records (`LogicalFile.write` is not atomic; LevelDB batches
(`write_batch(transaction=True, sync=True)`) and single `put`s are).

Imports only the index model: linked into `evdrv` (suite `crash`).
-/
namespace EV.Index

/-- what a crash in the middle of one effect can leave behind *instead of* the effect (besides
    nothing at all): the strictly shorter versions of a file write.  Batches and puts are atomic. -/
def tornPrefixes : Effect → List Effect
  | .writeHeaders off d => (List.range d.length).map (fun j => .writeHeaders off (d.take j))
  | .writeTxCounts off d => (List.range d.length).map (fun j => .writeTxCounts off (d.take j))
  | .writeHashes off d => (List.range d.length).map (fun j => .writeHashes off (d.take j))
  | .histBatch _ _ _ => []
  | .utxoBatch _ _ _ _ _ _ => []
  | .putUState _ => []

/-- every cut of an effect list: nothing; a torn version of the first effect; or the first effect
    completely, followed by a cut of the rest -/
def cuts : List Effect → List (List Effect)
  | [] => [[]]
  | e :: es => [] :: ((tornPrefixes e).map (fun t => [t]) ++ (cuts es).map (fun c => e :: c))

/-- one effect cut to its first `j` records (`none`: the effect is atomic, or `j` is not a proper
    prefix length) -/
def tornAt (j : Nat) : Effect → Option Effect
  | .writeHeaders off d => if j < d.length then some (.writeHeaders off (d.take j)) else none
  | .writeTxCounts off d => if j < d.length then some (.writeTxCounts off (d.take j)) else none
  | .writeHashes off d => if j < d.length then some (.writeHashes off (d.take j)) else none
  | .histBatch _ _ _ => none
  | .utxoBatch _ _ _ _ _ _ => none
  | .putUState _ => none

/-- the cut named `(k, j)` by the harness: the first `k` effects completely and, when effect `k`
    is a file write of more than `j` records, its first `j` records -/
def cutAt (es : List Effect) (k j : Nat) : List Effect :=
  es.take k ++ (match es[k]? with
    | none => []
    | some e => (tornAt j e).toList)

def Effect.isUtxoBatch : Effect → Bool
  | .utxoBatch _ _ _ _ _ _ => true
  | _ => false

def Effect.isHistBatch : Effect → Bool
  | .histBatch _ _ _ => true
  | _ => false

/-- restart after a crash: a fresh process runs `DB.open_for_sync()` = `_open_dbs(True, False)` -/
def recover (cfg : Cfg) (p : Store) : Option (List Effect × Sys) := openDbs cfg p false none

end EV.Index

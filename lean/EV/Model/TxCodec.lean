import EV.Gen.Consts
/-
Model of the transaction codec and the on-disk block streaming of ElectrumX:

  electrumx/lib/util.py   : pack_varint, pack_varbytes, the `struct` packers / unpackers
  electrumx/lib/tx.py     : read_varint, read_varbytes, read_le_*, read_input, read_output,
                            read_many, read_tx, Deserializer.read_tx_and_hash, Tx.serialize
  electrumx/server/block_processor.py : OnDiskBlock.__enter__, _read, _read_at_pos, iter_txs,
                            _chunk_offsets, iter_txs_reversed

Conventions (DESIGN.md §4): bytes are `List Nat` (the side condition `< 256` is the explicit
predicate `BytesOK`, used only where a theorem needs it); Python exceptions are data (`PyExc`);
a Python slice `buf[a:b]` is `slice buf a b` and *silently truncates*; a buffer index `buf[c]`
raises `IndexError` when out of range; `struct.unpack_from(buf, c)` of width `w` raises
`struct.error` iff `c + w > len(buf)` (`OverflowError` instead when `c >= 2^63`).  A generator is modelled by what it yields before it stops
and how it stops (`GenRes`).  Loops driven by exceptions / `while True` take fuel; the fuel value
`outOfFuel` is not a Python exception and is proved unreachable (`EV/Proofs/TxCodecFuel.lean`).

SHA-256 is not modelled: `readTxAndHash` returns the byte string that is hashed.

Two variants of `_chunk_offsets` are kept: `fixed = true` is the code in /repo after the `fix:`
commit for F3 (`base_offset` always advanced by `cursor`), `fixed = false` is the pinned commit
(`base_offset` advanced only when the chunk held a complete transaction) — see namespace `Orig`.

Imports only `EV.Gen.Consts` (literals): this file is linked into the `evdrv` executable.
-/
namespace EV.TxCodec

abbrev Bytes := List Nat

/-- every element is a byte -/
def BytesOK (b : Bytes) : Prop := ∀ x ∈ b, x < 256

instance (b : Bytes) : Decidable (BytesOK b) := by unfold BytesOK; infer_instance

/-- the Python exception classes that occur (plus the model-only `outOfFuel`) -/
inductive PyExc where
  | indexError | structError | overflowError | assertionError | runtimeError | outOfFuel
deriving DecidableEq, Repr, Inhabited

def PyExc.name : PyExc → String
  | .indexError => "IndexError"
  | .structError => "struct.error"
  | .overflowError => "OverflowError"
  | .assertionError => "AssertionError"
  | .runtimeError => "RuntimeError"
  | .outOfFuel => "OUT-OF-FUEL"

/-- `except (AssertionError, IndexError, struct_error)` in `iter_txs` – the tuple is observed on the
    real code by `gen_consts.py` -/
def caughtIter (e : PyExc) : Bool := Gen.iterTxsCaught.contains e.name

/-- the same clause in `_chunk_offsets` -/
def caughtOff (e : PyExc) : Bool := Gen.chunkOffsetsCaught.contains e.name

/-! ### struct packers / unpackers -/

/-- Python `buf[a:b]` for `0 ≤ a`, `0 ≤ b` -/
def slice (buf : Bytes) (a b : Nat) : Bytes := (buf.drop a).take (b - a)

/-- little-endian value of a byte string -/
def leNat : Bytes → Nat
  | [] => 0
  | b :: bs => b + 256 * leNat bs

/-- `w` little-endian bytes of `n` (callers guarantee `n < 256^w`; see `packLeU`) -/
def leBytes : Nat → Nat → Bytes
  | 0, _ => []
  | w + 1, n => (n % 256) :: leBytes w (n / 256)

/-- `struct.Struct('<H' | '<I' | '<Q').pack(n)`: `struct.error` when out of range -/
def packLeU (w : Nat) (n : Nat) : Except PyExc Bytes :=
  if n < 256 ^ w then .ok (leBytes w n) else .error .structError

/-- two's complement encodings of `<i` / `<q` values and back -/
def i32ToNat (v : Int) : Nat := (v % 4294967296).toNat
def natToI32 (n : Nat) : Int := if n < 2147483648 then (n : Int) else (n : Int) - 4294967296
def i64ToNat (v : Int) : Nat := (v % 18446744073709551616).toNat
def natToI64 (n : Nat) : Int :=
  if n < 9223372036854775808 then (n : Int) else (n : Int) - 18446744073709551616

/-- what `Struct.unpack_from(buf, c)` raises when the field does not fit: `struct.error`, except
    that an offset that does not fit a C `ssize_t` raises `OverflowError` (reachable: a script-length
    varint `>= 2^63` in a malformed buffer moves the cursor there).  Buffers themselves are shorter
    than `2^63` bytes in CPython, so the success test comes first. -/
def unpackErr (c : Nat) : PyExc :=
  if 9223372036854775808 ≤ c then .overflowError else .structError

/-- `unpack_le_uint{16,32,64}_from(buf, cursor)` + cursor advance (`read_le_uint*`) -/
def readLeU (w : Nat) (buf : Bytes) (c : Nat) : Except PyExc (Nat × Nat) :=
  if c + w ≤ buf.length then .ok (leNat (slice buf c (c + w)), c + w) else .error (unpackErr c)

/-- `read_le_int32` -/
def readLeI32 (buf : Bytes) (c : Nat) : Except PyExc (Int × Nat) :=
  if c + 4 ≤ buf.length then .ok (natToI32 (leNat (slice buf c (c + 4))), c + 4)
  else .error (unpackErr c)

/-- `read_le_int64` -/
def readLeI64 (buf : Bytes) (c : Nat) : Except PyExc (Int × Nat) :=
  if c + 8 ≤ buf.length then .ok (natToI64 (leNat (slice buf c (c + 8))), c + 8)
  else .error (unpackErr c)

/-! ### varints -/

/-- `pack_varint(n)` for `0 ≤ n < 2^64` (see `packVarintE` for the range error) -/
def packVarint (n : Nat) : Bytes :=
  if n < 253 then [n]
  else if n < 65536 then 253 :: leBytes 2 n
  else if n < 4294967296 then 254 :: leBytes 4 n
  else 255 :: leBytes 8 n

/-- `pack_varint(n)` literally: `pack_le_uint64` raises `struct.error` from `2^64` on -/
def packVarintE (n : Nat) : Except PyExc Bytes :=
  if n < 18446744073709551616 then .ok (packVarint n) else .error .structError

/-- `read_varint(buf, cursor)`: `buf[cursor]` may raise `IndexError`, the wide forms `struct.error` -/
def readVarint (buf : Bytes) (c : Nat) : Except PyExc (Nat × Nat) :=
  match buf[c]? with
  | none => .error .indexError
  | some n =>
    if n < 253 then .ok (n, c + 1)
    else if n = 253 then readLeU 2 buf (c + 1)
    else if n = 254 then readLeU 4 buf (c + 1)
    else readLeU 8 buf (c + 1)

/-- `read_varbytes`: the slice silently truncates, the cursor moves to `cursor + size` regardless -/
def readVarbytes (buf : Bytes) (c : Nat) : Except PyExc (Bytes × Nat) :=
  match readVarint buf c with
  | .error e => .error e
  | .ok (size, c1) => .ok (slice buf c1 (c1 + size), c1 + size)

/-! ### transactions -/

structure TxIn where
  prevHash : Bytes
  prevIdx : Nat
  script : Bytes
  sequence : Nat
deriving DecidableEq, Repr, Inhabited

structure TxOut where
  value : Int
  pkScript : Bytes
deriving DecidableEq, Repr, Inhabited

structure Tx where
  version : Int
  inputs : List TxIn
  outputs : List TxOut
  locktime : Nat
deriving DecidableEq, Repr, Inhabited

/-- `read_input`: `prev_hash = buf[start:start+32]` is a (possibly short) slice -/
def readInput (buf : Bytes) (c : Nat) : Except PyExc (TxIn × Nat) :=
  match readLeU 4 buf (c + 32) with
  | .error e => .error e
  | .ok (idx, c1) =>
    match readVarbytes buf c1 with
    | .error e => .error e
    | .ok (script, c2) =>
      match readLeU 4 buf c2 with
      | .error e => .error e
      | .ok (sq, c3) => .ok (⟨slice buf c (c + 32), idx, script, sq⟩, c3)

/-- `read_output` -/
def readOutput (buf : Bytes) (c : Nat) : Except PyExc (TxOut × Nat) :=
  match readLeI64 buf c with
  | .error e => .error e
  | .ok (v, c1) =>
    match readVarbytes buf c1 with
    | .error e => .error e
    | .ok (s, c2) => .ok (⟨v, s⟩, c2)

/-- the `for _ in range(count)` loop of `read_many` -/
def readItems {α : Type} (reader : Bytes → Nat → Except PyExc (α × Nat)) (buf : Bytes) :
    Nat → Nat → Except PyExc (List α × Nat)
  | 0, c => .ok ([], c)
  | n + 1, c =>
    match reader buf c with
    | .error e => .error e
    | .ok (x, c1) =>
      match readItems reader buf n c1 with
      | .error e => .error e
      | .ok (xs, c2) => .ok (x :: xs, c2)

/-- `read_many(buf, cursor, reader)` -/
def readMany {α : Type} (reader : Bytes → Nat → Except PyExc (α × Nat)) (buf : Bytes) (c : Nat) :
    Except PyExc (List α × Nat) :=
  match readVarint buf c with
  | .error e => .error e
  | .ok (n, c1) => readItems reader buf n c1

/-- `read_tx(buf, cursor)` -/
def readTx (buf : Bytes) (c : Nat) : Except PyExc (Tx × Nat) :=
  match readLeI32 buf c with
  | .error e => .error e
  | .ok (v, c1) =>
    match readMany readInput buf c1 with
    | .error e => .error e
    | .ok (ins, c2) =>
      match readMany readOutput buf c2 with
      | .error e => .error e
      | .ok (outs, c3) =>
        match readLeU 4 buf c3 with
        | .error e => .error e
        | .ok (lt, c4) => .ok (⟨v, ins, outs, lt⟩, c4)

/-- what `iter_txs` yields: the transaction and the byte string whose double SHA-256 is its hash -/
abbrev Item := Tx × Bytes

/-- `Deserializer.read_tx_and_hash`: hashes `view[start:end]` -/
def readTxAndHash (buf : Bytes) (c : Nat) : Except PyExc (Item × Nat) :=
  match readTx buf c with
  | .error e => .error e
  | .ok (tx, e) => .ok ((tx, slice buf c e), e)

/-! ### serialisation -/

def serIn (i : TxIn) : Bytes :=
  i.prevHash ++ (leBytes 4 i.prevIdx ++ ((packVarint i.script.length ++ i.script) ++ leBytes 4 i.sequence))

def serOut (o : TxOut) : Bytes :=
  leBytes 8 (i64ToNat o.value) ++ (packVarint o.pkScript.length ++ o.pkScript)

/-- the bytes `Tx.serialize` returns when no packer raises -/
def serializeRaw (t : Tx) : Bytes :=
  leBytes 4 (i32ToNat t.version) ++
    (packVarint t.inputs.length ++ ((t.inputs.map serIn).flatten ++
      (packVarint t.outputs.length ++ ((t.outputs.map serOut).flatten ++ leBytes 4 t.locktime))))

def inRangeIn (i : TxIn) : Bool :=
  decide (i.prevIdx < 4294967296) && decide (i.script.length < 18446744073709551616) &&
  decide (i.sequence < 4294967296)

def inRangeOut (o : TxOut) : Bool :=
  decide (-9223372036854775808 ≤ o.value) && decide (o.value < 9223372036854775808) &&
  decide (o.pkScript.length < 18446744073709551616)

/-- every integer field fits its `struct` format -/
def inRange (t : Tx) : Bool :=
  decide (-2147483648 ≤ t.version) && decide (t.version < 2147483648) &&
  decide (t.inputs.length < 18446744073709551616) && t.inputs.all inRangeIn &&
  decide (t.outputs.length < 18446744073709551616) && t.outputs.all inRangeOut &&
  decide (t.locktime < 4294967296)

/-- `Tx.serialize()`: `struct.error` iff some integer field is out of range of its packer -/
def serialize (t : Tx) : Except PyExc Bytes :=
  if inRange t then .ok (serializeRaw t) else .error .structError

/-! ### canonical varints (hypothesis of `serialize_read`) -/

/-- the varint at `c`, if it parses, uses the shortest form -/
def canonVarintAt (buf : Bytes) (c : Nat) : Bool :=
  match readVarint buf c with
  | .error _ => true
  | .ok (n, c1) => decide ((packVarint n).length = c1 - c)

def canonInput (buf : Bytes) (c : Nat) : Bool := canonVarintAt buf (c + 36)

def canonOutput (buf : Bytes) (c : Nat) : Bool := canonVarintAt buf (c + 8)

def canonItems {α : Type} (reader : Bytes → Nat → Except PyExc (α × Nat)) (canon1 : Bytes → Nat → Bool)
    (buf : Bytes) : Nat → Nat → Bool
  | 0, _ => true
  | n + 1, c =>
    canon1 buf c &&
    match reader buf c with
    | .error _ => true
    | .ok (_, c1) => canonItems reader canon1 buf n c1

def canonMany {α : Type} (reader : Bytes → Nat → Except PyExc (α × Nat)) (canon1 : Bytes → Nat → Bool)
    (buf : Bytes) (c : Nat) : Bool :=
  canonVarintAt buf c &&
  match readVarint buf c with
  | .error _ => true
  | .ok (n, c1) => canonItems reader canon1 buf n c1

/-- every varint met by `read_tx(buf, c)` (two counts, every script length) is minimal -/
def canonTx (buf : Bytes) (c : Nat) : Bool :=
  canonMany readInput canonInput buf (c + 4) &&
  match readMany readInput buf (c + 4) with
  | .error _ => true
  | .ok (_, c2) => canonMany readOutput canonOutput buf c2

/-! ### OnDiskBlock -/

/-- a generator run to exhaustion: what it yielded, and the exception that ended it (if any) -/
structure GenRes (α : Type) where
  items : List α
  err : Option PyExc
deriving DecidableEq, Repr

def GenRes.prepend {α : Type} (xs : List α) (r : GenRes α) : GenRes α :=
  { r with items := xs ++ r.items }

/-- result of the inner `while True: cursor = d.cursor; read(); count += 1` loop: the items read,
    the cursor *before* the failing read, and the exception that ended the loop -/
structure Run (α : Type) where
  items : List α
  cursor : Nat
  exc : PyExc
deriving DecidableEq, Repr

def Run.cons {α : Type} (x : α) (r : Run α) : Run α := { r with items := x :: r.items }

/-- the inner loop (fuel: `len(buf) + 1` is always enough, every read consumes at least a byte) -/
def parseRun {α : Type} (reader : Bytes → Nat → Except PyExc (α × Nat)) (buf : Bytes) :
    Nat → Nat → Run α
  | 0, c => ⟨[], c, .outOfFuel⟩
  | fuel + 1, c =>
    match reader buf c with
    | .error e => ⟨[], c, e⟩
    | .ok (x, c1) => (parseRun reader buf fuel c1).cons x

/-- the outer `while True` loop of `iter_txs`.  `rest` is the unread part of the file:
    `file.read(n)` returns `rest.take n` and leaves `rest.drop n`. -/
def iterLoop (chunk txCount : Nat) : Nat → Bytes → Nat → Bytes → Nat → GenRes Item
  | 0, _, _, _, _ => ⟨[], some .outOfFuel⟩
  | fuel + 1, raw, c, rest, count =>
    match parseRun readTxAndHash raw (raw.length + 1) c with
    | ⟨items, cur, e⟩ =>
      if !caughtIter e then ⟨items, some e⟩
      else if count + items.length = txCount then ⟨items, none⟩
      else if (rest.take chunk).isEmpty then ⟨items, some .runtimeError⟩
      else (iterLoop chunk txCount fuel (raw.drop cur ++ rest.take chunk) 0 (rest.drop chunk)
              (count + items.length)).prepend items

/-- `with OnDiskBlock(..) as b: list(b.iter_txs())` on a file with contents `data`:
    `__enter__` reads the 80-byte header with `_read` (RuntimeError on an empty read). -/
def iterTxs (chunk : Nat) (data : Bytes) : GenRes Item :=
  if (data.take 80).isEmpty then ⟨[], some .runtimeError⟩
  else if ((data.drop 80).take chunk).isEmpty then ⟨[], some .runtimeError⟩
  else
    match readVarint ((data.drop 80).take chunk) 0 with
    | .error e => ⟨[], some e⟩
    | .ok (txCount, c0) =>
      iterLoop chunk txCount data.length ((data.drop 80).take chunk) c0 ((data.drop 80).drop chunk) 0

/-- the loop of `_chunk_offsets`.  `fixed = false` is the pinned commit: `base_offset += cursor`
    only under `if count:`. -/
def offLoop (fixed : Bool) (chunk : Nat) :
    Nat → Bytes → Nat → Bytes → Nat → Int → List Nat → Except PyExc (List Nat)
  | 0, _, _, _, _, _, _ => .error .outOfFuel
  | fuel + 1, raw, c, rest, base, txCount, offsets =>
    match parseRun readTx raw (raw.length + 1) c with
    | ⟨items, cur, e⟩ =>
      if !caughtOff e then .error e
      else if txCount - (items.length : Int) = 0 then
        .ok (if items.length ≠ 0 then offsets ++ [base + cur] else offsets)
      else if (rest.take chunk).isEmpty then .error .runtimeError
      else offLoop fixed chunk fuel (raw.drop cur ++ rest.take chunk) 0 (rest.drop chunk)
             (if fixed || decide (items.length ≠ 0) then base + cur else base)
             (txCount - (items.length : Int))
             (if items.length ≠ 0 then offsets ++ [base + cur] else offsets)

/-- `_chunk_offsets()` right after `__enter__` -/
def chunkOffsetsG (fixed : Bool) (chunk : Nat) (data : Bytes) : Except PyExc (List Nat) :=
  if (data.take 80).isEmpty then .error .runtimeError           -- __enter__
  else if (data.take 80).length ≠ 80 then .error .assertionError  -- assert base_offset == 80
  else if ((data.drop 80).take chunk).isEmpty then .error .runtimeError
  else
    match readVarint ((data.drop 80).take chunk) 0 with
    | .error e => .error e
    | .ok (txCount, c0) =>
      offLoop fixed chunk data.length ((data.drop 80).take chunk) c0 ((data.drop 80).drop chunk)
        80 (txCount : Int) [80 + c0]

/-- `while deserializer.cursor < size: pairs.append(deserializer.read_tx_and_hash())`
    (exceptions propagate; fuel `size` is enough) -/
def readAll (buf : Bytes) (size : Nat) : Nat → Nat → Except PyExc (List Item)
  | 0, c => if c < size then .error .outOfFuel else .ok []
  | fuel + 1, c =>
    if c < size then
      match readTxAndHash buf c with
      | .error e => .error e
      | .ok (x, c1) =>
        match readAll buf size fuel c1 with
        | .error e => .error e
        | .ok xs => .ok (x :: xs)
    else .ok []

/-- the `for n in reversed(range(len(offsets) - 1))` loop, over the (already reversed) list of
    `(offsets[n], offsets[n+1])`.  `_read_at_pos(start, size)` raises RuntimeError unless exactly
    `size` bytes come back; for `size < 0` `read` returns everything, whose length is not `size`. -/
def revChunks (data : Bytes) : List (Nat × Nat) → GenRes Item
  | [] => ⟨[], none⟩
  | (start, stop) :: ps =>
    if stop < start then ⟨[], some .runtimeError⟩
    else if (slice data start stop).length ≠ stop - start then ⟨[], some .runtimeError⟩
    else
      match readAll (slice data start stop) (stop - start) (stop - start) 0 with
      | .error e => ⟨[], some e⟩
      | .ok xs => (revChunks data ps).prepend xs.reverse

/-- `with OnDiskBlock(..) as b: list(b.iter_txs_reversed())` -/
def iterTxsReversedG (fixed : Bool) (chunk : Nat) (data : Bytes) : GenRes Item :=
  match chunkOffsetsG fixed chunk data with
  | .error e => ⟨[], some e⟩
  | .ok offs => revChunks data (offs.zip offs.tail).reverse

/-- the code in /repo (after the F3 fix) -/
def chunkOffsets (chunk : Nat) (data : Bytes) : Except PyExc (List Nat) := chunkOffsetsG true chunk data
def iterTxsReversed (chunk : Nat) (data : Bytes) : GenRes Item := iterTxsReversedG true chunk data

namespace Orig
/-! The pinned commit (before the F3 fix): only used for the machine-checked counterexample. -/
def chunkOffsets (chunk : Nat) (data : Bytes) : Except PyExc (List Nat) := chunkOffsetsG false chunk data
def iterTxsReversed (chunk : Nat) (data : Bytes) : GenRes Item := iterTxsReversedG false chunk data
end Orig

/-- a block file: 80-byte header, tx-count varint, the serialised transactions -/
def blockFile (hdr : Bytes) (txs : List Tx) : Bytes :=
  hdr ++ (packVarint txs.length ++ (txs.map serializeRaw).flatten)

end EV.TxCodec

import EV.Model.Index

/-
Task-level model of `BlockProcessor.fetch_and_process_blocks` for C06 (shutdown at any moment): the
processing task as a labelled transition system over the index model (`EV.Index`).

What is modelled, literally:

  * the *outer* task (`fetch_and_process_blocks` → `advance_blocks` / `on_caught_up` / `reorg_chain`)
    as a program counter over its control points.  Awaits that do not touch the index (daemon calls,
    waiting for a prefetched block, the polling sleep, `Notifications.on_block`) are collapsed into
    `idle` points; the awaits that matter are the `run_with_lock` sections;
  * `run_with_lock(coro)`: `asyncio.shield(run_locked())` creates an *inner* task which acquires
    `state_lock`, runs the section's coroutine (one or two worker jobs handed to `run_in_thread`) and
    releases the lock when it ends.  The four sections of the code:
      `adv b`     `advance_and_maybe_flush(block)`: job `advance_block`, then — if the cache-size loop
                  has set `force_flush_arg` — `flush(arg)`, i.e. a second job `flush_dbs`;
      `flush`     `flush(True)` (first statement of `on_caught_up` and of `reorg_chain`);
      `backup b`  `run_in_thread(backup_block, block)`;
      `safe`      `flush_if_safe()` of the `except CancelledError` handler: `flush(True)` iff `self.ok`;
  * a worker job is atomic at its end w.r.t. the index model (`jobEnd`): under the mutex nobody
    observes intermediate states (torn jobs are C04).  `jobEnd` and the delivery of the result to
    the inner task (`deliver`) are separate events;
  * `self.ok`, `self.force_flush_arg`, `self.caught_up`, `self.reorg_count`;
  * ONE `cancel` event (the shutdown request: `shutdown_event.set()` + `task.cancel()`), enabled in
    every state in which the task has not finished.  `asyncio.shield`: cancelling the outer task
    whilst it awaits a section leaves the inner task and its job running (a thread cannot be
    cancelled) and moves the outer task to the handler, whose `run_with_lock(flush_if_safe())`
    creates a second inner task that has to wait for the lock.  Cancellation requested whilst the
    wake-up of the outer task is already scheduled (`secReady`) is delivered at that wake-up
    (`Task._must_cancel`): the section's result is dropped.  The request and the handler's first
    step are one event: nothing observes the outer task in between.

asyncio facts built into the transition relation (assumptions of C06, validated by trace replay):
tasks run in creation order and `asyncio.Lock` is FIFO, so the handler's inner task acquires the
lock only after the section in flight has released it (`hStart` needs the inner slot to be empty).

Not modelled: `state.first_sync = False` (no observable of the index depends on it),
`DB.open_for_serving` after the first catch-up (in a fully flushed state it changes nothing that
survives), the prefetcher, the `touched` set / notifications (C01sync, C20).

Ghost fields (`log`, `logAtCancel`, `innerAtCancel`) record what happened; they influence nothing.
No imports beyond the index model: linked into `evdrv`.
-/
namespace EV.ShutdownTask
open EV.Index

/-- a writer job handed to a worker thread -/
inductive JobK where
  | adv (b : Block)          -- `advance_block(block)`
  | flush (utxos : Bool)     -- `db.flush_dbs(flush_data, utxos, _)`
  | backup (b : Block)       -- `backup_block(block)` (incl. `flush_backup`)
deriving DecidableEq, Repr, Inhabited

/-- an index operation as it was carried out (`dH` = `daemon.cached_height()` read by the job) -/
inductive Op where
  | adv (b : Block) (dH : Int)
  | flush (utxos : Bool)
  | backup (b : Block)
deriving DecidableEq, Repr, Inhabited

/-- the coroutine handed to `run_with_lock` -/
inductive Sec where
  | adv (b : Block)
  | flush
  | backup (b : Block)
  | safe
deriving DecidableEq, Repr, Inhabited

/-- the shielded inner task of `run_with_lock` -/
inductive Inner where
  /-- created; not yet inside `async with self.state_lock` -/
  | wantLock (sec : Sec)
  /-- holds the lock, awaits `run_in_thread(j)`: the job is queued or running in a worker thread -/
  | job (sec : Sec) (j : JobK)
  /-- the job has returned in its thread (`err`: it raised); the inner task has not been woken yet -/
  | jobDone (sec : Sec) (j : JobK) (err : Option Err)
deriving DecidableEq, Repr, Inhabited

def Inner.sec : Inner → Sec
  | .wantLock s => s
  | .job s _ => s
  | .jobDone s _ _ => s

def Inner.holds : Inner → Bool
  | .wantLock _ => false
  | _ => true

/-- control points of the outer task between sections -/
inductive Pt where
  /-- `next_block_hashes()` (daemon height, hashes, prefetch) -/
  | top
  /-- head of the loop of `advance_blocks` with the hashes still to do -/
  | batch (rest : List Block)
  /-- `on_caught_up` after its flush: `Notifications.on_block` / `caught_up = True` -/
  | postCaughtUp
  /-- `caught_up_event.set(); await sleep(polling_delay)` -/
  | sleeping
  /-- `reorg_chain` after its flush: `_reorg_hashes`, prefetch of the blocks to back out -/
  | reorgHashes
  /-- head of the loop of `reorg_chain` with the blocks still to back out (tip first) -/
  | backups (rest : List Block)
deriving DecidableEq, Repr, Inhabited

inductive Outer where
  /-- `open_for_sync`, `scan_files`: before the `try` -/
  | start
  /-- suspended at (or passing) an await that is not a section; continues at `p` -/
  | idle (p : Pt)
  /-- suspended at `await asyncio.shield(run_locked())`; continues at `p` -/
  | awaitSec (p : Pt)
  /-- the inner task has ended (`err`: with an exception); the outer task's wake-up is scheduled -/
  | secReady (p : Pt) (err : Option Err)
  /-- in the `except CancelledError` handler, awaiting `run_with_lock(flush_if_safe())` -/
  | handler
  /-- `fetch_and_process_blocks` has returned from the handler -/
  | returned
  /-- the task ended with an exception (a job raised, or it was cancelled before the `try`) -/
  | died
deriving DecidableEq, Repr, Inhabited

structure St where
  sys : Sys := {}
  outer : Outer := .start
  inner : Option Inner := none
  lock : Bool := false
  ok : Bool := true
  forceFlushArg : Option Bool := none
  caughtUp : Bool := false
  reorgCount : Option Int := none
  cancelled : Bool := false
  /-- ghost: every job that ended, in order, with `true` iff it did not raise -/
  log : List (Op × Bool) := []
  /-- ghost: `log` at the moment of the shutdown request -/
  logAtCancel : List (Op × Bool) := []
  /-- ghost: the inner task in flight at the moment of the shutdown request -/
  innerAtCancel : Option Inner := none
deriving Repr, Inhabited

inductive Ev where
  -- environment
  /-- `check_cache_size_loop`: `force_flush_arg = a` -/
  | pressure (a : Bool)
  /-- `force_chain_reorg(n)` (the `reorg` RPC) -/
  | forceReorg (n : Nat)
  /-- the shutdown request -/
  | cancel
  -- steps of the outer task
  | begin
  /-- `next_block_hashes` returned these (non-empty) hashes -/
  | fetched (bs : List Block)
  /-- `next_block_hashes` returned nothing: `on_caught_up()` -/
  | fetchedNone
  /-- loop of `advance_blocks`: `reorg_count is None`, the block has arrived: start its section -/
  | nextBlock
  /-- `advance_blocks` ends (list done, `reorg_count` set, or a block is missing) -/
  | endBatch
  /-- `on_caught_up` returns -/
  | caughtUpDone
  /-- the polling sleep ends -/
  | wake
  /-- `_reorg_hashes` returned these blocks (in back-out order) -/
  | reorgRange (bs : List Block)
  /-- loop of `reorg_chain`: the hash is the tip, the block has arrived: start its section -/
  | nextBackup
  /-- `reorg_chain` ends (list done, "not tip", or a block is missing) -/
  | endReorg
  /-- the outer task wakes up with the result of its section -/
  | resume
  -- the inner tasks and the worker
  /-- the section's inner task acquires the lock and runs up to its first `run_in_thread` -/
  | innerStart
  /-- the handler's inner task acquires the lock -/
  | hStart
  /-- the worker job returns (`dH`: the daemon height `advance_block` read) -/
  | jobEnd (dH : Int)
  /-- the job's result reaches the inner task, which continues -/
  | deliver
deriving Repr, Inhabited

/-- `backup_block` raises before `self.ok = False`: `assert_flushed`, `assert block.height > 0`,
    missing undo information -/
def backupFailsEarly (s : Sys) : Bool :=
  !assertFlushed s || decide (s.m.st.height ≤ 0) || (alookup s.m.st.height.toNat s.p.undo).isNone

/-- the job returns: its whole effect on the index happens here -/
def runJob (cfg : Cfg) (st : St) (sec : Sec) (j : JobK) (dH : Int) : St :=
  match j with
  | .adv b =>
    if b.prev ≠ st.sys.m.st.tip then
      -- `self.reorg_count = -1; return` (before `self.ok = False`)
      { st with reorgCount := some (-1), inner := some (.jobDone sec j none) }
    else
      match advance cfg dH st.sys b with
      | .ok s' => { st with sys := s', inner := some (.jobDone sec j none),
                            log := st.log ++ [(.adv b dH, true)] }
      | .error e => { st with ok := false, inner := some (.jobDone sec j (some e)),
                              log := st.log ++ [(.adv b dH, false)] }
  | .flush a =>
    match flush st.sys a with
    | .ok s' => { st with sys := s', inner := some (.jobDone sec j none),
                          log := st.log ++ [(.flush a, true)] }
    | .error e => { st with inner := some (.jobDone sec j (some e)),
                            log := st.log ++ [(.flush a, false)] }
  | .backup b =>
    match backup cfg st.sys b with
    | .ok s' => { st with sys := s', inner := some (.jobDone sec j none),
                          log := st.log ++ [(.backup b, true)] }
    | .error e => { st with ok := st.ok && backupFailsEarly st.sys,
                            inner := some (.jobDone sec j (some e)),
                            log := st.log ++ [(.backup b, false)] }

/-- the inner task ends: `async with` releases the lock; the shield hands the result to the outer
    task unless that one has been cancelled meanwhile -/
def finish (st : St) (sec : Sec) (err : Option Err) : St :=
  match sec with
  | .safe =>
    { st with lock := false, inner := none,
              outer := match err with
                | none => .returned
                | some _ => .died }
  | _ =>
    { st with lock := false, inner := none,
              outer := match st.outer with
                | .awaitSec p => .secReady p err
                | o => o }

/-- the inner task continues after a job -/
def continueSec (st : St) (sec : Sec) (j : JobK) (err : Option Err) : St :=
  match err with
  | some e => finish st sec (some e)
  | none =>
    match sec, j with
    | .adv _, .adv _ =>
      -- `if self.force_flush_arg is not None: await self.flush(self.force_flush_arg)`
      match st.forceFlushArg with
      | some a => { st with forceFlushArg := none, inner := some (.job sec (.flush a)) }
      | none => finish st sec none
    | _, _ => finish st sec none

/-- after `advance_blocks` / the polling sleep: `if self.reorg_count is not None: reorg_chain(...)`
    (whose first statement is `run_with_lock(flush(True))`), else back to the top of the loop -/
def afterBody (st : St) : St :=
  match st.reorgCount with
  | some _ => { st with outer := .awaitSec .reorgHashes, inner := some (.wantLock .flush) }
  | none => { st with outer := .idle .top }

def step (cfg : Cfg) (st : St) : Ev → Option St
  | .pressure a => some { st with forceFlushArg := some a }
  | .forceReorg n =>
    if st.caughtUp then some { st with reorgCount := some (n : Int) } else none
  | .cancel =>
    if st.cancelled then none
    else
      match st.outer with
      | .start =>
        some { st with cancelled := true, outer := .died, logAtCancel := st.log,
                       innerAtCancel := st.inner }
      | .idle _ | .awaitSec _ | .secReady _ _ =>
        some { st with cancelled := true, outer := .handler, logAtCancel := st.log,
                       innerAtCancel := st.inner }
      | _ => none
  | .begin =>
    match st.outer with
    | .start => some { st with outer := .idle .top }
    | _ => none
  | .fetched bs =>
    match st.outer with
    | .idle .top => if bs.isEmpty then none else some { st with outer := .idle (.batch bs) }
    | _ => none
  | .fetchedNone =>
    match st.outer with
    | .idle .top => some { st with outer := .awaitSec .postCaughtUp, inner := some (.wantLock .flush) }
    | _ => none
  | .nextBlock =>
    match st.outer with
    | .idle (.batch (b :: rest)) =>
      if st.reorgCount.isNone then
        some { st with outer := .awaitSec (.batch rest), inner := some (.wantLock (.adv b)) }
      else none
    | _ => none
  | .endBatch =>
    match st.outer with
    | .idle (.batch _) => some (afterBody st)
    | _ => none
  | .caughtUpDone =>
    match st.outer with
    | .idle .postCaughtUp => some { st with caughtUp := true, outer := .idle .sleeping }
    | _ => none
  | .wake =>
    match st.outer with
    | .idle .sleeping => some (afterBody st)
    | _ => none
  | .reorgRange bs =>
    match st.outer with
    | .idle .reorgHashes => some { st with outer := .idle (.backups bs) }
    | _ => none
  | .nextBackup =>
    match st.outer with
    | .idle (.backups (b :: rest)) =>
      if b.hash = st.sys.m.st.tip then
        some { st with outer := .awaitSec (.backups rest), inner := some (.wantLock (.backup b)) }
      else none
    | _ => none
  | .endReorg =>
    match st.outer with
    | .idle (.backups _) => some { st with reorgCount := none, outer := .idle .top }
    | _ => none
  | .resume =>
    match st.outer with
    | .secReady p none => some { st with outer := .idle p }
    | .secReady _ (some _) => some { st with outer := .died }
    | _ => none
  | .innerStart =>
    if st.lock then none
    else
      match st.inner with
      | some (.wantLock (.adv b)) =>
        some { st with lock := true, inner := some (.job (.adv b) (.adv b)) }
      | some (.wantLock .flush) =>
        some { st with lock := true, forceFlushArg := none, inner := some (.job .flush (.flush true)) }
      | some (.wantLock (.backup b)) =>
        some { st with lock := true, inner := some (.job (.backup b) (.backup b)) }
      | _ => none
  | .hStart =>
    if st.lock then none
    else
      match st.outer, st.inner with
      | .handler, none =>
        if st.ok then
          some { st with lock := true, forceFlushArg := none, inner := some (.job .safe (.flush true)) }
        else some { st with outer := .returned }
      | _, _ => none
  | .jobEnd dH =>
    match st.inner with
    | some (.job sec j) => some (runJob cfg st sec j dH)
    | _ => none
  | .deliver =>
    match st.inner with
    | some (.jobDone sec j err) => some (continueSec st sec j err)
    | _ => none

/-- the state after an accepted event sequence (`none`: some event was not enabled) -/
def run (cfg : Cfg) : St → List Ev → Option St
  | st, [] => some st
  | st, e :: es =>
    match step cfg st e with
    | none => none
    | some st' => run cfg st' es

/-- the task has ended -/
def St.finished (st : St) : Bool :=
  match st.outer with
  | .returned | .died => true
  | _ => false

end EV.ShutdownTask

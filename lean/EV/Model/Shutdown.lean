/-
Model of the locking discipline of `BlockProcessor` (C06): every job that writes the stores or
mutates the in-memory chain state (`advance_block`, `backup_block`, `flush_dbs`) is started by a
task that holds `state_lock` (`run_with_lock`: `async with self.state_lock: await coro` inside
`asyncio.shield`), and the lock is released only after the job has finished.

The model is a *monitor*: `step` accepts an event only if the discipline allows it.  Real runs are
tied to it by trace inclusion (suite `shutdown`: lock acquire/release and job start/end of the real
task, with shutdown requested at every scheduling point, must be accepted).
No imports: linked into `evdrv`.
-/
namespace EV.Shutdown

/-- `t` = the asyncio task (the shielded inner task of `run_with_lock`) -/
inductive Ev where
  | acquire (t : Nat)
  | release (t : Nat)
  | jobStart (t : Nat)     -- a writer job is handed to a worker thread by task t
  | jobEnd (t : Nat)       -- that worker job returns
deriving Repr, DecidableEq, Inhabited

structure St where
  lock : Option Nat := none
  running : List Nat := []
deriving Repr, DecidableEq, Inhabited

def step (st : St) : Ev → Option St
  | .acquire t => if st.lock = none then some { st with lock := some t } else none
  | .release t => if st.lock = some t ∧ t ∉ st.running then some { st with lock := none } else none
  | .jobStart t =>
    if st.lock = some t ∧ t ∉ st.running then some { st with running := t :: st.running } else none
  | .jobEnd t => if t ∈ st.running then some { st with running := st.running.erase t } else none

/-- the state after an accepted trace (`none`: the trace breaks the discipline) -/
def run : St → List Ev → Option St
  | st, [] => some st
  | st, e :: es => match step st e with
    | none => none
    | some st' => run st' es

end EV.Shutdown

import EV.Model.Index

/-
Model of the forward part of the block-processing task (`BlockProcessor.advance_blocks`,
`on_caught_up`, `flush`) on top of the index model: *when* blocks are advanced and flushed and when
clients are told a height (`Notifications.on_block`).  C01/C02 at server level: what a client can
read at the moment it is told height h.

Events, as they occur under `state_lock` in the real task:
  `block b dH arg` – one iteration of the loop of `advance_blocks`: `advance_block(b)` in a worker
                      thread, then, if the cache-size loop has set `force_flush_arg = arg`, `flush(arg)`
                      (history-only for `false`, full for `true`);
  `caughtUp`        – `on_caught_up`: `state.first_sync = False`, `flush(True)`, and then — once the
                      server has caught up before — `Notifications.on_block(touched, state.height)`;
                      the first time it only sets `caught_up` (and re-opens the DB for serving).
Reorganisations and restarts are not events here (C03/C04/C15; suites `sync`, `index`, `crash`).
No imports beyond the index model (linked into `evdrv`).
-/
namespace EV.SyncLoop
open EV.Index

inductive Ev where
  | block (b : Block) (daemonH : Int) (flushArg : Option Bool)
  | caughtUp
deriving Inhabited

structure Loop where
  s : Sys := {}
  caughtUp : Bool := false
deriving Inhabited

/-- `self.state.first_sync = False` -/
def clearFirstSync (s : Sys) : Sys :=
  { s with m := { s.m with st := { s.m.st with firstSync := false } } }

/-- one event; the second component is the height clients are told, if any -/
def step (cfg : Cfg) (l : Loop) : Ev → Except Err (Loop × Option Int)
  | .block b d arg =>
    match advance cfg d l.s b with
    | .error e => .error e
    | .ok s1 =>
      match arg with
      | none => .ok ({ l with s := s1 }, none)
      | some a =>
        match flush s1 a with
        | .error e => .error e
        | .ok s2 => .ok ({ l with s := s2 }, none)
  | .caughtUp =>
    match flush (clearFirstSync l.s) true with
    | .error e => .error e
    | .ok s1 =>
      if l.caughtUp then .ok ({ l with s := s1 }, some s1.m.st.height)
      else .ok ({ s := s1, caughtUp := true }, none)

/-- run, collecting `(height told, state of the index at that moment)` -/
def run (cfg : Cfg) : Loop → List Ev → Except Err (Loop × List (Int × Sys))
  | l, [] => .ok (l, [])
  | l, e :: r =>
    match step cfg l e with
    | .error err => .error err
    | .ok (l1, t) =>
      match run cfg l1 r with
      | .error err => .error err
      | .ok (l2, ts) => .ok (l2, (match t with | none => [] | some h => [(h, l1.s)]) ++ ts)

/-- the blocks advanced by a list of events -/
def blocksOf : List Ev → List Block
  | [] => []
  | .block b _ _ :: r => b :: blocksOf r
  | .caughtUp :: r => blocksOf r

end EV.SyncLoop

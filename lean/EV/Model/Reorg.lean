/-
Model of `BlockProcessor._calc_reorg_range` (block_processor.py).

`mine h` / `daemon h` = the block hash at height `h` on the server's indexed chain
(`db.fs_block_hashes`) and on the daemon's chain (`daemon.block_hex_hashes`).
No imports (linked into `evdrv`).
-/
namespace EV.Reorg

abbrev Hash := Nat

/-- the `for n, (hash1, hash2) in enumerate(zip(...))` loop of `diff_pos` from index `i` with
    `r` pairs left -/
def diffPosFrom (mine daemon : Nat → Hash) (start : Nat) : Nat → Nat → Nat
  | 0, i => i
  | r + 1, i => if mine (start + i) != daemon (start + i) then i else diffPosFrom mine daemon start r (i + 1)

/-- `diff_pos(hashes1, hashes2)` on the window `[start, start+count)`: index of the first
    difference, or `len(hashes)` (= `count`) when the window matches entirely -/
def diffPos (mine daemon : Nat → Hash) (start count : Nat) : Nat :=
  diffPosFrom mine daemon start count 0

/-- the `while start > 0` loop; returns the final `start`.  `fuel` bounds the iterations
    (`height` always suffices: `start` strictly decreases). -/
def calcLoop (mine daemon : Nat → Hash) : Nat → Nat → Nat → Nat
  | 0, start, _ => start
  | fuel + 1, start, count =>
    if start > 0 then
      if diffPos mine daemon start count > 0 then start + diffPos mine daemon start count
      else calcLoop mine daemon fuel (start - min (count * 2) start) (min (count * 2) start)
    else start

/-- `_calc_reorg_range(count)` at `state.height = height ≥ 1`: `(start, count)`.
    `count < 0`: a real reorg; `count ≥ 0`: forced. -/
def calcReorgRange (mine daemon : Nat → Hash) (height : Nat) (count : Int) : Int × Int :=
  if count < 0 then
    ((calcLoop mine daemon height (height - 1) 1 : Nat),
     (height : Int) - (calcLoop mine daemon height (height - 1) 1 : Nat) + 1)
  else ((height : Int) - count + 1, count)

end EV.Reorg

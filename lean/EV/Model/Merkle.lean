/-
Model of `electrumx/lib/merkle.py` (classes `Merkle` and `MerkleCache`).

Generic in the node type `Node` (Python `bytes`) and in `H : Node → Node → Node`, the code's
`hash_func(a + b)`.  No property of `H` is used anywhere.

Conventions
  * Python exceptions are data (`PyExc`).  `indexError` is what a Python list subscript out of
    range would raise inside the loops; the proofs show it is unreachable.
  * An argument that the code type-checks with `isinstance(x, int)` is an `IntArg`
    (`True`/`False` are ints in Python and are sent as 1/0 by the harness); an argument checked with
    `isinstance(x, list)` is a `ListArg`.
  * The branch is a list of `Elt`: a node, or the TSC marker `b"*"` (`Elt.star`).
  * `index >> k`, `index << k`, `index & 1` on a possibly negative Python int are floor division by
    `2^k`, multiplication by `2^k` and `% 2` on `Int` (Lean's `/`, `%` on `Int` round like Python's
    for a positive divisor).  After the range checks indices are `Nat` and the literal `>>>`, `^^^`
    are used.
  * `Merkle.branch_length` is the *fixed* integer function `(hash_count - 1).bit_length()`.  The
    pinned commit computed `ceil(log(hash_count, 2))` in IEEE floating point, which Lean cannot
    and must not imitate; the counterexamples (2^29 ↦ 30, 2^49+1 ↦ 49, …) are replayed on the
    real function by the `merkle` correspondence suite, which compares it with `branchLength`
    at every 2^k-1, 2^k, 2^k+1 (k ≤ 62) and every n < 2^16 on each run.
No imports: this file is linked into the `evdrv` executable.
-/
namespace EV.Merkle

inductive PyExc where
  | valueError
  | typeError
  | indexError
deriving Repr, DecidableEq, Inhabited

inductive IntArg where
  | int (v : Int)
  | notInt
deriving Repr, DecidableEq, Inhabited

inductive ListArg (α : Type) where
  | list (l : List α)
  | notList
deriving Repr, DecidableEq

/-- element of a merkle branch: a node, or the TSC "duplicate" marker `b"*"` -/
inductive Elt (Node : Type) where
  | node (x : Node)
  | star
deriving Repr, DecidableEq, Inhabited

/-! ### `Merkle` -/

/-- Python `int.bit_length()` of a non-negative int -/
def bitLength (m : Nat) : Nat := if m = 0 then 0 else Nat.log2 m + 1

/-- `branch_length` of a count already known to be an int `≥ 1` (e.g. `len(hashes)`) -/
def branchLengthNat (n : Nat) : Nat := bitLength (n - 1)

/-- `Merkle.branch_length(hash_count)` -/
def branchLength : IntArg → Except PyExc Nat
  | .notInt => .error .typeError
  | .int v => if v < 1 then .error .valueError else .ok (bitLength (v - 1).toNat)

/-- `Merkle.tree_depth(hash_count)` -/
def treeDepth (a : IntArg) : Except PyExc Nat :=
  match branchLength a with
  | .error e => .error e
  | .ok n => .ok (n + 1)

section
variable {Node : Type} (H : Node → Node → Node)

/-- `[hash_func(hashes[n] + hashes[n + 1]) for n in range(0, len(hashes), 2)]`; an odd length makes
    `hashes[n + 1]` raise `IndexError` -/
def pairUp : List Node → Except PyExc (List Node)
  | [] => .ok []
  | [_] => .error .indexError
  | a :: b :: rest =>
    match pairUp rest with
    | .error e => .error e
    | .ok r => .ok (H a b :: r)

/-- the loop body of `branch_and_root` up to `index >>= 1`: the (possibly padded) hashes and the
    element appended to the branch -/
def barStep (tsc : Bool) (hs : List Node) (idx : Nat) : Except PyExc (List Node × Elt Node) :=
  if hs.length % 2 = 1 then
    match hs.getLast? with
    | none => .error .indexError
    | some l =>
      if tsc && (idx ^^^ 1 == (hs ++ [l]).length - 1) then .ok (hs ++ [l], .star)
      else
        match (hs ++ [l])[idx ^^^ 1]? with
        | none => .error .indexError
        | some x => .ok (hs ++ [l], .node x)
  else
    match hs[idx ^^^ 1]? with
    | none => .error .indexError
    | some x => .ok (hs, .node x)

/-- `for _ in range(length): …` followed by `return branch, hashes[0]` -/
def barLoop (tsc : Bool) : Nat → List Node → Nat → List (Elt Node) → Except PyExc (List (Elt Node) × Node)
  | 0, hs, _, br =>
    match hs[0]? with
    | none => .error .indexError
    | some r => .ok (br, r)
  | n + 1, hs, idx, br =>
    match barStep tsc hs idx with
    | .error e => .error e
    | .ok (hs', e) =>
      match pairUp H hs' with
      | .error e => .error e
      | .ok hs'' => barLoop tsc n hs'' (idx >>> 1) (br ++ [e])

/-- `Merkle.branch_and_root(hashes, index, length=None, tsc_format=False)` -/
def branchAndRoot (hs : List Node) (index : IntArg) (length : Option IntArg) (tsc : Bool) :
    Except PyExc (List (Elt Node) × Node) :=
  match index with
  | .notInt => .error .typeError
  | .int i =>
    if ¬ (0 ≤ i ∧ i < hs.length) then .error .valueError
    else
      match length with
      | none => barLoop H tsc (branchLengthNat hs.length) hs i.toNat []
      | some .notInt => .error .typeError
      | some (.int l) =>
        if l < branchLengthNat hs.length then .error .valueError
        else barLoop H tsc l.toNat hs i.toNat []

/-- `Merkle.root(hashes, length=None)` -/
def root (hs : List Node) (length : Option IntArg) : Except PyExc Node :=
  match branchAndRoot H hs (.int 0) length false with
  | .error e => .error e
  | .ok (_, r) => .ok r

/-- the `for elt in branch` loop of `root_from_proof`: final hash and final index -/
def rfpLoop : Node → List Node → Int → Node × Int
  | h, [], i => (h, i)
  | h, e :: rest, i => rfpLoop (if i % 2 = 1 then H e h else H h e) rest (i / 2)

/-- `Merkle.root_from_proof(hash_, branch, index)` (index an int of either sign) -/
def rootFromProof (h : Node) (branch : List Node) (index : Int) : Except PyExc Node :=
  if (rfpLoop H h branch index).2 ≠ 0 then .error .valueError
  else .ok (rfpLoop H h branch index).1

/-- `[root(hashes[n: n + size], depth_higher) for n in ns]` -/
def levelAux (hs : List Node) (d : Nat) : List Nat → Except PyExc (List Node)
  | [] => .ok []
  | j :: js =>
    match root H ((hs.drop (j * (1 <<< d))).take (1 <<< d)) (some (.int d)) with
    | .error e => .error e
    | .ok r =>
      match levelAux hs d js with
      | .error e => .error e
      | .ok rs => .ok (r :: rs)

/-- `Merkle.level(hashes, depth_higher)`; `range(0, len(hashes), size)` is
    `n = j * size` for `j < ceil(len / size)` -/
def level (hs : List Node) (d : Nat) : Except PyExc (List Node) :=
  levelAux H hs d (List.range ((hs.length + (1 <<< d) - 1) / (1 <<< d)))

/-- `Merkle.branch_and_root_from_level(level, leaf_hashes, index, depth_higher, tsc_format)` -/
def branchAndRootFromLevel [DecidableEq Node] (lvl : ListArg Node) (leaf : ListArg Node)
    (index : IntArg) (d : Nat) (tsc : Bool) : Except PyExc (List (Elt Node) × Node) :=
  match lvl with
  | .notList => .error .typeError
  | .list lv =>
    match leaf with
    | .notList => .error .typeError
    | .list lf =>
      match index with
      | .notInt => .error .typeError      -- `index >> depth_higher` on a non-int
      | .int i =>
        match branchAndRoot H lf (.int (i - i / 2 ^ d * 2 ^ d)) (some (.int d)) tsc with
        | .error e => .error e
        | .ok (leafBranch, leafRoot) =>
          match branchAndRoot H lv (.int (i / 2 ^ d)) none tsc with
          | .error e => .error e
          | .ok (levelBranch, r) =>
            match lv[(i / 2 ^ d).toNat]? with
            | none => .error .indexError
            | some x =>
              if leafRoot ≠ x then .error .valueError
              else .ok (leafBranch ++ levelBranch, r)

/-! ### `MerkleCache` against a source list `src` (`source_func(i, c) = src[i : i + c]`) -/

/-- `await source_func(start, count)` for a list-backed source -/
def srcSlice (src : List Node) (start count : Nat) : List Node := (src.drop start).take count

structure Cache (Node : Type) where
  length : Nat := 0
  level : List Node := []
  depthHigher : Nat := 0
  initialized : Bool := false
deriving Repr, DecidableEq

/-- what an `async` cache method does: returns, raises, or waits for ever on `initialized` -/
inductive Outcome (α : Type) where
  | ret (a : α)
  | raised (e : PyExc)
  | blocked
deriving Repr, DecidableEq

/-- `_segment_length` -/
def Cache.segLen (c : Cache Node) : Nat := 1 <<< c.depthHigher

/-- `_leaf_start(index)` -/
def Cache.leafStart (c : Cache Node) (index : Nat) : Nat := (index >>> c.depthHigher) <<< c.depthHigher

/-- `_extend_to(length)`; `_level` may raise before anything is assigned -/
def Cache.extendTo (c : Cache Node) (src : List Node) (length : Nat) : Cache Node × Option PyExc :=
  if length ≤ c.length then (c, none)
  else
    match Merkle.level H (srcSlice src (c.leafStart c.length) (length - c.leafStart c.length)) c.depthHigher with
    | .error e => (c, some e)
    | .ok lv =>
      ({ c with level := c.level.take (c.leafStart c.length >>> c.depthHigher) ++ lv, length := length }, none)

/-- `_level_for(length)` -/
def Cache.levelFor (c : Cache Node) (src : List Node) (length : Nat) : Except PyExc (List Node) :=
  if length = c.length then .ok c.level
  else
    match Merkle.level H (srcSlice src (c.leafStart length) (min c.segLen (length - c.leafStart length)))
        c.depthHigher with
    | .error e => .error e
    | .ok lv => .ok (c.level.take (length >>> c.depthHigher) ++ lv)

/-- `initialize(length)` for `length ≥ 0` (it is called with a block count; a negative or non-int
    length is outside the model).  The assignments happen in the code's order, so a raise leaves
    the earlier ones in place. -/
def Cache.init (c : Cache Node) (src : List Node) (length : Nat) : Cache Node × Option PyExc :=
  match treeDepth (.int length) with
  | .error e => ({ c with length := length }, some e)
  | .ok td =>
    match Merkle.level H (srcSlice src 0 length) (td / 2) with
    | .error e => ({ c with length := length, depthHigher := td / 2 }, some e)
    | .ok lv => ({ length := length, depthHigher := td / 2, level := lv, initialized := true }, none)

/-- `truncate(length)` -/
def Cache.truncate (c : Cache Node) (length : IntArg) : Cache Node × Option PyExc :=
  match length with
  | .notInt => (c, some .typeError)
  | .int l =>
    if l ≤ 0 then (c, some .valueError)
    else if l ≥ c.length then (c, none)
    else
      ({ c with length := c.leafStart l.toNat,
                level := c.level.take (c.leafStart l.toNat >>> c.depthHigher) }, none)

/-- `branch_and_root(length, index, tsc_format)`.
    A negative `index` passes the argument checks; after `_extend_to` every path then ends in the
    `ValueError('index out of range')` of `Merkle.branch_and_root` (direct path: the negative index
    itself; level path: `index >> depth_higher` is negative), whatever the source returns. -/
def Cache.query [DecidableEq Node] (c : Cache Node) (src : List Node) (length index : IntArg)
    (tsc : Bool) : Cache Node × Outcome (List (Elt Node) × Node) :=
  match length with
  | .notInt => (c, .raised .typeError)
  | .int l =>
    match index with
    | .notInt => (c, .raised .typeError)
    | .int i =>
      if l ≤ 0 then (c, .raised .valueError)
      else if i ≥ l then (c, .raised .valueError)
      else if !c.initialized then (c, .blocked)
      else
        match c.extendTo H src l.toNat with
        | (c', some e) => (c', .raised e)
        | (c', none) =>
          if i < 0 then (c', .raised .valueError)
          else if l.toNat < c'.segLen then
            match branchAndRoot H
                (srcSlice src (c'.leafStart i.toNat) (min c'.segLen (l.toNat - c'.leafStart i.toNat)))
                (.int i) none tsc with
            | .error e => (c', .raised e)
            | .ok r => (c', .ret r)
          else
            match c'.levelFor H src l.toNat with
            | .error e => (c', .raised e)
            | .ok lv =>
              match branchAndRootFromLevel H (.list lv)
                  (.list (srcSlice src (c'.leafStart i.toNat) (min c'.segLen (l.toNat - c'.leafStart i.toNat))))
                  (.int i) c'.depthHigher tsc with
              | .error e => (c', .raised e)
              | .ok r => (c', .ret r)

/-! ### Specification: the Bitcoin merkle root and the levels of the tree -/

/-- one level up: duplicate the last node if the count is odd, hash the pairs -/
def pairs : List Node → List Node
  | [] => []
  | [a] => [H a a]
  | a :: b :: rest => H a b :: pairs rest

theorem pairs_length (hs : List Node) : (pairs H hs).length = (hs.length + 1) / 2 := by
  fun_induction pairs H hs with
  | case1 => simp
  | case2 a => simp
  | case3 a b rest ih => simp only [List.length_cons, ih]; omega

/-- **the definition**: the merkle root of a non-empty list of hashes -/
def merkleRoot : (hs : List Node) → hs ≠ [] → Node
  | [a], _ => a
  | a :: b :: rest, _ => merkleRoot (pairs H (a :: b :: rest)) (by simp [pairs])
termination_by hs => hs.length
decreasing_by rw [pairs_length]; simp only [List.length_cons]; omega

/-- the `k`-th level above the leaves -/
def lvl : Nat → List Node → List Node
  | 0, hs => hs
  | k + 1, hs => lvl k (pairs H hs)

/-- at level `k` the node on the path from leaf `idx` is the last of an odd-length level: its
    sibling is its own duplicate -/
def isDup (hs : List Node) (idx k : Nat) : Prop :=
  (lvl H k hs).length % 2 = 1 ∧ idx / 2 ^ k = (lvl H k hs).length - 1

instance (hs : List Node) (idx k : Nat) : Decidable (isDup H hs idx k) := by
  unfold isDup; infer_instance

/-- `r ↦ H r r` applied `k` times: what each extra round of the `length` padding does to the root -/
def dupN : Nat → Node → Node
  | 0, r => r
  | k + 1, r => dupN k (H r r)

/-- TSC verification (what a client does with a TSC branch): as `root_from_proof`, with the running
    hash substituted for each `*` -/
def rfpTscLoop : Node → List (Elt Node) → Int → Node × Int
  | h, [], i => (h, i)
  | h, .star :: rest, i => rfpTscLoop (H h h) rest (i / 2)
  | h, .node e :: rest, i => rfpTscLoop (if i % 2 = 1 then H e h else H h e) rest (i / 2)

def rootFromProofTsc (h : Node) (branch : List (Elt Node)) (index : Int) : Except PyExc Node :=
  if (rfpTscLoop H h branch index).2 ≠ 0 then .error .valueError
  else .ok (rfpTscLoop H h branch index).1

end

end EV.Merkle

import EV.Model.Index

/-
History compaction (`electrumx/server/history.py`: `_compact_hashX`, `_compact_prefix`,
`_compact_history`, `_flush_compaction`, `_cancel_compaction`; the driver script
`electrumx_compact_history`; `DB.set_flush_count`, `DB.open_for_compacting`) on top of the store
of `EV/Model/Index.lean`.

* a history row is `(hashX, flush id) ↦ [tx numbers]`; a tx number occupies 5 bytes on disk, so
  `len(bytes) = 5 * entries` (that is all `write_size` depends on);
* the 2-byte prefix of a hashX (the big-endian number of its 11 bytes) is `hx / 2^72`;
* LevelDB key order on `hashX + be16(flush id)` is the numeric order of `(hx, id)` (ids `< 2^16`);
* the only key of the history DB that is not a history row is the state record `state\0\0`
  (7 bytes, prefix `st` = 29556): it is held in `Store.hstate` and shows up in a prefix scan as
  `ScanItem.other`, which `_compact_prefix` skips (`len(key) != HASHX_LEN + 2`).

Only imports `EV.Model.Index` (linked into `evdrv`).
-/
namespace EV.Compact
open EV.Index

abbrev Row := (HashX × Nat) × List Nat

/-- the Python exceptions that can escape `_compact_history` -/
inductive CErr where
  | assertion     -- `assert n + 1 == nrows` / `assert not db.state.first_sync`
  | structError   -- `pack_be_uint16` of a value outside 0..65535
deriving DecidableEq, Repr, Inhabited

/-- first two bytes of the hashX, as `pack_be_uint16` would produce them -/
def prefixOf (hx : HashX) : Nat := hx / 2 ^ 72

/-- LevelDB order of the keys `hashX + be16(flush id)` -/
def keyLE (a b : Row) : Bool :=
  decide (a.1.1 < b.1.1) || (a.1.1 == b.1.1 && decide (a.1.2 ≤ b.1.2))

/-- what `db.iterator(prefix=…)` yields -/
inductive ScanItem where
  | row (r : Row)
  | other            -- a key whose length is not `HASHX_LEN + 2` (the state record)
deriving Repr, Inhabited

/-- `b'st'` as a big-endian number -/
def statePrefix : Nat := 29556

/-- `self.db.iterator(prefix=pack_be_uint16(c))`: the history rows of that prefix in key order.
    The state record has that prefix too when `c = statePrefix`; its position among the rows is
    immaterial because the loop skips it before touching any variable, so it is listed last. -/
def scanPrefix (p : Store) (c : Nat) : List ScanItem :=
  ((p.hist.filter (fun e => prefixOf e.1.1 == c)).mergeSort keyLE).map ScanItem.row ++
    (if c == statePrefix && p.hstate.isSome then [ScanItem.other] else [])

/-- `util.chunks(items, size)` on a list of entries (`fuel` = an upper bound on the number of chunks).
    Python raises for `size = 0`; every theorem assumes `0 < size`. -/
def chunksAux (n : Nat) : Nat → List Nat → List (List Nat)
  | 0, _ => []
  | fuel + 1, l => if l.isEmpty then [] else l.take n :: chunksAux n fuel (l.drop n)

def chunks (n : Nat) (l : List Nat) : List (List Nat) := chunksAux n l.length l

/-- the accumulators shared by one `_compact_history` call -/
structure CAcc where
  writes : List Row := []             -- `write_items`
  dels : List (HashX × Nat) := []     -- `keys_to_delete` (a Python set: order and multiplicity immaterial)
  cfc : Int                           -- `self.comp_flush_count`
deriving Repr, Inhabited

/-- `b''.join(hist_list)` -/
def fullHist (rows : List Row) : List Nat := rows.flatMap (·.2)

/-- `nrows = (len(full_hist) + max_row_size - 1) // max_row_size` in bytes -/
def nrowsOf (maxRow : Nat) (rows : List Row) : Nat :=
  (5 * (fullHist rows).length + 5 * maxRow - 1) / (5 * maxRow)

/-- `for n, chunk in enumerate(util.chunks(full_hist, max_row_size))`; `histMap` = `hist_map`.
    Returns the accumulators and `write_size`. -/
def chunkLoop (hx : HashX) (histMap : List Row) :
    List (List Nat) → Nat → CAcc → Nat → Except CErr (CAcc × Nat)
  | [], _, acc, ws => .ok (acc, ws)
  | chunk :: rest, n, acc, ws =>
    if n ≥ 65536 then .error .structError                     -- `pack_be_uint16(n)`
    else if alookup (hx, n) histMap = some chunk then         -- same row on disk already
      chunkLoop hx histMap rest (n + 1)
        { acc with dels := acc.dels.filter (fun k => !decide (k = (hx, n))) } ws
    else
      chunkLoop hx histMap rest (n + 1)
        { acc with writes := acc.writes ++ [((hx, n), chunk)] } (ws + 5 * chunk.length)

/-- `_compact_hashX(hashX, hist_map, hist_list, write_items, keys_to_delete)`; `rows` holds
    `hist_map` (as a dict) and `hist_list` (its values in order).  After the loop Python's `n` is
    the index of the last chunk, or `0` when there was none (`n = 0  # In case of no loops`). -/
def compactHashX (maxRow : Nat) (hx : HashX) (rows : List Row) (acc : CAcc) :
    Except CErr (CAcc × Nat) :=
  match chunkLoop hx rows (chunks maxRow (fullHist rows)) 0
      { acc with dels := acc.dels ++ rows.map (·.1) } 0 with
  | .error e => .error e
  | .ok (acc', ws) =>
    if (chunks maxRow (fullHist rows)).length - 1 + 1 ≠ nrowsOf maxRow rows then .error .assertion
    else .ok ({ acc' with cfc := max acc'.cfc (((chunks maxRow (fullHist rows)).length - 1 : Nat) : Int) }, ws)

/-- the loop of `_compact_prefix`: `prior` = `prior_hashX`, `pend` = `hist_map`/`hist_list` -/
def prefixLoop (maxRow : Nat) :
    List ScanItem → Option HashX → List Row → CAcc → Nat → Except CErr (CAcc × Nat)
  | [], none, _, acc, ws => .ok (acc, ws)
  | [], some hx, pend, acc, ws =>
    match compactHashX maxRow hx pend acc with
    | .error e => .error e
    | .ok (acc', w) => .ok (acc', ws + w)
  | .other :: rest, prior, pend, acc, ws => prefixLoop maxRow rest prior pend acc ws
  | .row r :: rest, none, pend, acc, ws => prefixLoop maxRow rest (some r.1.1) (pend ++ [r]) acc ws
  | .row r :: rest, some hx, pend, acc, ws =>
    if r.1.1 ≠ hx then
      match compactHashX maxRow hx pend acc with
      | .error e => .error e
      | .ok (acc', w) => prefixLoop maxRow rest (some r.1.1) [r] acc' (ws + w)
    else prefixLoop maxRow rest (some r.1.1) (pend ++ [r]) acc ws

/-- `_compact_prefix(prefix, write_items, keys_to_delete)` -/
def compactPrefix (maxRow : Nat) (p : Store) (c : Nat) (acc : CAcc) : Except CErr (CAcc × Nat) :=
  prefixLoop maxRow (scanPrefix p c) none [] acc 0

/-- `while write_size < limit and cursor < 65536` of `_compact_history`.  `fuel` bounds the number of
    iterations; `compactHistory` passes `65536 - cursor`, which the loop cannot exceed. -/
def histLoop (maxRow limit : Nat) (p : Store) :
    Nat → Int → CAcc → Nat → Except CErr (Int × CAcc × Nat)
  | 0, cursor, acc, ws => .ok (cursor, acc, ws)
  | fuel + 1, cursor, acc, ws =>
    if ws < limit ∧ cursor < 65536 then
      if cursor < 0 then .error .structError                 -- `pack_be_uint16(cursor)`
      else
        match compactPrefix maxRow p cursor.toNat acc with
        | .error e => .error e
        | .ok (acc', w) => histLoop maxRow limit p fuel (cursor + 1) acc' (ws + w)
    else .ok (cursor, acc, ws)

/-- `_flush_compaction(cursor, write_items, keys_to_delete)`: ONE write batch - deletes first, then
    puts, then the state record (`applyEffect` applies a `histBatch` in exactly that order).
    `flush_count = comp_flush_count` is exact for `comp_flush_count ≥ 0` (the driver makes it `≥ 1`). -/
def flushCompaction (m : Mem) (cursor : Int) (acc : CAcc) : Effect × Mem :=
  if cursor = 65536 then
    (.histBatch acc.dels acc.writes
        { flushCount := acc.cfc.toNat, compFlushCount := -1, compCursor := -1 },
     { m with histFlush := acc.cfc.toNat, compFlush := -1, compCursor := -1 })
  else
    (.histBatch acc.dels acc.writes
        { flushCount := m.histFlush, compFlushCount := acc.cfc, compCursor := cursor },
     { m with compFlush := acc.cfc, compCursor := cursor })

/-- `History._compact_history(limit)`: the batch it commits and the system afterwards.  An exception
    leaves before `_flush_compaction`: nothing is written. -/
def compactHistory (maxRow limit : Nat) (s : Sys) : Except CErr (Effect × Sys) :=
  match histLoop maxRow limit s.p (65536 - s.m.compCursor).toNat s.m.compCursor
      { cfc := s.m.compFlush } 0 with
  | .error e => .error e
  | .ok (cursor, acc, _) =>
    .ok ((flushCompaction s.m cursor acc).1,
         { m := (flushCompaction s.m cursor acc).2,
           p := applyEffect s.p (flushCompaction s.m cursor acc).1 })

/-! ### the driver script `electrumx_compact_history` -/

/-- `if history.comp_cursor == -1: history.comp_cursor = 0` and
    `history.comp_flush_count = max(history.comp_flush_count, 1)` -/
def driverInit (m : Mem) : Mem :=
  { m with compCursor := if m.compCursor = -1 then 0 else m.compCursor,
           compFlush := max m.compFlush 1 }

/-- `while history.comp_cursor != -1: history._compact_history(limit)`.  The list holds the limit of
    each iteration the process lives to perform (the script uses 8 000 000 every time).  Result: the
    system, and whether the loop condition became false (`true`) or the process was stopped or
    killed first, or died of an exception (`false`). -/
def driverLoop (maxRow : Nat) : List Nat → Sys → Sys × Bool
  | [], s => (s, decide (s.m.compCursor = -1))
  | limit :: rest, s =>
    if s.m.compCursor = -1 then (s, true)
    else
      match compactHistory maxRow limit s with
      | .error _ => (s, false)
      | .ok (_, s') => driverLoop maxRow rest s'

/-- `DB.set_flush_count(history.flush_count)`: a direct put of the UTXO state record -/
def setFlushCountEffect (s : Sys) : Effect :=
  .putUState { s.m.dbst with flushCount := s.m.histFlush }

/-- One run of the script on the persistent store `p`, up to the death of the process:
    `limits` as in `driverLoop`; `setFlush` = whether `set_flush_count` still ran when the loop ended.
    The result is what is on disk afterwards.  (`openDbs … = none`: the tx-count assertion of
    `_read_tx_counts` failed; it does not touch the history DB.) -/
def compactScript (cfg : Cfg) (maxRow : Nat) (p : Store) (limits : List Nat) (setFlush : Bool) : Store :=
  match openDbs cfg p true none with
  | none => p
  | some (_, s) =>
    if s.m.dbst.firstSync then s.p                           -- `assert not db.state.first_sync`
    else
      match driverLoop maxRow limits { s with m := driverInit s.m } with
      | (s', true) => if setFlush then applyEffect s'.p (setFlushCountEffect s') else s'.p
      | (s', false) => s'.p

/-- a normal start of the server on `p` (`open_for_sync` / `open_for_serving`): `_cancel_compaction`
    happens in memory only (inside `openDbs`); what is on disk afterwards -/
def serverStart (cfg : Cfg) (p : Store) : Store :=
  match openDbs cfg p false none with
  | none => p
  | some (_, s) => s.p

end EV.Compact

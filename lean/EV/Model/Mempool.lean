import EV.Gen.Consts
/-
Literal model of `electrumx/server/mempool.py :: MemPool` (`_accept_transactions`,
`_fetch_and_accept`, `_process_mempool`, `_refresh_hashes`, and the four query methods).

Representation
* hashes / hashXs are numbers (big-endian value of the bytes); a pair is `(hashX, value)`;
  values are `Int` (`read_output` reads a *signed* 64-bit value).
* Python dicts are association lists with unique keys (`dget`/`dset`/filter); a Python set is a
  duplicate-free list; iteration orders that the interpreter chooses (`set.difference`, the order
  in which the `TaskGroup` finishes the chunk tasks) are *inputs* of the model:
    - `allHashes` is the daemon's hash set *as a list in the order `list(all_hashes.difference(txs))`
      iterates it* (only the relative order of the new hashes matters);
    - `order` is the order in which the `_fetch_and_accept` tasks complete (indices into the list of
      200-chunks in spawn order).  Each task touches shared state only in its final synchronous
      segment (`_accept_transactions` after the `lookup_utxos` await), everything before reads only
      the immutable `all_hashes`, so "the chunks' accept segments run in `order`" is exact.
* the daemon and the index are parameters: `fetch h` = what `raw_transactions` + `read_tx` +
  `hashX_from_script` give for hash `h` in this refresh (`none` = the daemon answered `None`);
  `lookup k ps` = the list `lookup_utxos(ps)` returns for the call made by chunk `k`.
* Python exceptions are data (`PyExc`).  `KeyError` inside the `try` of `_accept_transactions`
  defers the transaction; `IndexError` (`out_pairs[prev_index]` out of range) is **not** caught by
  the code and is an error outcome here; `hashXs[hashX].remove(tx_hash)` raises `KeyError` when the
  hash is not in the set (the `defaultdict` creates an empty set for a missing key first).

No imports outside `EV.Gen` (literal constants): linked into `evdrv`.
-/
namespace EV.Mempool

abbrev Hash := Nat
abbrev HashX := Nat
abbrev Prevout := Hash × Nat
abbrev Pair := HashX × Int

inductive PyExc where
  | keyError
  | indexError
  | attributeError
  | dbSyncError
  | fuel            -- the model's loop fuel ran out (proved impossible)
deriving DecidableEq, Repr, Inhabited

structure MemPoolTx where
  prevouts : List Prevout
  inPairs : List Pair
  outPairs : List Pair
  fee : Int
  size : Nat
deriving DecidableEq, Repr, Inhabited

/-- what `read_tx` + `coin.hashX_from_script` deliver for a raw transaction: every input's
    `(prev_hash, prev_idx)` (generation-like ones included), every output's `(hashX, value)`, and
    the serialised size -/
structure RawTx where
  inputs : List Prevout
  outs : List Pair
  size : Nat
deriving DecidableEq, Repr, Inhabited

abbrev TxMap := List (Hash × MemPoolTx)
abbrev HashXs := List (HashX × List Hash)
/-- `utxo_map`: newest binding first, `umGet` takes the first match (so `dict.update` is `++` on
    the left and `dict(zip(ks, vs))` is the reversed zip) -/
abbrev UtxoMap := List (Prevout × Option Pair)

structure St where
  txs : TxMap := []
  hashXs : HashXs := []
deriving DecidableEq, Repr, Inhabited

/-! ### dict / set primitives -/

def dget {V : Type} : List (Hash × V) → Hash → Option V
  | [], _ => none
  | (k', v) :: r, k => if k' = k then some v else dget r k

/-- `d[k] = v` -/
def dset {V : Type} : List (Hash × V) → Hash → V → List (Hash × V)
  | [], k, v => [(k, v)]
  | (k', v') :: r, k, v => if k' = k then (k, v) :: r else (k', v') :: dset r k v

def hasKey {V : Type} (d : List (Hash × V)) (k : Hash) : Bool := (dget d k).isSome

/-- `utxo_map.get(prevout)`; a stored `None` and a missing key are both falsy -/
def umGet : UtxoMap → Prevout → Option Pair
  | [], _ => none
  | (k, v) :: r, p => if k = p then v else umGet r p

/-- `set(iterable)` (which representative order is irrelevant) -/
def dedup : List Nat → List Nat
  | [] => []
  | x :: xs => if xs.contains x then dedup xs else x :: dedup xs

/-- `hashXs[x].add(h)` on the `defaultdict(set)` -/
def hxAdd : HashXs → HashX → Hash → HashXs
  | [], x, h => [(x, [h])]
  | (k, s) :: r, x, h =>
    if k = x then (k, if s.contains h then s else s ++ [h]) :: r else (k, s) :: hxAdd r x h

/-- `hashXs[x].remove(h); if not hashXs[x]: del hashXs[x]` -/
def hxRemove : HashXs → HashX → Hash → Except PyExc HashXs
  | [], _, _ => .error .keyError
  | (k, s) :: r, x, h =>
    if k = x then
      if s.contains h then .ok (if (s.erase h).isEmpty then r else (k, s.erase h) :: r)
      else .error .keyError
    else match hxRemove r x h with
      | .error e => .error e
      | .ok r' => .ok ((k, s) :: r')

def hxGet : HashXs → HashX → Option (List Hash)
  | [], _ => none
  | (k, s) :: r, x => if k = x then some s else hxGet r x

/-! ### `_accept_transactions` -/

def sumV : List Pair → Int
  | [] => 0
  | p :: r => p.2 + sumV r

/-- `max(0, sum(in) - sum(out))` -/
def feeOf (ins outs : List Pair) : Int := max 0 (sumV ins - sumV outs)

inductive Res where
  | found (p : Pair)
  | keyErr
  | indexErr
deriving DecidableEq, Repr

/-- `utxo = utxo_map.get(prevout); if not utxo: utxo = txs[prev_hash].out_pairs[prev_index]` -/
def resolve (txs : TxMap) (um : UtxoMap) (p : Prevout) : Res :=
  match umGet um p with
  | some pr => .found pr
  | none =>
    match dget txs p.1 with
    | none => .keyErr
    | some tx =>
      match tx.outPairs[p.2]? with
      | none => .indexErr
      | some pr => .found pr

/-- the `for prevout in tx.prevouts` loop: stops at the first exception -/
def resolveAll (txs : TxMap) (um : UtxoMap) : List Prevout → Except PyExc (List Pair)
  | [] => .ok []
  | p :: ps =>
    match resolve txs um p with
    | .keyErr => .error .keyError
    | .indexErr => .error .indexError
    | .found pr =>
      match resolveAll txs um ps with
      | .error e => .error e
      | .ok l => .ok (pr :: l)

/-- `for hashX, _ in chain(in_pairs, out_pairs): hashXs[hashX].add(tx_hash)` -/
def hxAddAll (hx : HashXs) (h : Hash) : List HashX → HashXs
  | [] => hx
  | x :: xs => hxAddAll (hxAdd hx x h) h xs

structure Acc where
  st : St
  deferred : TxMap
  spent : List Prevout
  touched : List HashX
deriving Repr, Inhabited

/-- the transaction as it is stored on acceptance -/
def accepted (tx : MemPoolTx) (inPairs : List Pair) : MemPoolTx :=
  { prevouts := tx.prevouts, inPairs := inPairs, outPairs := tx.outPairs,
    fee := feeOf inPairs tx.outPairs, size := tx.size }

/-- one iteration of `for tx_hash, tx in tx_map.items()` -/
def acceptStep (um : UtxoMap) (a : Acc) (e : Hash × MemPoolTx) : Except PyExc Acc :=
  match resolveAll a.st.txs um e.2.prevouts with
  | .error .keyError =>
    .ok { st := a.st, deferred := a.deferred ++ [e], spent := a.spent, touched := a.touched }
  | .error ex => .error ex      -- IndexError escapes `_accept_transactions`
  | .ok inPairs =>
    .ok { st := { txs := dset a.st.txs e.1 (accepted e.2 inPairs),
                  hashXs := hxAddAll a.st.hashXs e.1 ((inPairs ++ e.2.outPairs).map (·.1)) },
          deferred := a.deferred,
          spent := a.spent ++ e.2.prevouts,
          touched := a.touched ++ (inPairs ++ e.2.outPairs).map (·.1) }

def acceptLoop (um : UtxoMap) : Acc → TxMap → Except PyExc Acc
  | a, [] => .ok a
  | a, e :: es =>
    match acceptStep um a e with
    | .error ex => .error ex
    | .ok a' => acceptLoop um a' es

structure AcceptResult where
  st : St
  deferred : TxMap
  unspent : UtxoMap
  touched : List HashX
deriving Repr, Inhabited

/-- `_accept_transactions(tx_map, utxo_map, touched)`; the returned dict
    `{prevout: utxo_map[prevout] for prevout in unspent}` is the filter of the association list -/
def acceptTransactions (st : St) (txMap : TxMap) (um : UtxoMap) (touched : List HashX) :
    Except PyExc AcceptResult :=
  match acceptLoop um { st := st, deferred := [], spent := [], touched := touched } txMap with
  | .error e => .error e
  | .ok a => .ok { st := a.st, deferred := a.deferred,
                   unspent := um.filter (fun e => !a.spent.contains e.1), touched := a.touched }

/-! ### `_fetch_and_accept` -/

/-- `txin.is_generation()`: `prev_idx == MINUS_1 and prev_hash == ZERO` -/
def isGeneration (p : Prevout) : Bool := p.2 == 4294967295 && p.1 == 0

/-- `MemPoolTx(txin_pairs, None, txout_pairs, 0, tx_size)` -/
def mkTx (t : RawTx) : MemPoolTx :=
  { prevouts := t.inputs.filter (fun p => !isGeneration p), inPairs := [], outPairs := t.outs,
    fee := 0, size := t.size }

/-- `deserialize_txs`: raw txs answered `None` are skipped -/
def txMapOf (fetch : Hash → Option RawTx) : List Hash → TxMap
  | [] => []
  | h :: hs =>
    match fetch h with
    | none => txMapOf fetch hs
    | some t => (h, mkTx t) :: txMapOf fetch hs

/-- `tuple(prevout for tx in tx_map.values() for prevout in tx.prevouts if prevout[0] not in all_hashes)` -/
def lookupPrevouts (allHashes : List Hash) (txMap : TxMap) : List Prevout :=
  (txMap.flatMap (fun e => e.2.prevouts)).filter (fun p => !allHashes.contains p.1)

/-- `{prevout: utxo for prevout, utxo in zip(prevouts, utxos)}` -/
def utxoMapOf (ps : List Prevout) (rs : List (Option Pair)) : UtxoMap := (List.zip ps rs).reverse

def fetchAndAccept (st : St) (allHashes : List Hash) (fetch : Hash → Option RawTx)
    (lookup : Nat → List Prevout → List (Option Pair)) (k : Nat) (hashes : List Hash)
    (touched : List HashX) : Except PyExc AcceptResult :=
  acceptTransactions st (txMapOf fetch hashes)
    (utxoMapOf (lookupPrevouts allHashes (txMapOf fetch hashes))
               (lookup k (lookupPrevouts allHashes (txMapOf fetch hashes))))
    touched

/-! ### `_process_mempool` -/

/-- `set(hashX for hashX, value in tx.in_pairs)` `.update(hashX for hashX, value in tx.out_pairs)` -/
def txHashXs (tx : MemPoolTx) : List HashX := dedup ((tx.inPairs ++ tx.outPairs).map (·.1))

/-- `for hashX in tx_hashXs: hashXs[hashX].remove(tx_hash); if not hashXs[hashX]: del hashXs[hashX]` -/
def unindex (h : Hash) : HashXs → List HashX → Except PyExc HashXs
  | hx, [] => .ok hx
  | hx, x :: xs =>
    match hxRemove hx x h with
    | .error e => .error e
    | .ok hx' => unindex h hx' xs

/-- `for tx_hash in set(txs).difference(all_hashes): tx = txs.pop(tx_hash); ...` over the vanished
    entries (a snapshot taken before the loop) -/
def removalLoop : St → List HashX → TxMap → Except PyExc (St × List HashX)
  | st, touched, [] => .ok (st, touched)
  | st, touched, e :: rest =>
    match unindex e.1 st.hashXs (txHashXs e.2) with
    | .error ex => .error ex
    | .ok hx' =>
      removalLoop { txs := st.txs.filter (fun e' => e'.1 != e.1), hashXs := hx' }
        (touched ++ txHashXs e.2) rest

/-- `chunks(items, size)`: `items[i:i+size] for i in range(0, len(items), size)` -/
def chunksAux {α : Type} (n : Nat) : Nat → List α → List (List α)
  | 0, _ => []
  | f + 1, l => if l.isEmpty then [] else l.take n :: chunksAux n f (l.drop n)

def chunksOf {α : Type} (n : Nat) (l : List α) : List (List α) := chunksAux n l.length l

structure Merge where
  st : St
  txMap : TxMap
  um : UtxoMap
  touched : List HashX
deriving Repr, Inhabited

/-- the chunk tasks' accept segments in completion order, and
    `async for task in group: tx_map.update(deferred); utxo_map.update(unspent)`
    (chunk key sets are disjoint, so `tx_map.update` is `++`) -/
def chunkPhase (allHashes : List Hash) (fetch : Hash → Option RawTx)
    (lookup : Nat → List Prevout → List (Option Pair)) (chunks : List (List Hash)) :
    Merge → List Nat → Except PyExc Merge
  | m, [] => .ok m
  | m, k :: ks =>
    match fetchAndAccept m.st allHashes fetch lookup k (chunks.getD k []) m.touched with
    | .error e => .error e
    | .ok r =>
      chunkPhase allHashes fetch lookup chunks
        { st := r.st, txMap := m.txMap ++ r.deferred, um := r.unspent ++ m.um, touched := r.touched } ks

/-- `while tx_map and len(tx_map) != prior_count: prior_count = len(tx_map);
    tx_map, utxo_map = self._accept_transactions(tx_map, utxo_map, touched)` -/
def deferredLoop : Nat → St → TxMap → UtxoMap → Nat → List HashX → Except PyExc (St × TxMap × List HashX)
  | 0, _, _, _, _, _ => .error .fuel
  | fuel + 1, st, txMap, um, prior, touched =>
    if txMap.isEmpty || txMap.length == prior then .ok (st, txMap, touched)
    else
      match acceptTransactions st txMap um touched with
      | .error e => .error e
      | .ok r => deferredLoop fuel r.st r.deferred r.unspent txMap.length r.touched

/-- `list(all_hashes.difference(txs))` -/
def newHashes (txs : TxMap) (allHashes : List Hash) : List Hash :=
  allHashes.filter (fun h => !hasKey txs h)

structure ProcResult where
  st : St
  touched : List HashX
  /-- hashes of the transactions logged as "dropped" -/
  dropped : List Hash
deriving DecidableEq, Repr, Inhabited

/-- the part of `_process_mempool` after the removal phase -/
def processNew (cs : Nat) (st : St) (allHashes : List Hash) (touched : List HashX)
    (fetch : Hash → Option RawTx) (lookup : Nat → List Prevout → List (Option Pair))
    (order : List Nat) : Except PyExc ProcResult :=
  if (newHashes st.txs allHashes).isEmpty then .ok { st := st, touched := touched, dropped := [] }
  else
    match chunkPhase allHashes fetch lookup (chunksOf cs (newHashes st.txs allHashes))
            { st := st, txMap := [], um := [], touched := touched } order with
    | .error e => .error e
    | .ok m =>
      match deferredLoop (m.txMap.length + 1) m.st m.txMap m.um 0 m.touched with
      | .error e => .error e
      | .ok r => .ok { st := r.1, touched := r.2.2, dropped := r.2.1.map (·.1) }

def processMempoolN (cs : Nat) (st : St) (allHashes : List Hash) (touched : List HashX)
    (mempoolHeight dbHeight : Int) (fetch : Hash → Option RawTx)
    (lookup : Nat → List Prevout → List (Option Pair)) (order : List Nat) : Except PyExc ProcResult :=
  if mempoolHeight ≠ dbHeight then .error .dbSyncError
  else
    match removalLoop st touched (st.txs.filter (fun e => !allHashes.contains e.1)) with
    | .error e => .error e
    | .ok r => processNew cs r.1 allHashes r.2 fetch lookup order

/-- `_process_mempool` with the chunk size of the source (`chunks(new_hashes, 200)`) -/
def processMempool := processMempoolN EV.Gen.mempoolChunk

/-! ### `_refresh_hashes` -/

/-- everything the environment contributes to one iteration of the `while True` loop -/
structure Round where
  cachedHeight : Int                 -- `self.api.cached_height()`
  hashes : List Hash                 -- `await self.api.mempool_hashes()`
  height : Int                       -- `await self.api.height()`
  dbHeight : Int                     -- `self.api.db_height()` when `_process_mempool` starts
  fetch : Hash → Option RawTx
  lookup : Nat → List Prevout → List (Option Pair)
  order : List Nat

structure Loop where
  st : St := {}
  touched : List HashX := []
  /-- the `on_mempool(touched, height)` calls so far, oldest first -/
  emits : List (List HashX × Int) := []
deriving Repr, Inhabited

/-- one iteration: `continue` when the height moved during the listing; `DBSyncError` leaves state
    and `touched` as they are; otherwise the view is handed over and `touched` starts afresh.
    Any other exception ends the task. -/
def refreshRound (cs : Nat) (l : Loop) (r : Round) : Except PyExc Loop :=
  if r.cachedHeight ≠ r.height then .ok l
  else
    match processMempoolN cs l.st r.hashes l.touched r.cachedHeight r.dbHeight r.fetch r.lookup r.order with
    | .error .dbSyncError => .ok l
    | .error e => .error e
    | .ok p => .ok { st := p.st, touched := [], emits := l.emits ++ [(p.touched, r.cachedHeight)] }

def refreshLoop (cs : Nat) : Loop → List Round → Except PyExc Loop
  | l, [] => .ok l
  | l, r :: rs =>
    match refreshRound cs l r with
    | .error e => .error e
    | .ok l' => refreshLoop cs l' rs

/-! ### the external interface -/

/-- the transactions behind `self.hashXs.get(hashX, ())`, in the set's order; `self.txs[hash]`
    raises `KeyError` for a dangling hash (`exc` = the exception the particular method raises) -/
def touchingAux (exc : PyExc) (txs : TxMap) : List Hash → Except PyExc TxMap
  | [] => .ok []
  | h :: hs =>
    match dget txs h with
    | none => .error exc
    | some tx =>
      match touchingAux exc txs hs with
      | .error e => .error e
      | .ok l => .ok ((h, tx) :: l)

def touching (exc : PyExc) (st : St) (x : HashX) : Except PyExc TxMap :=
  touchingAux exc st.txs ((hxGet st.hashXs x).getD [])

def sumIf (x : HashX) : List Pair → Int
  | [] => 0
  | p :: r => if p.1 = x then p.2 + sumIf x r else sumIf x r

/-- `value -= sum(in of hashX); value += sum(out of hashX)` over a list of transactions -/
def balanceOf (x : HashX) : TxMap → Int
  | [] => 0
  | e :: r => sumIf x e.2.outPairs - sumIf x e.2.inPairs + balanceOf x r

def balanceDelta (st : St) (x : HashX) : Except PyExc Int :=
  match touching .keyError st x with
  | .error e => .error e
  | .ok l => .ok (balanceOf x l)

def potentialSpends (st : St) (x : HashX) : Except PyExc (List Prevout) :=
  match touching .keyError st x with
  | .error e => .error e
  | .ok l => .ok (l.flatMap (fun e => e.2.prevouts))

/-- `(hash, fee, has_unconfirmed_inputs)` -/
abbrev Summary := Hash × Int × Bool

def summaryOf (txs : TxMap) (e : Hash × MemPoolTx) : Summary :=
  (e.1, e.2.fee, e.2.prevouts.any (fun p => hasKey txs p.1))

def transactionSummaries (st : St) (x : HashX) : Except PyExc (List Summary) :=
  match touching .keyError st x with
  | .error e => .error e
  | .ok l => .ok (l.map (summaryOf st.txs))

/-- `(tx_hash, pos, value)` of `UTXO(-1, pos, tx_hash, 0, value)` -/
abbrev MpUtxo := Hash × Nat × Int

def utxosOfAux (x : HashX) (h : Hash) : Nat → List Pair → List MpUtxo
  | _, [] => []
  | pos, p :: r => if p.1 = x then (h, pos, p.2) :: utxosOfAux x h (pos + 1) r else utxosOfAux x h (pos + 1) r

def utxosOf (x : HashX) (e : Hash × MemPoolTx) : List MpUtxo := utxosOfAux x e.1 0 e.2.outPairs

/-- `self.txs.get(tx_hash)` then `tx.out_pairs`: a dangling hash gives `AttributeError` -/
def unorderedUTXOs (st : St) (x : HashX) : Except PyExc (List MpUtxo) :=
  match touching .attributeError st x with
  | .error e => .error e
  | .ok l => .ok (l.flatMap (utxosOf x))

/-! ### specification: what the daemon's mempool and the confirmed UTXO set imply -/

/-- `lookup_utxos` of an index whose confirmed-unspent set is exactly `U` -/
def ulookup (U : List (Prevout × Pair)) (p : Prevout) : Option Pair :=
  match U.find? (fun e => e.1 == p) with
  | none => none
  | some e => some e.2

/-- the funding pair of a prevout: output of the parent if the parent is in the mempool `M`
    (with contents `W`), else the confirmed UTXO map `U` -/
def specIn (W : Hash → Option RawTx) (M : List Hash) (U : List (Prevout × Pair)) (p : Prevout) : Option Pair :=
  if M.contains p.1 then
    match W p.1 with
    | none => none
    | some t => t.outs[p.2]?
  else ulookup U p

def specTx (W : Hash → Option RawTx) (M : List Hash) (U : List (Prevout × Pair)) (t : RawTx) : MemPoolTx :=
  accepted (mkTx t) ((mkTx t).prevouts.filterMap (specIn W M U))

/-- every transaction of `M` with its true funding pairs and fee -/
def specPool (W : Hash → Option RawTx) (M : List Hash) (U : List (Prevout × Pair)) : TxMap :=
  M.filterMap (fun h => (W h).map (fun t => (h, specTx W M U t)))

def touches (x : HashX) (e : Hash × MemPoolTx) : Bool :=
  ((e.2.inPairs ++ e.2.outPairs).map (·.1)).contains x

def specBalance (pool : TxMap) (x : HashX) : Int := balanceOf x pool
def specSummaries (pool : TxMap) (x : HashX) : List Summary :=
  (pool.filter (touches x)).map (summaryOf pool)
def specUTXOs (pool : TxMap) (x : HashX) : List MpUtxo := pool.flatMap (utxosOf x)
def specSpends (pool : TxMap) (x : HashX) : List Prevout :=
  (pool.filter (touches x)).flatMap (fun e => e.2.prevouts)

/-- the inverse index a pool implies (used by the driver to print the spec in the state format) -/
def specIndex (pool : TxMap) : HashXs :=
  pool.foldl (fun hx e => hxAddAll hx e.1 ((e.2.inPairs ++ e.2.outPairs).map (·.1))) []

end EV.Mempool

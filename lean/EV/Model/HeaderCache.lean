import EV.Model.Merkle

/-
Model of the header merkle cache (`DB.header_mc : MerkleCache` over `DB.fs_block_hashes`) under
concurrency with a chain reorganisation (C11, F7).

`MerkleCache._extend_to` is cut at its `await self.source_func(...)`:
  `extStart`  – the coroutine decides to extend and remembers `start`, the target length and (fixed
                code) the truncation counter;
  `extRead`   – the worker thread reads the hashes from the DB as it is *at that moment*;
  `extFinish` – the coroutine resumes: fixed code writes only if no `truncate()` ran in between and
                otherwise starts over; the pinned code (`Orig`) writes unconditionally.
`backup n` = `backup_fs` of a reorg: the DB keeps its first `n` block hashes and
`header_mc.truncate(n)` runs (in the worker thread); `append` = blocks advanced and flushed.
No imports beyond the Merkle model (linked into `evdrv`).
-/
namespace EV.HeaderCache
open EV.Merkle

variable {Node : Type} (H : Node → Node → Node)

/-- an extension of the cache in flight -/
structure Ext (Node : Type) where
  target : Nat
  start : Nat
  truncAtStart : Nat
  hashes : Option (List Node) := none     -- `none`: the worker has not read yet

structure St (Node : Type) where
  c : Cache Node := {}
  truncations : Nat := 0
  src : List Node := []                   -- the DB's block hashes, by height
  ext : Option (Ext Node) := none

inductive Ev (Node : Type) where
  | extStart (length : Nat)
  | extRead
  | extFinish
  | backup (n : Nat)
  | append (ns : List Node)

/-- the two assignments at the end of `_extend_to` -/
def writeExt (c : Cache Node) (e : Ext Node) (hs : List Node) : Cache Node :=
  match Merkle.level H hs c.depthHigher with
  | .error _ => c
  | .ok lv => { c with level := c.level.take (e.start >>> c.depthHigher) ++ lv, length := e.target }

/-- one step; `fixed = false` is the pinned code -/
def step (fixed : Bool) (s : St Node) : Ev Node → St Node
  | .extStart l =>
    if l ≤ s.c.length then s
    else match s.ext with
      | some _ => s       -- one extension in flight at a time in this model
      | none => { s with ext := some { target := l, start := s.c.leafStart s.c.length,
                                        truncAtStart := s.truncations } }
  | .extRead =>
    match s.ext with
    | some e =>
      match e.hashes with
      | some _ => s
      | none =>
        if e.target ≤ s.src.length then
          { s with ext := some { e with hashes := some (srcSlice s.src e.start (e.target - e.start)) } }
        else { s with ext := none }     -- DBError: not enough headers; the request fails
    | none => s
  | .extFinish =>
    match s.ext with
    | some e =>
      match e.hashes with
      | none => s
      | some hs =>
        if fixed && e.truncAtStart != s.truncations then
          -- a truncation happened whilst waiting: start over
          if e.target ≤ s.c.length then { s with ext := none }
          else { s with ext := some { target := e.target, start := s.c.leafStart s.c.length,
                                      truncAtStart := s.truncations } }
        else { s with c := writeExt H s.c e hs, ext := none }
    | none => s
  | .backup n =>
    if 0 < n ∧ n < s.src.length then
      { s with src := s.src.take n, c := (s.c.truncate (.int n)).1, truncations := s.truncations + 1 }
    else s
  | .append ns => { s with src := s.src ++ ns }

def run (fixed : Bool) (s : St Node) (evs : List (Ev Node)) : St Node := evs.foldl (step H fixed) s

end EV.HeaderCache

import EV.Model.Merkle

/-
Model of the header merkle cache (`DB.header_mc : MerkleCache` over `DB.fs_block_hashes`) with any
number of concurrent `blockchain.block.header(height, cp_height)` / `blockchain.block.headers(start,
count, cp_height)` requests - the WHOLE handlers: header read, then proof, then the consistency
check of the reply - and chain reorganisations (C11; F7, F17, F18, F19, F24).

Code modelled, literally:
  session.py  `block_header`, `block_headers` (after argument validation and the `MAX_CHUNK_SIZE`
              clamp, which are C16/C17's; cost accounting is not modelled), `SessionManager.raw_header`
              `_merkle_proof`           range check `height <= cp_height <= db.state.height`, the
                                        proof, `root_from_proof(header_hash(raw_header), branch,
                                        height) != root` -> `None` -> the handler reads again
  db.py       `header_branch_and_root`, `fs_block_hashes`, `read_headers` (bounded by
              `DB.state.height` *when the worker thread runs*), `flush_backup` / `backup_fs`
              (lowering `DB.state` and `header_mc.truncate(height + 1)`, in the order of the code)
  merkle.py   `MerkleCache.branch_and_root`, `_extend_to`, `_level_for`, `truncate`

The DB side.  `src` is the list of block hashes a reader can see (`fs_block_hashes` can return
`src[a : a+n]` and nothing beyond: `read_headers` clips at `DB.state.height`).  A back-out
(`flush_backup`, one worker-thread job) is two events `boBegin n`, `boEnd` — lowering the state
(`src := src.take n`) and `truncate(n)` (+ `truncations += 1`) in the order given by
`Cfg.lowerFirst`; event-loop steps and other worker threads run between the two.  `append` (new
blocks flushed, `DB.state` raised) only happens when no back-out is half done (the block processor
awaits the job).

Headers are modelled by their hashes (`coin.header_hash(header)`, the leaves of the tree): the header
file is `src`, and `read_headers(start, count)` returns `src[start : start+count]` clipped at
`DB.state.height` (`srcSlice`).

A request is a program counter over the awaits of the handler: `PC.hdr` (the handler's own
`await read_headers`, via `raw_header` for `block_header`), then the awaits of `branch_and_root`.  Every
`await self.source_func(start, count)` / `await read_headers(start, count)` is cut into
  issue    (the coroutine evaluates `start`, `count` and suspends;  `Rd.issued`)
  perform  (`Ev.perform i`: the worker thread runs `read_headers`: it returns
            `min(count, len(src) - start)` headers of `src` *as it is then*; `Rd.got` if that is
            `count`, `Rd.short` otherwise)
  deliver  (`Ev.deliver i`: the coroutine resumes — `fs_block_hashes` raises `DBError` on a short
            read — and runs to its next await or to its end).
`Cfg` selects the variants of the code: all `true` = the current (fixed) code.
  extFix = false     `_extend_to` as pinned: `if length <= self.length: return` once, then
                     `while True:` read; `if truncations == self.truncations: break`; write
                     unconditionally (F17: no `cached_length == self.length` test)
  retry = false      `branch_and_root` as pinned: one pass, no truncation check at the end (F19)
  lowerFirst = false `flush_backup` as pinned: `backup_fs` truncates first, `DB.state` is lowered
                     at the end of `flush_utxo_db` (F18)
  hdrCheck = false   `block_header` / `block_headers` as pinned: the header read first is returned
                     with whatever proof comes later (F24: no check that the branch folds from the
                     header to the root, no second read)
Ghost fields (never read by a transition): `St.ref`, `Req.seen`, `Req.bo`.
No imports beyond the Merkle model (linked into `evdrv`).
-/
namespace EV.HeaderCache
open EV.Merkle

structure Cfg where
  extFix : Bool := true
  retry : Bool := true
  lowerFirst : Bool := true
  hdrCheck : Bool := true
deriving Repr, DecidableEq

/-- the current code -/
def Cfg.fixed : Cfg := {}

inductive Err where
  | dbError                 -- `DB.DBError`: fewer headers on disk than asked for
  | py (e : PyExc)          -- raised inside merkle.py
deriving Repr, DecidableEq

/-- how a request ends -/
inductive Res (Node : Type) where
  | answer (br : List (Elt Node)) (root : Node)
  | error (e : Err)
  | refused                 -- `RPCError(BAD_REQUEST)`: the range check, or no header at `height`
  | plain                   -- a reply without proof: `cp_height == 0`, or no header to prove
deriving Repr, DecidableEq

/-- which handler -/
inductive Handler where
  | header                  -- `block_header(height, cp_height)`
  | headers                 -- `block_headers(start_height, count, cp_height)`
deriving Repr, DecidableEq

/-- an `await source_func(start, count)` -/
inductive Rd (Node : Type) where
  | issued
  | got (hs : List Node)
  | short
deriving Repr, DecidableEq

inductive PC (Node : Type) where
  /-- in the handler, at `await self.session_mgr.raw_header(height)` resp.
      `await self.db.read_headers(start_height, max_count)`; never `Rd.short`: `read_headers`
      returns what there is -/
  | hdr (rd : Rd Node)
  /-- in `_extend_to`, at `hashes = await self.source_func(start, length - start)`;
      `t`, `cl` = the locals `truncations`, `cached_length` -/
  | ext (t cl start : Nat) (rd : Rd Node)
  /-- in `branch_and_root`, at `leaf_hashes = await self.source_func(leaf_start, count)` -/
  | leaf (rd : Rd Node)
  /-- in `_level_for`, at `hashes = await self.source_func(leaf_start, count)`; `pre` = the local
      `level = self.level[:length >> self.depth_higher]`, `leaf` = the caller's `leaf_hashes` -/
  | lvl (pre leaf : List Node) (rd : Rd Node)
  | done (r : Res Node)
deriving Repr, DecidableEq

structure Req (Node : Type) where
  length : Nat              -- `cp_height + 1`
  index : Nat               -- `height` of the header proven: `height` resp. `last_height`
  t0 : Nat                  -- `truncations` at the top of the current `while True:` iteration
  pc : PC Node
  /-- ghost: the values of `src` from the request's start to its end, newest first -/
  seen : List (List Node)
  /-- ghost: some back-out was half done, began or ended while the request was active -/
  bo : Bool
  kind : Handler
  first : Nat               -- `height` resp. `start_height`
  count : Nat               -- `1` resp. `min(count, MAX_CHUNK_SIZE)`
  /-- `raw_header` resp. `headers` of the current iteration of the handler, as hashes -/
  hdrs : List Node

structure St (Node : Type) where
  c : Cache Node := {}
  truncations : Nat := 0
  src : List Node := []
  /-- `some n`: a back-out to `n` hashes has done its first half -/
  pending : Option Nat := none
  reqs : List (Req Node) := []
  /-- ghost: the chain the cache is judged against: `src`, and between the two halves of a
      back-out the chain before it -/
  ref : List Node := []

inductive Ev (Node : Type) where
  | header (height cp : Nat)
  | headers (first count cp : Nat)
  | perform (i : Nat)
  | deliver (i : Nat)
  | boBegin (n : Nat)
  | boEnd
  | append (ns : List Node)
deriving Repr

variable {Node : Type} (H : Node → Node → Node)

def Req.active (r : Req Node) : Bool :=
  match r.pc with
  | .done _ => false
  | _ => true

/-- inside `_merkle_proof`, past its range check -/
def Req.proving (r : Req Node) : Bool :=
  match r.pc with
  | .done _ => false
  | .hdr _ => false
  | _ => true

/-- ghost bookkeeping when `src` changes / a back-out event happens -/
def Req.see (S : List Node) (r : Req Node) : Req Node :=
  if r.active then { r with seen := S :: r.seen } else r

def Req.markBo (r : Req Node) : Req Node :=
  if r.active then { r with bo := true } else r

/-- `_extend_to` at its test of `self.length` (entry of the pinned code, loop condition of the
    fixed code): either nothing to do — the caller goes on to issue its leaf read — or the
    extension read is issued -/
def enterExtend (c : Cache Node) (T : Nat) (r : Req Node) : Req Node :=
  if r.length ≤ c.length then { r with pc := .leaf .issued }
  else { r with pc := .ext T c.length (c.leafStart c.length) .issued }

/-- top of an iteration of `branch_and_root`: `truncations = self.truncations`, `_extend_to` -/
def beginIter (c : Cache Node) (T : Nat) (r : Req Node) : Req Node :=
  enterExtend c T { r with t0 := T }

/-- `self.level[start >> self.depth_higher:] = lv; self.length = length` -/
def writeExt (c : Cache Node) (start length : Nat) (lv : List Node) : Cache Node :=
  { c with level := c.level.take (start >>> c.depthHigher) ++ lv, length := length }

/-- the end of an iteration: an exception propagates; a result is returned — by the fixed code only
    if no truncation happened since the top of the iteration, otherwise it starts over -/
def finish (cfg : Cfg) (c : Cache Node) (T : Nat) (r : Req Node)
    (res : Except PyExc (List (Elt Node) × Node)) : Req Node :=
  match res with
  | .error e => { r with pc := .done (.error (.py e)) }
  | .ok x =>
    if cfg.retry && (T != r.t0) then beginIter c T r
    else { r with pc := .done (.answer x.1 x.2) }

/-- the coroutine of request `r` resumes with the result of its read and runs to its next await -/
def deliverReq [DecidableEq Node] (cfg : Cfg) (c : Cache Node) (T : Nat) (r : Req Node) :
    Cache Node × Req Node :=
  match r.pc with
  | .ext t cl start (.got hs) =>
    if cfg.extFix then
      if t = T ∧ cl = c.length then
        match Merkle.level H hs c.depthHigher with
        | .error e => (c, { r with pc := .done (.error (.py e)) })
        | .ok lv => (writeExt c start r.length lv, enterExtend (writeExt c start r.length lv) T r)
      else (c, enterExtend c T r)
    else
      if t = T then
        match Merkle.level H hs c.depthHigher with
        | .error e => (c, { r with pc := .done (.error (.py e)) })
        | .ok lv => (writeExt c start r.length lv, { r with pc := .leaf .issued })
      else if r.length < c.leafStart c.length then
        -- `read_headers(start, count)` with `count < 0` raises `DBError` at once
        (c, { r with pc := .done (.error .dbError) })
      else (c, { r with pc := .ext T c.length (c.leafStart c.length) .issued })
  | .ext _ _ _ .short => (c, { r with pc := .done (.error .dbError) })
  | .leaf (.got hs) =>
    if r.length < c.segLen then
      (c, finish cfg c T r (branchAndRoot H hs (.int r.index) none false))
    else if r.length = c.length then
      (c, finish cfg c T r
        (branchAndRootFromLevel H (.list c.level) (.list hs) (.int r.index) c.depthHigher false))
    else (c, { r with pc := .lvl (c.level.take (r.length >>> c.depthHigher)) hs .issued })
  | .leaf .short => (c, { r with pc := .done (.error .dbError) })
  | .lvl pre leaf (.got hs) =>
    match Merkle.level H hs c.depthHigher with
    | .error e => (c, { r with pc := .done (.error (.py e)) })
    | .ok lv =>
      (c, finish cfg c T r
        (branchAndRootFromLevel H (.list (pre ++ lv)) (.list leaf) (.int r.index) c.depthHigher false))
  | .lvl _ _ .short => (c, { r with pc := .done (.error .dbError) })
  | _ => (c, r)

/-- `_merkle_proof` from its range check (`max_height = self.db.state.height` is `vis - 1`) to the
    first await of `branch_and_root` -/
def enterProof (c : Cache Node) (T vis : Nat) (r : Req Node) : Req Node :=
  if r.index < r.length ∧ r.length ≤ vis then beginIter c T r
  else { r with pc := .done .refused }

/-- the handler resumes with the headers it asked for and runs to its next await:
    `block_header`: `DB.raw_header` raises `IndexError` (-> `RPCError`) unless exactly one header
    came; `cp_height == 0`: the header alone is the reply; else `_merkle_proof(cp_height, height, …)`.
    `block_headers`: `if count and cp_height:` `_merkle_proof(cp_height, start_height + count - 1, …)`.
    (`index` is the height of the last header in hand; the code computes it only when it is needed.) -/
def afterHdr (c : Cache Node) (T vis : Nat) (r : Req Node) (hs : List Node) : Req Node :=
  match r.kind with
  | .header =>
    if hs.length ≠ 1 then { r with pc := .done .refused }
    else if r.length = 1 then { r with hdrs := hs, index := r.first, pc := .done .plain }
    else enterProof c T vis { r with hdrs := hs, index := r.first }
  | .headers =>
    if hs.length = 0 ∨ r.length = 1 then
      { r with hdrs := hs, index := r.first + hs.length - 1, pc := .done .plain }
    else enterProof c T vis { r with hdrs := hs, index := r.first + hs.length - 1 }

/-- the elements of a classic (`tsc_format=False`) branch; it never contains the TSC marker
    (C12 `bar_fold`) -/
def branchNodes : List (Elt Node) → List Node
  | [] => []
  | .node x :: rest => x :: branchNodes rest
  | .star :: rest => branchNodes rest

/-- the end of `_merkle_proof`, and what the handler does with its result.  Current code:
    `root_from_proof(header_hash(raw_header), branch, height)` (`raw_header` = the last header read,
    `headers[-80:]`) must be the root, else `None` and the handler's `while True:` reads the
    header(s) again; a `ValueError` of `root_from_proof` propagates.  Pinned code: no check. -/
def afterProof [DecidableEq Node] (cfg : Cfg) (r : Req Node) : Req Node :=
  match r.pc with
  | .done (.answer br root) =>
    if cfg.hdrCheck then
      match r.hdrs.getLast? with
      | none => { r with pc := .hdr .issued }
      | some h =>
        match rootFromProof H h (branchNodes br) r.index with
        | .error e => { r with pc := .done (.error (.py e)) }
        | .ok x => if x = root then r else { r with pc := .hdr .issued }
    else r
  | _ => r

/-- the coroutine of request `r` (the whole handler) resumes with the result of its read -/
def deliverAll [DecidableEq Node] (cfg : Cfg) (c : Cache Node) (T vis : Nat) (r : Req Node) :
    Cache Node × Req Node :=
  match r.pc with
  | .done _ => (c, r)
  | .hdr (.got hs) => (c, afterHdr c T vis r hs)
  | .hdr _ => (c, r)
  | _ => ((deliverReq H cfg c T r).1, afterProof H cfg (deliverReq H cfg c T r).2)

/-- `(start, count)` of the read request `r` is waiting for a worker thread to perform -/
def readArgs (c : Cache Node) (r : Req Node) : Option (Nat × Nat) :=
  match r.pc with
  | .ext _ _ start .issued => some (start, r.length - start)
  | .leaf .issued => some (c.leafStart r.index, min c.segLen (r.length - c.leafStart r.index))
  | .lvl _ _ .issued => some (c.leafStart r.length, min c.segLen (r.length - c.leafStart r.length))
  | _ => none

def setRd (pc : PC Node) (rd : Rd Node) : PC Node :=
  match pc with
  | .hdr _ => .hdr rd
  | .ext t cl s _ => .ext t cl s rd
  | .leaf _ => .leaf rd
  | .lvl p l _ => .lvl p l rd
  | .done r => .done r

/-- `read_headers` in the worker thread: `disk_count = max(0, min(count, state.height + 1 - start))`;
    `fs_block_hashes` accepts only `disk_count == count` -/
def readSrc (src : List Node) (start count : Nat) : Rd Node :=
  if count ≤ src.length - start then .got (srcSlice src start count) else .short

/-- a worker thread performs the pending read of `r`: the handler's own `read_headers(first,
    count)` returns the headers there are (`srcSlice` clips like `disk_count`), a read of
    `fs_block_hashes` is all or nothing (`readSrc`) -/
def performReq (c : Cache Node) (src : List Node) (r : Req Node) : Req Node :=
  match r.pc with
  | .hdr .issued => { r with pc := .hdr (.got (srcSlice src r.first r.count)) }
  | _ =>
    match readArgs c r with
    | none => r
    | some x => { r with pc := setRd r.pc (readSrc src x.1 x.2) }

/-- a new request: the handler runs to its first await, the read of the header(s) -/
def newReq (T : Nat) (src : List Node) (halfDone : Bool) (kind : Handler) (first count cp : Nat) :
    Req Node :=
  { length := cp + 1, index := first, t0 := T, pc := .hdr .issued, seen := [src], bo := halfDone,
    kind := kind, first := first, count := count, hdrs := [] }

def step [DecidableEq Node] (cfg : Cfg) (s : St Node) : Ev Node → St Node
  | .header height cp =>
    { s with reqs := s.reqs ++ [newReq s.truncations s.src s.pending.isSome .header height 1 cp] }
  | .headers first count cp =>
    { s with reqs := s.reqs ++ [newReq s.truncations s.src s.pending.isSome .headers first count cp] }
  | .perform i =>
    match s.reqs[i]? with
    | none => s
    | some r => { s with reqs := s.reqs.set i (performReq s.c s.src r) }
  | .deliver i =>
    match s.reqs[i]? with
    | none => s
    | some r =>
      { s with c := (deliverAll H cfg s.c s.truncations s.src.length r).1,
               reqs := s.reqs.set i (deliverAll H cfg s.c s.truncations s.src.length r).2 }
  | .boBegin n =>
    if s.pending = none ∧ 0 < n ∧ n < s.src.length then
      if cfg.lowerFirst then
        { s with src := s.src.take n, pending := some n,
                 reqs := s.reqs.map (fun r => (r.see (s.src.take n)).markBo) }
      else
        { s with c := (s.c.truncate (.int n)).1, truncations := s.truncations + 1, pending := some n,
                 reqs := s.reqs.map Req.markBo }
    else s
  | .boEnd =>
    match s.pending with
    | none => s
    | some n =>
      if cfg.lowerFirst then
        { s with c := (s.c.truncate (.int n)).1, truncations := s.truncations + 1, pending := none,
                 ref := s.src, reqs := s.reqs.map Req.markBo }
      else
        { s with src := s.src.take n, pending := none, ref := s.src.take n,
                 reqs := s.reqs.map (fun r => (r.see (s.src.take n)).markBo) }
  | .append ns =>
    if s.pending = none then
      { s with src := s.src ++ ns, ref := s.src ++ ns, reqs := s.reqs.map (Req.see (s.src ++ ns)) }
    else s

def run [DecidableEq Node] (cfg : Cfg) (s : St Node) (evs : List (Ev Node)) : St Node :=
  evs.foldl (step H cfg) s

/-- `block_header(height, cp)` with nothing between the start, the read of the header and its
    delivery: the request is at the range check of `_merkle_proof` at once -/
def startAtomic (height cp i : Nat) : List (Ev Node) := [.header height cp, .perform i, .deliver i]

/-- the property's clause for one finished request: an answer is the from-scratch branch and root
    of the first `length` hashes of a chain that was visible during the request -/
def Req.Safe (r : Req Node) : Prop :=
  match r.pc with
  | .done (.answer br root) =>
    ∃ S ∈ r.seen, r.length ≤ S.length ∧
      branchAndRoot H (S.take r.length) (.int r.index) none false = .ok (br, root)
  | _ => True

/-- the clause for the reply as a whole (F24): the last header of the reply - the one the proof is
    of - folds along the returned branch to the returned root, as the client will check -/
def Req.Folds (r : Req Node) : Prop :=
  match r.pc with
  | .done (.answer br root) =>
    match r.hdrs.getLast? with
    | none => False
    | some h => rootFromProof H h (branchNodes br) r.index = .ok root
  | _ => True

end EV.HeaderCache

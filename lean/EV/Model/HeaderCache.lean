import EV.Model.Merkle

/-
Model of the header merkle cache (`DB.header_mc : MerkleCache` over `DB.fs_block_hashes`) with any
number of concurrent header-proof requests and chain reorganisations (C11; F7, F17, F18, F19).

Code modelled, literally:
  session.py  `_merkle_proof`           range check `height <= cp_height <= db.state.height`
  db.py       `header_branch_and_root`, `fs_block_hashes`, `read_headers` (bounded by
              `DB.state.height` *when the worker thread runs*), `flush_backup` / `backup_fs`
              (lowering `DB.state` and `header_mc.truncate(height + 1)`, in the order of the code)
  merkle.py   `MerkleCache.branch_and_root`, `_extend_to`, `_level_for`, `truncate`

The DB side.  `src` is the list of block hashes a reader can see (`fs_block_hashes` can return
`src[a : a+n]` and nothing beyond: `read_headers` clips at `DB.state.height`).  A back-out
(`flush_backup`, one worker-thread job) is two events `boBegin n`, `boEnd` — lowering the state
(`src := src.take n`) and `truncate(n)` (+ `truncations += 1`) in the order given by
`Cfg.lowerFirst`; event-loop steps and other worker threads run between the two.  `append` (new
blocks flushed, `DB.state` raised) only happens when no back-out is half done (the block processor
awaits the job).

A request is a program counter over the awaits of `branch_and_root`.  Every
`await self.source_func(start, count)` is cut into
  issue    (the coroutine evaluates `start`, `count` and suspends;  `Rd.issued`)
  perform  (`Ev.perform i`: the worker thread runs `read_headers`: it returns
            `min(count, len(src) - start)` headers of `src` *as it is then*; `Rd.got` if that is
            `count`, `Rd.short` otherwise)
  deliver  (`Ev.deliver i`: the coroutine resumes — `fs_block_hashes` raises `DBError` on a short
            read — and runs to its next await or to its end).
`Cfg` selects the variants of the code: all `true` = the current (fixed) code.
  extFix = false     `_extend_to` as pinned: `if length <= self.length: return` once, then
                     `while True:` read; `if truncations == self.truncations: break`; write
                     unconditionally (F17: no `cached_length == self.length` test)
  retry = false      `branch_and_root` as pinned: one pass, no truncation check at the end (F19)
  lowerFirst = false `flush_backup` as pinned: `backup_fs` truncates first, `DB.state` is lowered
                     at the end of `flush_utxo_db` (F18)
Ghost fields (never read by a transition): `St.ref`, `Req.seen`, `Req.bo`.
No imports beyond the Merkle model (linked into `evdrv`).
-/
namespace EV.HeaderCache
open EV.Merkle

structure Cfg where
  extFix : Bool := true
  retry : Bool := true
  lowerFirst : Bool := true
deriving Repr, DecidableEq

/-- the current code -/
def Cfg.fixed : Cfg := {}

inductive Err where
  | dbError                 -- `DB.DBError`: fewer headers on disk than asked for
  | py (e : PyExc)          -- raised inside merkle.py
deriving Repr, DecidableEq

/-- how a request ends -/
inductive Res (Node : Type) where
  | answer (br : List (Elt Node)) (root : Node)
  | error (e : Err)
  | refused                 -- `RPCError(BAD_REQUEST)` of the range check
deriving Repr, DecidableEq

/-- an `await source_func(start, count)` -/
inductive Rd (Node : Type) where
  | issued
  | got (hs : List Node)
  | short
deriving Repr, DecidableEq

inductive PC (Node : Type) where
  /-- in `_extend_to`, at `hashes = await self.source_func(start, length - start)`;
      `t`, `cl` = the locals `truncations`, `cached_length` -/
  | ext (t cl start : Nat) (rd : Rd Node)
  /-- in `branch_and_root`, at `leaf_hashes = await self.source_func(leaf_start, count)` -/
  | leaf (rd : Rd Node)
  /-- in `_level_for`, at `hashes = await self.source_func(leaf_start, count)`; `pre` = the local
      `level = self.level[:length >> self.depth_higher]`, `leaf` = the caller's `leaf_hashes` -/
  | lvl (pre leaf : List Node) (rd : Rd Node)
  | done (r : Res Node)
deriving Repr, DecidableEq

structure Req (Node : Type) where
  length : Nat              -- `cp_height + 1`
  index : Nat               -- `height`
  t0 : Nat                  -- `truncations` at the top of the current `while True:` iteration
  pc : PC Node
  /-- ghost: the values of `src` from the request's start to its end, newest first -/
  seen : List (List Node)
  /-- ghost: some back-out was half done, began or ended while the request was active -/
  bo : Bool

structure St (Node : Type) where
  c : Cache Node := {}
  truncations : Nat := 0
  src : List Node := []
  /-- `some n`: a back-out to `n` hashes has done its first half -/
  pending : Option Nat := none
  reqs : List (Req Node) := []
  /-- ghost: the chain the cache is judged against: `src`, and between the two halves of a
      back-out the chain before it -/
  ref : List Node := []

inductive Ev (Node : Type) where
  | start (cp height : Nat)
  | perform (i : Nat)
  | deliver (i : Nat)
  | boBegin (n : Nat)
  | boEnd
  | append (ns : List Node)
deriving Repr

variable {Node : Type} (H : Node → Node → Node)

def Req.active (r : Req Node) : Bool :=
  match r.pc with
  | .done _ => false
  | _ => true

/-- ghost bookkeeping when `src` changes / a back-out event happens -/
def Req.see (S : List Node) (r : Req Node) : Req Node :=
  if r.active then { r with seen := S :: r.seen } else r

def Req.markBo (r : Req Node) : Req Node :=
  if r.active then { r with bo := true } else r

/-- `_extend_to` at its test of `self.length` (entry of the pinned code, loop condition of the
    fixed code): either nothing to do — the caller goes on to issue its leaf read — or the
    extension read is issued -/
def enterExtend (c : Cache Node) (T : Nat) (r : Req Node) : Req Node :=
  if r.length ≤ c.length then { r with pc := .leaf .issued }
  else { r with pc := .ext T c.length (c.leafStart c.length) .issued }

/-- top of an iteration of `branch_and_root`: `truncations = self.truncations`, `_extend_to` -/
def beginIter (c : Cache Node) (T : Nat) (r : Req Node) : Req Node :=
  enterExtend c T { r with t0 := T }

/-- `self.level[start >> self.depth_higher:] = lv; self.length = length` -/
def writeExt (c : Cache Node) (start length : Nat) (lv : List Node) : Cache Node :=
  { c with level := c.level.take (start >>> c.depthHigher) ++ lv, length := length }

/-- the end of an iteration: an exception propagates; a result is returned — by the fixed code only
    if no truncation happened since the top of the iteration, otherwise it starts over -/
def finish (cfg : Cfg) (c : Cache Node) (T : Nat) (r : Req Node)
    (res : Except PyExc (List (Elt Node) × Node)) : Req Node :=
  match res with
  | .error e => { r with pc := .done (.error (.py e)) }
  | .ok x =>
    if cfg.retry && (T != r.t0) then beginIter c T r
    else { r with pc := .done (.answer x.1 x.2) }

/-- the coroutine of request `r` resumes with the result of its read and runs to its next await -/
def deliverReq [DecidableEq Node] (cfg : Cfg) (c : Cache Node) (T : Nat) (r : Req Node) :
    Cache Node × Req Node :=
  match r.pc with
  | .ext t cl start (.got hs) =>
    if cfg.extFix then
      if t = T ∧ cl = c.length then
        match Merkle.level H hs c.depthHigher with
        | .error e => (c, { r with pc := .done (.error (.py e)) })
        | .ok lv => (writeExt c start r.length lv, enterExtend (writeExt c start r.length lv) T r)
      else (c, enterExtend c T r)
    else
      if t = T then
        match Merkle.level H hs c.depthHigher with
        | .error e => (c, { r with pc := .done (.error (.py e)) })
        | .ok lv => (writeExt c start r.length lv, { r with pc := .leaf .issued })
      else if r.length < c.leafStart c.length then
        -- `read_headers(start, count)` with `count < 0` raises `DBError` at once
        (c, { r with pc := .done (.error .dbError) })
      else (c, { r with pc := .ext T c.length (c.leafStart c.length) .issued })
  | .ext _ _ _ .short => (c, { r with pc := .done (.error .dbError) })
  | .leaf (.got hs) =>
    if r.length < c.segLen then
      (c, finish cfg c T r (branchAndRoot H hs (.int r.index) none false))
    else if r.length = c.length then
      (c, finish cfg c T r
        (branchAndRootFromLevel H (.list c.level) (.list hs) (.int r.index) c.depthHigher false))
    else (c, { r with pc := .lvl (c.level.take (r.length >>> c.depthHigher)) hs .issued })
  | .leaf .short => (c, { r with pc := .done (.error .dbError) })
  | .lvl pre leaf (.got hs) =>
    match Merkle.level H hs c.depthHigher with
    | .error e => (c, { r with pc := .done (.error (.py e)) })
    | .ok lv =>
      (c, finish cfg c T r
        (branchAndRootFromLevel H (.list (pre ++ lv)) (.list leaf) (.int r.index) c.depthHigher false))
  | .lvl _ _ .short => (c, { r with pc := .done (.error .dbError) })
  | _ => (c, r)

/-- `(start, count)` of the read request `r` is waiting for a worker thread to perform -/
def readArgs (c : Cache Node) (r : Req Node) : Option (Nat × Nat) :=
  match r.pc with
  | .ext _ _ start .issued => some (start, r.length - start)
  | .leaf .issued => some (c.leafStart r.index, min c.segLen (r.length - c.leafStart r.index))
  | .lvl _ _ .issued => some (c.leafStart r.length, min c.segLen (r.length - c.leafStart r.length))
  | _ => none

def setRd (pc : PC Node) (rd : Rd Node) : PC Node :=
  match pc with
  | .ext t cl s _ => .ext t cl s rd
  | .leaf _ => .leaf rd
  | .lvl p l _ => .lvl p l rd
  | .done r => .done r

/-- `read_headers` in the worker thread: `disk_count = max(0, min(count, state.height + 1 - start))`;
    `fs_block_hashes` accepts only `disk_count == count` -/
def readSrc (src : List Node) (start count : Nat) : Rd Node :=
  if count ≤ src.length - start then .got (srcSlice src start count) else .short

def performReq (c : Cache Node) (src : List Node) (r : Req Node) : Req Node :=
  match readArgs c r with
  | none => r
  | some x => { r with pc := setRd r.pc (readSrc src x.1 x.2) }

/-- a new request: the range check of `_merkle_proof`, then `branch_and_root` to its first await -/
def newReq (c : Cache Node) (T : Nat) (src : List Node) (halfDone : Bool) (cp height : Nat) : Req Node :=
  if height ≤ cp ∧ cp < src.length then
    beginIter c T { length := cp + 1, index := height, t0 := T, pc := .done .refused, seen := [src], bo := halfDone }
  else { length := cp + 1, index := height, t0 := T, pc := .done .refused, seen := [src], bo := halfDone }

def step [DecidableEq Node] (cfg : Cfg) (s : St Node) : Ev Node → St Node
  | .start cp height =>
    { s with reqs := s.reqs ++ [newReq s.c s.truncations s.src s.pending.isSome cp height] }
  | .perform i =>
    match s.reqs[i]? with
    | none => s
    | some r => { s with reqs := s.reqs.set i (performReq s.c s.src r) }
  | .deliver i =>
    match s.reqs[i]? with
    | none => s
    | some r =>
      { s with c := (deliverReq H cfg s.c s.truncations r).1,
               reqs := s.reqs.set i (deliverReq H cfg s.c s.truncations r).2 }
  | .boBegin n =>
    if s.pending = none ∧ 0 < n ∧ n < s.src.length then
      if cfg.lowerFirst then
        { s with src := s.src.take n, pending := some n,
                 reqs := s.reqs.map (fun r => (r.see (s.src.take n)).markBo) }
      else
        { s with c := (s.c.truncate (.int n)).1, truncations := s.truncations + 1, pending := some n,
                 reqs := s.reqs.map Req.markBo }
    else s
  | .boEnd =>
    match s.pending with
    | none => s
    | some n =>
      if cfg.lowerFirst then
        { s with c := (s.c.truncate (.int n)).1, truncations := s.truncations + 1, pending := none,
                 ref := s.src, reqs := s.reqs.map Req.markBo }
      else
        { s with src := s.src.take n, pending := none, ref := s.src.take n,
                 reqs := s.reqs.map (fun r => (r.see (s.src.take n)).markBo) }
  | .append ns =>
    if s.pending = none then
      { s with src := s.src ++ ns, ref := s.src ++ ns, reqs := s.reqs.map (Req.see (s.src ++ ns)) }
    else s

def run [DecidableEq Node] (cfg : Cfg) (s : St Node) (evs : List (Ev Node)) : St Node :=
  evs.foldl (step H cfg) s

/-- the property's clause for one finished request: an answer is the from-scratch branch and root
    of the first `length` hashes of a chain that was visible during the request -/
def Req.Safe (r : Req Node) : Prop :=
  match r.pc with
  | .done (.answer br root) =>
    ∃ S ∈ r.seen, r.length ≤ S.length ∧
      branchAndRoot H (S.take r.length) (.int r.index) none false = .ok (br, root)
  | _ => True

end EV.HeaderCache

import EV.Model.SyncLoop

/-
The block-processing task with its touched set (`BlockProcessor.touched`) and with reorganisations:
`EV.SyncLoop` (forward loop: when blocks are advanced, flushed and when clients are told a height)
extended by
  * what `Notifications.on_block` is handed: the touched set accumulated in `Mem.touched` by
    `advance` (`advance_block`: `self.touched.update(hashXs)` per tx) and `backupFull`
    (`backup_block`: `touched_add(...)`, then `flush_backup(flush_data, self.touched)`),
  * where the set is emptied: at the end of `advance_blocks` while the server has not caught up
    (`if not self.caught_up: self.touched = set()`), and right after it has been handed over
    (`on_caught_up`: `await self.notifications.on_block(self.touched, self.state.height)`,
    `self.touched = set()`); the first `on_caught_up` only sets `caught_up` and leaves it alone,
  * `reorg_chain`: `flush(True)`, then `backup_block` for each block handed over, tip first.

Events, as they occur in `fetch_and_process_blocks`:
  `block b dH arg` – as in `EV.SyncLoop`: one iteration of the loop of `advance_blocks`;
  `stale arg`       – an iteration whose block does not connect to the tip: `advance_block` only
                      sets `reorg_count = -1` and returns; the flush requested by the cache-size
                      loop (`arg`), if any, is performed all the same;
  `batchEnd`        – the end of `advance_blocks`;
  `caughtUp`        – `on_caught_up`;
  `reorg bs`        – `reorg_chain` backing out `bs` (tip first).
The loop state is `EV.SyncLoop.Loop`; the steps shared with `EV.SyncLoop` are that model's `step`.
Restarts are not events (a restart loses the set together with every session).
No imports beyond the models (linked into `evdrv`).
-/
namespace EV.SyncLoopT
open EV.Index EV.SyncLoop

inductive Ev where
  | block (b : Block) (daemonH : Int) (flushArg : Option Bool)
  | stale (flushArg : Option Bool)
  | batchEnd
  | caughtUp
  | reorg (bs : List Block)
deriving Inhabited

/-- `self.touched = set()` -/
def resetTouched (s : Sys) : Sys := { s with m := { s.m with touched := [] } }

/-- the loop of `reorg_chain` over the blocks to back out -/
def backups (cfg : Cfg) : Sys → List Block → Except Err Sys
  | s, [] => .ok s
  | s, b :: r =>
    match backup cfg s b with
    | .error e => .error e
    | .ok s' => backups cfg s' r

/-- what the task lets the rest of the server see -/
inductive Out where
  /-- the first `on_caught_up`: `caught_up` is set (sessions can exist from here on), nothing is
      told; `s` = the index at that moment -/
  | first (s : Sys)
  /-- `Notifications.on_block(touched, height)`; `s` = the index at that moment -/
  | told (height : Int) (touched : List HashX) (s : Sys)
deriving Inhabited

def Out.sys : Out → Sys
  | .first s => s
  | .told _ _ s => s

def step (cfg : Cfg) (l : Loop) : Ev → Except Err (Loop × Option Out)
  | .block b d arg =>
    match SyncLoop.step cfg l (.block b d arg) with
    | .error e => .error e
    | .ok (l1, _) => .ok (l1, none)
  | .stale arg =>
    match arg with
    | none => .ok (l, none)
    | some a =>
      match flush l.s a with
      | .error e => .error e
      | .ok s1 => .ok ({ l with s := s1 }, none)
  | .batchEnd => .ok (if l.caughtUp then l else { l with s := resetTouched l.s }, none)
  | .caughtUp =>
    match SyncLoop.step cfg l .caughtUp with
    | .error e => .error e
    | .ok (l1, none) => .ok (l1, some (.first l1.s))
    | .ok (l1, some h) =>
      .ok ({ l1 with s := resetTouched l1.s }, some (.told h l1.s.m.touched l1.s))
  | .reorg bs =>
    match flush l.s true with
    | .error e => .error e
    | .ok s1 =>
      match backups cfg s1 bs with
      | .error e => .error e
      | .ok s2 => .ok ({ l with s := s2 }, none)

/-- run, collecting what is emitted -/
def run (cfg : Cfg) : Loop → List Ev → Except Err (Loop × List Out)
  | l, [] => .ok (l, [])
  | l, e :: r =>
    match step cfg l e with
    | .error err => .error err
    | .ok (l1, o) =>
      match run cfg l1 r with
      | .error err => .error err
      | .ok (l2, os) => .ok (l2, o.toList ++ os)

end EV.SyncLoopT

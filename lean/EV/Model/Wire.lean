/-
Helpers for the line protocol between the Python harness and the Lean driver.
No imports (linked into `evdrv`).
-/
namespace EV.Wire

def words (s : String) : List String :=
  (s.splitOn " ").filter (· ≠ "")

def natList (ws : List String) : Option (List Nat) := ws.mapM String.toNat?

def intList (ws : List String) : Option (List Int) := ws.mapM String.toInt?

/-- sorted, de-duplicated -/
def canonSet (l : List Nat) : List Nat :=
  (l.mergeSort (fun a b => decide (a ≤ b))).eraseDups

def joinWith (sep : String) (l : List String) : String := sep.intercalate l

def showNats (l : List Nat) : String := joinWith "," (l.map toString)

def showInts (l : List Int) : String := joinWith "," (l.map toString)

def hexDigit (n : Nat) : Char :=
  if n < 10 then Char.ofNat (48 + n) else Char.ofNat (87 + n)

def hexByte (b : Nat) : String :=
  String.ofList [hexDigit (b / 16 % 16), hexDigit (b % 16)]

def toHex (bs : List Nat) : String := String.join (bs.map hexByte)

def unhexDigit (c : Char) : Option Nat :=
  if '0' ≤ c ∧ c ≤ '9' then some (c.toNat - 48)
  else if 'a' ≤ c ∧ c ≤ 'f' then some (c.toNat - 87)
  else if 'A' ≤ c ∧ c ≤ 'F' then some (c.toNat - 55)
  else none

def ofHexChars : List Char → Option (List Nat)
  | [] => some []
  | [_] => none
  | a :: b :: rest => do
    let x ← unhexDigit a
    let y ← unhexDigit b
    let r ← ofHexChars rest
    pure ((x * 16 + y) :: r)

/-- "-" denotes the empty byte string -/
def ofHex (s : String) : Option (List Nat) :=
  if s = "-" then some [] else ofHexChars s.toList

def showHex (bs : List Nat) : String := if bs.isEmpty then "-" else toHex bs

end EV.Wire

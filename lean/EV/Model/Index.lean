/-
Concrete model of the ElectrumX index: `BlockProcessor.advance_block / backup_block / spend_utxo`,
`DB.flush_dbs / flush_fs / flush_utxo_db / flush_backup / _open_dbs / read paths`,
`History.add_unflushed / flush / backup / get_txnums / clear_excess` (compaction is in
`EV/Model/Compact.lean`).

Layout is modelled at *field* level: `h(pfx, idx, txnum) ↦ hashX`, `u(hashX, idx, txnum) ↦ value`,
`U(height) ↦ [cache values]`, `hist(hashX, flushId) ↦ [txnum]`, the three append-only meta files as
lists (with possible garbage beyond the committed length).  Hashes are numbers (the big-endian
value of the 32 bytes; `pfx` = first four bytes), hashXs are numbers (big-endian value of the
11 bytes) so that LevelDB key order equals the numeric order used here.

No imports: linked into `evdrv`.
-/
namespace EV.Index

abbrev Hash := Nat
abbrev HashX := Nat

/-- script class: what `is_unspendable_legacy / _genesis` look at -/
inductive Kind where
  | normal         -- anything else
  | opReturn       -- first byte 0x6a
  | opFalseReturn  -- first two bytes 0x00 0x6a
deriving DecidableEq, Repr, Inhabited

structure TxOut where
  value : Nat
  hx : HashX
  kind : Kind
deriving DecidableEq, Repr, Inhabited

structure TxIn where
  prev : Hash
  idx : Nat
deriving DecidableEq, Repr, Inhabited

structure Tx where
  id : Hash
  ins : List TxIn
  outs : List TxOut
deriving DecidableEq, Repr, Inhabited

structure Block where
  hash : Hash
  prev : Hash
  header : Nat
  size : Nat
  txs : List Tx
deriving DecidableEq, Repr, Inhabited

/-- `TxInput.is_generation`: prev_idx == 0xffffffff and prev_hash == 32 zero bytes -/
def TxIn.isGen (i : TxIn) : Bool := i.idx == 4294967295 && i.prev == 0

/-- `is_unspendable_genesis` at/after activation, `is_unspendable_legacy` before -/
def unspendable (act height : Nat) : Kind → Bool
  | .opFalseReturn => true
  | .opReturn => decide (height < act)
  | .normal => false

/-- the 4-byte compressed tx hash -/
def pfx (h : Hash) : Nat := h / 2 ^ 224

/-- `hashX + tx_num(5 bytes) + value(8 bytes)` -/
structure CacheVal where
  hx : HashX
  txnum : Nat
  value : Nat
deriving DecidableEq, Repr, Inhabited

inductive Err where
  | chainError      -- ChainError (missing UTXO / missing undo info)
  | assertion       -- AssertionError
  | reorg           -- not an exception: prev-hash mismatch, `reorg_count = -1`
deriving DecidableEq, Repr, Inhabited

/-! ### association lists (Python dicts / LevelDB tables) -/

def alookup {κ ν : Type} [DecidableEq κ] (k : κ) : List (κ × ν) → Option ν
  | [] => none
  | (k', v) :: r => if k' = k then some v else alookup k r

def aerase {κ ν : Type} [DecidableEq κ] (k : κ) (l : List (κ × ν)) : List (κ × ν) :=
  l.filter (fun e => !decide (e.1 = k))

/-- `d[k] = v` / `db.put(k, v)` -/
def ainsert {κ ν : Type} [DecidableEq κ] (k : κ) (v : ν) (l : List (κ × ν)) : List (κ × ν) :=
  (k, v) :: aerase k l

/-! ### state -/

/-- `ChainState` (wall-clock fields and db_version left out) -/
structure CState where
  height : Int := -1
  txCount : Nat := 0
  chainSize : Nat := 0
  tip : Hash := 0
  flushCount : Nat := 0
  utxoCount : Int := 0
  firstSync : Bool := true
deriving DecidableEq, Repr, Inhabited

abbrev HKey := Nat × Nat × Nat      -- (pfx, idx, txnum)
abbrev UKey := HashX × Nat × Nat    -- (hashX, idx, txnum)

inductive DelKey where
  | h (k : HKey)
  | u (k : UKey)
deriving DecidableEq, Repr, Inhabited

/-- history DB state record -/
structure HState where
  flushCount : Nat := 0
  compFlushCount : Int := -1
  compCursor : Int := -1
deriving DecidableEq, Repr, Inhabited

/-- everything that survives the process -/
structure Store where
  h : List (HKey × HashX) := []
  u : List (UKey × Nat) := []
  undo : List (Nat × List CacheVal) := []
  ustate : Option CState := none
  hist : List ((HashX × Nat) × List Nat) := []
  hstate : Option HState := none
  headers : List Nat := []       -- meta/headers, one entry per 80-byte header
  txcounts : List Nat := []      -- meta/txcounts
  hashes : List Hash := []       -- meta/hashes
deriving DecidableEq, Repr, Inhabited

/-- the in-memory side of `BlockProcessor`, `DB` and `History` -/
structure Mem where
  st : CState := {}              -- BlockProcessor.state
  dbst : CState := {}            -- DB.state (last UTXO flush)
  fsHeight : Int := -1
  fsTxCount : Nat := 0
  txCounts : List Nat := []      -- DB.tx_counts
  cache : List ((Hash × Nat) × CacheVal) := []
  deletes : List DelKey := []
  headersU : List Nat := []
  txHashesU : List (List Hash) := []
  undoU : List (List CacheVal × Nat) := []
  unflushed : List (HashX × List Nat) := []
  histFlush : Nat := 0           -- History.flush_count
  compFlush : Int := -1
  compCursor : Int := -1
  touched : List HashX := []
deriving DecidableEq, Repr, Inhabited

structure Sys where
  m : Mem := {}
  p : Store := {}
deriving DecidableEq, Repr, Inhabited

/-- configuration -/
structure Cfg where
  act : Nat          -- coin.GENESIS_ACTIVATION
  reorgLimit : Nat   -- env.reorg_limit
deriving Repr, Inhabited

/-! ### file helpers -/

/-- write `data` at record offset `off`: overwrites, keeps whatever lies beyond -/
def fileWrite {α : Type} (file : List α) (off : Nat) (data : List α) : List α :=
  file.take off ++ data ++ file.drop (off + data.length)

/-- `bisect_right(tx_counts, n)` on a non-decreasing list: number of entries `≤ n` in the prefix
    before the first entry `> n` -/
def bisectRight : List Nat → Nat → Nat
  | [], _ => 0
  | c :: cs, n => if c ≤ n then 1 + bisectRight cs n else 0

/-- `DB.fs_tx_hash`: `(hash?, height)`; the hash is `none` when the height is above `DB.state.height`.
    Reading beyond the end of the hashes file gives `none` as well (Python: `b''`, which no caller
    distinguishes from a mismatch). -/
def fsTxHash (s : Sys) (n : Nat) : Option Hash × Nat :=
  let ht := bisectRight s.m.txCounts n
  if (ht : Int) > s.m.dbst.height then (none, ht) else (s.p.hashes[n]?, ht)

/-! ### spend_utxo -/

/-- the candidate loop of `spend_utxo` over the rows with prefix `h + pfx + idx`
    (`ncand` = `len(candidates)`).  `.ok none` = loop fell through (ChainError follows). -/
def spendFromDb (s : Sys) (txid : Hash) (idx : Nat) (ncand : Nat) :
    List (HKey × HashX) → Except Err (Option (CacheVal × HKey × UKey))
  | [] => .ok none
  | (hk, hx) :: rest =>
    let skip : Except Err Bool :=
      if ncand > 1 then
        match (fsTxHash s hk.2.2).1 with
        | none => .error .assertion            -- `assert fs_hash is not None`
        | some fh => .ok (fh != txid)
      else .ok false
    match skip with
    | .error e => .error e
    | .ok true => spendFromDb s txid idx ncand rest
    | .ok false =>
      match alookup (hx, idx, hk.2.2) s.p.u with
      | some v => .ok (some (⟨hx, hk.2.2, v⟩, hk, (hx, idx, hk.2.2)))
      | none => spendFromDb s txid idx ncand rest

/-- `BlockProcessor.spend_utxo` -/
def spendUtxo (s : Sys) (txid : Hash) (idx : Nat) : Except Err (CacheVal × Sys) :=
  match alookup (txid, idx) s.m.cache with
  | some cv => .ok (cv, { s with m := { s.m with cache := aerase (txid, idx) s.m.cache } })
  | none =>
    match spendFromDb s txid idx
        (s.p.h.filter (fun e => e.1.1 == pfx txid && e.1.2.1 == idx)).length
        (s.p.h.filter (fun e => e.1.1 == pfx txid && e.1.2.1 == idx)) with
    | .error e => .error e
    | .ok (some (cv, hk, uk)) =>
      .ok (cv, { s with m := { s.m with deletes := s.m.deletes ++ [.h hk, .u uk] } })
    | .ok none => .error .chainError

/-! ### advance_block

The transaction loops are written once, over an abstract UTXO-store interface `UOps σ`
(`spend_utxo` / `put_utxo`), so that the same literal control flow runs on the concrete system
(`sysOps`: cache + DB rows + queued deletes) and on a plain map (used by the proofs). -/

structure UOps (σ : Type) where
  spend : σ → Hash → Nat → Except Err (CacheVal × σ)
  add : σ → Hash → Nat → CacheVal → σ

/-- the concrete store: `spend_utxo` and `utxo_cache[key] = value` -/
def sysOps : UOps Sys where
  spend := spendUtxo
  add := fun s txid idx cv =>
    { s with m := { s.m with cache := ainsert (txid, idx) cv s.m.cache } }

/-- per-block accumulators of `advance_block` / `backup_block` -/
structure Acc (σ : Type) where
  s : σ
  undo : List CacheVal := []
  hashXsByTx : List (List HashX) := []
  txHashes : List Hash := []
  txNum : Nat
  delta : Int := 0
  touched : List HashX := []

def spendInputs {σ : Type} (ops : UOps σ) (txIns : List TxIn) (a : Acc σ) (hxs : List HashX) :
    Except Err (Acc σ × List HashX) :=
  match txIns with
  | [] => .ok (a, hxs)
  | i :: rest =>
    if i.isGen then spendInputs ops rest a hxs
    else
      match ops.spend a.s i.prev i.idx with
      | .error e => .error e
      | .ok (cv, s') =>
        spendInputs ops rest { a with s := s', undo := a.undo ++ [cv], delta := a.delta - 1 }
          (hxs ++ [cv.hx])

def addOutputs {σ : Type} (ops : UOps σ) (cfg : Cfg) (height : Nat) (txid : Hash) (txNum : Nat) :
    List TxOut → Nat → Acc σ → List HashX → Acc σ × List HashX
  | [], _, a, hxs => (a, hxs)
  | o :: rest, idx, a, hxs =>
    if unspendable cfg.act height o.kind then addOutputs ops cfg height txid txNum rest (idx + 1) a hxs
    else
      addOutputs ops cfg height txid txNum rest (idx + 1)
        { a with s := ops.add a.s txid idx ⟨o.hx, txNum, o.value⟩, delta := a.delta + 1 }
        (hxs ++ [o.hx])

/-- bookkeeping at the end of one tx of `advance_block` -/
def finishTx {σ : Type} (r : Acc σ × List HashX) (txid : Hash) : Acc σ :=
  { r.1 with touched := r.1.touched ++ r.2, hashXsByTx := r.1.hashXsByTx ++ [r.2],
             txHashes := r.1.txHashes ++ [txid], txNum := r.1.txNum + 1 }

def advanceTxs {σ : Type} (ops : UOps σ) (cfg : Cfg) (height : Nat) :
    List Tx → Acc σ → Except Err (Acc σ)
  | [], a => .ok a
  | tx :: rest, a =>
    match spendInputs ops tx.ins a [] with
    | .error e => .error e
    | .ok (a1, hxs1) =>
      advanceTxs ops cfg height rest
        (finishTx (addOutputs ops cfg height tx.id a1.txNum tx.outs 0 a1 hxs1) tx.id)

/-- `History.add_unflushed`: per tx, each hashX of `set(hashXs)` gets the tx number appended -/
def addUnflushed (unflushed : List (HashX × List Nat)) (hashXsByTx : List (List HashX))
    (firstTxNum : Nat) : List (HashX × List Nat) :=
  (hashXsByTx.zipIdx firstTxNum).foldl (fun unf (hxs, n) =>
    hxs.eraseDups.foldl (fun unf hx =>
      ainsert hx ((alookup hx unf).getD [] ++ [n]) unf) unf) unflushed

/-- `BlockProcessor.advance_block(block)` at `block.height = state.height + 1`;
    `daemonH` = `daemon.cached_height()` -/
def advance (cfg : Cfg) (daemonH : Int) (s : Sys) (b : Block) : Except Err Sys :=
  if b.prev ≠ s.m.st.tip then .error .reorg
  else
    let height := (s.m.st.height + 1).toNat
    match advanceTxs sysOps cfg height b.txs { s := s, txNum := s.m.st.txCount } with
    | .error e => .error e
    | .ok a =>
      let m := { a.s.m with touched := a.s.m.touched ++ a.touched }
      let keepUndo : Bool := decide ((height : Int) ≥ daemonH - cfg.reorgLimit + 1)
      .ok { a.s with m := { m with
        txHashesU := m.txHashesU ++ [a.txHashes],
        unflushed := addUnflushed m.unflushed a.hashXsByTx m.st.txCount,
        txCounts := m.txCounts ++ [a.txNum],
        undoU := if keepUndo then m.undoU ++ [(a.undo, height)] else m.undoU,
        headersU := m.headersU ++ [b.header],
        st := { m.st with height := height, tip := b.hash, chainSize := m.st.chainSize + b.size,
                          utxoCount := m.st.utxoCount + a.delta, txCount := a.txNum } } }

/-! ### flushing -/

def assertFlushed (s : Sys) : Bool :=
  s.m.st.txCount == s.m.fsTxCount && s.m.fsTxCount == s.m.dbst.txCount &&
  s.m.st.height == s.m.fsHeight && s.m.fsHeight == s.m.dbst.height &&
  s.m.st.tip == s.m.dbst.tip &&
  s.m.headersU.isEmpty && s.m.txHashesU.isEmpty && s.m.cache.isEmpty && s.m.deletes.isEmpty &&
  s.m.undoU.isEmpty && s.m.unflushed.isEmpty

/-- the assertions at the top of `flush_fs` -/
def flushFsAsserts (s : Sys) : Bool :=
  let prior := if s.m.fsHeight ≥ 0 then s.m.txCounts.getD s.m.fsHeight.toNat 0 else 0
  s.m.txHashesU.length == s.m.headersU.length &&
  s.m.st.height == s.m.fsHeight + s.m.headersU.length &&
  s.m.st.txCount == (s.m.txCounts.getLast?.getD 0) &&
  (s.m.txCounts.length : Int) == s.m.st.height + 1 &&
  (s.m.txHashesU.flatten.length : Int) == (s.m.st.txCount : Int) - (prior : Int)

/-- persistent effects, one constructor per store operation (a crash falls between effects,
    or inside a file write) -/
inductive Effect where
  | writeHeaders (off : Nat) (data : List Nat)
  | writeTxCounts (off : Nat) (data : List Nat)
  | writeHashes (off : Nat) (data : List Hash)
  | histBatch (deletes : List (HashX × Nat)) (puts : List ((HashX × Nat) × List Nat)) (st : HState)
  | utxoBatch (deletes : List DelKey) (hputs : List (HKey × HashX)) (uputs : List (UKey × Nat))
      (undoDeletes : List Nat) (undoPuts : List (Nat × List CacheVal)) (st : Option CState)
  | putUState (st : CState)
deriving Repr, Inhabited

def applyDelKey (p : Store) : DelKey → Store
  | .h k => { p with h := aerase k p.h }
  | .u k => { p with u := aerase k p.u }

def applyEffect (p : Store) : Effect → Store
  | .writeHeaders off d => { p with headers := fileWrite p.headers off d }
  | .writeTxCounts off d => { p with txcounts := fileWrite p.txcounts off d }
  | .writeHashes off d => { p with hashes := fileWrite p.hashes off d }
  | .histBatch dels puts st =>
    let hist1 := dels.foldl (fun hs k => aerase k hs) p.hist
    let hist2 := puts.foldl (fun hs (k, v) => ainsert k v hs) hist1
    { p with hist := hist2, hstate := some st }
  | .utxoBatch dels hputs uputs undoDels undoPuts st =>
    let p1 := dels.foldl applyDelKey p
    let p2 := { p1 with h := hputs.foldl (fun t (k, v) => ainsert k v t) p1.h,
                        u := uputs.foldl (fun t (k, v) => ainsert k v t) p1.u }
    let undo1 := undoDels.foldl (fun t k => aerase k t) p2.undo
    let undo2 := undoPuts.foldl (fun t (k, v) => ainsert k v t) undo1
    { p2 with undo := undo2, ustate := match st with | some x => some x | none => p2.ustate }
  | .putUState st => { p with ustate := some st }

def applyEffects (p : Store) (es : List Effect) : Store := es.foldl applyEffect p

def hstateOf (m : Mem) : HState :=
  { flushCount := m.histFlush, compFlushCount := m.compFlush, compCursor := m.compCursor }

/-- sort hashX-keyed entries ascending (`for hashX in sorted(unflushed)`) -/
def sortByKey {ν : Type} (l : List (Nat × ν)) : List (Nat × ν) :=
  l.mergeSort (fun a b => decide (a.1 ≤ b.1))

/-- `flush_fs` effects -/
def flushFsEffects (s : Sys) : List Effect :=
  let start := (s.m.fsHeight + 1).toNat
  let prior := if s.m.fsHeight ≥ 0 then s.m.txCounts.getD s.m.fsHeight.toNat 0 else 0
  [.writeHeaders start s.m.headersU,
   .writeTxCounts start (s.m.txCounts.drop start),
   .writeHashes prior s.m.txHashesU.flatten]

/-- `History.flush` effect (under flush id `histFlush + 1`) -/
def histFlushEffect (s : Sys) : Effect :=
  let fid := s.m.histFlush + 1
  .histBatch [] ((sortByKey s.m.unflushed).map (fun (hx, nums) => ((hx, fid), nums)))
    { hstateOf s.m with flushCount := fid }

/-- `flush_utxo_db` batch for flush data whose state is `st'` -/
def utxoBatchEffect (s : Sys) (st' : CState) : Effect :=
  .utxoBatch s.m.deletes
    (s.m.cache.map (fun ((txid, idx), cv) => ((pfx txid, idx, cv.txnum), cv.hx)))
    (s.m.cache.map (fun ((_, idx), cv) => ((cv.hx, idx, cv.txnum), cv.value)))
    []
    (s.m.undoU.map (fun (ui, h) => (h, ui)))
    (some st')

/-- `DB.flush_dbs(flush_data, flush_utxos, _)`: the effect list and the memory afterwards.
    `none` = an assertion failed. -/
def flushDbs (s : Sys) (flushUtxos : Bool) : Option (List Effect × Mem) :=
  if s.m.st.height = s.m.dbst.height then
    if assertFlushed s then some ([], s.m) else none
  else if !flushFsAsserts s then none
  else
    let fid := s.m.histFlush + 1
    let st' := { s.m.st with flushCount := fid }
    let m1 : Mem := { s.m with
      headersU := [], txHashesU := [], fsHeight := s.m.st.height, fsTxCount := s.m.st.txCount,
      unflushed := [], histFlush := fid, st := st' }
    let es1 := flushFsEffects s ++ [histFlushEffect s]
    if flushUtxos then
      some (es1 ++ [utxoBatchEffect s st', .putUState st'],
            { m1 with cache := [], deletes := [], undoU := [], dbst := st' })
    else some (es1, m1)

def flush (s : Sys) (flushUtxos : Bool) : Except Err Sys :=
  match flushDbs s flushUtxos with
  | none => .error .assertion
  | some (es, m) => .ok { m := m, p := applyEffects s.p es }

/-! ### backup_block -/

/-- rows of one hashX in descending flush-id order (`iterator(prefix=hashX, reverse=True)`) -/
def histRowsDesc (hist : List ((HashX × Nat) × List Nat)) (hx : HashX) : List ((HashX × Nat) × List Nat) :=
  (hist.filter (fun e => e.1.1 == hx)).mergeSort (fun a b => decide (a.1.2 ≥ b.1.2))

/-- `bisect_left(a, x)` = number of leading entries `< x` of an ascending list -/
def bisectLeft : List Nat → Nat → Nat
  | [], _ => 0
  | c :: cs, x => if c < x then 1 + bisectLeft cs x else 0

/-- the per-hashX loop of `History.backup`: (deletes, puts) -/
def histBackupOne (txCount : Nat) :
    List ((HashX × Nat) × List Nat) → List (HashX × Nat) × List ((HashX × Nat) × List Nat)
  | [] => ([], [])
  | (k, nums) :: rest =>
    let idx := bisectLeft nums txCount
    if idx > 0 then ([], [(k, nums.take idx)])
    else
      let (d, p) := histBackupOne txCount rest
      (k :: d, p)

/-- `History.backup(hashXs, tx_count)` as one batch effect -/
def histBackupEffect (s : Sys) (touched : List HashX) (txCount : Nat) : Effect :=
  let hxs := (touched.eraseDups).mergeSort (fun a b => decide (a ≤ b))
  let parts := hxs.map (fun hx => histBackupOne txCount (histRowsDesc s.p.hist hx))
  .histBatch (parts.flatMap (·.1)) (parts.flatMap (·.2))
    { hstateOf s.m with flushCount := s.m.histFlush + 1 }

/-- restore the inputs of one tx (given already reversed), consuming the undo list from the back -/
def restoreInputs {σ : Type} (ops : UOps σ) :
    List TxIn → List CacheVal → Acc σ → Option (Acc σ × List CacheVal)
  | [], undo, a => some (a, undo)
  | i :: rest, undo, a =>
    if i.isGen then restoreInputs ops rest undo a
    else
      match undo.getLast? with
      | none => none
      | some cv =>
        restoreInputs ops rest undo.dropLast
          { a with s := ops.add a.s i.prev i.idx cv, touched := a.touched ++ [cv.hx],
                   delta := a.delta + 1 }

def spendOutputs {σ : Type} (ops : UOps σ) (cfg : Cfg) (height : Nat) (txid : Hash) :
    List TxOut → Nat → Acc σ → Except Err (Acc σ)
  | [], _, a => .ok a
  | o :: rest, idx, a =>
    if unspendable cfg.act height o.kind then spendOutputs ops cfg height txid rest (idx + 1) a
    else
      match ops.spend a.s txid idx with
      | .error e => .error e
      | .ok (cv, s') =>
        spendOutputs ops cfg height txid rest (idx + 1)
          { a with s := s', touched := a.touched ++ [cv.hx], delta := a.delta - 1 }

/-- the loop of `backup_block` over the txs (given already reversed) -/
def backupTxs {σ : Type} (ops : UOps σ) (cfg : Cfg) (height : Nat) :
    List Tx → List CacheVal → Acc σ → Except Err (Acc σ × List CacheVal)
  | [], undo, a => .ok (a, undo)
  | tx :: rest, undo, a =>
    match spendOutputs ops cfg height tx.id tx.outs 0 a with
    | .error e => .error e
    | .ok a1 =>
      match restoreInputs ops tx.ins.reverse undo a1 with
      | none => .error .assertion
      | some (a2, undo') => backupTxs ops cfg height rest undo' { a2 with txNum := a2.txNum + 1 }

/-- `BlockProcessor.backup_block(block)` incl. `DB.flush_backup`: effects and resulting system -/
def backupFull (cfg : Cfg) (s : Sys) (b : Block) : Except Err (List Effect × Sys) :=
  if !assertFlushed s then .error .assertion
  else if s.m.st.height ≤ 0 then .error .assertion
  else
    let height := s.m.st.height.toNat
    match alookup height s.p.undo with
    | none => .error .chainError
    | some undo =>
      match backupTxs sysOps cfg height b.txs.reverse undo { s := s, txNum := 0 } with
      | .error e => .error e
      | .ok (a, undoLeft) =>
        if !undoLeft.isEmpty then .error .assertion
        else
          let m := { a.s.m with touched := a.s.m.touched ++ a.touched }
          let st' : CState :=
            { m.st with
              height := m.st.height - 1
              tip := b.prev
              chainSize := m.st.chainSize - b.size
              utxoCount := m.st.utxoCount + a.delta
              txCount := m.st.txCount - a.txNum }
          -- flush_backup: backup_fs (pointers), History.backup, flush_utxo_db
          let m1 : Mem := { m with st := st', txCounts := m.txCounts.dropLast,
                                   fsHeight := st'.height, fsTxCount := st'.txCount }
          let s1 : Sys := { a.s with m := m1 }
          let e1 := histBackupEffect s1 m1.touched st'.txCount
          let m2 : Mem := { m1 with histFlush := m1.histFlush + 1 }
          let s2 : Sys := { s1 with m := m2 }
          -- NB: flush_backup does *not* copy history.flush_count into the flushed state
          let e2 := utxoBatchEffect s2 st'
          let m3 : Mem := { m2 with cache := [], deletes := [], undoU := [], dbst := st' }
          .ok ([e1, e2], { m := m3, p := applyEffects s.p [e1, e2] })

def backup (cfg : Cfg) (s : Sys) (b : Block) : Except Err Sys :=
  match backupFull cfg s b with
  | .error e => .error e
  | .ok (_, s') => .ok s'

/-! ### opening the databases -/

/-- `History.clear_excess` -/
def clearExcessEffect (p : Store) (hs : HState) (utxoFlush : Nat) : Option Effect :=
  if hs.flushCount ≤ utxoFlush then none
  else
    some (.histBatch ((p.hist.filter (fun e => e.1.2 > utxoFlush)).map (·.1)) []
      { hs with flushCount := utxoFlush })

/-- `clear_excess_undo_info`: keys in ascending height order, stop at the first one in the window -/
def clearUndoKeys (undo : List (Nat × List CacheVal)) (minHeight : Int) : List Nat :=
  let ks := (undo.map (·.1)).mergeSort (fun a b => decide (a ≤ b))
  ks.takeWhile (fun h => decide ((h : Int) < minHeight))

/-- the history state after `History.open_db`'s `clear_excess` -/
def openHistState (p : Store) : HState :=
  match clearExcessEffect p (p.hstate.getD {}) (p.ustate.getD {}).flushCount with
  | some _ => { (p.hstate.getD {}) with flushCount := (p.ustate.getD {}).flushCount }
  | none => p.hstate.getD {}

/-- the store after `clear_excess` -/
def openStore1 (p : Store) : Store :=
  applyEffects p (clearExcessEffect p (p.hstate.getD {}) (p.ustate.getD {}).flushCount).toList

/-- the effects of `clear_excess_undo_info` -/
def openUndoEffects (cfg : Cfg) (p1 : Store) (height : Int) : List Effect :=
  if (clearUndoKeys p1.undo (height - cfg.reorgLimit + 1)).isEmpty then []
  else [.utxoBatch [] [] [] (clearUndoKeys p1.undo (height - cfg.reorgLimit + 1)) [] none]

/-- the persistent store `_open_dbs` leaves behind -/
def openStore (cfg : Cfg) (p : Store) : Store :=
  applyEffects (openStore1 p) (openUndoEffects cfg (openStore1 p) (p.ustate.getD {}).height)

/-- `DB.state` right after `_open_dbs` (flush count taken from the history DB) -/
def openState (p : Store) (compacting : Bool) : CState × HState :=
  let hs2 : HState := if compacting then openHistState p
                      else { openHistState p with compFlushCount := -1, compCursor := -1 }
  ({ (p.ustate.getD {}) with flushCount := hs2.flushCount }, hs2)

/-- `_read_tx_counts` (`keep = some l`: same process, `tx_counts` kept) -/
def openTxCounts (p2 : Store) (st1 : CState) (keep : Option (List Nat)) : Option (List Nat) :=
  match keep with
  | some l => some l
  | none =>
    if (p2.txcounts.take (st1.height + 1).toNat).length == (st1.height + 1).toNat &&
        ((p2.txcounts.take (st1.height + 1).toNat).getLast?.getD 0) == st1.txCount
    then some (p2.txcounts.take (st1.height + 1).toNat) else none

/-- `_open_dbs(for_sync, compacting)` on a persistent store: the effects it performs and the fresh
    memory.  `keepTxCounts = some l` models a re-open in the same process (`tx_counts` kept). -/
def openDbs (cfg : Cfg) (p : Store) (compacting : Bool) (keepTxCounts : Option (List Nat)) :
    Option (List Effect × Sys) :=
  match openTxCounts (openStore cfg p) (openState p compacting).1 keepTxCounts with
  | none => none
  | some l =>
    some ((clearExcessEffect p (p.hstate.getD {}) (p.ustate.getD {}).flushCount).toList ++
            openUndoEffects cfg (openStore1 p) (p.ustate.getD {}).height,
      { p := openStore cfg p,
        m := { st := (openState p compacting).1, dbst := (openState p compacting).1,
               fsHeight := (openState p compacting).1.height,
               fsTxCount := (openState p compacting).1.txCount,
               txCounts := l, histFlush := (openState p compacting).2.flushCount,
               compFlush := (openState p compacting).2.compFlushCount,
               compCursor := (openState p compacting).2.compCursor } })

/-! ### read path -/

/-- `History.get_txnums(hashX, limit)`; `limit = none` = unlimited -/
def getTxnums (p : Store) (hx : HashX) (limit : Option Nat) : List Nat :=
  let rows := (p.hist.filter (fun e => e.1.1 == hx)).mergeSort (fun a b => decide (a.1.2 ≤ b.1.2))
  let all := rows.flatMap (·.2)
  match limit with
  | none => all
  | some n => all.take n

/-- `DB.limited_history`: `none` = some hash not resolvable yet (the real code sleeps and retries) -/
def limitedHistory (s : Sys) (hx : HashX) (limit : Option Nat) : Option (List (Hash × Nat)) :=
  (getTxnums s.p hx limit).mapM (fun n =>
    match fsTxHash s n with
    | (some h, ht) => some (h, ht)
    | (none, _) => none)

structure UtxoRow where
  txnum : Nat
  pos : Nat
  txid : Hash
  height : Nat
  value : Nat
deriving DecidableEq, Repr, Inhabited

/-- `DB.all_utxos` -/
def allUtxos (s : Sys) (hx : HashX) : Option (List UtxoRow) :=
  (s.p.u.filter (fun e => e.1.1 == hx)).mapM (fun ((_, idx, n), v) =>
    match fsTxHash s n with
    | (some h, ht) => some ⟨n, idx, h, ht, v⟩
    | (none, _) => none)

/-- `DB.lookup_utxos` for one prevout -/
def lookupUtxo (s : Sys) (txid : Hash) (idx : Nat) : Option (HashX × Nat) :=
  let cands := s.p.h.filter (fun e => e.1.1 == pfx txid && e.1.2.1 == idx)
  match cands.find? (fun e => (fsTxHash s e.1.2.2).1 == some txid) with
  | none => none
  | some (hk, hx) =>
    match alookup (hx, idx, hk.2.2) s.p.u with
    | none => none
    | some v => some (hx, v)

/-- `DB.fs_tx_hashes_at_blockheight` (`none` = DBError: above `DB.state.height`) -/
def txHashesAt (s : Sys) (height : Nat) : Option (List Hash) :=
  if (height : Int) > s.m.dbst.height then none
  else
    let first := if height > 0 then s.m.txCounts.getD (height - 1) 0 else 0
    let n := s.m.txCounts.getD height 0 - first
    some ((s.p.hashes.drop first).take n)

/-- `DB.read_headers(start, count)` -/
def readHeaders (s : Sys) (start count : Nat) : List Nat :=
  let disk := min (count : Int) (s.m.dbst.height + 1 - start)
  (s.p.headers.drop start).take disk.toNat

end EV.Index

import EV.Model.Index
/-
`DB.lookup_utxos` as the coroutine it is: two `run_in_thread` jobs with a suspension point in
between (`hashX_pairs = await run_in_thread(lookup_hashXs)`, then
`await run_in_thread(lookup_utxos, hashX_pairs)`), during which the block-processing task may
advance, flush, back out and re-advance.  Each job is read in one state (the granularity of every
other reader of this model); the two jobs may be read in different states.

  * `lookupHashX`  = the inner `lookup_hashX`: the `h` rows under `h + pfx(txid) + idx`, each
                     candidate's tx number resolved through `fs_tx_hash` and compared with the full
                     hash; the result carries the script hash and the tx number (`suffix`);
  * `lookupValue`  = the inner `lookup_utxo`: the `u` row `u + hashX + idx + tx_num`, and — since the
                     fix of F22 — a second `fs_tx_hash(tx_num)`, which must still give the prevout's
                     tx hash (tx numbers are reused after a back-out).  `recheck = false` is the
                     code before that fix (kept for the counterexample only).

`lookupUtxo` of `EV/Model/Index.lean` is both jobs read in one state (`lookupUtxoSplit_self`, proved
in `EV/Proofs/IndexLookup.lean` for either value of the flag).

No imports outside `EV.Model`: linked into `evdrv` (`Q_LOOKUP2A` / `Q_LOOKUP2B` of suite `index`).
-/
namespace EV.Index

/-- `lookup_hashX(tx_hash, tx_idx)`: `(hashX, tx_num)` of the first candidate row whose tx number
    resolves to the full hash; `none` = `(None, None)` -/
def lookupHashX (s : Sys) (txid : Hash) (idx : Nat) : Option (HashX × Nat) :=
  match (s.p.h.filter (fun e => e.1.1 == pfx txid && e.1.2.1 == idx)).find?
      (fun e => (fsTxHash s e.1.2.2).1 == some txid) with
  | none => none
  | some (hk, hx) => some (hx, hk.2.2)

/-- `lookup_utxo(tx_hash, hashX, suffix)` on the result of phase 1 -/
def lookupValue (recheck : Bool) (s : Sys) (txid : Hash) (idx : Nat) :
    Option (HashX × Nat) → Option (HashX × Nat)
  | none => none                                   -- `if not hashX: return None`
  | some (hx, n) =>
    match alookup (hx, idx, n) s.p.u with
    | none => none                                 -- `if not db_value: return None`
    | some v =>
      if recheck && (fsTxHash s n).1 != some txid then none   -- `if fs_hash != tx_hash: return None`
      else some (hx, v)

/-- one prevout of `lookup_utxos`, phase 1 read in `s1`, phase 2 in `s2` -/
def lookupUtxoSplit (recheck : Bool) (s1 s2 : Sys) (txid : Hash) (idx : Nat) : Option (HashX × Nat) :=
  lookupValue recheck s2 txid idx (lookupHashX s1 txid idx)

end EV.Index

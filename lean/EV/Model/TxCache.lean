import EV.Model.Merkle

/-
Model of the by-height caches of `SessionManager` (session.py) that decide WHICH tx-hash list a
transaction merkle proof folds (C11, transaction-proof half; C10, by-height answers), with any number
of concurrent requests, chain reorganisations, new blocks and LRU evictions.

Code modelled, literally:
  session.py  `SessionManager.tx_hashes_at_blockheight` (cache lookup `if tx_hashes:`; the re-read
              loop around `await self.db.tx_hashes_at_blockheight(height)` guarded by `_reorg_count`;
              the store), `_merkle_branch` (per-height `MerkleCache` for blocks of `>= thr` txs, stored
              BEFORE `initialize`), `merkle_branch_for_tx_pos`, `merkle_branch_for_tx_hash`,
              `tsc_merkle_proof_for_tx_hash` (`get_target` -> `raw_header`, the `root != root_from_header`
              sanity check), `ElectrumX.transaction_id_from_pos(merkle=False)`,
              `_handle_chain_reorgs` (a separate task: `_reorg_count += 1`, both caches cleared)
  db.py       `fs_tx_hashes_at_blockheight` (bound `block_height > self.state.height`, `tx_counts`
              subscripts, `hashes_file.read`, the `assert`), `read_headers`/`raw_header`, `flush_fs`
              (headers and hashes written at the offsets given by `fs_height` / `tx_counts`), the state
              raised afterwards (`flush_utxo_db`), `flush_backup` (`backup_fs`, state lowered)
  block_processor.py  `advance_block` (`db.tx_counts.append` at advance time; hashes and header kept
              in memory until the flush), `backup_block` (`db.tx_counts.pop()` BEFORE `flush_backup`
              lowers `DB.state`), `reorg_chain` (back-outs one block at a time, then
              `backed_up_event.set()`)
  lib/merkle.py  through the C12 model: `Cache.init` / `Cache.query` = `MerkleCache.initialize` /
              `branch_and_root` over the closure's list (`tx_hashes_func` never suspends, so
              `_merkle_branch` is one atomic step of the event loop)

A request is a program counter over its REAL suspension points: the worker-thread read of the tx
hashes (`PC.rd`) and, for TSC proofs, the worker-thread read of the header (`PC.hdr`).  Each read is
cut into issue (the coroutine suspends) / `Ev.perform i` (the worker thread runs against the DB *as
it is then*) / `Ev.deliver i` (the coroutine resumes and runs to its next await or its end).

`Cfg` selects the variants of the code; all `true` = the fixed code.
  reread = false      the re-read loop replaced by a single read whose result is returned but not
                      cached when `_reorg_count` moved (seeded change C11-1)
  stateBound = false  `fs_tx_hashes_at_blockheight` bounded by `len(tx_counts) - 1` (seeded C10-1)
  signal = false      `reorg_chain` does not signal `backed_up_event` (seeded C10-3)
  hitBound = false    the code as pinned: a cache hit is served whatever `DB.state.height` is
                      (finding: a block being backed out is served until `_handle_chain_reorgs` runs)
  sanity = false      `tsc_merkle_proof_for_tx_hash` without its `root != root_from_header` check
  fifo = false        (environment, not code) the `_handle_chain_reorgs` task, woken by
                      `backed_up_event.set()`, may be delayed beyond the next `advance_block`
Ghost fields (never read by a transition that decides behaviour): `St.disk`, `St.ref`, `Req.seen`.
No imports beyond the Merkle model (linked into `evdrv`).
-/
namespace EV.TxCache
open EV.Merkle

/-- an 80-byte header: its identity and its merkle-root field (`raw_header[36:68]`) -/
structure Hdr (Node : Type) where
  id : Nat
  root : Node
deriving Repr, DecidableEq

structure Block (Node : Type) where
  hdr : Hdr Node
  txs : List Node
deriving Repr, DecidableEq

structure Cfg where
  reread : Bool := true
  stateBound : Bool := true
  signal : Bool := true
  hitBound : Bool := true
  sanity : Bool := true
  fifo : Bool := true
  /-- `if tx_hash_count >= 200:` in `_merkle_branch` -/
  thr : Nat := 200
deriving Repr, DecidableEq

/-- the fixed code, for any threshold -/
def Cfg.fixed (thr : Nat) : Cfg := { thr := thr }

/-- the block processor: idle (fetching / advancing / flushing), or inside `reorg_chain` with `left`
    blocks still to back out; `popped`: `backup_block` has done `tx_counts.pop()` but `flush_backup`
    has not yet lowered `DB.state` -/
inductive BP where
  | idle
  | backing (left : Nat) (popped : Bool)
deriving Repr, DecidableEq

inductive Kind (Node : Type) where
  | idPos (pos : Nat)       -- `transaction.id_from_pos(height, pos, merkle=False)`
  | brPos (pos : Nat)       -- `merkle_branch_for_tx_pos`
  | brHash (tx : Node)      -- `merkle_branch_for_tx_hash`
  | tsc (tx : Node)         -- `tsc_merkle_proof_for_tx_hash`
deriving Repr, DecidableEq

/-- why an `RPCError(BAD_REQUEST)` -/
inductive Why where
  | dbError        -- `db error: …` (`DB.DBError` of the read: block not on disk)
  | noTx           -- `no tx at position …`
  | notInBlock     -- `tx … not in block at height …`
  | noHeader       -- `height … out of range` (`raw_header`)
  | sanity         -- `db error. Merkle root from cached block header does not match …`
deriving Repr, DecidableEq

inductive Err where
  | readError               -- `IndexError` / `AssertionError` inside `fs_tx_hashes_at_blockheight`
  | py (e : PyExc)          -- raised inside merkle.py
  | blocked                 -- `MerkleCache.initialized` never set (unreachable)
deriving Repr, DecidableEq

/-- how a request ends -/
inductive Res (Node : Type) where
  | txid (tx : Node)
  | branchPos (br : List (Elt Node)) (tx : Node)
  | branchHash (br : List (Elt Node)) (pos : Nat)
  | tsc (pos : Nat) (hdr : Hdr Node) (br : List (Elt Node))
  | refused (w : Why)
  | error (e : Err)
deriving Repr, DecidableEq

/-- an `await self.db.tx_hashes_at_blockheight(height)` -/
inductive Rd (Node : Type) where
  | issued
  | got (l : List Node)
  | dbError
  | pyError
deriving Repr, DecidableEq

/-- an `await self.raw_header(height)` -/
inductive HRd (Node : Type) where
  | issued
  | got (h : Hdr Node)
  | outOfRange
deriving Repr, DecidableEq

inductive PC (Node : Type) where
  /-- in `tx_hashes_at_blockheight`, at the DB read; `rc` = the local `reorg_count` -/
  | rd (rc : Nat) (r : Rd Node)
  /-- in `tsc_merkle_proof_for_tx_hash.get_target`, at `await self.raw_header(height)`; the locals
      `tx_pos`, `branch`, `root` -/
  | hdr (pos : Nat) (br : List (Elt Node)) (root : Node) (r : HRd Node)
  | done (res : Res Node)
deriving Repr, DecidableEq

structure Req (Node : Type) where
  kind : Kind Node
  height : Nat
  pc : PC Node
  /-- ghost: the values of the visible chain from the request's start to its end, newest first -/
  seen : List (List (Block Node))

/-- an entry of `_merkle_cache`: the `MerkleCache` and the list its `tx_hashes_func` closes over -/
structure MEntry (Node : Type) where
  src : List Node
  c : Cache Node

structure St (Node : Type) where
  /-- `DB.tx_counts` (cumulative; shared with the block processor) -/
  txCounts : List Nat := []
  /-- `meta/hashes`, one entry per 32 bytes -/
  file : List Node := []
  /-- `meta/headers`, one entry per 80 bytes -/
  hdrs : List (Hdr Node) := []
  /-- `DB.state.height + 1` -/
  vis : Nat := 0
  /-- `DB.fs_height + 1` -/
  fsN : Nat := 0
  /-- block processor: blocks advanced in memory, not yet written by `flush_fs` -/
  unfl : List (Block Node) := []
  bp : BP := .idle
  /-- `_reorg_count` -/
  rc : Nat := 0
  /-- `backed_up_event` has resolved the waiter of `_handle_chain_reorgs`; the task has not run yet -/
  woken : Bool := false
  /-- `_tx_hashes_cache` -/
  txc : Nat → Option (List Node) := fun _ => none
  /-- `_merkle_cache` -/
  mc : Nat → Option (MEntry Node) := fun _ => none
  reqs : List (Req Node) := []
  /-- ghost: the blocks whose hashes / headers `flush_fs` has written and that were not backed out
      (heights `< fsN`) -/
  disk : List (Block Node) := []
  /-- ghost: the chain the caches are judged against: the visible chain, and from the first back-out
      of a reorganisation until `_handle_chain_reorgs` has run the chain before that back-out -/
  ref : List (Block Node) := []

inductive Ev (Node : Type) where
  | start (k : Kind Node) (h : Nat)
  | perform (i : Nat)
  | deliver (i : Nat)
  | evictTx (h : Nat)
  | evictMc (h : Nat)
  | advance (b : Block Node)
  | flushFs
  | flushSt
  | reorgStart (n : Nat)
  | boPop
  | boLower
  | reorgEnd
  | handler
deriving Repr

variable {Node : Type}

/-- `tx_counts` of a chain: the running total of the block sizes, starting from `a` -/
def cumFrom (a : Nat) : List (Block Node) → List Nat
  | [] => []
  | b :: bs => (a + b.txs.length) :: cumFrom (a + b.txs.length) bs

/-- a server that has indexed and flushed the chain `ch`, is caught up and has empty caches -/
def St.ofChain (ch : List (Block Node)) : St Node :=
  { txCounts := cumFrom 0 ch, file := ch.flatMap (·.txs), hdrs := ch.map (·.hdr), vis := ch.length,
    fsN := ch.length, disk := ch, ref := ch }

/-- the chain as its readers see it: the blocks at heights `<= DB.state.height` -/
def visible (s : St Node) : List (Block Node) := s.disk.take s.vis

def Req.active (r : Req Node) : Bool :=
  match r.pc with
  | .done _ => false
  | _ => true

/-- ghost bookkeeping when the visible chain changes -/
def Req.see (S : List (Block Node)) (r : Req Node) : Req Node :=
  if r.active then { r with seen := S :: r.seen } else r

/-- `cache[key] = value` / `del cache[key]` -/
def setAt {α : Type} (m : Nat → Option α) (k : Nat) (v : Option α) : Nat → Option α :=
  fun j => if j = k then v else m j

/-- a file write of `d` at offset `off` -/
def writeAt {α : Type} (l : List α) (off : Nat) (d : List α) : List α :=
  l.take off ++ d ++ l.drop (off + d.length)

/-- `DB.fs_tx_hashes_at_blockheight(h)` in the worker thread -/
def readTx (cfg : Cfg) (s : St Node) (h : Nat) : Rd Node :=
  if (if cfg.stateBound then s.vis else s.txCounts.length) ≤ h then .dbError
  else
    match (if h = 0 then some 0 else s.txCounts[h - 1]?), s.txCounts[h]? with
    | some first, some last =>
      if ((s.file.drop first).take (last - first)).length = last - first then
        .got ((s.file.drop first).take (last - first))
      else .pyError                     -- `assert num_txs_in_block == len(tx_hashes) // 32`
    | _, _ => .pyError                  -- `IndexError` of a `tx_counts` subscript

/-- `DB.read_headers(h, 1)` in the worker thread, as used by `raw_header` -/
def readHdr (s : St Node) (h : Nat) : HRd Node :=
  if h < s.vis then
    match s.hdrs[h]? with
    | some x => .got x
    | none => .outOfRange
  else .outOfRange

section
variable [DecidableEq Node] (H : Node → Node → Node)

/-- `SessionManager._merkle_branch(height, tx_hashes, tx_pos, tsc_format)`: the new `_merkle_cache`
    and what `branch_and_root` returned -/
def merkleBranch (thr : Nat) (mc : Nat → Option (MEntry Node)) (h : Nat) (L : List Node) (pos : Nat)
    (tsc : Bool) : (Nat → Option (MEntry Node)) × Outcome (List (Elt Node) × Node) :=
  if thr ≤ L.length then
    match mc h with
    | some e =>
      (setAt mc h (some { e with c := (e.c.query H e.src (.int L.length) (.int pos) tsc).1 }),
       (e.c.query H e.src (.int L.length) (.int pos) tsc).2)
    | none =>
      match (({} : Cache Node).init H L L.length).2 with
      | some x => (setAt mc h (some ⟨L, (({} : Cache Node).init H L L.length).1⟩), .raised x)
      | none =>
        (setAt mc h (some ⟨L, ((({} : Cache Node).init H L L.length).1.query H L (.int L.length) (.int pos) tsc).1⟩),
         ((({} : Cache Node).init H L L.length).1.query H L (.int L.length) (.int pos) tsc).2)
  else
    (mc, match branchAndRoot H L (.int pos) none tsc with
         | .ok x => .ret x
         | .error e => .raised e)

/-- what a step of a request leaves behind: the two caches and the request -/
structure Out (Node : Type) where
  txc : Nat → Option (List Node)
  mc : Nat → Option (MEntry Node)
  req : Req Node

/-- the end of `_merkle_branch` in its caller -/
def finishBranch (r : Req Node) (mk : List (Elt Node) → Node → PC Node)
    (o : Outcome (List (Elt Node) × Node)) : Req Node :=
  match o with
  | .ret x => { r with pc := mk x.1 x.2 }
  | .raised e => { r with pc := .done (.error (.py e)) }
  | .blocked => { r with pc := .done (.error .blocked) }

/-- the caller of `tx_hashes_at_blockheight` goes on with the list `L`, up to its next await or its end -/
def afterHashes (thr : Nat) (txc : Nat → Option (List Node)) (mc : Nat → Option (MEntry Node))
    (r : Req Node) (L : List Node) : Out Node :=
  match r.kind with
  | .idPos pos =>
    match L[pos]? with
    | none => ⟨txc, mc, { r with pc := .done (.refused .noTx) }⟩
    | some tx => ⟨txc, mc, { r with pc := .done (.txid tx) }⟩
  | .brPos pos =>
    match L[pos]? with
    | none => ⟨txc, mc, { r with pc := .done (.refused .noTx) }⟩
    | some tx =>
      ⟨txc, (merkleBranch H thr mc r.height L pos false).1,
       finishBranch r (fun br _ => .done (.branchPos br tx)) (merkleBranch H thr mc r.height L pos false).2⟩
  | .brHash tx =>
    if L.idxOf tx < L.length then
      ⟨txc, (merkleBranch H thr mc r.height L (L.idxOf tx) false).1,
       finishBranch r (fun br _ => .done (.branchHash br (L.idxOf tx)))
         (merkleBranch H thr mc r.height L (L.idxOf tx) false).2⟩
    else ⟨txc, mc, { r with pc := .done (.refused .notInBlock) }⟩
  | .tsc tx =>
    if L.idxOf tx < L.length then
      ⟨txc, (merkleBranch H thr mc r.height L (L.idxOf tx) true).1,
       finishBranch r (fun br root => .hdr (L.idxOf tx) br root .issued)
         (merkleBranch H thr mc r.height L (L.idxOf tx) true).2⟩
    else ⟨txc, mc, { r with pc := .done (.refused .notInBlock) }⟩

/-- the top of `tx_hashes_at_blockheight`: `tx_hashes = self._tx_hashes_cache.get(height)`,
    `if tx_hashes [and height <= self.db.state.height]:` -/
def cacheHit (cfg : Cfg) (s : St Node) (h : Nat) : Option (List Node) :=
  match s.txc h with
  | some (x :: xs) => if cfg.hitBound && decide (s.vis ≤ h) then none else some (x :: xs)
  | _ => none

/-- a new request runs to its first await (a cache miss: the read is issued) or to its end -/
def newReq (cfg : Cfg) (s : St Node) (k : Kind Node) (h : Nat) : Out Node :=
  match cacheHit cfg s h with
  | some L => afterHashes H cfg.thr s.txc s.mc ⟨k, h, .rd s.rc .issued, [visible s]⟩ L
  | none => ⟨s.txc, s.mc, ⟨k, h, .rd s.rc .issued, [visible s]⟩⟩

/-- the worker thread performs the read request `r` is waiting for -/
def performReq (cfg : Cfg) (s : St Node) (r : Req Node) : Req Node :=
  match r.pc with
  | .rd rc0 .issued => { r with pc := .rd rc0 (readTx cfg s r.height) }
  | .hdr pos br root .issued => { r with pc := .hdr pos br root (readHdr s r.height) }
  | _ => r

/-- the coroutine of request `r` resumes with the result of its read -/
def deliverReq (cfg : Cfg) (s : St Node) (r : Req Node) : Out Node :=
  match r.pc with
  | .rd rc0 (.got L) =>
    if cfg.reread then
      if rc0 = s.rc then afterHashes H cfg.thr (setAt s.txc r.height (some L)) s.mc r L
      else ⟨s.txc, s.mc, { r with pc := .rd s.rc .issued }⟩
    else
      afterHashes H cfg.thr (if rc0 = s.rc then setAt s.txc r.height (some L) else s.txc) s.mc r L
  | .rd _ .dbError => ⟨s.txc, s.mc, { r with pc := .done (.refused .dbError) }⟩
  | .rd _ .pyError => ⟨s.txc, s.mc, { r with pc := .done (.error .readError) }⟩
  | .hdr pos br root (.got hd) =>
    if cfg.sanity && (root != hd.root) then ⟨s.txc, s.mc, { r with pc := .done (.refused .sanity) }⟩
    else ⟨s.txc, s.mc, { r with pc := .done (.tsc pos hd br) }⟩
  | .hdr _ _ _ .outOfRange => ⟨s.txc, s.mc, { r with pc := .done (.refused .noHeader) }⟩
  | _ => ⟨s.txc, s.mc, r⟩

def step (cfg : Cfg) (s : St Node) : Ev Node → St Node
  | .start k h =>
    { s with mc := (newReq H cfg s k h).mc, reqs := s.reqs ++ [(newReq H cfg s k h).req] }
  | .perform i =>
    match s.reqs[i]? with
    | none => s
    | some r => { s with reqs := s.reqs.set i (performReq cfg s r) }
  | .deliver i =>
    match s.reqs[i]? with
    | none => s
    | some r =>
      { s with txc := (deliverReq H cfg s r).txc, mc := (deliverReq H cfg s r).mc,
               reqs := s.reqs.set i (deliverReq H cfg s r).req }
  | .evictTx h => { s with txc := setAt s.txc h none }
  | .evictMc h => { s with mc := setAt s.mc h none }
  | .advance b =>
    -- `advance_block`: `db.tx_counts.append(tx_num)`; hashes and header stay in memory
    if s.bp = .idle ∧ s.vis = s.fsN ∧ (cfg.fifo = true → s.woken = false) then
      { s with unfl := s.unfl ++ [b], txCounts := s.txCounts ++ [s.txCounts.getLastD 0 + b.txs.length] }
    else s
  | .flushFs =>
    -- `flush_fs`: headers at `(fs_height + 1) * 80`, hashes at `tx_counts[fs_height] * 32`
    if s.bp = .idle ∧ s.vis = s.fsN ∧ s.unfl ≠ [] then
      { s with file := writeAt s.file (if s.fsN = 0 then 0 else s.txCounts.getD (s.fsN - 1) 0)
                         (s.unfl.flatMap (·.txs)),
               hdrs := writeAt s.hdrs s.fsN (s.unfl.map (·.hdr)),
               fsN := s.fsN + s.unfl.length, disk := s.disk ++ s.unfl, unfl := [] }
    else s
  | .flushSt =>
    -- `flush_utxo_db`: `self.state = flush_data.state.copy()`
    if s.vis < s.fsN then
      { s with vis := s.fsN,
               ref := if s.bp = .idle ∧ s.woken = false then s.disk.take s.fsN else s.ref,
               reqs := s.reqs.map (Req.see (s.disk.take s.fsN)) }
    else s
  | .reorgStart n =>
    -- `reorg_chain` after its `flush(True)`; genesis is never backed out
    if s.bp = .idle ∧ s.unfl = [] ∧ s.vis = s.fsN ∧ 0 < n ∧ n < s.vis then { s with bp := .backing n false }
    else s
  | .boPop =>
    match s.bp with
    | .backing (n + 1) false => { s with txCounts := s.txCounts.dropLast, bp := .backing (n + 1) true }
    | _ => s
  | .boLower =>
    match s.bp with
    | .backing (n + 1) true =>
      { s with vis := s.vis - 1, fsN := s.fsN - 1, disk := s.disk.dropLast, bp := .backing n false,
               reqs := s.reqs.map (Req.see (s.disk.dropLast.take (s.vis - 1))) }
    | _ => s
  | .reorgEnd =>
    -- `self.backed_up_event.set(); self.backed_up_event.clear()` (also after an early `break`)
    match s.bp with
    | .backing _ false => { s with bp := .idle, woken := s.woken || cfg.signal }
    | _ => s
  | .handler =>
    if s.woken then
      { s with rc := s.rc + 1, txc := fun _ => none, mc := fun _ => none, woken := false, ref := visible s }
    else s

def run (cfg : Cfg) (s : St Node) (evs : List (Ev Node)) : St Node :=
  evs.foldl (step H cfg) s

/-- `Merkle.branch_and_root(L, pos, tsc_format=tsc)` when it returns -/
def barOpt (L : List Node) (pos : Nat) (tsc : Bool) : Option (List (Elt Node) × Node) :=
  match branchAndRoot H L (.int pos) none tsc with
  | .ok x => some x
  | .error _ => none

/-- its branch, without the root -/
def branchOnly (L : List Node) (pos : Nat) (tsc : Bool) : Option (List (Elt Node)) :=
  (barOpt H L pos tsc).map (·.1)

/-- the property's clause for one finished request: an answer is computed from the tx-hash list of
    the block that was at the requested height on a chain visible during the request (and a TSC
    proof names the header of such a block, whose merkle-root field is the root of the branch) -/
def Req.Safe (r : Req Node) : Prop :=
  match r.pc with
  | .done (.txid tx) =>
    match r.kind with
    | .idPos pos => ∃ S ∈ r.seen, ∃ b ∈ S[r.height]?, b.txs[pos]? = some tx
    | _ => False
  | .done (.branchPos br tx) =>
    match r.kind with
    | .brPos pos => ∃ S ∈ r.seen, ∃ b ∈ S[r.height]?, b.txs[pos]? = some tx ∧ branchOnly H b.txs pos false = some br
    | _ => False
  | .done (.branchHash br pos) =>
    match r.kind with
    | .brHash tx => ∃ S ∈ r.seen, ∃ b ∈ S[r.height]?, pos = b.txs.idxOf tx ∧ pos < b.txs.length ∧
        branchOnly H b.txs pos false = some br
    | _ => False
  | .done (.tsc pos hd br) =>
    match r.kind with
    | .tsc tx => (∃ S ∈ r.seen, ∃ b ∈ S[r.height]?, pos = b.txs.idxOf tx ∧ pos < b.txs.length ∧
          barOpt H b.txs pos true = some (br, hd.root)) ∧
        (∃ S ∈ r.seen, ∃ b ∈ S[r.height]?, b.hdr = hd)
    | _ => False
  | _ => True

end

end EV.TxCache

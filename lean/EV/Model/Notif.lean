/-
Model of `electrumx/server/controller.py :: Notifications`.

Python dicts `_touched_mp`, `_touched_bp` : height -> set(hashX) are association lists with
unique keys; a touched set is a `List HX` read up to membership (the driver prints it sorted and
de-duplicated).  `notify` is the output of each operation.

Two literal models are kept:
  * `Notif.*`      – the class as it is in /repo now (after the `fix:` commit for F1: entries are
                     merged, never deleted or overwritten; entries pending for a greater height are
                     folded into a report at a lower height).
  * `Notif.Orig.*` – the class as it was at the pinned commit.  Only used for the machine-checked
                     counterexamples of F1 and by the failing-input search (it tells the search what
                     a regression to the old behaviour looks like).
No imports: this file is linked into the `evdrv` executable.
-/
namespace EV.Notif

abbrev HX := Nat
abbrev Dict := List (Int × List HX)

structure St where
  mp : Dict := []
  bp : Dict := []
  highest : Int := -1
deriving Repr, DecidableEq, Inhabited

inductive Op where
  | start (h : Int)
  | mempool (t : List HX) (h : Int)
  | block (t : List HX) (h : Int)
deriving Repr, DecidableEq, Inhabited

abbrev Emit := Int × List HX

def keys (d : Dict) : List Int := d.map (·.1)

/-- union of the values whose key satisfies `p` -/
def collect (p : Int → Bool) (d : Dict) : List HX :=
  (d.filter (fun e => p e.1)).flatMap (·.2)

/-- pop every key satisfying `p` -/
def dropKeys (p : Int → Bool) (d : Dict) : Dict :=
  d.filter (fun e => !p e.1)

/-- Python `max(iterable)` on a possibly empty list of ints -/
def maxKey : List Int → Option Int
  | [] => none
  | k :: ks => match maxKey ks with
    | none => some k
    | some m => some (if m ≤ k then k else m)

/-- the height `_maybe_notify` decides to notify at, if any -/
def pickHeight (s : St) : Option Int :=
  let common := (keys s.mp).filter (fun k => (keys s.bp).contains k)
  match maxKey common with
  | some h => some h
  | none =>
    match maxKey (keys s.mp) with
    | some m => if m = s.highest then some s.highest else none
    | none => none

/-- `_maybe_notify` (current code): pop `mp[height]`, merge-and-pop every older `mp` entry,
    merge-and-pop every `bp` entry `≤ height`. -/
def maybeNotify (s : St) : St × Option Emit :=
  match pickHeight s with
  | none => (s, none)
  | some h =>
    ({ s with mp := dropKeys (fun k => k ≤ h) s.mp, bp := dropKeys (fun k => k ≤ h) s.bp },
     some (h, collect (fun k => k ≤ h) s.mp ++ collect (fun k => k ≤ h) s.bp))

/-- `on_mempool(touched, height)` (current code): fold what is pending at `≥ height` into the new
    entry, then `_maybe_notify`. -/
def onMempool (s : St) (t : List HX) (h : Int) : St × Option Emit :=
  maybeNotify { s with mp := (h, t ++ collect (fun k => h ≤ k) s.mp) :: dropKeys (fun k => h ≤ k) s.mp }

/-- `on_block(touched, height)` (current code). -/
def onBlock (s : St) (t : List HX) (h : Int) : St × Option Emit :=
  maybeNotify { mp := dropKeys (fun k => h < k) s.mp,
                bp := (h, t ++ collect (fun k => h < k) s.mp ++ collect (fun k => h ≤ k) s.bp)
                        :: dropKeys (fun k => h ≤ k) s.bp,
                highest := h }

/-- `start(height, notify_func)`: sets `_highest_block`, calls `notify(height, set())`. -/
def start (s : St) (h : Int) : St × Option Emit :=
  ({ s with highest := h }, some (h, []))

def step (s : St) : Op → St × Option Emit
  | .start h => start s h
  | .mempool t h => onMempool s t h
  | .block t h => onBlock s t h

/-- run an op list, returning the final state and the emissions in order -/
def run : St → List Op → St × List Emit
  | s, [] => (s, [])
  | s, op :: ops =>
    let (s', e) := step s op
    let (s'', es) := run s' ops
    (s'', e.toList ++ es)

def init : St := {}

/-- everything pending in a state -/
def pending (s : St) : List HX := s.mp.flatMap (·.2) ++ s.bp.flatMap (·.2)

/-- everything handed over by an op list -/
def handed : List Op → List HX
  | [] => []
  | .start _ :: ops => handed ops
  | .mempool t _ :: ops => t ++ handed ops
  | .block t _ :: ops => t ++ handed ops

def emitted (es : List Emit) : List HX := es.flatMap (·.2)

namespace Orig
/-! The class at the pinned commit (before the F1 fix). -/

def maybeNotify (s : St) : St × Option Emit :=
  match pickHeight s with
  | none => (s, none)
  | some h =>
    -- touched = tmp.pop(height); older mp entries are *deleted*; bp entries <= height merged
    ({ s with mp := dropKeys (fun k => k ≤ h) s.mp, bp := dropKeys (fun k => k ≤ h) s.bp },
     some (h, collect (fun k => k = h) s.mp ++ collect (fun k => k ≤ h) s.bp))

/-- `d[h] = touched` : overwrite -/
def setKey (d : Dict) (h : Int) (t : List HX) : Dict := (h, t) :: dropKeys (fun k => k = h) d

def onMempool (s : St) (t : List HX) (h : Int) : St × Option Emit :=
  maybeNotify { s with mp := setKey s.mp h t }

def onBlock (s : St) (t : List HX) (h : Int) : St × Option Emit :=
  maybeNotify { s with bp := setKey s.bp h t, highest := h }

def step (s : St) : Op → St × Option Emit
  | .start h => start s h
  | .mempool t h => onMempool s t h
  | .block t h => onBlock s t h

def run : St → List Op → St × List Emit
  | s, [] => (s, [])
  | s, op :: ops =>
    let (s', e) := step s op
    let (s'', es) := run s' ops
    (s'', e.toList ++ es)

end Orig

end EV.Notif

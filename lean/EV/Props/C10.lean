import EV.Proofs.System
import EV.Proofs.SystemFix
import EV.Props.C07carrier

/-!
# C10 — histories served from the cache are never stale once quiescent

Same model as C07 (`EV/Model/System.lean`, suite `notifcache`): `cache` is
`SessionManager._history_cache` (script hash ↦ version of the cached confirmed history), filled by
`limited_history` when a read is accepted, invalidated by `_notify_sessions` for the touched script
hashes — AFTER its `await self._refresh_hsub_results(height)`, which the model cuts: between
`_notify_count += 1` and the invalidation a stale entry can still be served; the entry's script hash
is then in the `xs` of a suspended header read (`Owed`), and the invalidation follows.  LRU eviction
is the event `evict`.  The mempool part of a status / history is never cached (read from `MemPool`
without suspension), so parent flips do not concern this cache.
-/
namespace EV.System

/-- **C10 (invariant).**  In every reachable state every cached history belongs to a version that is
current, or whose script hash is still owed a `_notify_sessions` pass that will drop the entry (still
carried, or in the touched set of a call suspended in its header read; `Owed` also mentions the
ghost sets `lost` and `suppressed`, which are empty in every reachable state: `C07_fixed`). -/
theorem C10_invariant (n m : Nat) (evs : List Ev) (hx v : Nat)
    (hl : lookup hx (run {} (init n m) evs).cache = some v) :
    v = confOf (run {} (init n m) evs) hx ∨ Owed (run {} (init n m) evs) hx :=
  (inv_run _ evs (inv_init n m)).cache hx v hl

/-- **C10 (fresh).**  For every schedule, in every quiescent state reached — whatever was cached
earlier —
 1. every cached history is the current one (so a `get_history` answered from the cache is current);
 2. a `get_history` of an uncached script hash issued then, whose read is performed and delivered
    (without an intervening notification), caches — and returns — the current version, and leaves
    the server quiescent. -/
theorem C10_fresh (n m : Nat) (evs : List Ev) (hq : Quiet (run {} (init n m) evs)) :
    (∀ hx v, lookup hx (run {} (init n m) evs).cache = some v → v = confOf (run {} (init n m) evs) hx) ∧
    (∀ s hx, lookup hx (run {} (init n m) evs).cache = none →
      lookup hx (run {} (run {} (init n m) evs) [.getHistory s hx, .readDo 0, .readFinish 0]).cache =
          some (confOf (run {} (init n m) evs) hx) ∧
        Quiet (run {} (run {} (init n m) evs) [.getHistory s hx, .readDo 0, .readFinish 0]) ∧
        (run {} (run {} (init n m) evs) [.getHistory s hx, .readDo 0, .readFinish 0]).conf =
          (run {} (init n m) evs).conf) := by
  have hF := fix_run {} rfl rfl rfl rfl rfl _ evs (inv_init n m) (fixInv_init n m)
  refine ⟨(quiescent_current _ (inv_run _ evs (inv_init n m)) hq hF.nolost hF.nosupp).2, ?_⟩
  intro s hx hl
  obtain ⟨h1, h2, h5, h6, h7⟩ := hq
  clear hF
  generalize run {} (init n m) evs = st at h1 h2 h5 h6 h7 hl
  have key : run {} st [.getHistory s hx, .readDo 0, .readFinish 0] =
      { st with tasks := [], cache := put hx (confOf st hx) st.cache } := by
    simp [run, step, startRead, hl, h6, nthIdx, modifyAt, resume]
    rfl
  rw [key]
  exact ⟨by simp [lookup_put], ⟨h1, h2, h5, rfl, h7⟩, rfl⟩

/-- every performed read that `limited_history` accepts (no notification since it was started)
is of a version that is current or whose change is still in the carrier — in every reachable
state, not only at rest -/
theorem C10_accepted_reads (n m : Nat) (evs : List Ev) (t : Task) (v : Nat)
    (htm : t ∈ (run {} (init n m) evs).tasks) (hv : t.value = some v)
    (hcnt : t.countAtStart = (run {} (init n m) evs).notifyCount) :
    v = confOf (run {} (init n m) evs) t.hx ∨ t.hx ∈ (run {} (init n m) evs).carrier :=
  (inv_run _ evs (inv_init n m)).reads t htm v hv hcnt

/-! ### non-vacuity -/

/-- a quiescent state with a cached history of version 1 (clause 1), and an uncached script hash
(clause 2) -/
example : (run {} (init 1 2) [.change 0, .notify 0 [0], .getHistory 0 0, .readDo 0, .readFinish 0]).carrier = [] ∧
    (run {} (init 1 2) [.change 0, .notify 0 [0], .getHistory 0 0, .readDo 0, .readFinish 0]).tasks = [] ∧
    (run {} (init 1 2) [.change 0, .notify 0 [0], .getHistory 0 0, .readDo 0, .readFinish 0]).hreads = [] ∧
    lookup 0 (run {} (init 1 2) [.change 0, .notify 0 [0], .getHistory 0 0, .readDo 0, .readFinish 0]).cache = some 1 ∧
    lookup 1 (run {} (init 1 2) [.change 0, .notify 0 [0], .getHistory 0 0, .readDo 0, .readFinish 0]).cache = none := by
  decide +kernel

/-- `C10_accepted_reads` is inhabited: a performed read whose count still matches -/
example : ∃ t ∈ (run {} (init 1 2) [.getHistory 0 0, .readDo 0]).tasks,
    t.value = some 0 ∧ t.countAtStart = (run {} (init 1 2) [.getHistory 0 0, .readDo 0]).notifyCount :=
  ⟨⟨0, 0, some 0, .query⟩, by decide +kernel, rfl, by decide +kernel⟩

/-- the window the cut opens: between `_notify_count += 1` and the invalidation the cache still holds
version 0 of a script hash whose version is 1 — owed (in the `xs` of the suspended header read) -/
example : lookup 0 (run {} (init 1 2) [.getHistory 0 0, .readDo 0, .readFinish 0, .change 0, .advance 1,
      .notify 1 [0]]).cache = some 0 ∧
    confOf (run {} (init 1 2) [.getHistory 0 0, .readDo 0, .readFinish 0, .change 0, .advance 1, .notify 1 [0]]) 0 = 1 ∧
    (run {} (init 1 2) [.getHistory 0 0, .readDo 0, .readFinish 0, .change 0, .advance 1, .notify 1 [0]]).hreads =
      [⟨1, none, [0], []⟩] := by
  decide +kernel

/-- **C10 fails without the notification-count check (F5).**  A `get_history` whose read is
performed before a change and delivered after the change was notified caches the stale history:
at rest the cache serves version 0 while the current version is 1. -/
theorem C10_counterexample_stale_read :
    (run {checkCount := false} (init 1 2)
      [.getHistory 0 0, .readDo 0, .change 0, .notify 0 [0], .readFinish 0]).carrier = [] ∧
    (run {checkCount := false} (init 1 2)
      [.getHistory 0 0, .readDo 0, .change 0, .notify 0 [0], .readFinish 0]).tasks = [] ∧
    (run {checkCount := false} (init 1 2)
      [.getHistory 0 0, .readDo 0, .change 0, .notify 0 [0], .readFinish 0]).hreads = [] ∧
    lookup 0 (run {checkCount := false} (init 1 2)
      [.getHistory 0 0, .readDo 0, .change 0, .notify 0 [0], .readFinish 0]).cache = some 0 ∧
    confOf (run {checkCount := false} (init 1 2)
      [.getHistory 0 0, .readDo 0, .change 0, .notify 0 [0], .readFinish 0]) 0 = 1 := by
  decide +kernel

end EV.System

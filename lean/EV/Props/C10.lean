import EV.Proofs.System
import EV.Props.C07carrier

/-!
# C10 — histories served from the cache are never stale once quiescent

Same model as C07 (`EV/Model/System.lean`, suite `notifcache`): `cache` is
`SessionManager._history_cache` (script hash ↦ version of the cached history; LRU eviction is not
modelled — removing entries can only help), filled by `limited_history` when a read is accepted and
invalidated by `_notify_sessions` for the touched script hashes.
-/
namespace EV.System

/-- **C10 (invariant).**  In every reachable state every cached history belongs to a version that is
current, or whose change is still carried towards `_notify_sessions` (which will drop the entry). -/
theorem C10_invariant (n m : Nat) (evs : List Ev) (hx v : Nat)
    (hl : lookup hx (run {} (init n m) evs).cache = some v) :
    v = curOf (run {} (init n m) evs) hx ∨ hx ∈ (run {} (init n m) evs).carrier :=
  (inv_run _ evs (inv_init n m)).cache hx v hl

/-- **C10 (fresh).**  For every schedule, in every quiescent state reached (no change still carried,
no read in flight) — whatever was cached earlier —
 1. every cached history is the current one (so a `get_history` answered from the cache is current);
 2. a `get_history` of an uncached script hash issued then, whose read is performed and delivered
    (without an intervening notification), caches — and returns — the current version, and leaves
    the server quiescent. -/
theorem C10_fresh (n m : Nat) (evs : List Ev)
    (hc : (run {} (init n m) evs).carrier = []) (ht : (run {} (init n m) evs).tasks = []) :
    (∀ hx v, lookup hx (run {} (init n m) evs).cache = some v → v = curOf (run {} (init n m) evs) hx) ∧
    (∀ s hx, lookup hx (run {} (init n m) evs).cache = none →
      lookup hx (run {} (run {} (init n m) evs) [.getHistory s hx, .readDo 0, .readFinish 0]).cache =
          some (curOf (run {} (init n m) evs) hx) ∧
        (run {} (run {} (init n m) evs) [.getHistory s hx, .readDo 0, .readFinish 0]).tasks = [] ∧
        (run {} (run {} (init n m) evs) [.getHistory s hx, .readDo 0, .readFinish 0]).carrier = [] ∧
        (run {} (run {} (init n m) evs) [.getHistory s hx, .readDo 0, .readFinish 0]).cur =
          (run {} (init n m) evs).cur) := by
  refine ⟨(quiescent_current _ (inv_run _ evs (inv_init n m)) hc ht).2, ?_⟩
  intro s hx hl
  generalize run {} (init n m) evs = st at hc ht hl
  simp [run, step, startRead, hl, ht, nthIdx, modifyAt, resume, lookup_put, hc, curOf]

/-- every performed read that `limited_history` accepts (no notification since it was started)
is of a version that is current or still carried — in every reachable state, not only at rest -/
theorem C10_accepted_reads (n m : Nat) (evs : List Ev) (t : Task) (v : Nat)
    (htm : t ∈ (run {} (init n m) evs).tasks) (hv : t.value = some v)
    (hcnt : t.countAtStart = (run {} (init n m) evs).notifyCount) :
    v = curOf (run {} (init n m) evs) t.hx ∨ t.hx ∈ (run {} (init n m) evs).carrier :=
  (inv_run _ evs (inv_init n m)).reads t htm v hv hcnt

/-! ### non-vacuity -/

/-- a quiescent state with a cached history of version 1 (clause 1), and an uncached script hash
(clause 2) -/
example : (run {} (init 1 2) [.change 0, .notify [0], .getHistory 0 0, .readDo 0, .readFinish 0]).carrier = [] ∧
    (run {} (init 1 2) [.change 0, .notify [0], .getHistory 0 0, .readDo 0, .readFinish 0]).tasks = [] ∧
    lookup 0 (run {} (init 1 2) [.change 0, .notify [0], .getHistory 0 0, .readDo 0, .readFinish 0]).cache = some 1 ∧
    lookup 1 (run {} (init 1 2) [.change 0, .notify [0], .getHistory 0 0, .readDo 0, .readFinish 0]).cache = none := by
  rw [run_eq_foldl_stepS _ _ _ (by decide)]
  decide +kernel

/-- **C10 fails without the notification-count check (F5).**  A `get_history` whose read is
performed before a change and delivered after the change was notified caches the stale history:
at rest the cache serves version 0 while the current version is 1. -/
theorem C10_counterexample_stale_read :
    (run {checkCount := false} (init 1 2)
      [.getHistory 0 0, .readDo 0, .change 0, .notify [0], .readFinish 0]).carrier = [] ∧
    (run {checkCount := false} (init 1 2)
      [.getHistory 0 0, .readDo 0, .change 0, .notify [0], .readFinish 0]).tasks = [] ∧
    lookup 0 (run {checkCount := false} (init 1 2)
      [.getHistory 0 0, .readDo 0, .change 0, .notify [0], .readFinish 0]).cache = some 0 ∧
    curOf (run {checkCount := false} (init 1 2)
      [.getHistory 0 0, .readDo 0, .change 0, .notify [0], .readFinish 0]) 0 = 1 := by
  rw [run_eq_foldl_stepS _ _ _ (by decide)]
  decide +kernel

end EV.System

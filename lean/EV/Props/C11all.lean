import EV.Props.C11
import EV.Props.C11tx

/-! C11, both halves: header proofs (`EV.Props.C11`, model `EV.HeaderCache`) and transaction proofs
(`EV.Props.C11tx`, model `EV.TxCache`).  This module only exists so that `check.py C11` has one module to
build and audit. -/

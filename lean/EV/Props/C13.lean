import EV.Proofs.TxCodecStream
import EV.Proofs.TxCodecCanon
import EV.Proofs.TxCodecFuel

/-!
# C13 — transactions and blocks are parsed exactly, however the block file is chunked

Model: `EV/Model/TxCodec.lean` (literal model of `lib/tx.py`, the packers of `lib/util.py` and
`block_processor.OnDiskBlock`), tied to the code in /repo by the `txcodec` correspondence suite on
every run.  Bytes are `List Nat`; SHA-256 is not modelled: `readTxAndHash` returns the byte string
that is hashed (the harness checks that the real hash is hashlib's double SHA-256 of that string).

All theorems are unbounded: every transaction, every buffer, every block, every chunk size.
-/
namespace EV.TxCodec

/-- **C13 (read ∘ serialize).**  "Serialising … reproduces the original bytes and its hash is the
double SHA-256 of exactly those bytes", direction tx → bytes → tx: a well-formed transaction
(every integer field in range of its `struct` format, every previous-tx hash 32 bytes) serialises
without raising, and parsing the result embedded *anywhere* in a buffer returns exactly that
transaction, the cursor just behind it, and hashes exactly the serialised bytes. -/
theorem C13_read_serialize (tx : Tx) (pre post : Bytes) (hw : WfTx tx) :
    ∃ s, serialize tx = .ok s ∧
      readTx (pre ++ (s ++ post)) pre.length = .ok (tx, pre.length + s.length) ∧
      readTxAndHash (pre ++ (s ++ post)) pre.length = .ok ((tx, s), pre.length + s.length) :=
  ⟨serializeRaw tx, serialize_of_wf hw, readTx_at (At.intro _ _ _) hw,
    goodReader_readTxAndHash.full _ _ _ (At.intro _ _ _) hw⟩

/-- **C13 (hashed range).**  Whenever `read_tx_and_hash` succeeds at cursor `c` with end cursor `e`,
the bytes hashed are exactly `buf[c:e]`, and `e ≤ len(buf)` – the range is not silently shortened. -/
theorem C13_hash_range {buf : Bytes} {c : Nat} {tx : Tx} {e : Nat} (h : readTx buf c = .ok (tx, e)) :
    readTxAndHash buf c = .ok ((tx, slice buf c e), e) ∧ c + 10 ≤ e ∧ e ≤ buf.length ∧
      (slice buf c e).length = e - c := by
  have hb := readTx_bounds h
  refine ⟨by unfold readTxAndHash; rw [h], hb.1, hb.2, slice_length _ _ _ hb.2⟩

/-- **C13 (serialize ∘ read).**  "Serialising a parsed transaction reproduces the original bytes":
if the parse succeeds on a buffer of bytes and every varint on the parse path is minimal
(`canonTx`: the two counts and every script length), the parsed transaction serialises without
raising to exactly `buf[c:e]`.
`canonTx` is necessary: the parser accepts non-minimal varints (`C13_noncanonical_example`), which
re-serialise shorter; the hash is over the original bytes in any case (`C13_hash_range`). -/
theorem C13_serialize_read {buf : Bytes} {c : Nat} {tx : Tx} {e : Nat} (h : readTx buf c = .ok (tx, e))
    (hb : BytesOK buf) (hc : canonTx buf c = true) : serialize tx = .ok (slice buf c e) := by
  obtain ⟨h1, h2⟩ := readTx_ser h hb hc
  rw [serialize_of_wf h2, h1]

/-- **C13 (truncation).**  "Parsing a truncated buffer always fails rather than yielding a
transaction": if the parse at `c` succeeds ending at `e`, then on every proper truncation
`buf[:n]`, `n < e`, it raises – and while cursors stay below `2^63` it raises `IndexError` or
`struct.error`, the classes the refill loops of `OnDiskBlock` catch. -/
theorem C13_truncated_fails {buf : Bytes} {c : Nat} {tx : Tx} {e : Nat} (h : readTx buf c = .ok (tx, e))
    (n : Nat) (hn : n < e) :
    ∃ err, readTx (buf.take n) c = .error err ∧ readTxAndHash (buf.take n) c = .error err ∧
      (e ≤ 9223372036854775808 → err = .indexError ∨ err = .structError) := by
  obtain ⟨err, e1, e2⟩ := readTx_truncated h hn
  exact ⟨err, e1, by unfold readTxAndHash; rw [e1], e2⟩

/-- **C13 (streaming forwards), sharp form.**  For *every* chunk size that holds the tx-count
varint, every number and size of transactions (so every alignment of transaction boundaries to
chunk boundaries, transactions larger than a chunk at any position): `iter_txs` yields exactly the
block's transactions in order, each with exactly its own bytes as the hashed string, and stops
without an exception. -/
theorem C13_iterTxs_correct_sharp (hdr : Bytes) (txs : List Tx) (chunk : Nat)
    (hh : hdr.length = 80) (hw : ∀ t ∈ txs, WfTx t) (hc : (packVarint txs.length).length ≤ chunk)
    (hb : (blockFile hdr txs).length < 9223372036854775808) :
    iterTxs chunk (blockFile hdr txs) = ⟨txs.map (fun t => (t, serializeRaw t)), none⟩ :=
  iterTxs_blockFile hdr txs chunk hh hw hc hb

/-- **C13 (streaming forwards).**  The property as stated: every chunk size `≥ 9`.
Hypotheses: 80-byte header; well-formed transactions; file shorter than `2^63` bytes (every
CPython buffer is).  Below nine bytes the tx-count varint, which is read from the first chunk
without a refill, may not fit (`C13_small_chunk_example`). -/
theorem C13_iterTxs_correct (hdr : Bytes) (txs : List Tx) (chunk : Nat)
    (hh : hdr.length = 80) (hw : ∀ t ∈ txs, WfTx t) (hc : 9 ≤ chunk)
    (hb : (blockFile hdr txs).length < 9223372036854775808) :
    iterTxs chunk (blockFile hdr txs) = ⟨txs.map (fun t => (t, serializeRaw t)), none⟩ :=
  iterTxs_blockFile hdr txs chunk hh hw (Nat.le_trans (packVarint_length_le _) hc) hb

/-- **C13 (streaming backwards, for undo).**  Same hypotheses: `iter_txs_reversed` (the code in
/repo after the `fix:` commit for F3) yields exactly the transactions in exact reverse order. -/
theorem C13_iterTxsReversed_correct (hdr : Bytes) (txs : List Tx) (chunk : Nat)
    (hh : hdr.length = 80) (hw : ∀ t ∈ txs, WfTx t) (hc : 9 ≤ chunk)
    (hb : (blockFile hdr txs).length < 9223372036854775808) :
    iterTxsReversed chunk (blockFile hdr txs) = ⟨(txs.map (fun t => (t, serializeRaw t))).reverse, none⟩ :=
  iterTxsReversed_blockFile hdr txs chunk hh hw (Nat.le_trans (packVarint_length_le _) hc) hb

/-- the shipped chunk size satisfies the hypothesis `9 ≤ chunk` (regenerated from
`OnDiskBlock.chunk_size` on every run) -/
theorem C13_chunk_size_ok : 9 ≤ Gen.onDiskChunkSize := by decide

/-- **C13 (fuel).**  The fuel of the modelled loops never runs out – for every file content, valid
or not, and every chunk size: `outOfFuel` is not an outcome, so the model's answers are those of
the unbounded Python loops. -/
theorem C13_fuel (fixed : Bool) (chunk : Nat) (data : Bytes) :
    (iterTxs chunk data).err ≠ some .outOfFuel ∧
    chunkOffsetsG fixed chunk data ≠ .error .outOfFuel ∧
    (iterTxsReversedG fixed chunk data).err ≠ some .outOfFuel :=
  ⟨iterTxs_fuel chunk data, chunkOffsetsG_fuel fixed chunk data, iterTxsReversedG_fuel fixed chunk data⟩

/-! ### non-vacuity: concrete data meeting the hypotheses -/

/-- a 65-byte transaction -/
def tx0 : Tx := ⟨1, [⟨List.replicate 32 7, 0, [1, 2, 3], 4294967295⟩], [⟨5000, [118, 169]⟩], 0⟩
/-- the smallest transaction: 10 bytes -/
def txMin : Tx := ⟨2, [], [], 7⟩
/-- negative version / value, maximal fields -/
def txNeg : Tx := ⟨-2147483648, [], [⟨-9223372036854775808, []⟩, ⟨9223372036854775807, [0]⟩], 4294967295⟩

example : WfTx tx0 ∧ WfTx txMin ∧ WfTx txNeg := by decide
example : (serializeRaw tx0).length = 65 ∧ (serializeRaw txMin).length = 10 := by decide
example : readTx ([9, 9] ++ (serializeRaw tx0 ++ [5])) 2 = .ok (tx0, 67) := by decide
example : readTx (serializeRaw txNeg) 0 = .ok (txNeg, 29) := by decide
/-- script lengths on both sides of every varint width boundary are well-formed -/
example (n : Nat) (hn : n = 252 ∨ n = 253 ∨ n = 65535 ∨ n = 65536 ∨ n = 4294967295 ∨ n = 4294967296) :
    WfTx ⟨1, [⟨List.replicate 32 0, 0, List.replicate n 0, 0⟩], [⟨0, List.replicate n 0⟩], 0⟩ := by
  refine ⟨(inRange_iff _).mpr ?_, by simp⟩
  simp only [List.length_cons, List.length_nil, List.mem_cons, List.not_mem_nil, or_false, forall_eq,
    inRangeIn_iff, inRangeOut_iff, List.length_replicate]
  omega
example : packVarint 252 = [252] ∧ packVarint 253 = [253, 253, 0] ∧ packVarint 65535 = [253, 255, 255] ∧
    packVarint 65536 = [254, 0, 0, 1, 0] ∧ packVarint 4294967295 = [254, 255, 255, 255, 255] ∧
    packVarint 4294967296 = [255, 0, 0, 0, 0, 1, 0, 0, 0] := by decide
example : readVarint (packVarint 65536 ++ [1]) 0 = .ok (65536, 5) ∧
    readVarint (packVarint 4294967296) 0 = .ok (4294967296, 9) ∧
    readVarint ((packVarint 4294967296).take 8) 0 = .error .structError ∧
    readVarint [] 0 = .error .indexError := by decide
/-- a truncated *script* is silently shortened, the next fixed-width read fails -/
example : readVarbytes [5, 1, 2] 0 = .ok ([1, 2], 6) ∧ readLeU 4 [5, 1, 2] 6 = .error .structError := by decide

/-- the hypotheses of `C13_serialize_read` hold of a canonical buffer … -/
example : BytesOK ([9] ++ serializeRaw tx0) ∧ canonTx ([9] ++ serializeRaw tx0) 1 = true := by decide
/-- … and are necessary: the count `0` written as `fd 00 00` parses to the same transaction as the
    10-byte canonical form, which is what it re-serialises to (12 ≠ 10 bytes) -/
theorem C13_noncanonical_example :
    readTx [2, 0, 0, 0, 253, 0, 0, 0, 7, 0, 0, 0] 0 = .ok (txMin, 12) ∧
    canonTx [2, 0, 0, 0, 253, 0, 0, 0, 7, 0, 0, 0] 0 = false ∧
    serialize txMin = .ok [2, 0, 0, 0, 0, 0, 7, 0, 0, 0] := by decide

/-- a block of three transactions (65, 10 and 29 bytes) read with chunk size 9: every transaction
    is larger than a chunk -/
def block0 : Bytes := blockFile (List.replicate 80 0) [tx0, txMin, txNeg]

example : (List.replicate 80 0).length = 80 ∧ (∀ t ∈ [tx0, txMin, txNeg], WfTx t) ∧
    block0.length < 9223372036854775808 := by decide +kernel
example : iterTxs 9 block0 = ⟨[tx0, txMin, txNeg].map (fun t => (t, serializeRaw t)), none⟩ := by
  decide +kernel
example : iterTxsReversed 9 block0 = ⟨([tx0, txMin, txNeg].map (fun t => (t, serializeRaw t))).reverse, none⟩ := by
  decide +kernel
example : chunkOffsets 9 block0 = .ok [81, 146, 156, 185] := by decide +kernel

/-- below nine bytes the claim is not made: a 3-byte tx count does not fit a 2-byte first chunk -/
theorem C13_small_chunk_example :
    (iterTxs 2 (List.replicate 80 0 ++ [253, 0, 1])).err = some .structError := by decide

/-! ### F3: `_chunk_offsets` at the pinned commit violates the reverse-streaming clause -/

/-- the smallest block: one 10-byte transaction -/
def blockMin : Bytes := blockFile (List.replicate 80 0) [txMin]

/-- At the pinned commit the first chunk (9 bytes: the count and 8 bytes of the transaction) holds
no complete transaction, `base_offset` is not advanced by the length of the count, the second
offset comes out one short (90 instead of 91) and `iter_txs_reversed` raises `struct.error`. -/
theorem C13_counterexample_F3 :
    Orig.chunkOffsets 9 blockMin = .ok [81, 90] ∧
    Orig.iterTxsReversed 9 blockMin = ⟨[], some .structError⟩ := by decide +kernel

/-- the repaired code on the same input -/
example : chunkOffsets 9 blockMin = .ok [81, 91] ∧
    iterTxsReversed 9 blockMin = ⟨[(txMin, serializeRaw txMin)], none⟩ := by decide +kernel

/-- with the 65-byte first transaction of `block0` the pinned code fails for every chunk size from
    9 to 65 (= length of count + first transaction − 1) … -/
theorem C13_counterexample_F3_range :
    ∀ k ∈ List.range' 9 57, (Orig.iterTxsReversed k block0).err = some .structError := by decide +kernel

/-- … and for none of the next sizes above -/
example : ∀ k ∈ List.range' 66 20, (Orig.iterTxsReversed k block0).err = none := by decide +kernel

end EV.TxCodec

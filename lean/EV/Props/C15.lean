import EV.Props.C03run
import EV.Proofs.IndexUndo

/-!
# C15 — Exactly the configured window of recent blocks can be undone

Model: `advance` (keeps a block's undo list iff `height ≥ daemon_height − reorg_limit + 1`),
`flushDbs` (writes the kept lists with the UTXO batch), `openDbs` (`clear_excess_undo_info`),
`backupFull` (refuses without a row).  Tie to the code: suite `index` (undo rows are dumped and
compared after every operation, for reorg limits 1, 2, 3, 4, 200 and daemon-height trajectories
far-ahead / tracking / jumping).
-/
namespace EV.Index

/-- **C15 (what `advance_block` keeps).**  The block's undo list is appended to the unflushed undo
infos exactly when its height is at least `daemon_height − reorg_limit + 1`. -/
theorem C15_keep {cfg : Cfg} {daemonH : Int} {s s' : Sys} {b : Block}
    (h : advance cfg daemonH s b = .ok s') :
    ∃ a : Acc Sys,
      advanceTxs sysOps cfg (s.m.st.height + 1).toNat b.txs { s := s, txNum := s.m.st.txCount } = .ok a ∧
      s'.m.undoU = (if undoKept cfg daemonH (s.m.st.height + 1).toNat
                    then a.s.m.undoU ++ [(a.undo, (s.m.st.height + 1).toNat)] else a.s.m.undoU) ∧
      s'.m.st.height = ((s.m.st.height + 1).toNat : Int) ∧ s'.p = a.s.p :=
  advance_undo h

/-- **C15 (window).**  A block at height `b` with `H − reorg_limit < b ≤ H`, indexed while the
daemon showed a height `D ≤ H` (true whenever daemon heights do not fall before the server catches
up at `H`), kept its undo information — whether it was indexed during initial sync or while caught
up. -/
theorem C15_window (cfg : Cfg) (H D : Int) (b : Nat) (hD : D ≤ H) (hb : H - cfg.reorgLimit < b) :
    undoKept cfg D b = true :=
  undoKept_of_window cfg H D b hD hb

/-- the hypothesis `D ≤ H` cannot be dropped (F10): reorg limit 2, block 8 indexed while the daemon
    showed 10, server later catches up at 9: block 8 is inside the window {8, 9} but has no undo -/
theorem C15_counterexample_falling_daemon_height :
    undoKept { act := 0, reorgLimit := 2 } 10 8 = false ∧ ((9 : Int) - 2 < 8) := by decide

/-- **C15 (pruning on start-up).**  After `_open_dbs` the undo rows are exactly the previous rows
whose height is not below `height − reorg_limit + 1`: older ones do not accumulate, rows inside the
window survive every restart. -/
theorem C15_prune {cfg : Cfg} {p : Store} {compacting : Bool} {keep : Option (List Nat)}
    {es : List Effect} {s : Sys} (h : openDbs cfg p compacting keep = some (es, s)) (k : Nat) :
    k ∈ s.p.undo.map (·.1) ↔
      k ∈ p.undo.map (·.1) ∧ ¬ ((k : Int) < s.m.st.height - cfg.reorgLimit + 1) :=
  openDbs_undo_keys h k

/-- **C15 (refusal).**  A back-out at a height without an undo row fails with `ChainError` before
anything is changed (depth `limit + 1` is refused exactly when the row is absent). -/
theorem C15_refuse (cfg : Cfg) (s : Sys) (b : Block)
    (hflushed : assertFlushed s = true) (hpos : 0 < s.m.st.height)
    (hnone : alookup s.m.st.height.toNat s.p.undo = none) :
    backupFull cfg s b = .error .chainError :=
  backup_refused_without_undo cfg s b hflushed hpos hnone

/-! non-vacuity -/
example : undoKept { act := 0, reorgLimit := 3 } 10 8 = true ∧ undoKept { act := 0, reorgLimit := 3 } 10 7 = false := by
  decide

end EV.Index

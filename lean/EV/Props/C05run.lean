import EV.Props.C05
import EV.Props.C04resume
import EV.Proofs.CrashBackupRun

/-!
# C05 over whole runs — a crash inside ANY back-out of ANY valid run

"If the process dies at any instant while a reorganisation is being backed out (between the history
rollback and the UTXO rollback of any block, or between blocks), then after restart and catching up
with the daemon the index again equals a fresh index of the daemon's chain, whichever chain the
daemon is on by then."

`EV/Props/C05.lean` speaks about ONE back-out from a state *assumed* to satisfy `FlushedB`.  Here the
state is the end state `s` of an arbitrary valid run `ops` from the empty index (advances, flushes of
either kind, back-outs, restarts: `ValidOps2 cfg {} ops`, as in C03run/C04resume), the interrupted
back-out is any back-out the run could perform next (`ValidOps2 cfg {} (ops ++ [.backup b])`), and
every hypothesis of the C05 theorems is DERIVED from the run invariant `FullInv'`
(`C05run_flushedB`, `C05run_backup_defined`).

The crash points.  A back-out performs exactly two atomic batches `[e1, e2]` (`History.backup`'s
batch, then the UTXO batch); "between blocks" of a multi-block reorganisation is the cut `[]` of the
next back-out = the cut `[e1, e2]` of the previous one.  The case split below is exhaustive
(`C05run_cases`):

* **harmless cuts `[]` and `[e1, e2]`, EVERY continuation** (new branch, old branch, unchanged
  chain, anything, valid or not) — `C05run_cut_harmless`: the restart succeeds, reports height `N`
  resp. `N − 1`, and the restarted state IS the end state of the crash-free run `ops ++ [reopen]`
  resp. `ops ++ [backup b, reopen]`; every continuation from it is literally the rest of that
  crash-free run, whose states satisfy the whole-run invariant (C03run: every observable is the
  specification's of the surviving chain = a fresh index's).  The property holds in full here.
* **the cut `[e1]` between the two batches** — `C05run_mid_restart`: the restart succeeds and reports
  height `N`; the restarted system has the memory of the clean restart and the same store except for
  the history table (already rolled back) and the representation of the history state record.
  - **new-branch continuation** ("block `N` is backed out again, then anything valid": further
    back-outs, advances on the new branch, flushes, restarts) — `C05run_newbranch`, end to end: the
    continuation succeeds and at its end (hence, prefixes of valid lists being valid, after every
    step) the state `c` is `SameRedo` to the end state `a` of the crash-free run
    `ops ++ [reopen, backup b] ++ ops'`: same memory, same `h`/`u`/undo tables and state records,
    same files, every read-path answer equal (`ObsEq`), same histories (`get_txnums`) for every
    script hash and limit, same undo information, same flush effect lists, same outcome of ANY
    further operation; and `c` itself satisfies the whole-run invariant of the surviving chain.
    Fully flushed: every observable is the specification's of the surviving chain
    (`C05run_newbranch_observables`) = those of a fresh index of that chain
    (`C05run_newbranch_fresh`) = those of the crash-free run WITHOUT any restart,
    `ops ++ [backup b] ++ ops'`, whenever that run is valid too (`C05run_newbranch_vs_uninterrupted`).
    The relation used is `HRel` (`EV/Proofs/CrashBackupRun.lean`): `ResEq` WITHOUT the history table
    — the two history tables differ (row order; after further flushes nothing else, but no table
    equality is needed): `histOnly_step` shows that the history table is write-only for the sync,
    `hrel_step` that every run operation preserves `HRel` with equal errors, and both sides stay in
    the run invariant (`Twin`), which pins the histories to the specification's.
  - **old-branch / unchanged-chain continuation** — the property is FALSE of the code: finding F8,
    `C05_counterexample_oldbranch` (restated as `C05run_F8`); recorded, not repaired.

* **any number of crashes, of either kind, in any order** — `Crashed` (inductive: run operations,
  C04's crashes at any cut of any flush, C05's crash between the two batches of any back-out followed
  by the repeated back-out; the harmless back-out cuts are plain `reopen` / `backup, reopen` steps),
  `C05run_crashes`: the state is `Twin` to the end state of the crash-free run that explains it
  (every crash replaced by a clean restart) — `SameRedo`, and the whole-run invariant holds of the
  crashed state ITSELF (`C05run_crashes_same`; `trackInv_of_resEq`: the invariant only looks at the
  committed part of the files, so torn tails do not matter); the crashed sync never gets stuck
  (`C05run_crashes_progress`, `C05run_crashes_continue`); fully flushed, every observable is the
  specification's of the surviving chain (`C05run_crashes_observables`).

Hypotheses: validity of the runs named (decidable, `decide` in the examples); `C05run_mid_restart`
and `C05run_flushedB` in addition need `0 < cfg.reorgLimit` ("some undo information is retained at
all"; it follows from the validity of `ops ++ [reopen, backup b]`, `lim_pos_of_backupOk_reopen`, and
cannot be dropped: with an empty window the restart prunes the undo row the repeated back-out needs).
The comparison run contains the `reopen` because the crash DID restart the process: a restart prunes
undo rows below the window, so a continuation that backs out deeper than the window is refused after
the crash (by code and model alike) although the run without any restart could have performed it.
Trusted, as in C04/C05: LevelDB batches are atomic and durable.
-/
namespace EV.Index
open EV.Spec

/-! ## the hypotheses of the C05 theorems, from the run invariant -/

/-- the bookkeeping of a run that can back out `b` next -/
theorem backupOk_of_valid {cfg : Cfg} {ops : List IOp2} {b : Block}
    (hv : ValidOps2 cfg {} (ops ++ [.backup b])) :
    ValidOps2 cfg {} ops ∧ BackupOk (Track.run cfg {} ops) b = true := by
  obtain ⟨h1, h2, -⟩ := (validOps2_append cfg {} ops [.backup b]).mp hv
  exact ⟨h1, h2⟩

/-- a back-out that is admissible stays admissible across a clean restart when the undo window is
    not empty -/
theorem backupOk_reopen_of_lim {cfg : Cfg} {t : Track} {b : Block} (hok : BackupOk t b = true)
    (hlim : 0 < cfg.reorgLimit) : BackupOk (t.step cfg .reopen) b = true := by
  obtain ⟨hcl, hlast, hlen, hk⟩ := backupOk_iff.mp hok
  have hc : (t.step cfg .reopen).chain = t.chain := by
    show t.chain.take t.dbLen = t.chain
    rw [hcl, List.take_length]
  apply backupOk_iff.mpr
  rw [hc]
  refine ⟨hcl, hlast, hlen, ?_⟩
  show t.chain.length - 1 ∈ keptAfterReopen cfg t.dbLen t.kept
  simp only [keptAfterReopen, List.mem_filter, Bool.and_eq_true, decide_eq_true_eq]
  refine ⟨hk, ?_, ?_⟩ <;> omega

/-- **C05 over runs: the interrupted back-out is defined and has exactly two batches.**  For the end
state `s` of every valid run and every back-out the run can perform next: `backup_block` +
`flush_backup` succeed with the effect list `[e1, e2]` — `History.backup`'s batch, then the UTXO
batch — and the result is the end state of the run `ops ++ [backup b]`, in the run invariant. -/
theorem C05run_backup_defined (cfg : Cfg) (ops : List IOp2) {b : Block}
    (hv : ValidOps2 cfg {} (ops ++ [.backup b])) {s : Sys} (hs : runOps2 cfg {} ops = .ok s) :
    ∃ e1 e2 s', backupFull cfg s b = .ok ([e1, e2], s') ∧
      e1.isHistBatch = true ∧ e2.isUtxoBatch = true ∧ cuts [e1, e2] = [[], [e1], [e1, e2]] ∧
      runOps2 cfg {} (ops ++ [.backup b]) = .ok s' ∧
      TrackInv cfg (Track.run cfg {} (ops ++ [.backup b])) s' ∧
      s'.m.st.height = s.m.st.height - 1 := by
  obtain ⟨s', hrun, ti'⟩ := trackInv_run _ (trackInv_init cfg) hv
  have hrun' := hrun
  rw [runOps2_append, hs] at hrun'
  simp only [runOps2, stepOp2, backup] at hrun'
  cases hb : backupFull cfg s b with
  | error e => rw [hb] at hrun'; cases hrun'
  | ok res =>
    obtain ⟨es, x⟩ := res
    rw [hb] at hrun'
    simp only [Except.ok.injEq] at hrun'
    subst hrun'
    obtain ⟨e1, e2, rfl, h1, h2, -⟩ := backupFull_effects hb
    obtain ⟨-, -, -, -, -, -, -, hh⟩ := backupFull_explicit hb
    exact ⟨e1, e2, x, rfl, h1, h2,
      cuts_atomic2 e1 e2 (tornPrefixes_of_histBatch h1) (tornPrefixes_of_utxoBatch h2), hrun, ti', hh⟩

/-- **C05 over runs: `FlushedB` is a consequence of the run invariant.**  In the end state of every
valid run that can back out a block next, the hypothesis `FlushedB` of `C05_newbranch_partial` holds
(given a non-empty undo window, which is one of its clauses). -/
theorem C05run_flushedB (cfg : Cfg) (ops : List IOp2) {b : Block}
    (hv : ValidOps2 cfg {} (ops ++ [.backup b])) {s : Sys} (hs : runOps2 cfg {} ops = .ok s)
    (hlim : 0 < cfg.reorgLimit) : FlushedB cfg s := by
  obtain ⟨hv0, hok⟩ := backupOk_of_valid hv
  obtain ⟨s1, hs1, ti⟩ := trackInv_run ops (trackInv_init cfg) hv0
  rw [hs] at hs1
  cases hs1
  obtain ⟨hcl, -, hlen, -⟩ := backupOk_iff.mp hok
  have hht := ti.inv.base.files.height
  exact flushedB_of_fullInv' ti.inv (ti.flushed hcl) (by omega) hlim

/-! ## the harmless cuts: every continuation -/

/-- **C05 over runs (harmless cuts, EVERY continuation).**  `s`: end state of any valid run; `b`: any
back-out the run can perform next; `[e1, e2]` its two batches.

* Crash before the history batch (cut `[]`; also: between two blocks of a reorganisation, before the
  next block is touched): the restart succeeds, reports height `N` (the height of `s`), and the
  restarted state `r0` is the end state of the crash-free run `ops ++ [reopen]`.
* Crash after the UTXO batch (cut `[e1, e2]`; also: between two blocks, after the previous one is
  done): the restart succeeds, reports height `N − 1`, and the restarted state `r3` is the end state of
  the crash-free run `ops ++ [backup b, reopen]`.

In both cases EVERY continuation `ops'` — new branch, old branch, unchanged chain, valid or not —
behaves from the restarted state exactly as the rest of that crash-free run (`runOps2` equal: same
error or same end state), and the restarted state satisfies the whole-run invariant, so by C03run
every state a valid continuation reaches answers every query as the specification of its surviving
chain does.  For these crash points C05 holds in full. -/
theorem C05run_cut_harmless (cfg : Cfg) (ops : List IOp2) {b : Block}
    (hv : ValidOps2 cfg {} (ops ++ [.backup b])) {s : Sys} (hs : runOps2 cfg {} ops = .ok s) :
    ∃ e1 e2 s', backupFull cfg s b = .ok ([e1, e2], s') ∧ cuts [e1, e2] = [[], [e1], [e1, e2]] ∧
      (∃ e0 r0, recover cfg (applyEffects s.p []) = some (e0, r0) ∧
        r0.m.dbst.height = s.m.st.height ∧
        runOps2 cfg {} (ops ++ [.reopen]) = .ok r0 ∧
        TrackInv cfg (Track.run cfg {} (ops ++ [.reopen])) r0 ∧
        ∀ ops', runOps2 cfg r0 ops' = runOps2 cfg {} (ops ++ .reopen :: ops')) ∧
      (∃ e3 r3, recover cfg (applyEffects s.p [e1, e2]) = some (e3, r3) ∧
        r3.m.dbst.height = s.m.st.height - 1 ∧
        runOps2 cfg {} (ops ++ [.backup b, .reopen]) = .ok r3 ∧
        TrackInv cfg (Track.run cfg {} (ops ++ [.backup b, .reopen])) r3 ∧
        ∀ ops', runOps2 cfg r3 ops' = runOps2 cfg {} (ops ++ .backup b :: .reopen :: ops')) := by
  obtain ⟨hv0, hok⟩ := backupOk_of_valid hv
  obtain ⟨e1, e2, s', hb, -, -, hcuts, hrun', ti', hh'⟩ := C05run_backup_defined cfg ops hv hs
  obtain ⟨s1, hs1, ti⟩ := trackInv_run ops (trackInv_init cfg) hv0
  rw [hs] at hs1
  cases hs1
  obtain ⟨hcl, -, -, -⟩ := backupOk_iff.mp hok
  have hp' : s'.p = applyEffects s.p [e1, e2] := by
    obtain ⟨x1, x2, -, -, -, hp⟩ := backupFull_effects hb
    exact hp
  refine ⟨e1, e2, s', hb, hcuts, ?_, ?_⟩
  · obtain ⟨e0, r0, hrec, hr0, ti0, -, -⟩ := C04run_clean_restart cfg ops hv0 hs
    refine ⟨e0, r0, hrec, ?_, hr0, ?_, ?_⟩
    · have h1 := ti0.db
      have h2 := ti.inv.base.files.height
      have h3 : ((Track.run cfg {} ops).step cfg .reopen).dbLen = (Track.run cfg {} ops).dbLen := rfl
      rw [h3, hcl] at h1
      omega
    · rw [Track.run_append]; exact ti0
    · intro ops'
      have : ops ++ .reopen :: ops' = (ops ++ [.reopen]) ++ ops' := by simp
      rw [this, runOps2_append, hr0]
  · obtain ⟨e3, r3, hrec, hr3, ti3, -, -⟩ := C04run_clean_restart cfg (ops ++ [.backup b]) hv hrun'
    have happ : (ops ++ [.backup b]) ++ [.reopen] = ops ++ [.backup b, .reopen] := by simp
    rw [happ] at hr3
    refine ⟨e3, r3, by rw [← hp']; exact hrec, ?_, hr3, ?_, ?_⟩
    · have h1 := ti3.db
      have h2 := ti'.inv.base.files.height
      have h3 : ((Track.run cfg {} (ops ++ [.backup b])).step cfg .reopen).dbLen =
          (Track.run cfg {} (ops ++ [.backup b])).dbLen := rfl
      have h4 : (Track.run cfg {} (ops ++ [.backup b])).dbLen =
          (Track.run cfg {} (ops ++ [.backup b])).chain.length := by
        rw [Track.run_append]
        show (Track.run cfg {} ops).chain.length - 1 = (Track.run cfg {} ops).chain.dropLast.length
        rw [List.length_dropLast]
      rw [h3, h4] at h1
      omega
    · rw [← happ, Track.run_append]; exact ti3
    · intro ops'
      have : ops ++ .backup b :: .reopen :: ops' = (ops ++ [.backup b, .reopen]) ++ ops' := by simp
      rw [this, runOps2_append, hr3]

/-! ## the cut between the two batches -/

/-- **C05 over runs (the cut between the two batches: the restart).**  The process dies after
`History.backup`'s batch and before the UTXO batch of a back-out issued in the end state of any valid
run.  The restart succeeds (`r`), reports height `N` — the block is NOT backed out as far as the
UTXO DB and `DB.state` are concerned —, and `r` is the clean restart `r0` of the store the back-out
started from (= the end state of the crash-free run `ops ++ [reopen]`) with ANOTHER HISTORY TABLE:
same memory, same `h`/`u`/undo tables, same files, same UTXO state record; the history table is
the one the crash left — for every script hash touched by the back-out (or since the last restart:
`touched` accumulates) the history is cut to the transactions below block `N`'s first one, all other
histories are unchanged.  Every read-path answer that does not involve the history table is
therefore that of `r0`; the histories are already those of the chain WITHOUT block `N` (this mismatch
is what F8 is about). -/
theorem C05run_mid_restart (cfg : Cfg) (ops : List IOp2) {b : Block}
    (hv : ValidOps2 cfg {} (ops ++ [.backup b])) {s : Sys} (hs : runOps2 cfg {} ops = .ok s)
    (hlim : 0 < cfg.reorgLimit) :
    ∃ e1 e2 s' er r e0 r0, backupFull cfg s b = .ok ([e1, e2], s') ∧ [e1] ∈ cuts [e1, e2] ∧
      recover cfg (applyEffects s.p [e1]) = some (er, r) ∧
      r.m.dbst.height = s.m.st.height ∧
      recover cfg s.p = some (e0, r0) ∧ runOps2 cfg {} (ops ++ [.reopen]) = .ok r0 ∧
      r = { m := r0.m, p := { r0.p with hist := r.p.hist, hstate := r.p.hstate } } ∧
      r.p.hist = (applyEffects s.p [e1]).hist ∧
      (∀ hx, getTxnums r.p hx none =
        if hx ∈ s'.m.touched then (getTxnums s.p hx none).filter (· < s'.m.st.txCount)
        else getTxnums s.p hx none) := by
  obtain ⟨hv0, hok⟩ := backupOk_of_valid hv
  obtain ⟨e1, e2, s', hb, -, -, hcuts, -, -, -⟩ := C05run_backup_defined cfg ops hv hs
  obtain ⟨s1, hs1, ti⟩ := trackInv_run ops (trackInv_init cfg) hv0
  rw [hs] at hs1
  cases hs1
  have hF := C05run_flushedB cfg ops hv hs hlim
  obtain ⟨er, r, e0, r0, -, -, -, -, hrec, hrec0, hr, hhist, hdb, -, -, -, -⟩ :=
    redo_twin ti hok (backupOk_reopen_of_lim hok hlim) hb
  obtain ⟨e0', r0', hrec0', hr0', -, -, -⟩ := C04run_clean_restart cfg ops hv0 hs
  have : r0' = r0 := by
    have := hrec0'.symm.trans hrec0
    simp only [Option.some.injEq, Prod.mk.injEq] at this
    exact this.2
  subst this
  refine ⟨e1, e2, s', er, r, e0, r0', hb, by rw [hcuts]; simp, hrec, by rw [hdb], hrec0, hr0', hr,
    hhist, ?_⟩
  intro hx
  obtain ⟨e2x, -, hes, -⟩ := backupFull_explicit hb
  simp only [List.cons.injEq, and_true] at hes
  rw [getTxnums_congr hhist hx none]
  show getTxnums (applyEffect s.p e1) hx none = _
  rw [hes.1]
  exact getTxnums_histBackup' s _ _ hF.keys hx (hF.asc hx)

/-- **…every read-path answer of the restarted index that does not involve the history table is the
clean restart's** (so: that of a correct index of the chain WITH block `N`): `DB.state`, `fs_tx_hash`,
`all_utxos`, `lookup_utxos`, `fs_tx_hashes_at_blockheight`, `read_headers`, the undo rows.  Only the
histories (`C05run_mid_restart`, last clause) are already those of the chain without block `N`. -/
theorem C05run_mid_restart_obs (cfg : Cfg) (ops : List IOp2) {b : Block}
    (hv : ValidOps2 cfg {} (ops ++ [.backup b])) {s : Sys} (hs : runOps2 cfg {} ops = .ok s)
    (hlim : 0 < cfg.reorgLimit) :
    ∃ e1 e2 s' er r e0 r0, backupFull cfg s b = .ok ([e1, e2], s') ∧
      recover cfg (applyEffects s.p [e1]) = some (er, r) ∧ recover cfg s.p = some (e0, r0) ∧
      r.m = r0.m ∧ (∀ n, fsTxHash r n = fsTxHash r0 n) ∧
      (∀ hx, allUtxos r hx = allUtxos r0 hx) ∧
      (∀ txid idx, lookupUtxo r txid idx = lookupUtxo r0 txid idx) ∧
      (∀ h, txHashesAt r h = txHashesAt r0 h) ∧
      (∀ start count, readHeaders r start count = readHeaders r0 start count) ∧
      (∀ h, alookup h r.p.undo = alookup h r0.p.undo) := by
  obtain ⟨e1, e2, s', er, r, e0, r0, hb, -, hrec, -, hrec0, -, hr, -, -⟩ :=
    C05run_mid_restart cfg ops hv hs hlim
  refine ⟨e1, e2, s', er, r, e0, r0, hb, hrec, hrec0, ?_, ?_, ?_, ?_, ?_, ?_, ?_⟩
  · rw [hr]
  · intro n; rw [hr]; rfl
  · intro hx; rw [hr]; rfl
  · intro txid idx; rw [hr]; rfl
  · intro h; rw [hr]; rfl
  · intro st c; rw [hr]; rfl
  · intro h; rw [hr]

/-- "the index that crashed between the two batches, restarted and backed the block out again is in
    the same state as the crash-free one": `a` the end state of the crash-free run, `c` the other -/
structure SameRedo (cfg : Cfg) (a c : Sys) : Prop where
  /-- same memory, `h`/`u`/undo tables, UTXO state record, history flush count, files (up to the
      file pointers); the history TABLES are not compared -/
  rel : HRel a c
  /-- every read-path answer -/
  obs : ObsEq a c
  /-- the histories themselves, for every script hash and limit -/
  txnums : ∀ hx limit, getTxnums c.p hx limit = getTxnums a.p hx limit
  /-- `read_undo_info` of every height, on disk and pending -/
  undo : ∀ h, alookup h c.p.undo = alookup h a.p.undo ∧ undoLookup c h = undoLookup a h
  /-- the effect list (and new memory) of the next flush of either kind -/
  flush : ∀ fu, flushDbs c fu = flushDbs a fu
  /-- any further operation, valid or not: same error, or `HRel` results -/
  next : ∀ op, HRelE (stepOp2 cfg a op) (stepOp2 cfg c op)

theorem SameRedo.of_twin {cfg : Cfg} {t : Track} {a c : Sys} (T : Twin cfg t a c) : SameRedo cfg a c :=
  ⟨T.rel, T.obs, T.txnums, T.undoRows, T.flushDbs, T.next⟩

/-- with every block committed, a restart followed by a back-out leaves the same surviving chain as
    the back-out alone -/
theorem chainOf2_reopen_backup (cfg : Cfg) (ops ops' : List IOp2) (b : Block)
    (hcl : (Track.run cfg {} ops).dbLen = (Track.run cfg {} ops).chain.length) :
    chainOf2 [] 0 (ops ++ .reopen :: .backup b :: ops') = chainOf2 [] 0 (ops ++ .backup b :: ops') := by
  have h1 := Track.run_chain cfg {} (ops ++ .reopen :: .backup b :: ops')
  have h2 := Track.run_chain cfg {} (ops ++ .backup b :: ops')
  refine h1.symm.trans (Eq.trans ?_ h2)
  rw [Track.run_append, Track.run_append, Track.run_cons, Track.run_cons, Track.run_cons,
    Track.run_chain, Track.run_chain]
  show chainOf2 (((Track.run cfg {} ops).chain.take (Track.run cfg {} ops).dbLen).dropLast)
      (((Track.run cfg {} ops).chain.take (Track.run cfg {} ops).dbLen).length - 1) ops' =
    chainOf2 (Track.run cfg {} ops).chain.dropLast ((Track.run cfg {} ops).chain.length - 1) ops'
  rw [hcl, List.take_length]

/-- **C05 over runs (the cut between the two batches, new-branch continuation, end to end).**
`s`: end state of any valid run `ops`; `b`: any back-out the run can perform next (`hv`); the process
dies between the two batches `[e1, e2]` of that back-out, restarts, finds that the daemon's chain does
not contain block `N` and backs `b` out again, then performs ANY continuation `ops'` — further
back-outs, advances on the new branch, flushes of either kind, restarts — such that the crash-free
run with a clean restart in place of the crash, `ops ++ [reopen, backup b] ++ ops'`, is valid (`hv'`).
Then:

* the restart succeeds (`r`) and reports height `N`;
* the repeated back-out succeeds and performs THE SAME UTXO batch `e2`;
* the whole continuation succeeds from `r` (end state `c`), as the crash-free run does (end state `a`);
* `a` and `c` are `Twin`: `c` is `SameRedo` to `a` — same memory, same tables except the history
  table, same state records and files, EVERY read-path answer equal (`ObsEq`), the same histories for
  every script hash and limit, the same undo information, the same effects of the next flush, the
  same outcome (error, or `HRel` results) of ANY further operation — and `c` ITSELF satisfies the
  whole-run invariant `FullInv'` for the surviving chain `chainOf2 [] 0 (ops ++ backup b :: ops')`
  and the retained heights of the crash-free run.

Prefixes of valid lists are valid, so this holds after every step of the continuation. -/
theorem C05run_newbranch (cfg : Cfg) (ops ops' : List IOp2) {b : Block}
    (hv : ValidOps2 cfg {} (ops ++ [.backup b])) {s : Sys} (hs : runOps2 cfg {} ops = .ok s)
    (hv' : ValidOps2 cfg {} (ops ++ .reopen :: .backup b :: ops')) :
    ∃ e1 e2 s' er r e1' s2 a c, backupFull cfg s b = .ok ([e1, e2], s') ∧ [e1] ∈ cuts [e1, e2] ∧
      recover cfg (applyEffects s.p [e1]) = some (er, r) ∧
      r.m.dbst.height = s.m.st.height ∧
      backupFull cfg r b = .ok ([e1', e2], s2) ∧
      runOps2 cfg {} (ops ++ .reopen :: .backup b :: ops') = .ok a ∧
      runOps2 cfg r (.backup b :: ops') = .ok c ∧
      Twin cfg (Track.run cfg {} (ops ++ .reopen :: .backup b :: ops')) a c ∧
      SameRedo cfg a c ∧
      FullInv' cfg (chainOf2 [] 0 (ops ++ .backup b :: ops'))
        (Track.run cfg {} (ops ++ .reopen :: .backup b :: ops')).kept c := by
  obtain ⟨hv0, hok⟩ := backupOk_of_valid hv
  obtain ⟨-, -, hok2, hvr⟩ := (validOps2_append cfg {} ops (.reopen :: .backup b :: ops')).mp hv'
  obtain ⟨e1, e2, s', hb, -, -, hcuts, -, -, -⟩ := C05run_backup_defined cfg ops hv hs
  obtain ⟨s1, hs1, ti⟩ := trackInv_run ops (trackInv_init cfg) hv0
  rw [hs] at hs1
  cases hs1
  obtain ⟨hcl, -, -, -⟩ := backupOk_iff.mp hok
  obtain ⟨er, r, e0, r0, e1', s2, f1, s2', hrec, hrec0, -, -, hdb, -, hbk, hbk0, T⟩ :=
    redo_twin ti hok hok2 hb
  obtain ⟨a, c, hra, hrc, T'⟩ := twin_run ops' T hvr
  have htr : Track.run cfg {} (ops ++ .reopen :: .backup b :: ops') =
      (((Track.run cfg {} ops).step cfg .reopen).step cfg (.backup b)).run cfg ops' := by
    rw [Track.run_append, Track.run_cons, Track.run_cons]
  have hrunA : runOps2 cfg {} (ops ++ .reopen :: .backup b :: ops') = .ok a := by
    rw [runOps2_append, hs]
    have h1 : reopen cfg s = .ok r0 := reopen_of_some (show openDbs cfg s.p false none = _ from hrec0)
    simp only [runOps2, stepOp2, h1, backup_of_ok hbk0]
    exact hra
  have hrunC : runOps2 cfg r (.backup b :: ops') = .ok c := by
    simp only [runOps2, stepOp2, backup_of_ok hbk]
    exact hrc
  rw [← htr] at T'
  refine ⟨e1, e2, s', er, r, e1', s2, a, c, hb, by rw [hcuts]; simp, hrec, by rw [hdb], hbk, hrunA,
    hrunC, T', SameRedo.of_twin T', ?_⟩
  have := T'.tb.inv
  rw [Track.run_chain] at this
  rw [← chainOf2_reopen_backup cfg ops ops' b hcl]
  exact this

/-- **C05 over runs (new branch): every observable is the specification's of the surviving chain.**
Setting of `C05run_newbranch`; `r`, `c` named by the equations they satisfy.  If the continuation
ends fully flushed, `all_utxos`, `limited_history` for every limit, the counters, height, tip, chain
size, `read_headers` and `fs_tx_hashes_at_blockheight` of the index that crashed between the two
batches answer exactly what the specification of the SURVIVING chain says — the chain with block `N`
(and whatever the continuation backed out) gone and the new branch's blocks in. -/
theorem C05run_newbranch_observables (cfg : Cfg) (ops ops' : List IOp2) {b : Block}
    (hv : ValidOps2 cfg {} (ops ++ [.backup b])) {s : Sys} (hs : runOps2 cfg {} ops = .ok s)
    (hv' : ValidOps2 cfg {} (ops ++ .reopen :: .backup b :: ops'))
    {e1 e2 : Effect} {s' : Sys} (hb : backupFull cfg s b = .ok ([e1, e2], s'))
    {er : List Effect} {r c : Sys} (hrec : recover cfg (applyEffects s.p [e1]) = some (er, r))
    (hc : runOps2 cfg r (.backup b :: ops') = .ok c) (hfl : c.m.dbst.height = c.m.st.height) :
    (∀ hx, ∃ rows, allUtxos c hx = some rows ∧
        rows.Perm (((specChain cfg.act (chainOf2 [] 0 (ops ++ .backup b :: ops'))).utxos.filter
          (·.hx == hx)).map (fun u => ⟨u.txnum, u.idx, u.txid, u.height, u.value⟩))) ∧
    (∀ hx limit, limitedHistory c hx limit =
        some (historyPairs (specChain cfg.act (chainOf2 [] 0 (ops ++ .backup b :: ops'))) hx limit)) ∧
    c.m.st.utxoCount = ((specChain cfg.act (chainOf2 [] 0 (ops ++ .backup b :: ops'))).utxos.length : Int) ∧
    c.m.st.txCount = (specChain cfg.act (chainOf2 [] 0 (ops ++ .backup b :: ops'))).txs.length ∧
    c.m.st.height = ((chainOf2 [] 0 (ops ++ .backup b :: ops')).length : Int) - 1 ∧
    c.m.st.tip = ((chainOf2 [] 0 (ops ++ .backup b :: ops')).getLast?.map (·.hash)).getD 0 ∧
    c.m.st.chainSize = ((chainOf2 [] 0 (ops ++ .backup b :: ops')).map (·.size)).sum ∧
    (∀ start count, readHeaders c start count =
      (((chainOf2 [] 0 (ops ++ .backup b :: ops')).map (·.header)).drop start).take
        (min (count : Int) (((chainOf2 [] 0 (ops ++ .backup b :: ops')).length : Int) - start)).toNat) ∧
    (∀ (h : Nat) (blk : Block), (chainOf2 [] 0 (ops ++ .backup b :: ops'))[h]? = some blk →
      txHashesAt c h = some (blk.txs.map (·.id))) := by
  obtain ⟨x1, x2, x3, er', r', -, -, -, c', hb', -, hrec', -, -, -, hc', -, -, inv⟩ :=
    C05run_newbranch cfg ops ops' hv hs hv'
  rw [hb] at hb'
  simp only [Except.ok.injEq, Prod.mk.injEq, List.cons.injEq, and_true] at hb'
  obtain ⟨⟨rfl, rfl⟩, rfl⟩ := hb'
  rw [hrec] at hrec'
  simp only [Option.some.injEq, Prod.mk.injEq] at hrec'
  obtain ⟨rfl, rfl⟩ := hrec'
  rw [hc] at hc'
  cases hc'
  exact observables_of_fullInv' inv hfl

/-- a fully flushed state of the run invariant answers like the index of a server that only ever
    advanced the same chain -/
theorem fresh_of_fullInv' {cfg : Cfg} {chain : List Block} {K : List Nat} {c : Sys}
    (inv : FullInv' cfg chain K c) (hfl : c.m.dbst.height = c.m.st.height) :
    ∃ s0, ValidOps cfg [] (advOnly chain) ∧ chainOf (advOnly chain) = chain ∧
      runOps cfg {} (advOnly chain ++ [.flush true]) = .ok s0 ∧ SameAnswers c s0 := by
  have hvo : ValidOps cfg [] (advOnly chain) := validOps_advOnly [] _ (by simpa using inv.valid)
  have hvo' := validOps_snoc_flush _ _ true hvo
  obtain ⟨s0, hr0, ti0⟩ := trackInv_run _ (trackInv_init cfg)
    (validOps2_map_to2 (advOnly chain ++ [IOp.flush true]) {} hvo')
  rw [runOps2_map_to2] at hr0
  have hmap : (advOnly chain ++ [IOp.flush true]).map IOp.to2 =
      (advOnly chain).map IOp.to2 ++ [IOp2.flush true] := by
    rw [List.map_append]; rfl
  have hchain0 : (Track.run cfg {} ((advOnly chain ++ [IOp.flush true]).map IOp.to2)).chain = chain := by
    rw [Track.run_chain, chainOf2_map_to2, chainOf_snoc_flush, chainOf_advOnly]; rfl
  have hfl0 : s0.m.dbst.height = s0.m.st.height :=
    ti0.flushed (by rw [hmap, Track.run_flushTrue])
  have inv0 := ti0.inv
  rw [hchain0] at inv0
  exact ⟨s0, hvo, chainOf_advOnly _, hr0, obsEq_of_fullInv inv hfl inv0 hfl0⟩

/-- **C05 over runs (new branch): "the index again equals a fresh index of the daemon's chain".**
Setting of `C05run_newbranch`.  If the continuation ends fully flushed, the index that crashed between
the two batches answers every query exactly like the index `s0` of a server that only ever advanced
the surviving chain (which is a valid run of its own): same histories for every script hash and
limit, same UTXOs up to row order, same counters, height, tip and chain size, same headers, same
per-block transaction hashes. -/
theorem C05run_newbranch_fresh (cfg : Cfg) (ops ops' : List IOp2) {b : Block}
    (hv : ValidOps2 cfg {} (ops ++ [.backup b])) {s : Sys} (hs : runOps2 cfg {} ops = .ok s)
    (hv' : ValidOps2 cfg {} (ops ++ .reopen :: .backup b :: ops')) :
    ∃ e1 e2 s' er r c, backupFull cfg s b = .ok ([e1, e2], s') ∧
      recover cfg (applyEffects s.p [e1]) = some (er, r) ∧
      runOps2 cfg r (.backup b :: ops') = .ok c ∧
      (c.m.dbst.height = c.m.st.height →
        ∃ s0, ValidOps cfg [] (advOnly (chainOf2 [] 0 (ops ++ .backup b :: ops'))) ∧
          chainOf (advOnly (chainOf2 [] 0 (ops ++ .backup b :: ops'))) =
            chainOf2 [] 0 (ops ++ .backup b :: ops') ∧
          runOps cfg {} (advOnly (chainOf2 [] 0 (ops ++ .backup b :: ops')) ++ [.flush true]) = .ok s0 ∧
          SameAnswers c s0) := by
  obtain ⟨e1, e2, s', er, r, -, -, -, c, hb, -, hrec, -, -, -, hc, -, -, inv⟩ :=
    C05run_newbranch cfg ops ops' hv hs hv'
  exact ⟨e1, e2, s', er, r, c, hb, hrec, hc, fun hfl => fresh_of_fullInv' inv hfl⟩

/-- **C05 over runs (new branch) vs the run that was never interrupted and never restarted.**
Setting of `C05run_newbranch`; suppose the crash-free run WITHOUT any restart,
`ops ++ [backup b] ++ ops'`, is valid too (end state `u`).  When both stand fully flushed, the index
that crashed between the two batches, restarted and backed the block out again answers every query
exactly like `u`.  (Literal store equality with `u` does not hold in model or code: flush ids, the
partition of history rows by flush id, pruned undo rows depend on the restart — `SameRedo` is with
the crash-free run that restarts cleanly where the crash happened.) -/
theorem C05run_newbranch_vs_uninterrupted (cfg : Cfg) (ops ops' : List IOp2) {b : Block}
    (hv : ValidOps2 cfg {} (ops ++ [.backup b])) {s : Sys} (hs : runOps2 cfg {} ops = .ok s)
    (hv' : ValidOps2 cfg {} (ops ++ .reopen :: .backup b :: ops'))
    (hvU : ValidOps2 cfg {} (ops ++ .backup b :: ops')) :
    ∃ e1 e2 s' er r c u, backupFull cfg s b = .ok ([e1, e2], s') ∧
      recover cfg (applyEffects s.p [e1]) = some (er, r) ∧
      runOps2 cfg r (.backup b :: ops') = .ok c ∧
      runOps2 cfg {} (ops ++ .backup b :: ops') = .ok u ∧
      (c.m.dbst.height = c.m.st.height → u.m.dbst.height = u.m.st.height → SameAnswers c u) := by
  obtain ⟨e1, e2, s', er, r, -, -, -, c, hb, -, hrec, -, -, -, hc, -, -, inv⟩ :=
    C05run_newbranch cfg ops ops' hv hs hv'
  obtain ⟨u, hu, invU⟩ := C03run_refinement cfg _ hvU
  exact ⟨e1, e2, s', er, r, c, u, hb, hrec, hc, hu, fun h1 h2 => obsEq_of_fullInv inv h1 invU h2⟩

/-! ## the case split is exhaustive; F8 stays -/

/-- **C05 over runs: the case split.**  Every crash point of a back-out issued in the end state of a
valid run is one of: before the history batch / after the UTXO batch (harmless, every continuation:
`C05run_cut_harmless`), or between the two batches (`C05run_mid_restart`; new-branch continuation:
`C05run_newbranch`; old-branch or unchanged-chain continuation: F8, `C05run_F8`). -/
theorem C05run_cases (cfg : Cfg) (ops : List IOp2) {b : Block}
    (hv : ValidOps2 cfg {} (ops ++ [.backup b])) {s : Sys} (hs : runOps2 cfg {} ops = .ok s) :
    ∃ e1 e2 s', backupFull cfg s b = .ok ([e1, e2], s') ∧
      ∀ c ∈ cuts [e1, e2], (c = [] ∨ c = [e1, e2]) ∨ c = [e1] := by
  obtain ⟨e1, e2, s', hb, -, -, hcuts, -, -, -⟩ := C05run_backup_defined cfg ops hv hs
  refine ⟨e1, e2, s', hb, ?_⟩
  intro c hc
  rw [hcuts] at hc
  simp only [List.mem_cons, List.not_mem_nil, or_false] at hc
  rcases hc with h | h | h
  · exact Or.inl (Or.inl h)
  · exact Or.inr h
  · exact Or.inl (Or.inr h)

/-- the run of the F8 witness: blocks 0 and 1 indexed, full flush -/
def cxOps : List IOp2 := [.adv cxB0 1, .adv cxB1 1, .flush true]

theorem cxOps_run : runOps2 cxCfg {} cxOps = .ok cxS := by
  have h := cx_advance
  cases h0 : advance cxCfg 1 {} cxB0 with
  | error e => rw [h0] at h; simp [okSys] at h
  | ok s0 =>
    rw [h0] at h
    simp only [okSys, Option.bind_some] at h
    cases h1 : advance cxCfg 1 s0 cxB1 with
    | error e => rw [h1] at h; simp at h
    | ok s1 =>
      rw [h1] at h
      simp only [Option.some.injEq] at h
      subst h
      simp only [cxOps, runOps2, stepOp2, h0, h1, cx_flush]

/-- **F8 stays (the cut between the two batches, old-branch / unchanged-chain continuation).**  The
witness of `C05_counterexample_oldbranch` is an instance of the whole-run setting: `cxS` is the end
state of the valid run `cxOps`, which can back out block 1 next; the crash between the two batches
`[cxE1, cxE2]` and the restart give `cxR`; with the daemon (back) on the old branch the index is then
wrong for good.  The property is false of the code here — restated, not repaired:
`C05_counterexample_oldbranch` has the details (height 1 reported, both UTXOs present, history `[0]`
instead of `[0, 1]`, nothing to flush, `[0, 2]` instead of `[0, 1, 2]` after block 2). -/
theorem C05run_F8 :
    ValidOps2 cxCfg {} (cxOps ++ [.backup cxB1]) ∧ runOps2 cxCfg {} cxOps = .ok cxS ∧
    (match backupFull cxCfg cxS cxB1 with | .ok (es, _) => some es | .error _ => none) = some [cxE1, cxE2] ∧
    [cxE1] ∈ cuts [cxE1, cxE2] ∧
    (recover cxCfg (applyEffects cxS.p [cxE1])).map (·.2) = some cxR ∧
    getTxnums cxR.p 7 none = [0] ∧
    EV.Spec.historyOf (EV.Spec.specChain 0 [cxB0, cxB1]) 7 = [0, 1] ∧
    flushDbs cxR true = some ([], cxR.m) ∧
    (((okSys (advance cxCfg 2 cxR cxB2)).bind (fun s => okSys (flush s true))).map
        (fun s => (s.m.dbst.height, getTxnums s.p 7 none))) = some (2, [0, 2]) ∧
    EV.Spec.historyOf (EV.Spec.specChain 0 [cxB0, cxB1, cxB2]) 7 = [0, 1, 2] := by
  obtain ⟨-, -, h3, h4, h5, -, -, h8, -, h10, h11, h12, h13⟩ := C05_counterexample_oldbranch
  exact ⟨by decide, cxOps_run, h3, h4, h5, h8, h10, h11, h12, h13⟩

/-! ## any number of crashes — inside flushes AND inside back-outs -/

/-- `Crashed cfg ops b`: the state `b` is reached from the empty index by run operations and
CRASHES of either kind, in any number and order:

* `step` — any run operation that succeeds (crash-free stretches; a crash BEFORE the history batch of
  a back-out, or between blocks, is `step reopen`; a crash AFTER the UTXO batch is `step (backup b)`
  followed by `step reopen`);
* `flushBefore` / `flushAfter` — C04's crashes: a flush of either kind is started in the current
  state, the process dies at ANY cut of its effect list (without / with the UTXO batch),
  `open_for_sync` runs in a fresh process;
* `backupMid` — C05's crash with the new-branch continuation: a back-out is started in the current
  state, the process dies BETWEEN its two batches, `open_for_sync` runs in a fresh process and the
  block is backed out again.

`ops` is the crash-free run that explains `b`: every crash replaced by a clean restart — preceded
by the flush when the cut contained the UTXO batch, followed by the back-out for `backupMid`. -/
inductive Crashed (cfg : Cfg) : List IOp2 → Sys → Prop where
  | init : Crashed cfg [] {}
  | step {ops : List IOp2} {b b' : Sys} (op : IOp2) :
      Crashed cfg ops b → stepOp2 cfg b op = .ok b' → Crashed cfg (ops ++ [op]) b'
  | flushBefore {ops : List IOp2} {b r : Sys} {fu : Bool} {es c e : List Effect} {m' : Mem} :
      Crashed cfg ops b → flushDbs b fu = some (es, m') → c ∈ cuts es →
      (∀ x ∈ c, x.isUtxoBatch = false) → recover cfg (applyEffects b.p c) = some (e, r) →
      Crashed cfg (ops ++ [.reopen]) r
  | flushAfter {ops : List IOp2} {b r : Sys} {fu : Bool} {es c e : List Effect} {m' : Mem} :
      Crashed cfg ops b → flushDbs b fu = some (es, m') → c ∈ cuts es →
      (∃ x ∈ c, x.isUtxoBatch = true) → recover cfg (applyEffects b.p c) = some (e, r) →
      Crashed cfg (ops ++ [.flush fu, .reopen]) r
  | backupMid {ops : List IOp2} {b b' r r2 : Sys} {blk : Block} {e1 e2 : Effect} {e es2 : List Effect} :
      Crashed cfg ops b → backupFull cfg b blk = .ok ([e1, e2], b') →
      recover cfg (applyEffects b.p [e1]) = some (e, r) → backupFull cfg r blk = .ok (es2, r2) →
      Crashed cfg (ops ++ [.reopen, .backup blk]) r2

/-- crash-free stretches -/
theorem Crashed.run {cfg : Cfg} {ops : List IOp2} {b : Sys} (h : Crashed cfg ops b) (ops' : List IOp2)
    {b' : Sys} (hr : runOps2 cfg b ops' = .ok b') : Crashed cfg (ops ++ ops') b' := by
  induction ops' generalizing ops b with
  | nil =>
    simp only [runOps2, Except.ok.injEq] at hr
    subst hr
    rw [List.append_nil]; exact h
  | cons op r ih =>
    simp only [runOps2] at hr
    cases hs : stepOp2 cfg b op with
    | error e => rw [hs] at hr; cases hr
    | ok b1 =>
      rw [hs] at hr
      have := ih (Crashed.step op h hs) hr
      rw [List.append_assoc] at this
      exact this

/-- **C05 + C04 over runs (any number of crashes of either kind).**  If the crash-free run `ops` that
explains a state `b` reached through crashes inside flushes (any cut) and crashes between the two
batches of back-outs (followed by the repeated back-out) is valid, it succeeds with an end state `a`,
and `a`, `b` are `Twin`: BOTH satisfy the whole-run invariant for the surviving chain and the
retained heights of `ops`, and `b` is `HRel` to `a` (same memory, tables except the history table,
state records, files up to the file pointers). -/
theorem C05run_crashes {cfg : Cfg} {ops : List IOp2} {b : Sys} (hres : Crashed cfg ops b)
    (hv : ValidOps2 cfg {} ops) :
    ∃ a, runOps2 cfg {} ops = .ok a ∧ Twin cfg (Track.run cfg {} ops) a b := by
  induction hres with
  | init => exact ⟨{}, rfl, Twin.refl (trackInv_init cfg)⟩
  | @step ops b b' op _ hstep ih =>
    obtain ⟨hv1, hop, -⟩ := (validOps2_append cfg {} ops [op]).mp hv
    obtain ⟨a, h1, T⟩ := ih hv1
    obtain ⟨a', b1, ha', hb1, T'⟩ := twin_step T op hop
    rw [hstep] at hb1
    cases hb1
    refine ⟨a', ?_, ?_⟩
    · rw [runOps2_append, h1]; simp only [runOps2, ha']
    · rw [Track.run_append]; exact T'
  | @flushBefore ops b r fu es c e m' _ hf hc hnu hrec ih =>
    obtain ⟨hv1, -⟩ := (validOps2_append cfg {} ops [.reopen]).mp hv
    obtain ⟨a, h1, T⟩ := ih hv1
    obtain ⟨rb0, e', r', hrb0, -, hrec', R⟩ := resEq_crash_before T.tb (ResEq.refl b) hf hc hnu
    rw [hrec] at hrec'
    simp only [Option.some.injEq, Prod.mk.injEq] at hrec'
    obtain ⟨-, rfl⟩ := hrec'
    obtain ⟨a', b1, ha', hb1, T'⟩ := twin_step T .reopen trivial
    rw [hrb0] at hb1
    cases hb1
    refine ⟨a', ?_, ?_⟩
    · rw [runOps2_append, h1]; simp only [runOps2, ha']
    · rw [Track.run_append]; exact T'.of_resEq R
  | @flushAfter ops b r fu es c e m' _ hf hc hu hrec ih =>
    obtain ⟨hv1, -⟩ := (validOps2_append cfg {} ops [.flush fu, .reopen]).mp hv
    obtain ⟨a, h1, T⟩ := ih hv1
    obtain ⟨b1x, r1, e', r', hs1, hs2, -, hrec', R⟩ := resEq_crash_after T.tb (ResEq.refl b) hf hc hu
    rw [hrec] at hrec'
    simp only [Option.some.injEq, Prod.mk.injEq] at hrec'
    obtain ⟨-, rfl⟩ := hrec'
    obtain ⟨a1, b1, ha1, hb1, T1⟩ := twin_step T (.flush fu) trivial
    rw [hs1] at hb1
    cases hb1
    obtain ⟨a2, b2, ha2, hb2, T2⟩ := twin_step T1 .reopen trivial
    rw [hs2] at hb2
    cases hb2
    refine ⟨a2, ?_, ?_⟩
    · rw [runOps2_append, h1]; simp only [runOps2, ha1, ha2]
    · rw [Track.run_append]; exact T2.of_resEq R
  | @backupMid ops b b' r r2 blk e1 e2 e es2 _ hb hrec hbk ih =>
    obtain ⟨hv1, -, hok2, -⟩ := (validOps2_append cfg {} ops [.reopen, .backup blk]).mp hv
    obtain ⟨a, h1, T⟩ := ih hv1
    obtain ⟨a1, a2, ha1, ha2, T2, -⟩ := twin_backup_mid T hb hrec hbk hok2
    refine ⟨a2, ?_, ?_⟩
    · rw [runOps2_append, h1]; simp only [runOps2, ha1, ha2]
    · rw [Track.run_append]; exact T2

/-- **…in the same state as the crash-free run, and a correct index in its own right.**  For every
state reached through any number of crashes of either kind whose explaining run is valid: `SameRedo`
to the end state `a` of the explaining run (every read-path answer, histories, undo rows, next-flush
effects, outcome of any further operation), and `FullInv'` for the surviving chain holds of the
crashed state ITSELF. -/
theorem C05run_crashes_same {cfg : Cfg} {ops : List IOp2} {b : Sys} (hres : Crashed cfg ops b)
    (hv : ValidOps2 cfg {} ops) :
    ∃ a, runOps2 cfg {} ops = .ok a ∧ SameRedo cfg a b ∧
      FullInv' cfg (chainOf2 [] 0 ops) (Track.run cfg {} ops).kept a ∧
      FullInv' cfg (chainOf2 [] 0 ops) (Track.run cfg {} ops).kept b := by
  obtain ⟨a, h1, T⟩ := C05run_crashes hres hv
  have ia := T.ta.inv
  have ib := T.tb.inv
  rw [Track.run_chain] at ia ib
  exact ⟨a, h1, SameRedo.of_twin T, ia, ib⟩

/-- **…and it never gets stuck.**  In every such state: both kinds of flush are defined and the
restart succeeds after EVERY cut of them; every operation admissible for the explaining run
succeeds; and every back-out that is admissible (and still is after a restart) succeeds with two
batches `[e1, e2]`, the restart succeeds after the cut `[e1]` between them, and the repeated back-out
succeeds with the same UTXO batch. -/
theorem C05run_crashes_progress {cfg : Cfg} {ops : List IOp2} {b : Sys} (hres : Crashed cfg ops b)
    (hv : ValidOps2 cfg {} ops) :
    (∀ fu, ∃ es m', flushDbs b fu = some (es, m') ∧
      ∀ c ∈ cuts es, ∃ e r, recover cfg (applyEffects b.p c) = some (e, r)) ∧
    (∀ op, OkOp cfg (Track.run cfg {} ops) op → ∃ b', stepOp2 cfg b op = .ok b') ∧
    (∀ blk, BackupOk (Track.run cfg {} ops) blk = true →
      BackupOk ((Track.run cfg {} ops).step cfg .reopen) blk = true →
      ∃ e1 e2 b' e r e1' r2, backupFull cfg b blk = .ok ([e1, e2], b') ∧
        recover cfg (applyEffects b.p [e1]) = some (e, r) ∧
        backupFull cfg r blk = .ok ([e1', e2], r2)) := by
  obtain ⟨a, -, T⟩ := C05run_crashes hres hv
  have ti := T.tb
  refine ⟨?_, ?_, ?_⟩
  · intro fu
    obtain ⟨b1, h1, -⟩ := trackInv_step ti (.flush fu) trivial
    have h1' : flush b fu = .ok b1 := h1
    unfold flush at h1'
    cases hfd : flushDbs b fu with
    | none => rw [hfd] at h1'; cases h1'
    | some x =>
      obtain ⟨es, m'⟩ := x
      refine ⟨es, m', rfl, ?_⟩
      intro c hc
      by_cases hu : ∃ x ∈ c, x.isUtxoBatch = true
      · obtain ⟨-, -, e, r, -, -, -, hr, -⟩ := resEq_crash_after ti (ResEq.refl b) hfd hc hu
        exact ⟨e, r, hr⟩
      · have hnu : ∀ x ∈ c, x.isUtxoBatch = false := by
          intro x hx
          cases h : x.isUtxoBatch
          · rfl
          · exact (hu ⟨x, hx, h⟩).elim
        obtain ⟨-, e, r, -, -, hr, -⟩ := resEq_crash_before ti (ResEq.refl b) hfd hc hnu
        exact ⟨e, r, hr⟩
  · intro op hop
    obtain ⟨b', hb', -⟩ := trackInv_step ti op hop
    exact ⟨b', hb'⟩
  · intro blk hok hok2
    obtain ⟨b', hb', -⟩ := trackInv_step ti (.backup blk) hok
    have hb'' : backup cfg b blk = .ok b' := hb'
    unfold backup at hb''
    cases hbf : backupFull cfg b blk with
    | error e => rw [hbf] at hb''; cases hb''
    | ok res =>
      obtain ⟨es, x⟩ := res
      obtain ⟨e1, e2, rfl, -, -, -⟩ := backupFull_effects hbf
      obtain ⟨er, r, -, -, e1', s2, -, -, hrec, -, -, -, -, -, hbk, -, -⟩ := redo_twin ti hok hok2 hbf
      exact ⟨e1, e2, x, er, r, e1', s2, rfl, hrec, hbk⟩

/-- **…every observable is the specification's.**  Fully flushed, a state reached through any number
of crashes of either kind answers every query exactly as the specification of the surviving chain of
its explaining run says. -/
theorem C05run_crashes_observables {cfg : Cfg} {ops : List IOp2} {b : Sys} (hres : Crashed cfg ops b)
    (hv : ValidOps2 cfg {} ops) (hfl : b.m.dbst.height = b.m.st.height) :
    (∀ hx, ∃ rows, allUtxos b hx = some rows ∧
        rows.Perm (((specChain cfg.act (chainOf2 [] 0 ops)).utxos.filter (·.hx == hx)).map
          (fun u => ⟨u.txnum, u.idx, u.txid, u.height, u.value⟩))) ∧
    (∀ hx limit, limitedHistory b hx limit =
        some (historyPairs (specChain cfg.act (chainOf2 [] 0 ops)) hx limit)) ∧
    b.m.st.utxoCount = ((specChain cfg.act (chainOf2 [] 0 ops)).utxos.length : Int) ∧
    b.m.st.txCount = (specChain cfg.act (chainOf2 [] 0 ops)).txs.length ∧
    b.m.st.height = ((chainOf2 [] 0 ops).length : Int) - 1 ∧
    b.m.st.tip = ((chainOf2 [] 0 ops).getLast?.map (·.hash)).getD 0 ∧
    b.m.st.chainSize = ((chainOf2 [] 0 ops).map (·.size)).sum ∧
    (∀ start count, readHeaders b start count =
      (((chainOf2 [] 0 ops).map (·.header)).drop start).take
        (min (count : Int) (((chainOf2 [] 0 ops).length : Int) - start)).toNat) ∧
    (∀ (h : Nat) (blk : Block), (chainOf2 [] 0 ops)[h]? = some blk →
      txHashesAt b h = some (blk.txs.map (·.id))) := by
  obtain ⟨-, -, -, -, ib⟩ := C05run_crashes_same hres hv
  exact observables_of_fullInv' ib hfl

/-- **…every valid continuation succeeds** (and stays explained): from a state reached through any
number of crashes, every operation list that is valid for the explaining run runs without error. -/
theorem C05run_crashes_continue {cfg : Cfg} {ops : List IOp2} {b : Sys} (hres : Crashed cfg ops b)
    (ops' : List IOp2) (hv : ValidOps2 cfg {} (ops ++ ops')) :
    ∃ b', runOps2 cfg b ops' = .ok b' ∧ Crashed cfg (ops ++ ops') b' := by
  obtain ⟨hv1, hv2⟩ := (validOps2_append cfg {} ops ops').mp hv
  obtain ⟨a, -, T⟩ := C05run_crashes hres hv1
  obtain ⟨a', b', -, hb', -⟩ := twin_run ops' T hv2
  exact ⟨b', hb', hres.run ops' hb'⟩

/-- **…"again equals a fresh index of the daemon's chain", against ANY other run.**  Let `b` be
reached by a sync with any number of crashes of either kind, explained by the valid run `ops`, and
standing fully flushed.  Let `opsU` be ANY other valid run from the empty index that indexes the same
surviving chain and ends fully flushed in `u` — the run that was never interrupted and never
restarted, or the fresh index that only ever advanced the daemon's chain.  Then `b` answers every
query exactly like `u`, and the undo information of every height both runs retain is the same. -/
theorem C05run_crashes_vs_uninterrupted {cfg : Cfg} {ops : List IOp2} {b : Sys}
    (hres : Crashed cfg ops b) (hv : ValidOps2 cfg {} ops) (hfl : b.m.dbst.height = b.m.st.height)
    (opsU : List IOp2) (hvU : ValidOps2 cfg {} opsU)
    (hchain : chainOf2 [] 0 opsU = chainOf2 [] 0 ops) {u : Sys}
    (hu : runOps2 cfg {} opsU = .ok u) (hflU : u.m.dbst.height = u.m.st.height) :
    SameAnswers b u ∧
    ∀ h ∈ (Track.run cfg {} ops).kept, h ∈ (Track.run cfg {} opsU).kept →
      undoLookup b h = undoLookup u h := by
  obtain ⟨-, -, -, -, ib⟩ := C05run_crashes_same hres hv
  have invu := C04run_inv cfg opsU hvU hu
  rw [hchain] at invu
  refine ⟨obsEq_of_fullInv ib hfl invu hflU, ?_⟩
  intro h hk hkU
  have hlt := ib.kBound h hk
  have hsplit : chainOf2 [] 0 ops =
      (chainOf2 [] 0 ops).take h ++ (chainOf2 [] 0 ops)[h] :: (chainOf2 [] 0 ops).drop (h + 1) := by
    rw [List.getElem_cons_drop, List.take_append_drop]
  have hlen : ((chainOf2 [] 0 ops).take h).length = h := by
    rw [List.length_take]; omega
  rw [ib.undo h hk _ _ _ hsplit hlen, invu.undo h hkU _ _ _ hsplit hlen]

/-! ## non-vacuity

(1) The run of the F8 witness (`cxOps`: blocks 0 and 1, each a coinbase paying script hash 7, full
flush), block 1 backed out, crash between the two batches, NEW branch: block `cxB1n` on top of block
0.  (2) A run with a lost block, restarts and a history-only flush (`c05Ops` = the first seven
operations of `rxOps`), `rxB1` backed out, crash between the two batches, and a continuation with an
advance on the new branch, flushes of both kinds, a restart, and two further back-outs in a row. -/

/-- the new-branch block at height 1 (parent: block 0) -/
def cxB1n : Block :=
  { hash := 21, prev := 10, header := 201, size := 1,
    txs := [{ id := 5 * 2^224, ins := [cxGen], outs := [⟨9, 7, .normal⟩] }] }

def cxNew : List IOp2 := [.adv cxB1n 1, .flush true]

/-- all run-validity hypotheses of the theorems above hold for the witness run -/
theorem cx_valid :
    ValidOps2 cxCfg {} (cxOps ++ [.backup cxB1]) ∧
    ValidOps2 cxCfg {} (cxOps ++ .reopen :: .backup cxB1 :: cxNew) ∧
    ValidOps2 cxCfg {} (cxOps ++ .backup cxB1 :: cxNew) ∧ 0 < cxCfg.reorgLimit := by
  decide

/-- the store the crash between the two batches leaves, once restarted, REALLY differs from the
    restart of the store before the back-out and from the store after it (and so do the restarted
    systems): it is a third state, reached by no crash-free run -/
example :
    (recover cxCfg (applyEffects cxS.p [cxE1])).map (·.2) = some cxR ∧
    cxR.p ≠ cxS.p ∧ cxR.p ≠ applyEffects cxS.p [cxE1, cxE2] ∧
    cxR.p.hist = [((7, 1), [0])] ∧ cxS.p.hist = [((7, 1), [0, 1])] ∧
    cxR.p.u = cxS.p.u ∧ (applyEffects cxS.p [cxE1, cxE2]).u = [((7, 0, 0), 5)] := by
  refine ⟨cx_recover, by decide, by decide, by decide, by decide, by decide, by decide⟩

/-- `C05run_newbranch` on the witness: after the crash between the two batches, the restart (`cxR`),
    the repeated back-out of block 1 and the new-branch block, the index is fully flushed at height 1
    with tip `cxB1n` and the history of script hash 7 is the new chain's — transactions 0 and 1 with
    the new block's tx hash — where the old-branch continuation (F8) ends with a wrong history -/
theorem cx_newbranch :
    ∃ c, runOps2 cxCfg cxR (.backup cxB1 :: cxNew) = .ok c ∧ c.m.dbst.height = c.m.st.height ∧
      c.m.st.height = 1 ∧ c.m.st.tip = 21 ∧
      limitedHistory c 7 none = some [(2^224, 0), (5 * 2^224, 1)] ∧
      getTxnums c.p 7 none = [0, 1] := by
  obtain ⟨h1, h2, -, -⟩ := cx_valid
  obtain ⟨e1, e2, s', er, r, e1', s2, a, c, hb, -, hrec, -, -, -, hc, T, -, inv⟩ :=
    C05run_newbranch cxCfg cxOps cxNew h1 cxOps_run h2
  have hes := cx_backup
  rw [hb] at hes
  simp only [Option.some.injEq, List.cons.injEq, and_true] at hes
  obtain ⟨rfl, rfl⟩ := hes
  have hr := cx_recover
  rw [show cxCut = applyEffects cxS.p [cxE1] from rfl, hrec] at hr
  simp only [Option.map_some, Option.some.injEq] at hr
  subst hr
  have hfl : c.m.dbst.height = c.m.st.height := T.tb.flushed (by decide)
  obtain ⟨-, hh, -, -, hht, htip, -, -, -⟩ := observables_of_fullInv' inv hfl
  have hchain : chainOf2 [] 0 (cxOps ++ .backup cxB1 :: cxNew) = [cxB0, cxB1n] := by decide
  rw [hchain] at hh hht htip inv
  refine ⟨c, hc, hfl, by rw [hht]; rfl, by rw [htip]; rfl, ?_, ?_⟩
  · rw [hh 7 none]; decide
  · have := inv.base.hist.eq 7
    obtain ⟨-, -, hunf, -, -⟩ := flushed_of_db inv.base hfl
    rw [hunf] at this
    simp only [unfOf, alookup_nil, Option.getD_none, List.append_nil] at this
    rw [this]; decide

/-- …and it answers every query like the run that was never interrupted -/
example : ∃ c u, runOps2 cxCfg cxR (.backup cxB1 :: cxNew) = .ok c ∧
    runOps2 cxCfg {} (cxOps ++ .backup cxB1 :: cxNew) = .ok u ∧ SameAnswers c u := by
  obtain ⟨h1, h2, h3, -⟩ := cx_valid
  obtain ⟨c, hc, hfl, -⟩ := cx_newbranch
  obtain ⟨e1, e2, s', er, r, c', u, hb, hrec, hc', hu, hsame⟩ :=
    C05run_newbranch_vs_uninterrupted cxCfg cxOps cxNew h1 cxOps_run h2 h3
  have hes := cx_backup
  rw [hb] at hes
  simp only [Option.some.injEq, List.cons.injEq, and_true] at hes
  obtain ⟨rfl, rfl⟩ := hes
  have hr := cx_recover
  rw [show cxCut = applyEffects cxS.p [cxE1] from rfl, hrec] at hr
  simp only [Option.map_some, Option.some.injEq] at hr
  subst hr
  rw [hc] at hc'
  cases hc'
  obtain ⟨u', hu', ti⟩ := trackInv_run _ (trackInv_init cxCfg) h3
  rw [hu] at hu'
  cases hu'
  exact ⟨c, u, hc, hu, hsame hfl (ti.flushed (by decide))⟩

/-- the harmless cuts and the restart after the cut between the batches on the witness: all
    hypotheses are satisfied -/
example : ∃ r0 r r3, (recover cxCfg (applyEffects cxS.p [])).map (·.2) = some r0 ∧
    (recover cxCfg (applyEffects cxS.p [cxE1])).map (·.2) = some r ∧
    (recover cxCfg (applyEffects cxS.p [cxE1, cxE2])).map (·.2) = some r3 ∧
    r0.m.dbst.height = 1 ∧ r.m.dbst.height = 1 ∧ r3.m.dbst.height = 0 := by
  obtain ⟨h1, -, -, hlim⟩ := cx_valid
  obtain ⟨e1, e2, s', hb, -, ⟨e0, r0, hrec0, hh0, -⟩, ⟨e3, r3, hrec3, hh3, -⟩⟩ :=
    C05run_cut_harmless cxCfg cxOps h1 cxOps_run
  have hes := cx_backup
  rw [hb] at hes
  simp only [Option.some.injEq, List.cons.injEq, and_true] at hes
  obtain ⟨rfl, rfl⟩ := hes
  refine ⟨r0, cxR, r3, by rw [hrec0]; rfl, cx_recover, by rw [hrec3]; rfl, by rw [hh0]; rfl, rfl,
    by rw [hh3]; rfl⟩

/-- a run with a lost block, two restarts and a history-only flush, ending fully flushed on
    `[rxB0, rxB1]` -/
def c05Ops : List IOp2 := rxOps.take 7

/-- after the repeated back-out of `rxB1`: the fork block, a full flush, a restart, a block on the new
    branch, flushes of both kinds, and two further back-outs in a row -/
def c05Cont : List IOp2 :=
  [.adv rxB1' 1, .flush true, .reopen, .adv rxB2 2, .flush false, .flush true, .backup rxB2,
   .backup rxB1']

theorem c05_valid :
    ValidOps2 rxCfg {} (c05Ops ++ [.backup rxB1]) ∧
    ValidOps2 rxCfg {} (c05Ops ++ .reopen :: .backup rxB1 :: c05Cont) := by
  decide

/-- `FlushedB` (the hypothesis of `C05_newbranch_partial`) holds in the end state of that run — a state
    whose tip block `rxB1` SPENDS an output, so its undo list is not empty and the repeated back-out
    goes through `restoreInputs` -/
example : ∃ s, runOps2 rxCfg {} c05Ops = .ok s ∧ FlushedB rxCfg s ∧
    alookup 1 s.p.undo = some [⟨1, 0, 50⟩] := by
  obtain ⟨s, hs, inv⟩ := C03run_refinement rxCfg c05Ops (by decide)
  refine ⟨s, hs, C05run_flushedB rxCfg c05Ops c05_valid.1 hs (by decide), ?_⟩
  have hk : (1 : Nat) ∈ (Track.run rxCfg {} c05Ops).kept := by decide
  have hchain : chainOf2 [] 0 c05Ops = [rxB0] ++ rxB1 :: [] := by decide
  have hu := inv.undo 1 hk [rxB0] rxB1 [] hchain rfl
  obtain ⟨-, -, hundoU⟩ := inv.base.flushedU (by
    obtain ⟨s1, hs1, ti⟩ := trackInv_run c05Ops (trackInv_init rxCfg) (by decide)
    rw [hs] at hs1
    cases hs1
    exact ti.flushed (by decide))
  rw [undoLookup_of_nil hundoU] at hu
  rw [hu]
  decide

/-- `C05run_newbranch` on that run: the crash between the two batches of the back-out of `rxB1`, the
    restart, the repeated back-out and the whole continuation succeed; the index ends fully flushed
    on `[rxB0]` -/
example : ∃ s e1 e2 s' er r c, runOps2 rxCfg {} c05Ops = .ok s ∧
    backupFull rxCfg s rxB1 = .ok ([e1, e2], s') ∧
    recover rxCfg (applyEffects s.p [e1]) = some (er, r) ∧
    runOps2 rxCfg r (.backup rxB1 :: c05Cont) = .ok c ∧
    c.m.dbst.height = c.m.st.height ∧ c.m.st.height = 0 ∧ c.m.st.tip = 7 := by
  obtain ⟨h1, h2⟩ := c05_valid
  obtain ⟨s, hs, -⟩ := C03run_refinement rxCfg c05Ops (by decide)
  obtain ⟨e1, e2, s', er, r, e1', s2, a, c, hb, -, hrec, -, -, -, hc, T, -, inv⟩ :=
    C05run_newbranch rxCfg c05Ops c05Cont h1 hs h2
  have hfl : c.m.dbst.height = c.m.st.height := T.tb.flushed (by decide)
  have hchain : chainOf2 [] 0 (c05Ops ++ .backup rxB1 :: c05Cont) = [rxB0] := by decide
  rw [hchain] at inv
  refine ⟨s, e1, e2, s', er, r, c, hs, hb, hrec, hc, hfl, ?_, ?_⟩
  · rw [inv.base.files.height]; rfl
  · rw [inv.base.tip]; rfl

/-! three crashes in one sync: between the two batches of the back-out of `rxB1`; during block
processing (cut `[]` of a flush) after the fork block was indexed — it is lost and indexed again;
between the two batches of the back-out of `rxB2` -/

def c05E1 : List IOp2 := c05Ops ++ [.reopen, .backup rxB1]
def c05E2 : List IOp2 := c05E1 ++ [.adv rxB1' 1] ++ [.reopen]
def c05E3 : List IOp2 := c05E2 ++ [.adv rxB1' 1, .flush true, .adv rxB2 2, .flush true]
def c05E4 : List IOp2 := c05E3 ++ [.reopen, .backup rxB2]
def c05E5 : List IOp2 := c05E4 ++ [.backup rxB1']

theorem c05E5_valid : ValidOps2 rxCfg {} c05E5 := by decide

/-- a state reached through those three crashes exists (`C05run_crashes_progress` supplies every
    step), its explaining run `c05E5` is valid, and it is a fully flushed correct index of `[rxB0]` -/
theorem c05Thrice : ∃ b, Crashed rxCfg c05E5 b ∧ b.m.dbst.height = b.m.st.height ∧
    b.m.st.height = 0 ∧ b.m.st.tip = 7 ∧
    limitedHistory b 1 none = some [(11, 0)] := by
  obtain ⟨s0, hs0, -⟩ := C03run_refinement rxCfg c05Ops (by decide)
  have c0 : Crashed rxCfg c05Ops s0 := by
    have := (Crashed.init (cfg := rxCfg)).run c05Ops hs0
    rwa [List.nil_append] at this
  -- crash 1: between the two batches of the back-out of `rxB1`
  obtain ⟨-, -, p1⟩ := C05run_crashes_progress c0 (by decide)
  obtain ⟨e1, e2, b', e, r, e1', r2, hb, hrec, hbk⟩ := p1 rxB1 (by decide) (by decide)
  have c1 : Crashed rxCfg c05E1 r2 := Crashed.backupMid c0 hb hrec hbk
  -- the fork block is indexed; crash 2: during block processing
  obtain ⟨b3, -, c2⟩ := C05run_crashes_continue c1 [.adv rxB1' 1] (by decide)
  obtain ⟨p2, -, -⟩ := C05run_crashes_progress c2 (by decide)
  obtain ⟨es, m', hf, hcuts⟩ := p2 true
  obtain ⟨e3, r3, hrec3⟩ := hcuts [] (nil_mem_cuts es)
  have c3 : Crashed rxCfg c05E2 r3 :=
    Crashed.flushBefore c2 hf (nil_mem_cuts es) (by intro x hx; simp at hx) hrec3
  -- the fork block again, a block on top, full flushes
  obtain ⟨b4, -, c4⟩ := C05run_crashes_continue c3
    [.adv rxB1' 1, .flush true, .adv rxB2 2, .flush true] (by decide)
  -- crash 3: between the two batches of the back-out of `rxB2`
  obtain ⟨-, -, p4⟩ := C05run_crashes_progress c4 (by decide)
  obtain ⟨f1, f2, b5', e5, r5, f1', r6, hb5, hrec5, hbk5⟩ := p4 rxB2 (by decide) (by decide)
  have c5 : Crashed rxCfg c05E4 r6 := Crashed.backupMid c4 hb5 hrec5 hbk5
  obtain ⟨b7, -, c7⟩ := C05run_crashes_continue c5 [.backup rxB1'] (by decide)
  obtain ⟨a, -, T⟩ := C05run_crashes c7 c05E5_valid
  have hfl : b7.m.dbst.height = b7.m.st.height := T.tb.flushed (by decide)
  obtain ⟨-, hh, -, -, hht, htip, -, -, -⟩ := C05run_crashes_observables c7 c05E5_valid hfl
  have hchain : chainOf2 [] 0 (c05E4 ++ [.backup rxB1']) = [rxB0] := by decide
  rw [hchain] at hh hht htip
  refine ⟨b7, c7, hfl, by rw [hht]; rfl, by rw [htip]; rfl, ?_⟩
  rw [hh 1 none]; decide

/-- …and it answers every query like the index that only ever saw `[rxB0]` -/
example : ∃ b u, Crashed rxCfg c05E5 b ∧ runOps2 rxCfg {} [.adv rxB0 0, .flush true] = .ok u ∧
    SameAnswers b u := by
  obtain ⟨b, cb, hfl, -⟩ := c05Thrice
  obtain ⟨u, hu, ti⟩ := trackInv_run [.adv rxB0 0, .flush true] (trackInv_init rxCfg) (by decide)
  exact ⟨b, u, cb, hu,
    (C05run_crashes_vs_uninterrupted cb c05E5_valid hfl _ (by decide) (by decide) hu
      (ti.flushed (by decide))).1⟩

end EV.Index

import EV.Proofs.RpcEffect

/-!
# C16 — Malformed client requests are refused cleanly and change nothing

> Whatever JSON values a client supplies as arguments to any Electrum protocol method - wrong
> types, negative or astronomically large numbers, non-finite floats, malformed or odd-length hex,
> nested containers - the method either returns a well-formed result or fails with a protocol
> error reply; it never fails with an internal exception, never alters subscriptions or caches,
> and never affects what other clients are told.

Model: `EV/Model/Rpc.lean` — `dispatch world state method args` = handler-table lookup →
`aiorpcx.handler_invocation` → the handler's validation prefix → the handler body over an abstract
backend.  It is tied to the real `ElectrumX` / `SessionManager` / `PeerManager` code by the `rpc`
correspondence suite on every run, and the exception classes each `try/except` catches, the
handler table with its arities and parameter names, and the two repaired behaviours come from
`EV.Gen` (observed on the real modules by harness/gen_consts.py).

All theorems quantify over **every** JSON value (`J`, including `NaN`, `±Infinity`, integers and
strings of any size, containers of any depth), every argument list or named-argument object, every
method name, every session / cache state and every backend `World`.

What is proved is the *validation and dispatch logic plus the modelled bodies*; that the real
handler bodies raise nothing the model does not know about is what the differential fuzz checks
(level: proof, partial).
-/
namespace EV.Rpc

/-- The exception classes `loop.getaddrinfo(host, 80)` is assumed to raise for a `str` host name:
    `socket.gaierror` from the resolver, `UnicodeError` from the IDNA encoding of the name (empty or
    over-long label, lone surrogate).  This is the only environment assumption of `C16_total`. -/
def getaddrinfoRaises : List String := ["gaierror", "UnicodeError"]

/-- **C16 (clean refusal / totality).**  For every method name and every positional or named
argument value, the request path returns a result, or fails with an `RPCError`, or with
`ReplyAndDisconnect(RPCError)` (`server.version` only): no other Python exception class is
reachable.

The three `decide`s are closed statements about the constants *generated from the source*:
every validator's caught tuple contains what `int()` / `bytes.fromhex` can raise on a JSON value
(`OverflowError` included — F11), the generated handler tables have exactly the arities the model's
validation prefixes are written for, `block_headers` no longer divides the unclamped count (F13)
and `on_add_peer` catches what `getaddrinfo` raises (F12).  Reverting any of the repairs
regenerates a constant for which the corresponding `decide` — hence this theorem — fails. -/
theorem C16_total (w : World) (st : St) (m : String) (args : Args)
    (hres : ResolverRaises getaddrinfoRaises w) :
    match (dispatch w st m args).2 with
    | .ok _ => True
    | .error (.rpcError _) => True
    | .error (.replyAndDisconnect _) => True
    | .error _ => False := by
  have h := dispatch_good (raises := getaddrinfoRaises) (by decide) (by decide) (by decide) hres st m args
  generalize (dispatch w st m args).2 = r at h
  match r, h with
  | .ok _, _ => trivial
  | .error e, h =>
    have he := h e rfl
    cases e <;> first | trivial | (simp [PyExc.isProtocol] at he)

/-- **C16 (a refused request changes nothing at all).**  A request that is refused before the
handler body runs — unknown method, wrong number of arguments, unknown or missing named argument,
or any argument rejected by the handler's validators — leaves the *whole* state (subscriptions,
mempool statuses, header subscription, `sv_seen`, `is_peer`, protocol version and all three
manager caches) exactly as it was. -/
theorem C16_refused_no_effect (w : World) (st : St) (m : String) (args : Args) (e : PyExc)
    (h : parseRequest w st m args = .error e) : dispatch w st m args = (st, .error e) := by
  unfold dispatch; rw [h]

/-- **C16 (no error reply alters subscriptions; caches stay coherent).**  If the reply is an error
— from validation *or* from the backend ("height out of range", "tx not in block", "history too
large", daemon error, unsupported protocol version …) — then `hashX_subs`, `mempool_statuses`,
`subscribe_headers` and the protocol version are unchanged, and the manager caches have at most
gained entries that agree with the index (`CacheGrowth`: a well-formed query about a block that
exists may fill the tx-hash cache before it fails with "tx not in block"; a too-large history is
cached *as the error object*).  The two exceptions by design: `server.version` has set `sv_seen`
before it can fail (unsupported version / dropped client); `server.add_peer` marks the session as
a peer. -/
theorem C16_no_effect (w : World) (st : St) (m : String) (args : Args) (e : PyExc)
    (h : (dispatch w st m args).2 = .error e) :
    (dispatch w st m args).1.sess.subs = st.sess.subs ∧
    (dispatch w st m args).1.sess.mpStatus = st.sess.mpStatus ∧
    (dispatch w st m args).1.sess.subHeaders = st.sess.subHeaders ∧
    (dispatch w st m args).1.sess.ptuple = st.sess.ptuple ∧
    ((dispatch w st m args).1.sess.svSeen = st.sess.svSeen ∨
      ∃ n p, parseRequest w st m args = .ok (.version n p)) ∧
    ((dispatch w st m args).1.sess.isPeer = st.sess.isPeer ∨
      ∃ f, parseRequest w st m args = .ok (.addPeer f)) ∧
    CacheGrowth w st.mgr (dispatch w st m args).1.mgr := by
  unfold dispatch at h ⊢
  split at h
  · rename_i e' he'
    rw [he']
    exact ⟨rfl, rfl, rfl, rfl, Or.inl rfl, Or.inl rfl, CacheGrowth.refl _ _⟩
  · rename_i r hr
    rw [hr]
    obtain ⟨hk, hsv, hpeer⟩ := exec_error_effect w st r e h
    refine ⟨hk.subs, hk.mpStatus, hk.subHeaders, hk.ptuple, ?_, ?_, exec_growth w st r⟩
    · rcases hsv with h1 | ⟨n, p, h1⟩
      · exact Or.inl h1
      · exact Or.inr ⟨n, p, by rw [h1]⟩
    · rcases hpeer with h1 | ⟨f, h1⟩
      · exact Or.inl h1
      · exact Or.inr ⟨f, by rw [h1]⟩

/-- **C16 (other clients).**  Sessions share only the manager caches.  Whatever request session
`a` makes — refused, failing or succeeding — (i) the caches stay coherent with the index and
(ii) the reply session `b` then gets to *any* request, and `b`'s own state afterwards, are exactly
what they would have been had `a` never asked.  (`b`'s record is not an argument of `a`'s dispatch
at all: a handler has no access to another session.) -/
theorem C16_others (w : World) (a b : Sess) (mgr : Mgr) (m : String) (args : Args)
    (m2 : String) (args2 : Args) (hok : CacheOK w mgr) :
    CacheOK w (dispatch w { sess := a, mgr := mgr } m args).1.mgr ∧
    (dispatch w { sess := b, mgr := (dispatch w { sess := a, mgr := mgr } m args).1.mgr } m2 args2).2 =
      (dispatch w { sess := b, mgr := mgr } m2 args2).2 ∧
    (dispatch w { sess := b, mgr := (dispatch w { sess := a, mgr := mgr } m args).1.mgr } m2 args2).1.sess =
      (dispatch w { sess := b, mgr := mgr } m2 args2).1.sess := by
  have hok' : CacheOK w (dispatch w { sess := a, mgr := mgr } m args).1.mgr := by
    unfold dispatch
    split
    · exact hok
    · exact CacheOK.of_growth (exec_growth w _ _) hok
  refine ⟨hok', ?_⟩
  generalize (dispatch w { sess := a, mgr := mgr } m args).1.mgr = mgr' at hok'
  have hp : parseRequest w { sess := b, mgr := mgr' } m2 args2 =
      parseRequest w { sess := b, mgr := mgr } m2 args2 := rfl
  unfold dispatch
  rw [hp]
  split
  · exact ⟨rfl, rfl⟩
  · exact exec_cache_indep w b hok' hok _

/-- **C16 (well-formed result).**  The only client-supplied value a handler copies into a *result*
is `target_type` of `get_tsc_merkle`; in every reply that carries it, it is one of the three
documented strings (so never `NaN`, a container nested beyond what the JSON encoder accepts, …). -/
theorem C16_wellformed (w : World) (st : St) (m : String) (args : Args) (j : J)
    (h : (dispatch w st m args).2 = .ok (.tsc j)) :
    ∃ s, j = .str s ∧ s ∈ ["block_hash", "block_header", "merkle_root"] := by
  unfold dispatch at h
  split at h
  · cases h
  · rename_i r hr
    obtain ⟨t, ht, b, rfl⟩ := exec_tsc h
    unfold parseRequest at hr
    split at hr
    · cases hr
    · split at hr
      · cases hr
      · have := parse_tsc_target hr (by decide)
        cases j <;> simp [isTarget] at this
        case str s => exact ⟨s, rfl, by simpa [tscTargets] using this⟩

/-! ### non-vacuity: a concrete world and requests -/

/-- a small world: chain of height 2, a resolver that fails both ways -/
def exWorld : World :=
  { height := 2, hdrFile := List.replicate 240 7,
    blockTxs := fun h => [[h, 1], [h, 2]],
    history := fun hx => if hx = [1] then [([9], 1), ([8], 2)] else [],
    mempool := fun _ => [], daemonTxs := [], broadcastOk := fun _ => true, maxSend := 0,
    intOfStr := fun s => if s = "5" then some 5 else none,
    dropClient := fun _ => false, discoveryOn := true,
    skipResolve := fun _ => false, permitNoResolve := fun _ => false,
    resolve := fun host => if host = "a..b" then .error .unicodeError
                           else if host = "nx.example" then .error .gaiError else .ok false }

/-- the hypothesis of `C16_total` holds of it, non-trivially (both classes are raised) -/
example : ResolverRaises getaddrinfoRaises exWorld := by
  intro host e h
  simp only [exWorld] at h
  split at h
  · cases h; decide
  · split at h
    · cases h; decide
    · cases h

/-- observers for the examples (results carry JSON values, which have no decidable equality) -/
def outcome : Except PyExc Res → String × Nat
  | .ok (.bool b) => ("ok", if b then 1 else 0)
  | .ok (.headers raw c _ _) => ("ok headers", raw.length + c)
  | .ok _ => ("ok", 0)
  | .error (.rpcError c) => ("rpc", c.natAbs)
  | .error (.replyAndDisconnect c) => ("disconnect", c.natAbs)
  | .error e => (e.name, 0)

/-- the F12 witness is now refused as a peer (result `False`), not an internal error -/
example : outcome (dispatch exWorld {} "server.add_peer"
    (.pos [.obj [("hosts", .obj [("a..b", .obj [])])]])).2 = ("ok", 0) := by decide

/-- the F11 witnesses are protocol errors -/
example : outcome (dispatch exWorld {} "blockchain.block.header" (.pos [.float .inf])).2 = ("rpc", 1) := by
  decide
example : outcome (dispatch exWorld {} "blockchain.transaction.id_from_pos"
    (.named [("height", .int 1), ("tx_pos", .float .ninf)])).2 = ("rpc", 1) := by decide

set_option exponentiation.threshold 2000 in
set_option maxRecDepth 20000 in
/-- the F13 witness returns the two headers there are -/
example : outcome (dispatch exWorld {} "blockchain.block.headers" (.pos [.int 1, .int (10 ^ 400)])).2 =
    ("ok headers", 162) := by decide

/-- arity, unknown names, unknown methods, odd `server.version` shapes -/
example : outcome (dispatch exWorld {} "server.ping" (.pos [.null])).2 = ("rpc", 32602) := by decide
example : outcome (dispatch exWorld {} "blockchain.block.header" (.named [("cp_height", .int 0)])).2 =
    ("rpc", 32602) := by decide
example : outcome (dispatch exWorld {} "blockchain.scripthash.unsubscribe" (.pos [.null])).2 =
    ("rpc", 32601) := by decide
example : outcome (dispatch exWorld {} "server.version" (.pos [.str "x", .arr [.int 1, .obj []]])).2 =
    ("disconnect", 1) := by decide
example : outcome (dispatch exWorld {} "blockchain.estimatefee" (.pos [.arr [.arr [.float .nan]]])).2 =
    ("ok", 0) := by decide

/-! ### F11 – F14: the code at the pinned commit violates the property (machine-checked) -/

/-- **F11.**  With the caught tuple of the pinned commit (`ValueError`, `TypeError` and its
subclass `UnicodeError`), `non_negative_integer(float('inf'))` — JSON `Infinity`, `1e999` —
escapes as `OverflowError`. -/
theorem C16_counterexample_overflow (ios : String → Option Int) :
    nonNegativeIntegerWith ["ValueError", "TypeError", "UnicodeError"] ios (.float .inf) =
      .error .overflowError := by
  simp [nonNegativeIntegerWith, pyInt, guard, PyExc.name]

set_option exponentiation.threshold 2000 in
/-- **F13.**  `cost = count / 50` computed from the *requested* count: an integer count of
`50·2^1024` or more (valid JSON: `1` followed by 310 zeros) raises `OverflowError`. -/
theorem C16_counterexample_headers_cost (w : World) (start cp : Nat) :
    blockHeadersCore true 2016 w start (10 ^ 400) cp = .error .overflowError := by
  unfold blockHeadersCore trueDivOverflows
  have : 50 * (2 ^ 1024 - 2 ^ 970) ≤ 10 ^ 400 := by decide
  simp [this]

/-- **F12.**  With only `gaierror` caught, a host whose IDNA encoding fails
(`{"hosts": {"a..b": {}}}`) escapes from `server.add_peer` as `UnicodeError`. -/
theorem C16_counterexample_add_peer :
    (execAddPeerWith ["gaierror"] exWorld {} (.obj [("hosts", .obj [("a..b", .obj [])])])).2 =
      .error .unicodeError := by
  simp [execAddPeerWith, exWorld, firstHost, lookupJ, PyExc.name]

/-- **F14.**  Without the check, `target_type` is whatever the client sent — e.g. `NaN`, which the
reply encoder emits as the bare token `NaN` (not JSON), or a list nested ~1490 deep, on which
encoding the reply raises `RecursionError` outside any handler. -/
theorem C16_counterexample_tsc_echo (ios : String → Option Int) (tx : J) (t : Bytes)
    (ht : assertTxHash tx = .ok t) :
    parseGetTscMerkleWith false ios [some tx, some (.int 0), none, some (.float .nan)] =
      .ok (.getTscMerkle t 0 false (.float .nan)) := by
  simp [parseGetTscMerkleWith, ht, nonNegativeInteger, nonNegativeIntegerWith, pyInt, eqStr]

/-- … and the hypothesis of that statement is satisfiable: a 32-byte hex string is a tx hash -/
example : (match assertTxHash
      (.str "00112233445566778899aabbccddeeff00112233445566778899AABBCCDDEEFF") with
    | .ok t => t.length == 32
    | .error _ => false) = true := by decide

end EV.Rpc

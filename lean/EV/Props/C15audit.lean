import EV.Props.C15

/-!
# C15 — a second hole in the undo window (audit appendix D)

`C15run_window` needs a back-out-free run from the empty index; `C15run_window_from` leaves the
hypothesis `hold` (heights of the window indexed earlier were retained) to the caller.  `hold` can be
FALSE after a reorganisation although every daemon height was exact (`D_b = ` the height of the block
being indexed, so F10's "daemon height fell while indexing" does not apply):

the start-up prune (`clear_excess_undo_info`) keeps the rows `≥ height − reorgLimit + 1` relative to the
tip AT START-UP.  A later reorganisation that ends on a SHORTER chain lowers the caught-up tip, and
the window below the new tip reaches into heights whose rows were pruned at start-up.

Reorg limit 2.  Blocks 0..3 indexed with exact daemon heights, full flush, restart: rows {2, 3}
remain (0 and 1 pruned — correct w.r.t. tip 3).  The daemon reorganises to a chain of height 2
(`d2'` on top of `d1`): back out 3 and 2 (both inside the window, both succeed), advance `d2'`,
flush.  The server is caught up at height 2 and the only row is {2}.  A further reorganisation of
depth 2 = reorgLimit (replace `d2'` and `d1`) backs out `d2'` (fine) and then finds no undo row for
height 1: `ChainError`.

This belongs to the F10 class in the sense that the daemon moved to a SHORTER chain, but it is not
F10's mechanism ("the row was never kept because the daemon height seen while indexing was too
high"): the row was written, and pruned later.  It is not yet in `known_findings.json`, and the shape
test of suite `index` ("never kept") does not classify it.
-/
namespace EV.Index
open EV.Spec

namespace LoweredTip

def cfgD : Cfg := { act := 0, reorgLimit := 2 }
def gen : TxIn := ⟨0, 4294967295⟩
def d0 : Block := ⟨100, 0, 1000, 80, [⟨11, [gen], [⟨5, 1, .normal⟩]⟩]⟩
def d1 : Block := ⟨101, 100, 1001, 80, [⟨12, [gen], [⟨5, 2, .normal⟩]⟩]⟩
def d2 : Block := ⟨102, 101, 1002, 80, [⟨13, [⟨11, 0⟩], [⟨5, 3, .normal⟩]⟩]⟩
def d3 : Block := ⟨103, 102, 1003, 80, [⟨14, [gen], [⟨5, 4, .normal⟩]⟩]⟩
/-- the fork block at height 2, on top of `d1` -/
def d2' : Block := ⟨202, 101, 2002, 80, [⟨23, [⟨12, 0⟩], [⟨5, 7, .normal⟩]⟩]⟩

/-- sync 0..3 with exact daemon heights, flush, restart, reorganise to the shorter chain
    `[d0, d1, d2']`, flush: caught up at height 2 -/
def pre : List IOp2 :=
  [.adv d0 0, .adv d1 1, .adv d2 2, .adv d3 3, .flush true, .reopen,
   .backup d3, .backup d2, .adv d2' 2, .flush true]

/-! `decide` cannot evaluate `_open_dbs` (`clear_excess_undo_info` sorts the undo keys with
`List.mergeSort`, which is defined by well-founded recursion and does not reduce in the kernel), so
the run is evaluated in three stages: up to the restart by `decide`, the restart by `simp` on the
fields it reads, the rest by `decide` again. -/

def st3 : CState :=
  { height := 3, txCount := 4, chainSize := 320, tip := 103, flushCount := 1, utxoCount := 3,
    firstSync := true }

/-- the state before the restart -/
def s5 : Sys := okSysD (runOps2 cfgD {} (pre.take 5))

theorem run5 : runOps2 cfgD {} (pre.take 5) = .ok s5 := by
  obtain ⟨s, h, -⟩ := C03run_refinement cfgD (pre.take 5) (by decide)
  rw [s5, h]; rfl

/-- what `clear_excess_undo_info` does at the restart: the rows of heights 0 and 1 go (the window
    below tip 3 is {2, 3}) -/
def prune : Effect := .utxoBatch [] [] [] [0, 1] [] none

/-- the state after the restart -/
def s6 : Sys :=
  { p := applyEffects s5.p [prune],
    m := { st := st3, dbst := st3, fsHeight := 3, fsTxCount := 4, txCounts := [1, 2, 3, 4],
           histFlush := 1, compFlush := -1, compCursor := -1 } }

theorem reopen5 : reopen cfgD s5 = .ok s6 := by
  have hu : s5.p.undo = [(3, []), (2, [{ hx := 1, txnum := 0, value := 5 }]), (1, []), (0, [])] := by
    decide
  have hus : s5.p.ustate = some st3 := by decide
  have hhs : s5.p.hstate = some { flushCount := 1, compFlushCount := -1, compCursor := -1 } := by
    decide
  have htc : (applyEffect s5.p (Effect.utxoBatch [] [] [] [0, 1] [] none)).txcounts = [1, 2, 3, 4] := by
    decide
  simp [reopen, openDbs, openStore, openStore1, openUndoEffects, clearUndoKeys, clearExcessEffect,
    openState, openHistState, openTxCounts, applyEffects, hu, hus, hhs, htc, List.mergeSort, s6, st3,
    cfgD, prune]

theorem rest6 : okErr (runOps2 cfgD s6
      [.backup d3, .backup d2, .adv d2' 2, .flush true, .backup d2', .backup d1]) =
    some .chainError := by decide

theorem run_chainError :
    okErr (runOps2 cfgD {} (pre ++ [.backup d2', .backup d1])) = some .chainError := by
  have hsplit : pre ++ [.backup d2', .backup d1] =
      pre.take 5 ++ (.reopen ::
        [.backup d3, .backup d2, .adv d2' 2, .flush true, .backup d2', .backup d1]) := by decide
  rw [hsplit, runOps2_append, run5]
  simp only [runOps2, stepOp2, reopen5]
  exact rest6

end LoweredTip

open LoweredTip in
/-- **C15 hole: start-up prune, then a reorganisation lowers the caught-up tip** (F10 class: the
daemon moved to a shorter chain; mechanism different from F10's).  The run `pre` is valid, every
daemon height is the height of the block being indexed, the restart prunes rows 0 and 1 (retained
heights before it: all four; after it: {3, 2}), and the index ends caught up at height 2 on the chain
`[d0, d1, d2']` with the single retained height 2.  A depth-1 back-out is admissible; the depth-2
back-out (= reorg limit, 2 ≤ H = 2: inside the window the property promises) is inadmissible, and
the model (like the code) refuses it with `ChainError`.  `C15run_window_from`'s hypothesis `hold`
fails for this state at `h = 1`. -/
theorem C15run_counterexample_lowered_tip :
    ValidOps2 cfgD {} pre ∧
    (Track.run cfgD {} (pre.take 5)).kept = [3, 2, 1, 0] ∧
    (Track.run cfgD {} (pre.take 6)).kept = [3, 2] ∧
    (Track.run cfgD {} pre).chain = [d0, d1, d2'] ∧
    (Track.run cfgD {} pre).kept = [2] ∧
    ValidOps2 cfgD {} (pre ++ [.backup d2']) ∧
    ¬ ValidOps2 cfgD {} (pre ++ [.backup d2', .backup d1]) ∧
    okErr (runOps2 cfgD {} (pre ++ [.backup d2', .backup d1])) = some .chainError ∧
    -- `hold` of `C15run_window_from` (H = 2, k = 2) is false: height 1 is on the chain, in the
    -- window, and not retained
    ¬ (∀ h, 2 + 1 - 2 ≤ h → h < (Track.run cfgD {} pre).chain.length → h ∈ (Track.run cfgD {} pre).kept) := by
  refine ⟨by decide, by decide, by decide, by decide, by decide, by decide, by decide,
    run_chainError, ?_⟩
  intro h
  have := h 1 (by decide) (by decide)
  revert this
  decide

end EV.Index

import EV.Proofs.NotifHist

/-!
# C20 — Notifications are issued only at heights both sources agree on, and drop nothing

Model: `EV/Model/Notif.lean` (literal model of `controller.py :: Notifications`), tied to the
class in /repo by the `notif` correspondence suite on every run.

"notification" = a call of the `notify` callback; `run init ops` returns them in order.
The theorems quantify over *every* operation list: no bound on length, heights or set sizes.
-/
namespace EV.Notif

/-- **C20 (safety).**  Whenever an operation makes the class call `notify(h, _)`, then either the
operation is `start(h)` itself (whose notification carries the empty set), or by then a mempool
refresh at `h` *and* a block report at `h` (or `start(h)`) have been received.
Heights are assumed non-negative (the initial `_highest_block` is `-1`). -/
theorem C20_safety (pre : List Op) (op : Op) (e : Emit)
    (hpos : ∀ o ∈ pre ++ [op], 0 ≤ o.height)
    (he : (step (run init pre).1 op).2 = some e) :
    (op = .start e.1 ∧ e.2 = []) ∨
    ((∃ t, Op.mempool t e.1 ∈ pre ++ [op]) ∧
     ((∃ t, Op.block t e.1 ∈ pre ++ [op]) ∨ Op.start e.1 ∈ pre ++ [op])) := by
  have hI := hinv_run pre
  have hI' := hinv_step hI op
  -- key facts about the state *before* `_maybe_notify` runs inside the op
  cases op with
  | start h =>
    left; simp [step, start] at he; subst he; simp
  | mempool t h =>
    right
    simp only [step, onMempool_eq] at he
    have hp := maybeNotify_emit he
    have key : ∀ k ∈ keys (preMempool (run init pre).1 t h).mp, ∃ t', Op.mempool t' k ∈ pre ++ [.mempool t h] := by
      intro k hk
      rcases (keys_preMempool _ t h k).mp hk with rfl | ⟨h1, _⟩
      · exact ⟨t, by simp⟩
      · obtain ⟨t', ht'⟩ := hI.mpK k h1; exact ⟨t', by simp [ht']⟩
    rcases pickHeight_some hp with ⟨h1, h2, _⟩ | ⟨_, h2, h3, _⟩
    · refine ⟨key _ h1, Or.inl ?_⟩
      obtain ⟨t', ht'⟩ := hI.bpK _ h2; exact ⟨t', by simp [ht']⟩
    · refine ⟨key _ h3, ?_⟩
      obtain ⟨t', ht'⟩ := key _ h3
      have hnn : 0 ≤ e.1 := hpos _ ht'
      have hhi : e.1 = (lastBlockLike pre).getD (-1) := by rw [h2]; exact hI.hi
      cases hl : lastBlockLike pre with
      | none => rw [hl] at hhi; simp at hhi; omega
      | some H =>
        rw [hl] at hhi; simp at hhi; subst hhi
        rcases lastBlockLike_mem hl with ⟨t'', h4⟩ | h4
        · exact Or.inl ⟨t'', by simp [h4]⟩
        · exact Or.inr (by simp [h4])
  | block t h =>
    right
    simp only [step, onBlock_eq] at he
    have hp := maybeNotify_emit he
    have keyb : ∀ k ∈ keys (preBlock (run init pre).1 t h).bp, ∃ t', Op.block t' k ∈ pre ++ [.block t h] := by
      intro k hk
      rcases (keys_preBlock_bp _ t h k).mp hk with rfl | ⟨h1, _⟩
      · exact ⟨t, by simp⟩
      · obtain ⟨t', ht'⟩ := hI.bpK k h1; exact ⟨t', by simp [ht']⟩
    have keym : ∀ k ∈ keys (preBlock (run init pre).1 t h).mp, ∃ t', Op.mempool t' k ∈ pre ++ [.block t h] := by
      intro k hk
      obtain ⟨h1, _⟩ := (keys_preBlock_mp _ t h k).mp hk
      obtain ⟨t', ht'⟩ := hI.mpK k h1; exact ⟨t', by simp [ht']⟩
    rcases pickHeight_some hp with ⟨h1, h2, _⟩ | ⟨_, h2, h3, _⟩
    · exact ⟨keym _ h1, Or.inl (keyb _ h2)⟩
    · refine ⟨keym _ h3, Or.inl ⟨t, ?_⟩⟩
      have : e.1 = h := by rw [h2]; rfl
      rw [this]; simp

/-- **C20 (nothing invented).**  Every script hash in a notification was handed over by one of
the two sources before. -/
theorem C20_no_invention (pre : List Op) (op : Op) (e : Emit)
    (he : (step (run init pre).1 op).2 = some e) :
    ∀ x ∈ e.2, x ∈ handed (pre ++ [op]) := by
  intro x hx
  have hI := hinv_run pre
  rw [handed_append]
  cases op with
  | start h => simp [step, start] at he; subst he; simp at hx
  | mempool t h =>
    simp only [step, onMempool_eq] at he
    rcases (preMempool_pending _ t h x).mp (maybeNotify_emit_sub he x hx) with h1 | h1
    · exact List.mem_append_right _ (by simp [handed, h1])
    · exact List.mem_append_left _ (hI.pend x h1)
  | block t h =>
    simp only [step, onBlock_eq] at he
    rcases (preBlock_pending _ t h x).mp (maybeNotify_emit_sub he x hx) with h1 | h1
    · exact List.mem_append_right _ (by simp [handed, h1])
    · exact List.mem_append_left _ (hI.pend x h1)

/-- **C20 (nothing dropped), unconditional part.**  For every operation list whatsoever, every
script hash handed over so far has either been notified or is still pending inside the object:
no path deletes or overwrites one. -/
theorem C20_no_loss (ops : List Op) :
    ∀ x ∈ handed ops, x ∈ emitted (run init ops).2 ∨ x ∈ pending (run init ops).1 := by
  intro x hx
  exact (run_keeps init ops x (Or.inr hx)).symm

/-- **C20 (completeness).**  Whenever the mempool tracker reports at the height `H` of the most
recent block report (or start-up) — "both sources have reported at the current height" — every
script hash ever handed over by either source has been contained in some notification, and
nothing is left pending.  Heights before that may have risen, repeated or fallen arbitrarily.
`StartOK`: `start h` is only called with `h` at least every block height reported before it
(it is called once, with the DB height). -/
theorem C20_complete (ops : List Op) (t : List HX) (H : Int)
    (hok : StartOK (ops ++ [.mempool t H]))
    (hlast : lastBlockLike ops = some H) :
    (∀ x ∈ handed (ops ++ [.mempool t H]), x ∈ emitted (run init (ops ++ [.mempool t H])).2) ∧
    pending (run init (ops ++ [.mempool t H])).1 = [] := by
  have hinv := inv_run ops (StartOK_prefix hok)
  have hhi : (run init ops).1.highest = H := by
    rw [(hinv_run ops).hi, hlast]; rfl
  have hdrain : pending (run init (ops ++ [.mempool t H])).1 = [] := by
    rw [run_snoc]; simp only [step]
    rw [← hhi]; exact onMempool_drains hinv t
  refine ⟨?_, hdrain⟩
  intro x hx
  rcases C20_no_loss _ x hx with h1 | h1
  · exact h1
  · rw [hdrain] at h1; simp at h1

/-- **C20 (completeness, block report arriving second).**  A block report at a height for which
the mempool tracker's report is still pending drains everything as well. -/
theorem C20_complete_block (ops : List Op) (t : List HX) (H : Int)
    (hmp : H ∈ keys (run init ops).1.mp) :
    (∀ x ∈ handed (ops ++ [.block t H]), x ∈ emitted (run init (ops ++ [.block t H])).2) ∧
    pending (run init (ops ++ [.block t H])).1 = [] := by
  have hdrain : pending (run init (ops ++ [.block t H])).1 = [] := by
    rw [run_snoc]; simp only [step]
    exact onBlock_drains _ t H hmp
  refine ⟨?_, hdrain⟩
  intro x hx
  rcases C20_no_loss _ x hx with h1 | h1
  · exact h1
  · rw [hdrain] at h1; simp at h1

/-! ### non-vacuity: concrete histories meeting the hypotheses -/

/-- rising, repeating and *falling* heights, a mempool report at a height (7) the block processor
    never reports, then both sources at 6: hypotheses of `C20_complete` hold and 1,2,3,4 all come out -/
example :
    let ops : List Op := [.start 5, .mempool [1] 7, .block [2] 8, .block [3] 6, .block [] 6]
    StartOK (ops ++ [.mempool [4] 6]) ∧ lastBlockLike ops = some 6 ∧
    (run init (ops ++ [.mempool [4] 6])).2 = [(5, []), (6, [4, 3, 1, 2])] := by
  refine ⟨?_, by decide, by decide⟩
  intro pre h post heq t k hk
  cases pre with
  | nil => simp at hk
  | cons a pre =>
    exfalso
    simp only [List.cons_append, List.cons.injEq] at heq
    obtain ⟨_, heq⟩ := heq
    have hmem : Op.start h ∈ pre ++ Op.start h :: post := by simp
    rw [← heq] at hmem
    simp at hmem

example : (step (run init [.start 5, .block [2] 6]).1 (.mempool [1] 6)).2 = some (6, [1, 2]) := by
  decide

/-! ### F1: the class at the pinned commit violates completeness (machine-checked witnesses) -/

/-- a pending mempool set at a lower height is deleted when a higher height is notified -/
theorem C20_counterexample_drop :
    (Orig.run init [.start 5, .mempool [1] 6, .block [2] 7, .mempool [] 7]) =
      ({ mp := [], bp := [], highest := 7 }, [(5, []), (7, [2])]) := by decide

/-- a second mempool report at a pending height overwrites the first -/
theorem C20_counterexample_overwrite_mp :
    (Orig.run init [.start 5, .mempool [1] 6, .mempool [3] 6, .block [2] 6]) =
      ({ mp := [], bp := [], highest := 6 }, [(5, []), (6, [3, 2])]) := by decide

/-- the idle poll (`on_block(set(), h)` every 5 s) overwrites a block's touched set -/
theorem C20_counterexample_overwrite_bp :
    (Orig.run init [.start 5, .block [2] 6, .block [] 6, .mempool [] 6]) =
      ({ mp := [], bp := [], highest := 6 }, [(5, []), (6, [])]) := by decide

/-- the same three histories on the current class lose nothing -/
example : (run init [.start 5, .mempool [1] 6, .block [2] 7, .mempool [] 7]).2 = [(5, []), (7, [1, 2])] := by decide
example : (run init [.start 5, .mempool [1] 6, .mempool [3] 6, .block [2] 6]).2 = [(5, []), (6, [3, 1, 2])] := by decide
example : (run init [.start 5, .block [2] 6, .block [] 6, .mempool [] 6]).2 = [(5, []), (6, [2])] := by decide

end EV.Notif

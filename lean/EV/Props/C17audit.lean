import EV.Props.C17

/-!
# C17 — audit strengthening (audit appendix E)

`C17_invalidate` is stated for `height_changed = true` only.  `SessionManager._notify_sessions` is
also called for mempool-only notifications (`height_changed = false`); the code after the fix for F4
drops the touched script hashes from the history cache in both cases (`Gen.invalidateAlways`,
regenerated from the source: if the source stops doing so this theorem no longer builds).
`C17_invalidate_any` states the coherence of the cache after EITHER kind of notification, and the
example below instantiates it with a world that actually changes (the in-tree witnesses of
`C17_invalidate` had `w = w0`).

Not covered (acknowledged in `harness/props/C17.py`): any statement about the BYTE size of a reply
(`L` is an entry count), and the liveness half of `C17_notify` (the `null` notification IS sent).
-/
namespace EV.Rpc

/-- **C17 (the cache across any notification).**  Whatever the `height_changed` flag of
`_notify_sessions`, if only touched script hashes changed their history between the world `w0` the
cache was coherent with and the world `w` of the notification (same `MAX_SEND`, height not lower),
the cache after the invalidation is coherent with `w`. -/
theorem C17_invalidate_any (hc : Bool) (w0 w : World) (m : Mgr) (touched : List Bytes)
    (h0 : CacheOK w0 m)
    (hsame : ∀ hx, ¬ hx ∈ touched → w.history hx = w0.history hx)
    (hms : w.maxSend = w0.maxSend) (hh : w0.height ≤ w.height) :
    CacheOK w (invalidate m touched hc) := by
  have : invalidate m touched hc = invalidate m touched true := by
    simp [invalidate, invalidateWith, EV.Gen.invalidateAlways]
  rw [this]; exact C17_invalidate w0 w m touched h0 hsame hms hh

set_option maxRecDepth 20000 in
/-- non-vacuity with `w ≠ w0`: the history of script hash `[1]` grows from 3534 entries (cached as a
    list, one below the limit 3535) to 3535 entries (now "history too large"); `[1]` is touched, the
    stale list is dropped by a mempool-only notification (`hc = false`) and the cache is coherent
    with the new world -/
example : CacheOK (exHist 3535)
    (invalidate { histCache := [([1], .ok (List.replicate 3534 ([7], 1)))] } [[1]] false) := by
  apply C17_invalidate_any false (exHist 3534) (exHist 3535) _ [[1]]
  · refine ⟨?_, fun _ h => by simp at h⟩
    intro hx r h
    simp only [dGet] at h
    split at h
    · cases h
      rename_i heq
      rw [← heq, histCompute_small (by rw [exHist_limit, exHist_hist, List.length_replicate]; omega),
        exHist_hist]
    · cases h
  · intro hx hn
    have : hx ≠ [1] := by intro h; apply hn; simp [h]
    simp only [exHist, this, if_false]
  · rfl
  · exact Nat.le_refl _

/-- the two worlds of the example differ on the touched script hash -/
example : (exHist 3535).history [1] ≠ (exHist 3534).history [1] := by
  rw [exHist_hist, exHist_hist]
  intro h
  have := congrArg List.length h
  rw [List.length_replicate, List.length_replicate] at this
  omega

end EV.Rpc

import EV.Props.C14audit
import EV.Props.C04audit
import EV.Props.C07carrier
import EV.Proofs.CompactFromRun

/-!
# C14 composed with whole index runs — `PInv` is derived, not assumed

Every C14 run theorem (`EV/Props/C14.lean`) starts from a store satisfying `PInv maxRow p` ("what
holds of the store on disk at every point where a process can start").  Here `PInv` is DERIVED from
how the index writes history rows: for the end state `s` of EVERY valid index run from the empty
store (`runOps2`/`ValidOps2` of `C03run`/`C04audit`: advances with any daemon heights, history-only
and full flushes, back-outs, restarts anywhere — so also every store a crash between two operations
leaves, since a restart may follow any operation).

Which component of `PInv` follows from what (`EV/Proofs/CompactFromRun.lean`):

* `nodup`  — `FullInv.hist.wf.keys` (each flush writes its rows under its own id);
* `ordered`, `tight`, `cfcTight` — no compaction is in progress on disk (`comp_cursor =
  comp_flush_count = -1`: NEW run invariant `RunShape`, by induction over the run) and every row id is
  `≤` the history flush count (`FullInv.hist.wf.ids`, `FullInv'.hstate`);
* `width`  — rows are non-empty (`RunShape`), their entries are in the specification's history of the
  row's hashX (`FullInv.hist.eq`), and the specification only touches hashXs of outputs of the chain
  (`specChain_width`); the 11-byte bound itself is a HYPOTHESIS on the blocks, `ChainHxWidth`, because
  the index model's `HashX` is an unbounded number;
* `notAhead : hF p ≤ uF p` — **FALSE for some reachable stores** (`C14run_counterexample_ahead`: after
  a back-out, or after a history-only flush, the history flush count is ahead).  It holds after a
  restart and after a full flush that flushed something (`C14run_notAhead_after_restart`,
  `C14run_notAhead_after_full_flush`), and — this is what closes the gap — EVERY process, the
  compaction script included, begins with `_open_dbs`, whose `clear_excess` establishes it
  (`idleStore_openStore`): so `PInv` holds of `openStore cfg p` for every reachable `p`
  (`C14run_pinv_started`), an event sequence on `p` is the same as on `openStore cfg p`
  (`runEvs_openStore`), and when the run ended fully flushed `clear_excess` deletes nothing.

Theorems: `C14run_pinv` (PInv of the run's store given `notAhead`), `C14run_notAhead_after_restart`,
`C14run_notAhead_after_full_flush`, `C14run_counterexample_ahead`, `C14run_pinv_started` (PInv of what
every process starts from, unconditionally; its histories are the specification's),
`C14run_pinv_crashed`, `C14run_pinv_crashed_backup` (the same after a crash at any point inside a
flush / a back-out), and the compositions
`C14run_any_interruption`, `C14run_any_interruption_notAhead`, `C14run_one_go`, `C14run_then_undo`,
`C14run_then_index`: the conclusions of the C14 theorems with no `PInv` / `NodupKeys` / `NoEmptyRows` /
cursor / `openDbs` / `first_sync` / "ascending history" hypothesis left, and with "history unchanged"
sharpened to "history = the specification's history of the chain the run committed".

The core statements (`C14inv_…`) are for any invariant index state (`IndexState`: `FullInv'` + `RunShape`
+ `ChainHxWidth`); `C14run_…` instantiates them with the end states of `runOps2` runs, `C14sync_…` with the
end states of runs of the block-processing task `EV.SyncLoopT` (batches, `on_caught_up`, `reorg_chain`:
the server-level model of C01sync / C07carrier).

The `first_sync` flag: `runOps2` never clears it (the task's `on_caught_up` does; its states are `setFS` of
`runOps2`-invariant states, `EV/Proofs/CarrierFS.lean`), and the compaction script refuses a store with the
flag set.  Nothing here depends on the flag, so the `C14run_…` theorems are for `setFSp f s.p`, the run's
store with EITHER value of the flag; the `C14sync_…` theorems are for the literal store the task leaves.
-/
namespace EV.Compact
open EV.Index EV.Spec

/-- the store a process finds after `_open_dbs`, for the end state `s` of an index run whose
    `first_sync` flag on disk is `f` -/
def startStore (cfg : Cfg) (f : Bool) (s : Sys) : Store := openStore cfg (setFSp f s.p)

/-! ### `PInv` of the stores of index runs -/

/-- **C14 (`PInv` is reachable, and only `notAhead` can fail).**  For the end state of every valid
index run over a chain of 11-byte script hashes, the store on disk — with either `first_sync` flag —
satisfies `PInv` for every row size as soon as the history flush count is not ahead of the UTXO
flush count. -/
theorem C14run_pinv (cfg : Cfg) (ops : List IOp2) (hv : ValidOps2 cfg {} ops)
    (hw : ChainHxWidth (chainOf2 [] 0 ops)) {s : Sys} (hs : runOps2 cfg {} ops = .ok s)
    (maxRow : Nat) (f : Bool) (hna : hF s.p ≤ uF s.p) : PInv maxRow (setFSp f s.p) :=
  pinv_of_idle maxRow (idleStore_setFSp f (idleStore_of_run cfg ops hv hw hs))
    (by rw [hF_setFSp, uF_setFSp]; exact hna)

/-- `_open_dbs` leaves the history DB not ahead of the UTXO DB, on any store -/
theorem openStore_notAhead (cfg : Cfg) (p : Store) : hF (openStore cfg p) ≤ uF (openStore cfg p) := by
  obtain ⟨hu, hc⟩ := openStore_hist_facts cfg p
  have hu' : uF (openStore cfg p) = uF p := by unfold uF; rw [hu]
  rcases hc with ⟨c1, -, c3⟩ | ⟨-, -, c3⟩
  · have : hF (openStore cfg p) = hF p := by unfold hF hsOf; rw [c3]
    rw [this, hu']; exact c1
  · have : hF (openStore cfg p) = uF p := by unfold hF hsOf; rw [c3]; rfl
    rw [this, hu']; exact Nat.le_refl _

/-- **`notAhead` holds after a restart**, clean or not -/
theorem C14run_notAhead_after_restart (cfg : Cfg) (ops : List IOp2) {s : Sys}
    (hs : runOps2 cfg {} (ops ++ [.reopen]) = .ok s) : hF s.p ≤ uF s.p := by
  rw [runOps2_append] at hs
  cases h0 : runOps2 cfg {} ops with
  | error e => rw [h0] at hs; cases hs
  | ok s0 =>
    rw [h0] at hs
    simp only [runOps2, stepOp2] at hs
    cases hr : reopen cfg s0 with
    | error e => rw [hr] at hs; cases hs
    | ok s1 =>
      rw [hr] at hs
      simp only [Except.ok.injEq] at hs
      subst hs
      unfold reopen at hr
      cases ho : openDbs cfg s0.p false none with
      | none => rw [ho] at hr; cases hr
      | some r =>
        obtain ⟨es, s2⟩ := r
        rw [ho] at hr
        simp only [Except.ok.injEq] at hr
        subst hr
        rw [(openDbs_shape_facts ho).1]
        exact openStore_notAhead cfg s0.p

/-- **`notAhead` holds (with equality) after a full flush that had something to flush** -/
theorem C14run_notAhead_after_full_flush (cfg : Cfg) (ops : List IOp2) {s0 s : Sys}
    (h0 : runOps2 cfg {} ops = .ok s0) (hne : s0.m.st.height ≠ s0.m.dbst.height)
    (hs : runOps2 cfg {} (ops ++ [.flush true]) = .ok s) : hF s.p = uF s.p := by
  rw [runOps2_append, h0] at hs
  simp only [runOps2, stepOp2] at hs
  cases hf : flush s0 true with
  | error e => rw [hf] at hs; cases hs
  | ok s1 =>
    rw [hf] at hs
    simp only [Except.ok.injEq] at hs
    subst hs
    unfold flush at hf
    cases hd : flushDbs s0 true with
    | none => rw [hd] at hf; cases hf
    | some r =>
      obtain ⟨es, m⟩ := r
      rw [hd] at hf
      simp only [Except.ok.injEq] at hf
      subst hf
      unfold flushDbs at hd
      rw [if_neg hne] at hd
      split at hd
      · cases hd
      · simp only [if_true, Option.some.injEq, Prod.mk.injEq] at hd
        obtain ⟨rfl, -⟩ := hd
        obtain ⟨-, t2⟩ := flushTail_hist s0 _ (Or.inr ⟨{ s0.m.st with flushCount := s0.m.histFlush + 1 }, rfl⟩)
        have hh : hF (applyEffects s0.p (flushFsEffects s0 ++ [histFlushEffect s0] ++
            [utxoBatchEffect s0 { s0.m.st with flushCount := s0.m.histFlush + 1 },
             .putUState { s0.m.st with flushCount := s0.m.histFlush + 1 }])) = s0.m.histFlush + 1 := by
          unfold hF hsOf
          rw [t2, hstate_histFlush]
          rfl
        have hu : uF (applyEffects s0.p (flushFsEffects s0 ++ [histFlushEffect s0] ++
            [utxoBatchEffect s0 { s0.m.st with flushCount := s0.m.histFlush + 1 },
             .putUState { s0.m.st with flushCount := s0.m.histFlush + 1 }])) = s0.m.histFlush + 1 := by
          unfold uF
          rw [applyEffects_append]
          simp only [applyEffects, List.foldl_cons, List.foldl_nil, applyEffect]
          rfl
        show hF (applyEffects s0.p _) = uF (applyEffects s0.p _)
        rw [hh, hu]

/-! ### invariant index states

The core statements are for ANY state `s` satisfying the whole-run invariant of the index for a chain
of 11-byte script hashes, plus the shape invariant (`IndexState`); the end states of `runOps2` runs
(`indexState_of_run`) and of runs of the block-processing task (`indexState_of_sync`) are instances. -/

/-- an invariant index state over a chain of 11-byte script hashes -/
structure IndexState (cfg : Cfg) (chain : List Block) (K : List Nat) (s : Sys) : Prop where
  inv : FullInv' cfg chain K s
  shape : RunShape s
  width : ChainHxWidth chain

/-- the blocks of `chain` committed by the last UTXO flush of `s` -/
def committedOf (chain : List Block) (s : Sys) : List Block := chain.take (s.m.dbst.height + 1).toNat

theorem indexState_of_run (cfg : Cfg) (ops : List IOp2) (hv : ValidOps2 cfg {} ops)
    (hw : ChainHxWidth (chainOf2 [] 0 ops)) {s : Sys} (hs : runOps2 cfg {} ops = .ok s) :
    IndexState cfg (chainOf2 [] 0 ops) (Track.run cfg {} ops).kept s :=
  ⟨C04run_inv cfg ops hv hs, runShape_run ops runShape_init hs, hw⟩

theorem IndexState.idle {cfg : Cfg} {chain : List Block} {K : List Nat} {s : Sys}
    (ist : IndexState cfg chain K s) : IdleStore s.p :=
  idleStore_of_fullInv' ist.inv ist.shape ist.width

/-- the restart on the store of an invariant state succeeds, with either flag and for either kind of
    process -/
theorem C14inv_opens {cfg : Cfg} {chain : List Block} {K : List Nat} {s : Sys}
    (ist : IndexState cfg chain K s) (f c : Bool) :
    (openDbs cfg (setFSp f s.p) c none).isSome = true := by
  obtain ⟨es, s', h1, -⟩ := fullInv'_reopen ist.inv
  have h2 : (openDbs cfg s.p false none).isSome = true := by rw [h1]; rfl
  rw [openDbs_isSome_setFSp]
  cases c
  · exact h2
  · rw [openDbs_isSome_compacting]; exact h2

/-- what `_open_dbs` leaves of the history table of an invariant index state: the rows with ids up to
    the UTXO flush count -/
theorem startStore_hist {cfg : Cfg} {chain : List Block} {K : List Nat} {s : Sys}
    (inv : FullInv' cfg chain K s) (f : Bool) :
    (startStore cfg f s).hist = histUpTo s.p.hist s.m.dbst.flushCount := by
  have hu : uF s.p = s.m.dbst.flushCount := by
    unfold uF
    rcases inv.base.ustate with ⟨h1, h2⟩ | h
    · rw [h1, h2]; rfl
    · rw [h]; rfl
  have hf : hF s.p = s.m.histFlush := inv.hstate
  obtain ⟨-, hc⟩ := openStore_hist_facts cfg (setFSp f s.p)
  rw [uF_setFSp, hF_setFSp, hu] at hc
  unfold startStore
  rcases hc with ⟨c1, c2, -⟩ | ⟨-, c2, -⟩
  · rw [c2]
    refine (histUpTo_self ?_).symm
    intro e he
    have := inv.base.hist.wf.ids e he
    omega
  · rw [c2]; rfl

/-- **`PInv` holds of what every process starts from**, for every invariant index state -/
theorem C14inv_pinv_started {cfg : Cfg} {chain : List Block} {K : List Nat} {s : Sys}
    (ist : IndexState cfg chain K s) (maxRow : Nat) (f : Bool) :
    serverStart cfg (setFSp f s.p) = startStore cfg f s ∧
    PInv maxRow (startStore cfg f s) ∧ IdleStore (startStore cfg f s) ∧
    (∀ hx, getTxnums (startStore cfg f s) hx none =
      historyOf (specChain cfg.act (committedOf chain s)) hx) ∧
    (s.m.dbst.height = s.m.st.height →
      (startStore cfg f s).hist = s.p.hist ∧ committedOf chain s = chain) := by
  have hI := idleStore_setFSp f ist.idle
  obtain ⟨i1, i2⟩ := idleStore_openStore cfg hI
  have inv := ist.inv
  have hh := startStore_hist inv f
  refine ⟨serverStart_eq_openStore cfg _ (C14inv_opens ist f false),
    pinv_of_idle maxRow i1 i2, i1, ?_, ?_⟩
  · intro hx
    unfold committedOf
    rw [← inv.db.hist hx]
    exact getTxnums_hist_congr (p := { s.p with hist := histUpTo s.p.hist s.m.dbst.flushCount }) hh hx
  · intro hfl
    refine ⟨?_, ?_⟩
    · rw [hh]; exact histUpTo_self (inv.histIds hfl)
    · have hall : (s.m.dbst.height + 1).toNat = chain.length := by
        have := inv.base.files.height; omega
      unfold committedOf
      rw [hall, List.take_length]

/-- **any interruption, from any invariant index state** (see `C14run_any_interruption`) -/
theorem C14inv_any_interruption {cfg : Cfg} {chain : List Block} {K : List Nat} {s : Sys}
    (ist : IndexState cfg chain K s) (maxRow : Nat) (hm : 0 < maxRow) (f : Bool) (evs : List Ev)
    (hok : AllOK cfg maxRow (startStore cfg f s) evs) (n : Nat) :
    (∀ hx, getTxnums (runEvs cfg maxRow (startStore cfg f s) (evs.take n)) hx none =
      historyOf (specChain cfg.act (committedOf chain s)) hx) ∧
    PInv maxRow (runEvs cfg maxRow (startStore cfg f s) (evs.take n)) ∧
    (∀ keep es s', openDbs cfg (runEvs cfg maxRow (startStore cfg f s) (evs.take n)) false keep =
        some (es, s') → ∀ hx, getTxnums s'.p hx none =
          historyOf (specChain cfg.act (committedOf chain s)) hx) ∧
    (evs.take n ≠ [] → runEvs cfg maxRow (setFSp f s.p) (evs.take n) =
      runEvs cfg maxRow (startStore cfg f s) (evs.take n)) ∧
    (s.m.dbst.height = s.m.st.height → committedOf chain s = chain) := by
  obtain ⟨-, hP, -, hspec, hfl⟩ := C14inv_pinv_started ist maxRow f
  obtain ⟨a1, a2, a3⟩ := C14_any_interruption cfg maxRow hm (startStore cfg f s) evs hP hok n
  refine ⟨fun hx => by rw [a1, hspec], a2, fun keep es s' ho hx => by rw [a3 keep es s' ho, hspec], ?_,
    fun h => (hfl h).2⟩
  intro hne
  cases ht : evs.take n with
  | nil => exact absurd ht hne
  | cons ev r => exact (runEvs_openStore cfg maxRow _ ev r (C14inv_opens ist f false)).symm

/-- **in one go, from any invariant index state** whose state record on disk has `first_sync` false
    (see `C14run_one_go`) -/
theorem C14inv_one_go {cfg : Cfg} {chain : List Block} {K : List Nat} {s : Sys}
    (ist : IndexState cfg chain K s) (f : Bool)
    (hfs0 : (setFSp f s.p).ustate.map (·.firstSync) = some false) (maxRow : Nat) (hm : 0 < maxRow)
    (hrc : RowCountOK maxRow (startStore cfg f s)) (limits : List Nat)
    (hl : ∀ l ∈ limits, 0 < l) (hlen : 65536 ≤ limits.length) :
    compactScript cfg maxRow (setFSp f s.p) limits true =
      compactScript cfg maxRow (startStore cfg f s) limits true ∧
    (∀ hx, getTxnums (compactScript cfg maxRow (startStore cfg f s) limits true) hx none =
      historyOf (specChain cfg.act (committedOf chain s)) hx) ∧
    PInv maxRow (compactScript cfg maxRow (startStore cfg f s) limits true) ∧
    (hsOf (compactScript cfg maxRow (startStore cfg f s) limits true)).compCursor = -1 ∧
    uF (compactScript cfg maxRow (startStore cfg f s) limits true) =
      hF (compactScript cfg maxRow (startStore cfg f s) limits true) ∧
    AllIdsLE (compactScript cfg maxRow (startStore cfg f s) limits true) := by
  obtain ⟨-, hP, hI, hspec, -⟩ := C14inv_pinv_started ist maxRow f
  have hopen := C14inv_opens ist f true
  have hbridge := compactScript_openStore cfg maxRow (setFSp f s.p) limits true hopen
  -- the script can open the started store, and finds `first_sync` false
  have hopen2 : (openDbs cfg (startStore cfg f s) true none).isSome = true := by
    have h := openDbs_openStore cfg (setFSp f s.p) true
    cases h1 : openDbs cfg (setFSp f s.p) true none with
    | none => rw [h1] at hopen; cases hopen
    | some r =>
      cases h2 : openDbs cfg (openStore cfg (setFSp f s.p)) true none with
      | none => rw [h1, h2] at h; cases h
      | some r2 => unfold startStore; rw [h2]; rfl
  cases ho : openDbs cfg (startStore cfg f s) true none with
  | none => rw [ho] at hopen2; cases hopen2
  | some r =>
    obtain ⟨es, s'⟩ := r
    have hfs : s'.m.dbst.firstSync = false := by
      rw [openDbs_firstSync ho]
      unfold startStore
      rw [(openStore_hist_facts cfg (setFSp f s.p)).1]
      cases hus : (setFSp f s.p).ustate with
      | none => rw [hus] at hfs0; cases hfs0
      | some x =>
        rw [hus] at hfs0
        simp only [Option.map_some, Option.some.injEq] at hfs0
        exact hfs0
    obtain ⟨g1, g2, g3, g4, g5⟩ := C14_one_go cfg maxRow hm (startStore cfg f s) limits hP hI.noEmpty hrc
      (Or.inl hI.cursor) hl hlen es s' ho hfs
    exact ⟨hbridge.symm, fun hx => by rw [g1, hspec], g2, g3, g4, g5⟩

/-! ### end states of `runOps2` runs -/

/-- the restart on the run's store succeeds, with either flag and for either kind of process -/
theorem C14run_opens (cfg : Cfg) (ops : List IOp2) (hv : ValidOps2 cfg {} ops) {s : Sys}
    (hs : runOps2 cfg {} ops = .ok s) (f c : Bool) :
    (openDbs cfg (setFSp f s.p) c none).isSome = true := by
  obtain ⟨es, s', h1, -⟩ := fullInv'_reopen (C04run_inv cfg ops hv hs)
  have h2 : (openDbs cfg s.p false none).isSome = true := by rw [h1]; rfl
  rw [openDbs_isSome_setFSp]
  cases c
  · exact h2
  · rw [openDbs_isSome_compacting]; exact h2

/-- the blocks committed by the last UTXO flush of the run's end state `s` (all of the surviving
    chain when `s` is fully flushed) -/
def committedChain (ops : List IOp2) (s : Sys) : List Block := committedOf (chainOf2 [] 0 ops) s

/-- **C14 (`PInv` holds of what every process starts from).**  For the end state `s` of EVERY valid
index run (fully flushed or not, history DB ahead or not) over a chain of 11-byte script hashes and
either `first_sync` flag on disk: a server start succeeds and leaves `startStore cfg f s = openStore …`
on disk; that store satisfies `PInv` for every row size, has no empty row and no compaction in
progress; its histories are the specification's histories of the committed chain; and if the run
ended fully flushed, the committed chain is the whole surviving chain and `clear_excess` removed
nothing. -/
theorem C14run_pinv_started (cfg : Cfg) (ops : List IOp2) (hv : ValidOps2 cfg {} ops)
    (hw : ChainHxWidth (chainOf2 [] 0 ops)) {s : Sys} (hs : runOps2 cfg {} ops = .ok s)
    (maxRow : Nat) (f : Bool) :
    serverStart cfg (setFSp f s.p) = startStore cfg f s ∧
    PInv maxRow (startStore cfg f s) ∧ IdleStore (startStore cfg f s) ∧
    (∀ hx, getTxnums (startStore cfg f s) hx none =
      historyOf (specChain cfg.act (committedChain ops s)) hx) ∧
    (s.m.dbst.height = s.m.st.height →
      (startStore cfg f s).hist = s.p.hist ∧ committedChain ops s = chainOf2 [] 0 ops) :=
  C14inv_pinv_started (indexState_of_run cfg ops hv hw hs) maxRow f

theorem chainOf2_snoc_flush (ops : List IOp2) (fu : Bool) :
    chainOf2 [] 0 (ops ++ [.flush fu]) = chainOf2 [] 0 ops := by
  have h1 := Track.run_chain rxCfg {} (ops ++ [.flush fu])
  have h2 := Track.run_chain rxCfg {} ops
  rw [Track.run_append] at h1
  exact h1.symm.trans h2

/-- **C14 (`PInv` also holds of what a process starts from after a crash INSIDE a flush).**  Let `s`
be the end state of a valid index run, `es` the effects of a `flush_dbs` of either kind issued there
and `c` ANY cut of it (a crash between two effects, or inside a file write: C04's crash model).  The
store the crash leaves has an idle history DB, the restart on it succeeds (`C04run_restart`), and what
the restart — or the compaction script's own `_open_dbs` — leaves on disk satisfies `PInv`. -/
theorem C14run_pinv_crashed (cfg : Cfg) (ops : List IOp2) (hv : ValidOps2 cfg {} ops)
    (hw : ChainHxWidth (chainOf2 [] 0 ops)) {s : Sys} (hs : runOps2 cfg {} ops = .ok s)
    {fu : Bool} {es : List Effect} {m' : Mem} (hf : flushDbs s fu = some (es, m'))
    {c : List Effect} (hc : c ∈ cuts es) (maxRow : Nat) (f : Bool) :
    IdleStore (applyEffects s.p c) ∧
    PInv maxRow (openStore cfg (setFSp f (applyEffects s.p c))) ∧
    (recover cfg (applyEffects s.p c)).isSome = true := by
  have hidle : IdleStore (applyEffects s.p c) := by
    rcases flush_cut_hist hf hc with ⟨h1, h2⟩ | ⟨h1, h2⟩
    · exact idleStore_congr h1 h2 (idleStore_of_run cfg ops hv hw hs)
    · by_cases hh : s.m.st.height = s.m.dbst.height
      · -- nothing to flush: no effects, the cut is empty
        have hes : es = [] := by
          unfold flushDbs at hf
          rw [if_pos hh] at hf
          split at hf
          · simp only [Option.some.injEq, Prod.mk.injEq] at hf; exact hf.1.symm
          · cases hf
        subst hes
        simp only [cuts, List.mem_singleton] at hc
        subst hc
        exact idleStore_of_run cfg ops hv hw hs
      · have hasserts : flushFsAsserts s = true := by
          unfold flushDbs at hf
          rw [if_neg hh] at hf
          split at hf
          · cases hf
          · next h => simpa using h
        have hrun : runOps2 cfg {} (ops ++ [.flush false]) = .ok (flushHistStep s) := by
          rw [runOps2_append, hs]
          simp only [runOps2, stepOp2, flush_hist hh hasserts]
        have hv' : ValidOps2 cfg {} (ops ++ [.flush false]) :=
          (validOps2_append cfg {} ops [.flush false]).mpr ⟨hv, trivial, trivial⟩
        have hI := idleStore_of_run cfg (ops ++ [.flush false]) hv'
          (by rw [chainOf2_snoc_flush]; exact hw) hrun
        obtain ⟨t1, t2⟩ := flushTail_hist s [] (Or.inl rfl)
        rw [List.append_nil] at t1 t2
        exact idleStore_congr (p := (flushHistStep s).p) (h1.trans t1.symm) (h2.trans t2.symm) hI
  obtain ⟨i1, i2⟩ := idleStore_openStore cfg (idleStore_setFSp f hidle)
  obtain ⟨e, r, hr, -⟩ := C04run_restart cfg ops hv hs hf hc
  exact ⟨hidle, pinv_of_idle maxRow i1 i2, by rw [hr]; rfl⟩

/-- **…and after a crash INSIDE a back-out** (`backup_block` + `flush_backup`: a history batch, then
a UTXO batch; C05's crash model): for an admissible back-out (`BackupOk`) issued in the end state of a
valid run and any cut of its two batches, the store the crash leaves has an idle history DB and what
the next `_open_dbs` leaves satisfies `PInv`. -/
theorem C14run_pinv_crashed_backup (cfg : Cfg) (ops : List IOp2) (hv : ValidOps2 cfg {} ops)
    (hw : ChainHxWidth (chainOf2 [] 0 ops)) {s : Sys} (hs : runOps2 cfg {} ops = .ok s)
    {b : Block} (hok : BackupOk (Track.run cfg {} ops) b = true)
    {es : List Effect} {s' : Sys} (hb : backupFull cfg s b = .ok (es, s'))
    {c : List Effect} (hc : c ∈ cuts es) (maxRow : Nat) (f : Bool) :
    IdleStore (applyEffects s.p c) ∧ PInv maxRow (openStore cfg (setFSp f (applyEffects s.p c))) := by
  have hidle : IdleStore (applyEffects s.p c) := by
    rcases backup_cut_hist hb hc with ⟨h1, h2⟩ | ⟨h1, h2⟩
    · exact idleStore_congr h1 h2 (idleStore_of_run cfg ops hv hw hs)
    · have hrun : runOps2 cfg {} (ops ++ [.backup b]) = .ok s' := by
        rw [runOps2_append, hs]
        simp only [runOps2, stepOp2, backup_of_ok hb]
      have hv' : ValidOps2 cfg {} (ops ++ [.backup b]) :=
        (validOps2_append cfg {} ops [.backup b]).mpr ⟨hv, hok, trivial⟩
      have hchain : chainOf2 [] 0 (ops ++ [.backup b]) = (chainOf2 [] 0 ops).dropLast := by
        have h1 := Track.run_chain cfg {} (ops ++ [.backup b])
        have h2 := Track.run_chain cfg {} ops
        rw [Track.run_append] at h1
        rw [← h1, ← h2]
        rfl
      have hw' : ChainHxWidth (chainOf2 [] 0 (ops ++ [.backup b])) := by
        rw [hchain]
        intro b' hb'
        exact hw b' (List.dropLast_subset _ hb')
      exact idleStore_congr (p := s'.p) h1 h2 (idleStore_of_run cfg _ hv' hw' hrun)
  obtain ⟨i1, i2⟩ := idleStore_openStore cfg (idleStore_setFSp f hidle)
  exact ⟨hidle, pinv_of_idle maxRow i1 i2⟩

/-! ### the C14 theorems without a `PInv` hypothesis -/

/-- **C14 (any interruption, from any index run).**  Index any valid run from the empty store over a
chain of 11-byte script hashes; let the store on disk have either `first_sync` flag.  Then take any
sequence of processes on the database directory (compaction runs stopped or killed after any number
of batches, resumed, completed with or without `set_flush_count`; server starts in between).  At
**every** point of the sequence: the history of every script hash is the SPECIFICATION's history of
the chain the run committed (all of the surviving chain if the run ended fully flushed), `PInv` holds
again, a server opened at that point serves these histories — the conclusion of
`C14_any_interruption` with NO `PInv` hypothesis, tied to the specification.  Running the events on
the run's own store is the same thing as running them on `startStore` (every process begins with
`_open_dbs`).

Remaining hypotheses, each a genuine restriction: `ValidOps2` (the blocks connect and spend existing
outputs, back-outs are admissible); `ChainHxWidth` (11-byte script hashes — not expressible inside
the index model); `AllOK` (a compaction run whose `set_flush_count` is lost must start from a store
whose UTXO flush count covers the compacted row ids — without it the claim is false, F9b,
`C14_counterexample_lost_set_flush_count_clear_excess`; it is vacuous when no `set_flush_count` is lost,
`allOK_of_setFlush`). -/
theorem C14run_any_interruption (cfg : Cfg) (ops : List IOp2) (hv : ValidOps2 cfg {} ops)
    (hw : ChainHxWidth (chainOf2 [] 0 ops)) {s : Sys} (hs : runOps2 cfg {} ops = .ok s)
    (maxRow : Nat) (hm : 0 < maxRow) (f : Bool) (evs : List Ev)
    (hok : AllOK cfg maxRow (startStore cfg f s) evs) (n : Nat) :
    (∀ hx, getTxnums (runEvs cfg maxRow (startStore cfg f s) (evs.take n)) hx none =
      historyOf (specChain cfg.act (committedChain ops s)) hx) ∧
    PInv maxRow (runEvs cfg maxRow (startStore cfg f s) (evs.take n)) ∧
    (∀ keep es s', openDbs cfg (runEvs cfg maxRow (startStore cfg f s) (evs.take n)) false keep =
        some (es, s') → ∀ hx, getTxnums s'.p hx none =
          historyOf (specChain cfg.act (committedChain ops s)) hx) ∧
    (evs.take n ≠ [] → runEvs cfg maxRow (setFSp f s.p) (evs.take n) =
      runEvs cfg maxRow (startStore cfg f s) (evs.take n)) ∧
    (s.m.dbst.height = s.m.st.height → committedChain ops s = chainOf2 [] 0 ops) := by
  exact C14inv_any_interruption (indexState_of_run cfg ops hv hw hs) maxRow hm f evs hok n

/-- **C14 (then undo, from any index run).**  After any such sequence of compaction runs and server
starts, `History.backup(hashXs, tx_count)` — what undoing blocks does to the history DB — leaves
every touched script hash exactly the entries below `tx_count` of its specification history, every
other script hash its specification history, and keys distinct: `C14_then_undo` with its hypotheses
(distinct keys, ascending histories) discharged. -/
theorem C14run_then_undo (cfg : Cfg) (ops : List IOp2) (hv : ValidOps2 cfg {} ops)
    (hw : ChainHxWidth (chainOf2 [] 0 ops)) {s : Sys} (hs : runOps2 cfg {} ops = .ok s)
    (maxRow : Nat) (hm : 0 < maxRow) (f : Bool) (evs : List Ev)
    (hok : AllOK cfg maxRow (startStore cfg f s) evs) (n : Nat)
    (s2 : Sys) (hp : s2.p = runEvs cfg maxRow (startStore cfg f s) (evs.take n))
    (touched : List HashX) (tc : Nat) :
    NodupKeys (applyEffect s2.p (histBackupEffect s2 touched tc)).hist ∧
    (∀ hx ∈ touched, getTxnums (applyEffect s2.p (histBackupEffect s2 touched tc)) hx none =
      (historyOf (specChain cfg.act (committedChain ops s)) hx).takeWhile (fun k => decide (k < tc))) ∧
    (∀ hx, hx ∉ touched → getTxnums (applyEffect s2.p (histBackupEffect s2 touched tc)) hx none =
      historyOf (specChain cfg.act (committedChain ops s)) hx) := by
  obtain ⟨a1, a2, -⟩ := C14run_any_interruption cfg ops hv hw hs maxRow hm f evs hok n
  have hg : ∀ hx, getTxnums s2.p hx none = historyOf (specChain cfg.act (committedChain ops s)) hx := by
    intro hx; rw [hp]; exact a1 hx
  obtain ⟨u1, u2, u3, -⟩ := C14_then_undo s2 touched tc (by rw [hp]; exact a2.nodup)
  refine ⟨u1, ?_, ?_⟩
  · intro hx hmem
    rw [u2 hx hmem (by rw [hg]; exact (historyOf_pairwise _ _).imp (fun h => Nat.le_of_lt h)), hg]
  · intro hx hmem
    rw [u3 hx hmem, hg]

/-- **C14 (then index, from any index run).**  After any such sequence in which no compaction is
left in progress — or an abandoned one under the property's restriction `RowsFit` — open the store
normally, accumulate any `unflushed` dict and flush: for every script hash the new tx numbers are
appended to its specification history and nothing else changes: `C14_then_index` with `PInv`
discharged. -/
theorem C14run_then_index (cfg : Cfg) (ops : List IOp2) (hv : ValidOps2 cfg {} ops)
    (hw : ChainHxWidth (chainOf2 [] 0 ops)) {s : Sys} (hs : runOps2 cfg {} ops = .ok s)
    (maxRow : Nat) (hm : 0 < maxRow) (f : Bool) (evs : List Ev)
    (hok : AllOK cfg maxRow (startStore cfg f s) evs) (n : Nat)
    (hcase : (hsOf (runEvs cfg maxRow (startStore cfg f s) (evs.take n))).compCursor = -1 ∨
      RowsFit maxRow (runEvs cfg maxRow (startStore cfg f s) (evs.take n))
        (hF (runEvs cfg maxRow (startStore cfg f s) (evs.take n))))
    (keep : Option (List Nat)) (es : List Effect) (s0 : Sys)
    (ho : openDbs cfg (runEvs cfg maxRow (startStore cfg f s) (evs.take n)) false keep = some (es, s0))
    (s2 : Sys) (hp : s2.p = s0.p) (hmf : s2.m.histFlush = s0.m.histFlush)
    (hcf : s2.m.compFlush = s0.m.compFlush) (hcc : s2.m.compCursor = s0.m.compCursor)
    (hu : (s2.m.unflushed.map (·.1)).Nodup) :
    (∀ hx, getTxnums (applyEffect s2.p (histFlushEffect s2)) hx none =
      historyOf (specChain cfg.act (committedChain ops s)) hx ++ (alookup hx s2.m.unflushed).getD []) ∧
    NodupKeys (applyEffect s2.p (histFlushEffect s2)).hist ∧
    AllIdsLE (applyEffect s2.p (histFlushEffect s2)) := by
  obtain ⟨a1, a2, -⟩ := C14run_any_interruption cfg ops hv hw hs maxRow hm f evs hok n
  obtain ⟨-, t2, t3, t4, -⟩ := C14_then_index cfg maxRow _ a2 hcase keep es s0 ho s2 hp hmf hcf hcc hu
  exact ⟨fun hx => by rw [t2, a1], t3, t4⟩

/-- **…and directly on the run's store when the history DB is not ahead** (after a restart, after a
full flush: `C14run_notAhead_after_restart`, `C14run_notAhead_after_full_flush`): the conclusion of
`C14_any_interruption` for `p0 = setFSp f s.p` itself, the empty sequence included. -/
theorem C14run_any_interruption_notAhead (cfg : Cfg) (ops : List IOp2) (hv : ValidOps2 cfg {} ops)
    (hw : ChainHxWidth (chainOf2 [] 0 ops)) {s : Sys} (hs : runOps2 cfg {} ops = .ok s)
    (hna : hF s.p ≤ uF s.p) (maxRow : Nat) (hm : 0 < maxRow) (f : Bool) (evs : List Ev)
    (hok : AllOK cfg maxRow (setFSp f s.p) evs) (n : Nat) :
    (∀ hx, getTxnums (runEvs cfg maxRow (setFSp f s.p) (evs.take n)) hx none = getTxnums s.p hx none) ∧
    PInv maxRow (runEvs cfg maxRow (setFSp f s.p) (evs.take n)) ∧
    (∀ keep es s', openDbs cfg (runEvs cfg maxRow (setFSp f s.p) (evs.take n)) false keep =
        some (es, s') → ∀ hx, getTxnums s'.p hx none = getTxnums s.p hx none) :=
  C14_any_interruption cfg maxRow hm (setFSp f s.p) evs (C14run_pinv cfg ops hv hw hs maxRow f hna) hok n

/-- a chain with at most `65536 · maxRow` transactions cannot give any script hash more than 65536
    compacted rows -/
theorem rowCountOK_of_history {maxRow : Nat} {p : Store} {S : St}
    (h : ∀ hx, getTxnums p hx none = historyOf S hx) (hlen : S.touched.length ≤ maxRow * 65536) :
    RowCountOK maxRow p := by
  intro hx
  unfold nchunks
  apply chunks_length_le
  rw [h hx]
  unfold historyOf
  have := List.length_filter_le (fun n => (S.touched.getD n []).contains hx) (List.range S.touched.length)
  rw [List.length_range] at this
  omega

/-- **C14 (in one go, from any index run).**  Index any valid run over a chain of 11-byte script
hashes that has flushed the UTXO DB at least once, with `first_sync` cleared on disk.  The compaction
script with 65536 positive limits, run on that store: `_open_dbs` succeeds and `first_sync` is false
(both DERIVED), the script reaches the end, every history is the specification's history of the
committed chain, no compaction is in progress on disk, both flush counts agree, every row id is `≤` the flush count — the conclusion of
`C14_one_go` with no `PInv`, `NoEmptyRows`, cursor, `openDbs` or `first_sync` hypothesis left.
Remaining: `ValidOps2`, `ChainHxWidth`, the UTXO DB exists (`hu`: on a fresh directory the state
record is absent, `first_sync` reads as true and the script refuses), `RowCountOK` (no script hash
needs more than 65536 compacted rows, else `pack_be_uint16` raises — implied by
`rowCountOK_of_history` for chains of at most `65536 · maxRow` transactions), and the limits. -/
theorem C14run_one_go (cfg : Cfg) (ops : List IOp2) (hv : ValidOps2 cfg {} ops)
    (hw : ChainHxWidth (chainOf2 [] 0 ops)) {s : Sys} (hs : runOps2 cfg {} ops = .ok s)
    (hu : s.p.ustate.isSome = true) (maxRow : Nat) (hm : 0 < maxRow)
    (hrc : RowCountOK maxRow (startStore cfg false s)) (limits : List Nat)
    (hl : ∀ l ∈ limits, 0 < l) (hlen : 65536 ≤ limits.length) :
    compactScript cfg maxRow (setFSp false s.p) limits true =
      compactScript cfg maxRow (startStore cfg false s) limits true ∧
    (∀ hx, getTxnums (compactScript cfg maxRow (startStore cfg false s) limits true) hx none =
      historyOf (specChain cfg.act (committedChain ops s)) hx) ∧
    PInv maxRow (compactScript cfg maxRow (startStore cfg false s) limits true) ∧
    (hsOf (compactScript cfg maxRow (startStore cfg false s) limits true)).compCursor = -1 ∧
    uF (compactScript cfg maxRow (startStore cfg false s) limits true) =
      hF (compactScript cfg maxRow (startStore cfg false s) limits true) ∧
    AllIdsLE (compactScript cfg maxRow (startStore cfg false s) limits true) := by
  refine C14inv_one_go (indexState_of_run cfg ops hv hw hs) false ?_ maxRow hm hrc limits hl hlen
  unfold setFSp
  cases hus : s.p.ustate with
  | none => rw [hus] at hu; cases hu
  | some x => rfl

/-! ### end states of the block-processing task (`EV.SyncLoopT`)

The server-level model of C01sync/C07carrier: batches of blocks with the flushes the cache-size loop
requests, blocks that do not connect, `on_caught_up` (which CLEARS `first_sync` and flushes), and
`reorg_chain` — here the `first_sync` flag on disk is whatever the task wrote, not a parameter. -/

/-- the end state of every valid run of the block-processing task is, up to `first_sync` flags, an
    invariant index state of the surviving chain -/
theorem indexState_of_sync (cfg : Cfg) (evs : List EV.SyncLoopT.Ev)
    (hv : EV.SyncLoopT.ValidEvs cfg {} evs)
    (hw : ChainHxWidth (EV.SyncLoopT.trackOf cfg {} evs).chain)
    {l' : EV.SyncLoop.Loop} {outs : List EV.SyncLoopT.Out}
    (hr : EV.SyncLoopT.run cfg {} evs = .ok (l', outs)) :
    ∃ s0 f1 f2 f3, IndexState cfg (EV.SyncLoopT.trackOf cfg {} evs).chain
        (EV.SyncLoopT.trackOf cfg {} evs).kept s0 ∧ l'.s = setFS s0 f1 f2 f3 := by
  obtain ⟨l2, ocs, h1, -, -, ref', li⟩ := EV.SyncLoopT.run_inv evs (EV.SyncLoopT.lInv_init cfg) hv
  rw [hr] at h1
  simp only [Except.ok.injEq, Prod.mk.injEq] at h1
  obtain ⟨rfl, -⟩ := h1
  obtain ⟨s0, f1, f2, f3, ti, hl⟩ := li.ghost
  have hsh : RunShape l'.s := runShape_syncRun evs (l := {}) runShape_init hr
  rw [hl] at hsh
  exact ⟨s0, f1, f2, f3, ⟨ti.inv, runShape_of_setFS hsh, hw⟩, hl⟩

/-- **C14 (any interruption, from any run of the block-processing task).**  `C14run_any_interruption`
for the store `l'.s.p` the task leaves after any valid event list (batches, `on_caught_up`,
reorganisations), literally — no flag parameter: at every point of any sequence of compaction runs
and server starts the histories are the specification's histories of the committed part of the
surviving chain, `PInv` holds, a server opened there serves them, and running the events on `l'.s.p`
itself is running them on `openStore cfg l'.s.p`. -/
theorem C14sync_any_interruption (cfg : Cfg) (evs : List EV.SyncLoopT.Ev)
    (hv : EV.SyncLoopT.ValidEvs cfg {} evs)
    (hw : ChainHxWidth (EV.SyncLoopT.trackOf cfg {} evs).chain)
    {l' : EV.SyncLoop.Loop} {outs : List EV.SyncLoopT.Out}
    (hr : EV.SyncLoopT.run cfg {} evs = .ok (l', outs))
    (maxRow : Nat) (hm : 0 < maxRow) (cevs : List Ev)
    (hok : AllOK cfg maxRow (openStore cfg l'.s.p) cevs) (n : Nat) :
    (∀ hx, getTxnums (runEvs cfg maxRow (openStore cfg l'.s.p) (cevs.take n)) hx none =
      historyOf (specChain cfg.act (committedOf (EV.SyncLoopT.trackOf cfg {} evs).chain l'.s)) hx) ∧
    PInv maxRow (runEvs cfg maxRow (openStore cfg l'.s.p) (cevs.take n)) ∧
    (∀ keep es s', openDbs cfg (runEvs cfg maxRow (openStore cfg l'.s.p) (cevs.take n)) false keep =
        some (es, s') → ∀ hx, getTxnums s'.p hx none =
          historyOf (specChain cfg.act (committedOf (EV.SyncLoopT.trackOf cfg {} evs).chain l'.s)) hx) ∧
    (cevs.take n ≠ [] → runEvs cfg maxRow l'.s.p (cevs.take n) =
      runEvs cfg maxRow (openStore cfg l'.s.p) (cevs.take n)) ∧
    (l'.s.m.dbst.height = l'.s.m.st.height →
      committedOf (EV.SyncLoopT.trackOf cfg {} evs).chain l'.s = (EV.SyncLoopT.trackOf cfg {} evs).chain) := by
  obtain ⟨s0, f1, f2, f3, ist, hl⟩ := indexState_of_sync cfg evs hv hw hr
  rw [hl] at hok ⊢
  exact C14inv_any_interruption ist maxRow hm f3 cevs hok n

/-- **C14 (in one go, from any run of the block-processing task)** that has written `first_sync =
False` to disk (`on_caught_up` followed by a flush that flushed something, or a back-out): the
conclusion of `C14run_one_go` for `l'.s.p`. -/
theorem C14sync_one_go (cfg : Cfg) (evs : List EV.SyncLoopT.Ev)
    (hv : EV.SyncLoopT.ValidEvs cfg {} evs)
    (hw : ChainHxWidth (EV.SyncLoopT.trackOf cfg {} evs).chain)
    {l' : EV.SyncLoop.Loop} {outs : List EV.SyncLoopT.Out}
    (hr : EV.SyncLoopT.run cfg {} evs = .ok (l', outs))
    (hfs : l'.s.p.ustate.map (·.firstSync) = some false) (maxRow : Nat) (hm : 0 < maxRow)
    (hrc : RowCountOK maxRow (openStore cfg l'.s.p)) (limits : List Nat)
    (hl : ∀ l ∈ limits, 0 < l) (hlen : 65536 ≤ limits.length) :
    compactScript cfg maxRow l'.s.p limits true =
      compactScript cfg maxRow (openStore cfg l'.s.p) limits true ∧
    (∀ hx, getTxnums (compactScript cfg maxRow (openStore cfg l'.s.p) limits true) hx none =
      historyOf (specChain cfg.act (committedOf (EV.SyncLoopT.trackOf cfg {} evs).chain l'.s)) hx) ∧
    PInv maxRow (compactScript cfg maxRow (openStore cfg l'.s.p) limits true) ∧
    (hsOf (compactScript cfg maxRow (openStore cfg l'.s.p) limits true)).compCursor = -1 ∧
    uF (compactScript cfg maxRow (openStore cfg l'.s.p) limits true) =
      hF (compactScript cfg maxRow (openStore cfg l'.s.p) limits true) ∧
    AllIdsLE (compactScript cfg maxRow (openStore cfg l'.s.p) limits true) := by
  obtain ⟨s0, f1, f2, f3, ist, hl0⟩ := indexState_of_sync cfg evs hv hw hr
  rw [hl0] at hfs hrc ⊢
  exact C14inv_one_go ist f3 hfs maxRow hm hrc limits hl hlen

/-! ### `notAhead` is false of some reachable stores -/

/-- two blocks indexed, full flush, the tip backed out again -/
def c14Back : List IOp2 := [.adv rxB0 0, .adv rxB1 1, .flush true, .backup rxB1]

/-- **`PInv.notAhead` is not an invariant of index runs.**  (a) The run `c14Back` ends — valid, over
11-byte script hashes, FULLY FLUSHED — with history flush count 2 and UTXO flush count 1 on disk
(`History.backup` bumps `flush_count`, `flush_backup` does not copy it into the UTXO state; the same
store as `C14_after_backout_example`, here from `runOps2`).  (b) The first four operations of `rxOps`
(`C03run.lean`) end with a history-only flush: flush counts 2 and 1, not fully flushed.  In both
cases the next `_open_dbs` — the first thing the compaction script does — re-establishes `notAhead`
(`C14run_pinv_started`); in case (a) it deletes no row (`C14run_pinv_started`, last clause; also
`C14_clear_excess_after_backout`), in case (b) it deletes the rows of the uncommitted flush, by
design (C04).  The real code does the same (suite `compaction`, which drives the real `History`
through `DB._open_dbs`): no C14 violation. -/
theorem C14run_counterexample_ahead :
    (ValidOps2 rxCfg {} c14Back ∧ ChainHxWidth (chainOf2 [] 0 c14Back) ∧
      (okSysD (runOps2 rxCfg {} c14Back)).m.dbst.height = (okSysD (runOps2 rxCfg {} c14Back)).m.st.height ∧
      (hF (okSysD (runOps2 rxCfg {} c14Back)).p, uF (okSysD (runOps2 rxCfg {} c14Back)).p) = (2, 1)) ∧
    (ValidOps2 rxCfg {} (rxOps.take 4) ∧
      (hF (okSysD (runOps2 rxCfg {} (rxOps.take 4))).p,
       uF (okSysD (runOps2 rxCfg {} (rxOps.take 4))).p) = (2, 1)) := by
  refine ⟨⟨by decide, by decide, by decide, by decide⟩, by decide, by decide⟩

/-! ### non-vacuity

`c14Ops` = the run `c04Ops` of `C04audit.lean` (block 0, full flush, block 1) followed by a full flush:
two blocks, two flushes, script hash 1 has a row under each flush id. -/

def c14Ops : List IOp2 := c04Ops ++ [.flush true]

def c14S : Sys := okSysD (runOps2 rxCfg {} c14Ops)

theorem c14S_run : runOps2 rxCfg {} c14Ops = .ok c14S := by
  obtain ⟨s, h, -⟩ := C03run_refinement rxCfg c14Ops (by decide)
  rw [c14S, h]; rfl

/-- the hypotheses of all theorems above hold of this run (the decidable ones by evaluation) -/
example : ValidOps2 rxCfg {} c14Ops ∧ ChainHxWidth (chainOf2 [] 0 c14Ops) ∧
    runOps2 rxCfg {} c14Ops = .ok c14S ∧ c14S.p.ustate.isSome = true ∧ hF c14S.p ≤ uF c14S.p ∧
    c14S.m.dbst.height = c14S.m.st.height :=
  ⟨by decide, by decide, c14S_run, by decide, by decide, by decide⟩

/-- `C14run_pinv_crashed` applies to every one of the ten cuts of the full flush of `c04S` (one block
    committed, one in memory: `C04audit.lean`) -/
example : ∃ es m', flushDbs c04S true = some (es, m') ∧ (cuts es).length = 10 ∧
    ∀ c ∈ cuts es, PInv 4 (openStore rxCfg (setFSp false (applyEffects c04S.p c))) := by
  have hv : ValidOps2 rxCfg {} c04Ops := by decide
  obtain ⟨es, m', hf⟩ := C04run_flush_defined rxCfg c04Ops hv c04S_run true
  refine ⟨es, m', hf, ?_, fun c hc =>
    (C14run_pinv_crashed rxCfg c04Ops hv (by decide) c04S_run hf hc 4 false).2.1⟩
  have h : (flushDbs c04S true).map (fun r => (cuts r.1).length) = some 10 := by decide
  rw [hf] at h
  simpa using h

/-- the state in which `c14Back`'s back-out is issued -/
def c14PreS : Sys := okSysD (runOps2 rxCfg {} (c14Back.take 3))

theorem c14PreS_run : runOps2 rxCfg {} (c14Back.take 3) = .ok c14PreS := by
  obtain ⟨s, h, -⟩ := C03run_refinement rxCfg (c14Back.take 3) (by decide)
  rw [c14PreS, h]; rfl

/-- `C14run_pinv_crashed_backup` applies to the back-out of `c14Back` -/
example : ∃ es s', backupFull rxCfg c14PreS rxB1 = .ok (es, s') ∧
    ∀ c ∈ cuts es, PInv 4 (openStore rxCfg (setFSp false (applyEffects c14PreS.p c))) := by
  have hv : ValidOps2 rxCfg {} (c14Back.take 3) := by decide
  obtain ⟨s1, h1, -⟩ := C03run_refinement rxCfg c14Back (by decide)
  have hsplit : c14Back = c14Back.take 3 ++ [.backup rxB1] := rfl
  rw [hsplit, runOps2_append, c14PreS_run] at h1
  have h2 : (match backup rxCfg c14PreS rxB1 with
      | .error e => Except.error e
      | .ok s' => runOps2 rxCfg s' []) = .ok s1 := h1
  cases hb : backupFull rxCfg c14PreS rxB1 with
  | error e =>
    have : backup rxCfg c14PreS rxB1 = .error e := by unfold backup; rw [hb]
    rw [this] at h2; cases h2
  | ok r =>
    obtain ⟨es, s'⟩ := r
    exact ⟨es, s', rfl, fun c hc =>
      (C14run_pinv_crashed_backup rxCfg (c14Back.take 3) hv (by decide) c14PreS_run (by decide) hb hc 4 false).2⟩

/-- `ChainHxWidth` is not vacuous the other way either: it rejects a 12-byte script hash -/
example : ¬ ChainHxWidth [⟨7, 0, 100, 80, [⟨11, [rxGen], [⟨50, 2 ^ 88, .normal⟩]⟩]⟩] := by decide

/-- `C14run_any_interruption` applies to it (a compaction stopped after one batch, a server start, a
    resumed compaction that completes), and so does `C14run_one_go`: `RowCountOK` from the size of the
    chain -/
example (n : Nat) :
    (∀ hx, getTxnums (runEvs rxCfg 4 (startStore rxCfg false c14S)
        (([.compact [1] true, .serverStart, .compact [1, 8000000] true] : List Ev).take n)) hx none =
      historyOf (specChain rxCfg.act (chainOf2 [] 0 c14Ops)) hx) ∧
    RowCountOK 4 (startStore rxCfg false c14S) := by
  have hv : ValidOps2 rxCfg {} c14Ops := by decide
  have hw : ChainHxWidth (chainOf2 [] 0 c14Ops) := by decide
  have hfl : c14S.m.dbst.height = c14S.m.st.height := by decide
  obtain ⟨a1, -, -, -, a5⟩ := C14run_any_interruption rxCfg c14Ops hv hw c14S_run 4 (by decide) false
    [.compact [1] true, .serverStart, .compact [1, 8000000] true]
    (allOK_of_setFlush _ _ _ _ (by
      intro l b hm
      simp only [List.mem_cons, Ev.compact.injEq, List.not_mem_nil, or_false, reduceCtorEq, false_or] at hm
      rcases hm with ⟨-, rfl⟩ | ⟨-, rfl⟩ <;> rfl)) n
  obtain ⟨-, -, -, hspec, -⟩ := C14run_pinv_started rxCfg c14Ops hv hw c14S_run 4 false
  rw [a5 hfl] at a1 hspec
  exact ⟨a1, rowCountOK_of_history hspec (by decide)⟩

/-- `C14run_one_go` applies to it with the script's own limit, 65536 times: every hypothesis is
    satisfiable together, and the script does complete -/
example : (hsOf (compactScript rxCfg 4 (setFSp false c14S.p) (List.replicate 65536 8000000) true)).compCursor = -1 ∧
    ∀ hx, getTxnums (compactScript rxCfg 4 (setFSp false c14S.p) (List.replicate 65536 8000000) true) hx none =
      historyOf (specChain rxCfg.act (chainOf2 [] 0 c14Ops)) hx := by
  have hv : ValidOps2 rxCfg {} c14Ops := by decide
  have hw : ChainHxWidth (chainOf2 [] 0 c14Ops) := by decide
  have hfl : c14S.m.dbst.height = c14S.m.st.height := by decide
  obtain ⟨-, -, -, hspec, hc⟩ := C14run_pinv_started rxCfg c14Ops hv hw c14S_run 4 false
  obtain ⟨g0, g1, -, g3, -⟩ := C14run_one_go rxCfg c14Ops hv hw c14S_run (by decide) 4 (by decide)
    (rowCountOK_of_history (by rw [(hc hfl).2] at hspec; exact hspec) (by decide))
    (List.replicate 65536 8000000)
    (by intro l hl; rw [List.eq_of_mem_replicate hl]; decide) (by rw [List.length_replicate]; exact Nat.le_refl _)
  rw [(hc hfl).2] at g1
  rw [g0]
  exact ⟨g3, g1⟩

/-- the end state of the run `cxEvs` of `C07carrier.lean` of the block-processing task: initial sync
    of a block, `on_caught_up`, a block with a history-only flush, `on_caught_up`, a block that does not
    connect (full flush requested), a reorganisation backing one block out, the two blocks of the other
    branch, `on_caught_up` -/
def c14L : EV.SyncLoop.Loop :=
  match EV.SyncLoopT.run rxCfg {} EV.SyncLoopT.cxEvs with
  | .ok (l, _) => l
  | .error _ => {}

theorem c14L_run : ∃ outs, EV.SyncLoopT.run rxCfg {} EV.SyncLoopT.cxEvs = .ok (c14L, outs) := by
  obtain ⟨l2, ocs, h1, -⟩ :=
    EV.SyncLoopT.run_inv EV.SyncLoopT.cxEvs (EV.SyncLoopT.lInv_init rxCfg) (by decide)
  refine ⟨ocs.map (·.1), ?_⟩
  rw [c14L, h1]

/-- `C14sync_any_interruption` and `C14sync_one_go` apply to it: the task has written `first_sync =
    False`, the store is fully flushed with three blocks on the surviving chain -/
example (n : Nat) :
    c14L.s.p.ustate.map (·.firstSync) = some false ∧
    (EV.SyncLoopT.trackOf rxCfg {} EV.SyncLoopT.cxEvs).chain = [rxB0, rxB1', rxB2] ∧
    PInv 4 (runEvs rxCfg 4 (openStore rxCfg c14L.s.p)
      (([.compact [1] true, .serverStart, .compact [1, 8000000] true] : List Ev).take n)) ∧
    (hsOf (compactScript rxCfg 4 c14L.s.p (List.replicate 65536 8000000) true)).compCursor = -1 ∧
    ∀ hx, getTxnums (compactScript rxCfg 4 c14L.s.p (List.replicate 65536 8000000) true) hx none =
      historyOf (specChain rxCfg.act [rxB0, rxB1', rxB2]) hx := by
  obtain ⟨outs, hr⟩ := c14L_run
  have hv : EV.SyncLoopT.ValidEvs rxCfg {} EV.SyncLoopT.cxEvs := by decide
  have hw : ChainHxWidth (EV.SyncLoopT.trackOf rxCfg {} EV.SyncLoopT.cxEvs).chain := by decide
  have hchain : (EV.SyncLoopT.trackOf rxCfg {} EV.SyncLoopT.cxEvs).chain = [rxB0, rxB1', rxB2] := by decide
  have hfs : c14L.s.p.ustate.map (·.firstSync) = some false := by decide
  have hfl : c14L.s.m.dbst.height = c14L.s.m.st.height := by decide
  have hallok : ∀ p, AllOK rxCfg 4 p [.compact [1] true, .serverStart, .compact [1, 8000000] true] := fun p =>
    allOK_of_setFlush _ _ _ _ (by
      intro l b hm
      simp only [List.mem_cons, Ev.compact.injEq, List.not_mem_nil, or_false, reduceCtorEq, false_or] at hm
      rcases hm with ⟨-, rfl⟩ | ⟨-, rfl⟩ <;> rfl)
  obtain ⟨-, a2, -, -, a5⟩ := C14sync_any_interruption rxCfg _ hv hw hr 4 (by decide) _ (hallok _) n
  obtain ⟨b1, -, -, -, -⟩ := C14sync_any_interruption rxCfg _ hv hw hr 4 (by decide) _ (hallok _) 0
  have hspec : ∀ hx, getTxnums (openStore rxCfg c14L.s.p) hx none =
      historyOf (specChain rxCfg.act [rxB0, rxB1', rxB2]) hx := by
    intro hx
    have := b1 hx
    rw [a5 hfl, hchain] at this
    exact this
  obtain ⟨g0, g1, -, g3, -⟩ := C14sync_one_go rxCfg _ hv hw hr hfs 4 (by decide)
    (rowCountOK_of_history hspec (by decide)) (List.replicate 65536 8000000)
    (by intro l hl; rw [List.eq_of_mem_replicate hl]; decide) (by rw [List.length_replicate]; exact Nat.le_refl _)
  rw [a5 hfl, hchain] at g1
  rw [g0]
  exact ⟨hfs, hchain, a2, g3, g1⟩

set_option linter.unusedSimpArgs false in
/-- the run's store, evaluated -/
theorem c14S_store : c14S.p =
    { h := [((0, 0, 1), 2), ((0, 1, 0), 4)], u := [((2, 0, 1), 50), ((4, 1, 0), 60)],
      undo := [(1, [{ hx := 1, txnum := 0, value := 50 }]), (0, [])],
      ustate := some { height := 1, txCount := 2, chainSize := 161, tip := 8, flushCount := 2,
                       utxoCount := 2, firstSync := true },
      hist := [((2, 2), [1]), ((1, 2), [1]), ((4, 1), [0]), ((1, 1), [0])],
      hstate := some { flushCount := 2, compFlushCount := -1, compCursor := -1 },
      headers := [100, 101], txcounts := [1, 2], hashes := [11, 12] } := by
  ev_eval [c14S, c14Ops, c04Ops, okSysD, runOps2, stepOp2, rxCfg, rxB0, rxB1, rxGen, TxIn.isGen,
    spendFromDb, fsTxHash, bisectRight]

set_option linter.unusedSimpArgs false in
/-- **the composed theorems are not about a script that does nothing**: with `first_sync` cleared, one
    batch of the compaction script on the run's store rewrites the rows of all three script hashes
    under ids `0 …` (script hash 1: two rows merged into one) and records cursor 1; with the flag still
    set (the literal end store of `runOps2`) the script refuses and the store stays as it is. -/
theorem C14run_example_compacts :
    (compactScript rxCfg 4 (setFSp false c14S.p) [1] true).hist =
      [((4, 0), [0]), ((2, 0), [1]), ((1, 0), [0, 1])] ∧
    (compactScript rxCfg 4 (setFSp false c14S.p) [1] true).hstate =
      some { flushCount := 2, compFlushCount := 1, compCursor := 1 } ∧
    (compactScript rxCfg 4 (setFSp true c14S.p) [1] true).hist = c14S.p.hist := by
  rw [c14S_store]
  refine ⟨?_, ?_, ?_⟩
  · ev_eval [setFSp, rxCfg]
  · ev_eval [setFSp, rxCfg]
  · ev_eval [setFSp, rxCfg]

end EV.Compact

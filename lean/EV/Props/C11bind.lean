import EV.Props.C11all
import EV.Props.C12bind

/-!
# C11 (binding) — what a verifying transaction proof tells the client, under concurrency

`C11_tx_fold` shows that the proof handed out verifies.  Composed with `EV.Merkle.bar_binds`
(`EV/Props/C12bind.lean`, explicit hypothesis `Collisionless H`, not claimed for SHA-256) the
answer of `transaction.id_from_pos(height, pos, merkle=True)` is also *binding*: for the block
`b` that was at the requested height at some moment of the request, no other transaction id and
no other branch of the same length verifies at `pos` against `b`'s merkle root — for every run
of the model (any number of concurrent requests, reorganisations, evictions).
Nothing existing is touched; no check outcome depends on this file.
-/
namespace EV.TxCache
open EV.Merkle

variable {Node : Type} [DecidableEq Node] (H : Node → Node → Node)

/-- **C11 (the by-position answer binds).** -/
theorem C11_tx_binds (hinj : Collisionless H) (thr : Nat) (s : St Node) (evs : List (Ev Node))
    (h0 : Init H s) :
    ∀ r ∈ (run H (Cfg.fixed thr) s evs).reqs, ∀ br tx, r.pc = .done (.branchPos br tx) →
      ∃ pos, r.kind = .brPos pos ∧ ∃ S ∈ r.seen, ∃ b, S[r.height]? = some b ∧ ∃ hne,
        ∀ (y : Node) (nodes : List Node), nodes.length = br.length →
          rootFromProof H y nodes pos = .ok (merkleRoot H b.txs hne) →
          y = tx ∧ nodes.map .node = br := by
  intro r hr br tx hpc
  obtain ⟨_, s2, _, _⟩ := C11_tx_safe H thr s evs h0 r hr
  obtain ⟨pos, hk, S, hS, b, hb, htx, hne, hbar⟩ := s2 br tx hpc
  obtain ⟨hlt, hget⟩ := List.getElem?_eq_some_iff.mp htx
  have hlen := bar_length H b.txs pos false br _ hbar
  refine ⟨pos, hk, S, hS, b, hb, hne, ?_⟩
  intro y nodes hl hv
  obtain ⟨hy, hb2⟩ := bar_binds H hinj b.txs pos hlt y nodes (by omega) hv
  rw [hbar] at hb2
  injection hb2 with hb2
  injection hb2 with hb2a _
  exact ⟨by rw [hy, hget], hb2a.symm⟩

end EV.TxCache

namespace EV.HeaderCache
open EV.Merkle

variable {Node : Type} (H : Node → Node → Node)

/-- **C11 (the header proof binds).**  Collision-free `H`: in every run of the header-cache model
(any number of concurrent requests, back-outs cut in two, reads cut in three) an answered
`(branch, root)` for `(height, cp_height)` is binding — for the chain `S` that was visible at some
moment of the request, `root` is the merkle root of its first `cp+1` block hashes, and any block
hash `y` with any branch of the same length that `root_from_proof` folds to `root` at position
`height` is `S[height]`, with exactly the branch handed out. -/
theorem C11_header_binds [DecidableEq Node] (hinj : Collisionless H) (s : St Node) (evs : List (Ev Node))
    (h0 : Init H s) :
    ∀ r ∈ (run H Cfg.fixed s evs).reqs, ∀ br root, r.pc = .done (.answer br root) →
      ∃ S ∈ r.seen, r.length ≤ S.length ∧ ∃ (hidx : r.index < (S.take r.length).length),
        ∀ (y : Node) (nodes : List Node), nodes.length = br.length →
          rootFromProof H y nodes r.index = .ok root →
          y = (S.take r.length)[r.index] ∧ nodes.map .node = br := by
  intro r hr br root hpc
  obtain ⟨S, hS, hlen, hbar, hne, hroot⟩ := C11_header_safe H s evs h0 r hr br root hpc
  obtain ⟨h1, h2⟩ := branchAndRoot_ok_range H hbar
  have hidx : r.index < (S.take r.length).length := by omega
  have hl := bar_length H (S.take r.length) r.index false br _ hbar
  refine ⟨S, hS, hlen, hidx, ?_⟩
  intro y nodes hnl hv
  subst hroot
  obtain ⟨hy, hb2⟩ := bar_binds H hinj (S.take r.length) r.index hidx y nodes (by omega) hv
  rw [hbar] at hb2
  injection hb2 with hb2
  injection hb2 with hb2a _
  exact ⟨hy, hb2a.symm⟩

end EV.HeaderCache

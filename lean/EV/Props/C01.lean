import EV.Props.C01sync
import EV.Props.C01run
import EV.Proofs.IndexObs
import EV.Proofs.IndexFlushUtxo

/-!
# C01 — Confirmed UTXO set and balances equal the chain's true unspent outputs

Model: `EV/Model/Index.lean` (concrete: UTXO cache, `h`/`u` rows with 4-byte compressed tx hashes,
queued deletes, tx-number files), specification: `EV/Spec/Chain.lean` (`applyTx`: inputs consume the
UTXOs they name, spendable outputs are added).  Tie to the code: suite `index`.

The claim is decomposed as in DESIGN.md §6.0: *logic layer* (the transaction loop of
`advance_block` computes the specification's fold over any store that implements the
representation interface) and *storage layer* (the real cache/rows/deletes layout with prefix
collisions implements that interface), then the read path on a flushed store.
-/
namespace EV.Index
open EV.Spec

/-- **C01 (block step, any cache/DB split, any prefix collisions).**  If the concrete system
represents the specification's UTXO set `S.utxos` — with the UTXOs distributed in any way over the
cache and the flushed rows, any number of them queued for deletion, any number of rows sharing a
4-byte prefix and index — then on every valid block (`ValidTxs`: each non-generation input names an
output that is unspent when its turn comes, so same-block chains are fine; txids are new) the loop
of `advance_block` succeeds and the system represents exactly `applyBlock`'s UTXO set: each
spendable, not yet spent output once, nothing else.  The UTXO-count delta, the per-tx touched script
hashes, the block's tx hashes and the undo list come out as the specification says. -/
theorem C01_block (cfg : Cfg) (height : Nat) (b : Block) (S : St) (s : Sys)
    (hrep : RepSys s S.utxos) (hv : ValidTxs cfg.act height S b.txs) :
    ∃ a', advanceTxs sysOps cfg height b.txs { s := s, txNum := S.txs.length } = .ok a' ∧
      RepSys a'.s (applyBlock cfg.act S height b).utxos ∧
      a'.txNum = S.txs.length + b.txs.length ∧
      a'.hashXsByTx = blockTouched cfg.act height S b.txs ∧
      a'.txHashes = b.txs.map (·.id) ∧
      a'.undo = blockUndo cfg.act height S b.txs ∧
      a'.delta = blockDelta cfg.act height S b.txs := by
  obtain ⟨a', h1, h2, h3, h4, h5, h6, h7, _⟩ :=
    advanceTxs_spec sysIface cfg height b.txs S { s := s, txNum := S.txs.length } hrep rfl hv
  exact ⟨a', h1, h2, h3, by simpa using h4, by simpa using h5, by simpa using h6, by simpa using h7⟩

/-- the UTXO-count delta is the change of the size of the specification's UTXO set -/
theorem C01_count (act height : Nat) (S : St) (txs : List Tx) :
    ((txs.foldl (applyTx act height) S).utxos.length : Int) =
      (S.utxos.length : Int) + blockDelta act height S txs := by
  induction txs generalizing S with
  | nil => simp [blockDelta]
  | cons tx r ih =>
    rw [List.foldl_cons, ih, blockDelta, applyTx_eq]
    have hp := (spendAll_perm S.utxos tx.ins).length_eq
    simp only [List.length_append] at hp ⊢
    omega

/-- **C01 (what a flushed index reports).**  With cache and delete queue empty (after any full
flush) `all_utxos(hashX)` returns — up to order — exactly the represented UTXOs paying to that
script hash, each once: (tx number, position, tx hash, height resolved through `tx_counts`, value);
no retry outcome arises. -/
theorem C01_all_utxos {s : Sys} {U D : List Utxo} (w : RepSysW s U D []) (hc : s.m.cache = [])
    (hx : HashX) :
    ∃ rows, allUtxos s hx = some rows ∧
      rows.Perm ((U.filter (fun u => u.hx == hx)).map
        (fun u => ⟨u.txnum, u.idx, u.txid, (fsTxHash s u.txnum).2, u.value⟩)) :=
  allUtxos_flushed w hc hx

/-- **C01 (a full flush changes nothing that is represented).**  The UTXO batch of a flush
(`flush_utxo_db`: sorted deletes, then the `h`/`u` puts of every cache entry, undo rows, state)
applied to a system representing `U`, with the cache and delete queue emptied afterwards, yields a
system that represents the same `U` entirely from its rows — for any placement of the flush.
`TxnumFun`: tx numbers determine txids within `U` (true of every chain: a tx number names one tx);
`hres`: the tx-number files resolve every represented tx number after the flush (the file layer:
`flush_fs` wrote the hashes before the batch; validated by the index suite). -/
theorem C01_flush {s s' : Sys} {U D Del : List Utxo} (w : RepSysW s U D Del)
    (hfun : TxnumFun U) (st' : CState)
    (hp : s'.p.h = (applyEffect s.p (utxoBatchEffect s st')).h ∧
          s'.p.u = (applyEffect s.p (utxoBatchEffect s st')).u)
    (hcache : s'.m.cache = []) (hdel : s'.m.deletes = [])
    (hres : ∀ u ∈ U, resolve s' u.txnum = some u.txid) :
    RepSysW s' U U [] :=
  flushUtxo_rep w hfun st' hp hcache hdel hres

/-- the empty index represents the empty UTXO set (start of every run) -/
theorem C01_init : RepSys {} [] :=
  ⟨[], [], { uNodup := by simp, dNodup := by simp, hRows := by simp, uRows := by simp,
             hKeys := by simp, uKeys := by simp, cacheKeys := by simp, res := by simp,
             delSub := by simp, dels := by simp, inU := by simp,
             cacheU := by intro op cv h; simp at h, dbU := by simp }⟩

/-! non-vacuity: a block with a same-block spend, an OP_RETURN output on both sides of the
activation height and a generation-like input is valid on the empty index and runs -/
example :
    let cfg : Cfg := { act := 1, reorgLimit := 2 }
    let b : Block := ⟨7, 0, 0, 100,
      [⟨11, [⟨0, 4294967295⟩], [⟨50, 1, .normal⟩, ⟨0, 2, .opReturn⟩]⟩,
       ⟨12, [⟨11, 0⟩, ⟨0, 4294967295⟩], [⟨20, 1, .normal⟩, ⟨30, 3, .opFalseReturn⟩]⟩]⟩
    (applyBlock cfg.act {} 0 b).utxos = [⟨12, 0, 1, 0, 20, 1⟩] ∧
    (applyBlock cfg.act {} 1 b).utxos = [⟨11, 1, 0, 1, 0, 2⟩, ⟨12, 0, 1, 1, 20, 1⟩] := by decide

end EV.Index

import EV.Proofs.RpcLimits

/-!
# C17 — Replies stay within the advertised size limits

> A headers request never returns more than the advertised maximum number of headers and reports
> the count it actually returned; a script hash whose confirmed history would not fit in the
> maximum reply size is answered with a 'history too large' error - consistently, also from cache
> and for subscriptions, which are then dropped - rather than with a truncated history or a status
> computed from a truncated history.

Model: `EV/Model/Rpc.lean` (`blockHeadersCore` + `readHeaders` = `ElectrumX.block_headers` +
`DB.read_headers`; `limitedHistory` = `SessionManager.limited_history`; `addressStatus`,
`execSubscribe`, `notifyInner`, `invalidate` = `address_status`, `hashX_subscribe`,
`_notify_inner`, `_notify_sessions`), tied to the real code by the `limits` and `rpc` suites.
The history limit is `L = max Gen.maxSendFloor MAX_SEND / Gen.histDiv`, floor and divisor observed
on the real `SessionManager` (today `max(350000, MAX_SEND) // 99`).

All theorems are unbounded: every `start`, `count`, `cp`, chain height, cap, `MAX_SEND`, history,
mempool, cache state and touched set.
-/
namespace EV.Rpc

/-- the number of headers a request is entitled to: `min(count, cap)` cut at the chain end -/
def headersReturned (cap height start count : Nat) : Nat := min (min count cap) (height + 1 - start)

/-- it is the formula of the code, `max(0, min(min(count, cap), height + 1 - start))` on integers -/
theorem headersReturned_eq (cap height start count : Nat) :
    (headersReturned cap height start count : Int) =
      max 0 (min (min (count : Int) cap) ((height : Int) + 1 - start)) := by
  unfold headersReturned; omega

/-- **C17 (headers), for every cap.**  Whatever `start`, `count`, `cp` (validated non-negative
integers of any size) and whatever the chain height: the reply is either a result with
`count' = headersReturned …` headers — so `count' ≤ cap`; the reported `count` *is* the number of
80-byte headers returned (`hex` has `160·count'` characters); they are the bytes
`[80·start, 80·(start+count'))` of the headers file, i.e. the headers of heights
`start … start+count'-1`; `max = cap`; a merkle proof is attached iff `count' ≠ 0 ∧ cp ≠ 0`, and
then it is the proof for the *last returned* header `start+count'-1` under checkpoint `cp`, with
`start+count'-1 ≤ cp ≤ height` — or the protocol error for a checkpoint outside that range.
Never more than `cap`, never a count that differs from what was sent.

`FileOK`: the headers file holds `height+1` headers (index invariant, C01). -/
theorem C17_headers_cap (cap : Nat) (w : World) (start count cp : Nat) (hf : FileOK w) :
    headersReturned cap w.height start count ≤ cap ∧
    match blockHeadersCore false cap w start count cp with
    | .ok (.headers raw c mx proof) =>
      c = headersReturned cap w.height start count ∧ mx = cap ∧
      raw.length = 80 * c ∧ 2 * raw.length = 160 * c ∧
      raw = (w.hdrFile.drop (start * 80)).take (c * 80) ∧
      (proof.isSome = true ↔ (c ≠ 0 ∧ cp ≠ 0)) ∧
      (∀ p, proof = some p → p = (cp, start + c - 1) ∧ start + c - 1 ≤ cp ∧ cp ≤ w.height)
    | .ok _ => False
    | .error e =>
      e = .rpcError Gen.badRequest ∧ headersReturned cap w.height start count ≠ 0 ∧ cp ≠ 0 ∧
      ¬ (start + headersReturned cap w.height start count - 1 ≤ cp ∧ cp ≤ w.height) := by
  refine ⟨by unfold headersReturned; omega, ?_⟩
  have hn : (readHeaders w start (min count cap)).2 = headersReturned cap w.height start count := by
    rw [readHeaders_snd]; rfl
  have hlen : (readHeaders w start (min count cap)).1.length =
      80 * headersReturned cap w.height start count := readHeaders_length hf start (min count cap)
  have hraw : (readHeaders w start (min count cap)).1 =
      (w.hdrFile.drop (start * 80)).take (headersReturned cap w.height start count * 80) :=
    readHeaders_fst w start (min count cap)
  by_cases hcond : headersReturned cap w.height start count ≠ 0 ∧ cp ≠ 0
  · by_cases hrange : start + headersReturned cap w.height start count - 1 ≤ cp ∧ cp ≤ w.height
    · have hcore : blockHeadersCore false cap w start count cp =
          .ok (.headers (readHeaders w start (min count cap)).1
            (headersReturned cap w.height start count) cap
            (some (cp, start + headersReturned cap w.height start count - 1))) := by
        unfold blockHeadersCore merkleProof
        simp only [Bool.false_and, Bool.false_eq_true, if_false]
        rw [hn, if_pos hcond, if_pos hrange]
      rw [hcore]
      refine ⟨rfl, rfl, hlen, by rw [hlen]; omega, hraw, ?_, ?_⟩
      · simp [hcond.1, hcond.2]
      · intro p hp
        cases hp
        exact ⟨rfl, hrange.1, hrange.2⟩
    · have hcore : blockHeadersCore false cap w start count cp =
          .error (.rpcError Gen.badRequest) := by
        unfold blockHeadersCore merkleProof
        simp only [Bool.false_and, Bool.false_eq_true, if_false]
        rw [hn, if_pos hcond, if_neg hrange]
      rw [hcore]
      exact ⟨rfl, hcond.1, hcond.2, hrange⟩
  · have hcore : blockHeadersCore false cap w start count cp =
        .ok (.headers (readHeaders w start (min count cap)).1
          (headersReturned cap w.height start count) cap none) := by
      unfold blockHeadersCore
      simp only [Bool.false_and, Bool.false_eq_true, if_false]
      rw [hn, if_neg hcond]
    rw [hcore]
    refine ⟨rfl, rfl, hlen, by rw [hlen]; omega, hraw, ?_, ?_⟩
    · simp only [Option.isSome_none, Bool.false_eq_true, false_iff]
      exact hcond
    · intro p hp; cases hp

/-- **C17 (headers), as served.**  A `blockchain.block.headers` request that passed validation is
answered by `blockHeadersCore` at the advertised maximum `Gen.maxChunkSize`
(= `SessionBase.MAX_CHUNK_SIZE`, reported in the reply as `max`), without touching any state; so
`C17_headers_cap` applies to every reply of the real handler table. -/
theorem C17_headers (w : World) (st : St) (m : String) (args : Args) (start count cp : Nat)
    (hf : FileOK w) (hp : parseRequest w st m args = .ok (.blockHeaders start count cp)) :
    (dispatch w st m args).1 = st ∧
    headersReturned Gen.maxChunkSize w.height start count ≤ Gen.maxChunkSize ∧
    match (dispatch w st m args).2 with
    | .ok (.headers raw c mx proof) =>
      c = headersReturned Gen.maxChunkSize w.height start count ∧ mx = Gen.maxChunkSize ∧
      raw.length = 80 * c ∧ 2 * raw.length = 160 * c ∧
      raw = (w.hdrFile.drop (start * 80)).take (c * 80) ∧
      (proof.isSome = true ↔ (c ≠ 0 ∧ cp ≠ 0)) ∧
      (∀ p, proof = some p → p = (cp, start + c - 1) ∧ start + c - 1 ≤ cp ∧ cp ≤ w.height)
    | .ok _ => False
    | .error e =>
      e = .rpcError Gen.badRequest ∧ headersReturned Gen.maxChunkSize w.height start count ≠ 0 ∧
      cp ≠ 0 ∧
      ¬ (start + headersReturned Gen.maxChunkSize w.height start count - 1 ≤ cp ∧ cp ≤ w.height) := by
  have hd : dispatch w st m args =
      (st, blockHeadersCore false Gen.maxChunkSize w start count cp) := by
    unfold dispatch; rw [hp]; rfl
  rw [hd]
  exact ⟨rfl, C17_headers_cap Gen.maxChunkSize w start count cp hf⟩

/-- **C17 (history: whole or refused, never truncated; hit = miss).**  For *every* coherent cache
state — empty (a miss) or already holding this script hash (a hit), including a cached error —
`limited_history` returns the **whole** confirmed history iff it has fewer than `L` entries, and
raises "history too large" iff it has `L` or more.  In particular hit and miss agree, and no
reply is ever a proper prefix of the history.  The cache stays coherent. -/
theorem C17_history (w : World) (m : Mgr) (hx : Bytes) (hok : CacheOK w m) :
    ((w.history hx).length < histLimit w.maxSend ∧
      (limitedHistory w m hx).2 = .ok (w.history hx)) ∨
    (histLimit w.maxSend ≤ (w.history hx).length ∧
      (limitedHistory w m hx).2 = .error (.rpcError Gen.badRequest)) := by
  rw [limitedHistory_snd hok]
  rcases histCompute_cases w hx with ⟨hl, hc⟩ | ⟨hl, hc⟩
  · exact Or.inr ⟨hl, by rw [hc]; rfl⟩
  · exact Or.inl ⟨hl, by rw [hc]; rfl⟩

theorem C17_history_cache (w : World) (m : Mgr) (hx : Bytes) (hok : CacheOK w m) :
    (limitedHistory w m hx).2 = (limitedHistory w {} hx).2 ∧ CacheOK w (limitedHistory w m hx).1 := by
  refine ⟨?_, CacheOK.of_growth (limitedHistory_growth w m hx) hok⟩
  rw [limitedHistory_snd hok, limitedHistory_snd (CacheOK.empty w)]

/-- **C17 (`get_history`).**  The reply is the whole confirmed history followed by the mempool
entries, or the error; decided by `|history| < L` alone. -/
theorem C17_get_history (w : World) (st : St) (hx : Bytes) (hok : CacheOK w st.mgr) :
    match (exec w st (.getHistory hx)).2 with
    | .ok (.history conf mp) =>
      (w.history hx).length < histLimit w.maxSend ∧ conf = w.history hx ∧ mp = w.mempool hx
    | .ok _ => False
    | .error e => histLimit w.maxSend ≤ (w.history hx).length ∧ e = .rpcError Gen.badRequest := by
  simp only [exec]
  rw [execGetHistory_snd]
  rcases C17_history w st.mgr hx hok with ⟨hl, h⟩ | ⟨hl, h⟩
  · rw [h]; exact ⟨hl, rfl, rfl⟩
  · rw [h]; exact ⟨hl, rfl⟩

/-- **C17 (`subscribe`).**  A subscription either succeeds with the status of the **whole** history
(plus mempool) and is stored, or — history of `L` or more — fails with the error, stores **no**
subscription and leaves the session exactly as it was. -/
theorem C17_subscribe (w : World) (st : St) (hx : Bytes) (alias : String) (hok : CacheOK w st.mgr) :
    match (exec w st (.subscribe hx alias)).2 with
    | .ok (.status s) =>
      (w.history hx).length < histLimit w.maxSend ∧
      s = statusOf (w.history hx) (w.mempool hx) ∧
      dGet hx (exec w st (.subscribe hx alias)).1.sess.subs = some alias
    | .ok _ => False
    | .error e =>
      histLimit w.maxSend ≤ (w.history hx).length ∧ e = .rpcError Gen.badRequest ∧
      (exec w st (.subscribe hx alias)).1.sess = st.sess := by
  simp only [exec]
  rw [execSubscribe_snd, execSubscribe_sess]
  rcases C17_history w st.mgr hx hok with ⟨hl, h⟩ | ⟨hl, h⟩
  · rw [h]
    exact ⟨hl, rfl, by simp only; exact dGet_dSet_self _ _ _⟩
  · rw [h]
    exact ⟨hl, rfl, rfl⟩

/-- **C17 (notifications).**  One run of `_notify_inner` on a session, for any touched set and
either kind of notification (new block / mempool only), from any coherent cache state:
* every `(alias, status)` sent belongs to a script hash the session was subscribed to, and the
  status is either computed from the **whole** history (when it has fewer than `L` entries) or is
  `null` (when it has `L` or more — never a status of a truncated history);
* every touched subscription whose history has reached `L` is **dropped**;
* no subscription is dropped for any other reason (`SubsShrink`), and the cache stays coherent. -/
theorem C17_notify (w : World) (st : St) (touched : List Bytes) (heightChanged : Bool)
    (hok : CacheOK w st.mgr) :
    (∀ a s, (a, s) ∈ (notifyInner w st touched heightChanged).2.2 →
      ∃ hx, dGet hx st.sess.subs = some a ∧ StatusRight w hx s) ∧
    (∀ hx a, hx ∈ touched → dGet hx st.sess.subs = some a → a ≠ "" →
      histLimit w.maxSend ≤ (w.history hx).length →
      dGet hx (notifyInner w st touched heightChanged).1.sess.subs = none) ∧
    SubsShrink w st.sess.subs (notifyInner w st touched heightChanged).1.sess.subs ∧
    CacheOK w (notifyInner w st touched heightChanged).1.mgr := by
  have s1 := notifyTouched_spec w (touched.filter (fun hx => (dGet hx st.sess.subs).isSome)) st hok
  have s2 := notifyMempool_spec w
    (notifyTouched w st (touched.filter (fun hx => (dGet hx st.sess.subs).isSome))).1.sess.mpStatus
    _ s1.ok
  unfold notifyInner
  split
  · simp only
    refine ⟨?_, ?_, s1.shrink.trans s2.shrink, s2.ok⟩
    · intro a s h
      rcases List.mem_append.mp h with h | h
      · obtain ⟨hx, _, h2, h3⟩ := s1.notes a s h
        exact ⟨hx, h2, h3⟩
      · obtain ⟨hx, _, h2, h3⟩ := s2.notes a s h
        exact ⟨hx, s1.shrink.some h2, h3⟩
    · intro hx a hmem hsub hne hl
      apply shrink_none s2.shrink
      exact s1.dropped hx a (by simp [List.mem_filter, hmem, hsub]) hsub hne hl
  · rename_i hcond
    simp only
    refine ⟨fun _ _ h => by simp at h, ?_, SubsShrink.refl _ _, hok⟩
    intro hx a hmem hsub _ _
    exfalso
    apply hcond
    have : hx ∈ touched.filter (fun hx => (dGet hx st.sess.subs).isSome) := by
      simp [List.mem_filter, hmem, hsub]
    have hne : touched.filter (fun hx => (dGet hx st.sess.subs).isSome) ≠ [] := by
      intro h; rw [h] at this; simp at this
    simp [hne]

/-- **C17 (the cache across a new block).**  `_notify_sessions` drops the touched script hashes from
the history cache when the height changed (whether or not it also does so on mempool-only
notifications, `Gen.invalidateAlways`); if only touched script hashes changed their history,
the cache is coherent with the *new* index — so `C17_notify` and `C17_history` apply after the
block: an entry cached before the block (a list, or the error object) is never served for a
script hash the block touched. -/
theorem C17_invalidate (w0 w : World) (m : Mgr) (touched : List Bytes) (h0 : CacheOK w0 m)
    (hsame : ∀ hx, ¬ hx ∈ touched → w.history hx = w0.history hx)
    (hms : w.maxSend = w0.maxSend) (hh : w0.height ≤ w.height) :
    CacheOK w (invalidate m touched true) := by
  refine ⟨invalidate_hist h0.hist ?_ Gen.invalidateAlways, ?_⟩
  · intro hx hnot
    unfold histCompute dbLimitedHistory
    rw [hsame hx hnot, hms]
  · intro h hm
    have := h0.tx h (by simpa [invalidate, invalidateWith] using hm)
    omega

/-! ### non-vacuity -/

/-- a chain of height 2 with a 240-byte headers file -/
def exChain : World :=
  { height := 2, hdrFile := List.replicate 240 7,
    blockTxs := fun _ => [], history := fun _ => [], mempool := fun _ => [], daemonTxs := [],
    broadcastOk := fun _ => true, maxSend := 0, intOfStr := fun _ => none,
    dropClient := fun _ => false, discoveryOn := false, skipResolve := fun _ => false,
    permitNoResolve := fun _ => false, resolve := fun _ => .ok false }

example : FileOK exChain := by
  show (List.replicate 240 7).length = 80 * (2 + 1)
  rw [List.length_replicate]

set_option maxRecDepth 20000 in
/-- `headers(1, 5000, cp=2)` on it: two headers (cut by the chain end), with a proof for height 2 -/
example : (match blockHeadersCore false 2016 exChain 1 5000 2 with
    | .ok (.headers raw c mx proof) => (raw.length, c, mx, proof)
    | _ => (0, 0, 0, none)) = (160, 2, 2016, some (2, 2)) := by decide

/-- a cap smaller than the request bites; the chain end cuts; beyond the tip nothing is returned -/
example : headersReturned 2 5 0 3 = 2 ∧ headersReturned 2016 4100 2000 5000 = 2016 ∧
    headersReturned 2016 4100 4100 5000 = 1 ∧ headersReturned 2016 4100 4101 1 = 0 := by decide

/-- a script hash with `n` confirmed transactions, limit `L = 350000 / 99 = 3535` -/
def exHist (n : Nat) : World :=
  { exChain with history := fun hx => if hx = [1] then List.replicate n ([7], 1) else [] }

theorem exHist_hist (n : Nat) : (exHist n).history [1] = List.replicate n ([7], 1) := by
  simp [exHist]

theorem exHist_limit (n : Nat) : histLimit (exHist n).maxSend = 3535 := by
  simp [histLimit, exHist, exChain, Gen.maxSendFloor, Gen.histDiv]

/-- the hypotheses hold of real states: an empty cache, and a cache holding the error object -/
example (n : Nat) : CacheOK (exHist n) {} := CacheOK.empty _

example : CacheOK (exHist 3535) { histCache := [([1], .tooLarge)] } := by
  refine ⟨?_, fun _ h => by simp at h⟩
  intro hx r h
  simp only [dGet] at h
  split at h
  · cases h
    rename_i heq
    rw [← heq]
    refine (histCompute_large ?_).symm
    rw [exHist_limit, exHist_hist, List.length_replicate]
    omega
  · cases h

/-- both sides of the limit are inhabited: 3534 entries are returned whole, 3535 are refused -/
example : (limitedHistory (exHist 3534) {} [1]).2 = .ok (List.replicate 3534 ([7], 1)) := by
  rcases C17_history (exHist 3534) {} [1] (CacheOK.empty _) with ⟨_, h⟩ | ⟨hl, _⟩
  · rw [h, exHist_hist]
  · rw [exHist_limit, exHist_hist, List.length_replicate] at hl; omega

example : (limitedHistory (exHist 3535) {} [1]).2 = .error (.rpcError 1) := by
  rcases C17_history (exHist 3535) {} [1] (CacheOK.empty _) with ⟨hl, _⟩ | ⟨_, h⟩
  · rw [exHist_limit, exHist_hist, List.length_replicate] at hl; omega
  · rw [h]; rfl

end EV.Rpc

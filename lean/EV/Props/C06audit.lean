import EV.Proofs.ShutdownTaskFrom
import EV.Props.C06

/-!
# C06 — the task started on an EXISTING database (audit §C06: every restart)

Every theorem of `EV/Props/C06task.lean` is about `run cfg {} evs`: the processing task started on the
EMPTY index.  A server is started on an existing database every time but the first.  Here the same
theorems are stated for `run cfg { sys := s0 } evs` where `s0` is ANY index state satisfying the
whole-run invariant (`TrackInv cfg t0 s0`: `FullInv'` for the chain `t0.chain` with retained heights
`t0.kept`, `DB.state.height + 1 = t0.dbLen`) — in particular the state `open_for_sync` (`reopen`)
produces from the database any earlier valid run left behind (`restart_state` below).

The chain is determined by the bookkeeping of the start state and the ghost log:
`survivorsFrom t0 log = chainOf2 t0.chain t0.dbLen (att log)`.  The environment hypothesis is
`EnvOk cfg t0 (att st.log)`: as in `C06task.lean`, relative to the chain the task starts with.

Proofs: `EV/Proofs/ShutdownTaskFrom.lean` (the invariants of the task model with the start state as a
parameter; the control-only invariants are shared).  Tie to the code: unchanged — suite `shutdown`
still builds a fresh database per run (no stop → restart on the same directory → cancel phase); that
`open_for_sync` is the model's `reopen` is C03/C04's tie (suites `index`, `crash`).
-/
namespace EV.ShutdownTask
open EV.Index

/-- the surviving chain of a log, for a task started on an index of `t0.chain` of which `t0.dbLen`
    blocks are committed -/
def survivorsFrom (t0 : Track) (log : List (Op × Bool)) : List Block :=
  chainOf2 t0.chain t0.dbLen (att log)

/-- **the start state of a restart**: `open_for_sync` on the database left by ANY valid run succeeds
and gives a state satisfying the run invariant (bookkeeping: the run's, after `reopen`) -/
theorem restart_state (cfg : Cfg) (ops0 : List IOp2) (hv : ValidOps2 cfg {} ops0) :
    ∃ s0, runOps2 cfg {} (ops0 ++ [.reopen]) = .ok s0 ∧
      TrackInv cfg (Track.run cfg {} (ops0 ++ [.reopen])) s0 :=
  trackInv_run _ (trackInv_init cfg) ((validOps2_append cfg {} ops0 [.reopen]).mpr ⟨hv, trivial, trivial⟩)

/-- **C06 (a), from any start state — the jobs are serialised.** -/
theorem C06task_sequential_from (cfg : Cfg) (s0 : Sys) (evs : List Ev) (st : St)
    (h : run cfg { sys := s0 } evs = some st) :
    runOps2 cfg s0 (okOps st.log) = .ok st.sys :=
  (From.inv1_run (t0 := {}) h).seq

/-- **C06, from any start state — the task cannot end while a job is in flight.** -/
theorem C06task_drained_from (cfg : Cfg) (s0 : Sys) (evs : List Ev) (st : St)
    (h : run cfg { sys := s0 } evs = some st) (hf : st.finished = true) :
    st.inner = none ∧ st.lock = false := by
  have w := From.shape_run h
  have w3 := w.outer
  have hin : st.inner = none := by
    unfold St.finished at hf
    split at hf <;> simp_all
  exact ⟨hin, by rw [w.lock, hin]; rfl⟩

/-- **C06 (a), from any start state — `ok` is false only if a job has raised.** -/
theorem C06task_ok_from (cfg : Cfg) (s0 : Sys) (evs : List Ev) (st : St)
    (h : run cfg { sys := s0 } evs = some st) (hok : st.ok = false) : ∃ e ∈ st.log, e.2 = false :=
  From.okInv_run h hok

/-- **C06 (a), from any invariant start state — the run is a valid sequential run.** -/
theorem C06task_valid_from (cfg : Cfg) {t0 : Track} {s0 : Sys} (ti0 : TrackInv cfg t0 s0)
    (evs : List Ev) (st : St) (h : run cfg { sys := s0 } evs = some st)
    (henv : EnvOk cfg t0 (att st.log)) :
    ValidOps2 cfg t0 (att st.log) ∧ runOps2 cfg s0 (att st.log) = .ok st.sys ∧
      (∀ e ∈ st.log, e.2 = true) ∧ st.ok = true ∧ (st.outer = .died → st.log = []) := by
  obtain ⟨i, g⟩ := From.good_run ti0 h henv
  refine ⟨g.valid, ?_, g.allOk, g.ok, g.died⟩
  rw [← okOps_eq_att g.allOk]
  exact i.seq

/-- **C06 (a), from any start state — the shutdown flush is the last operation.** -/
theorem C06task_final_flush_from (cfg : Cfg) (s0 : Sys) (evs : List Ev) (st : St)
    (h : run cfg { sys := s0 } evs = some st) (hr : st.outer = .returned) :
    ∃ done, Rem st.innerAtCancel done ∧
      ((att st.log = att st.logAtCancel ++ done ++ [.flush true] ∧
          ∃ pre, st.log = pre ++ [(.flush true, true)]) ∨
       (st.ok = false ∧ att st.log = att st.logAtCancel ++ done)) :=
  (From.afterCancel_run h).returned hr

theorem C06task_final_flush_valid_from (cfg : Cfg) {t0 : Track} {s0 : Sys} (ti0 : TrackInv cfg t0 s0)
    (evs : List Ev) (st : St) (h : run cfg { sys := s0 } evs = some st)
    (henv : EnvOk cfg t0 (att st.log)) (hr : st.outer = .returned) :
    ∃ done, Rem st.innerAtCancel done ∧ att st.log = att st.logAtCancel ++ done ++ [.flush true] := by
  obtain ⟨done, hrem, hcase⟩ := C06task_final_flush_from cfg s0 evs st h hr
  rcases hcase with ⟨h1, -⟩ | ⟨h1, -⟩
  · exact ⟨done, hrem, h1⟩
  · have := (From.good_run ti0 h henv).2.ok
    rw [this] at h1; simp at h1

/-- **C06 (b), task started on an existing database — consistent, and exactly the finished work.**
Start the task on ANY invariant index state `s0` (chain `t0.chain`).  In a valid environment, once the
task has returned: reopening the database succeeds and every observable of the reopened index is the
specification's of `survivorsFrom t0 st.log` — the chain the task started with, plus exactly the
blocks whose advance job returned, minus those a back-out job removed (a back-out may reach below the
start chain's tip: those blocks are popped from `t0.chain`). -/
theorem C06task_reopen_from (cfg : Cfg) {t0 : Track} {s0 : Sys} (ti0 : TrackInv cfg t0 s0)
    (evs : List Ev) (st : St) (h : run cfg { sys := s0 } evs = some st)
    (henv : EnvOk cfg t0 (att st.log)) (hr : st.outer = .returned) :
    ∃ es s', openDbs cfg st.sys.p false none = some (es, s') ∧
      s'.m.dbst.height = ((survivorsFrom t0 st.log).length : Int) - 1 ∧
      (∀ hx, ∃ rows, allUtxos s' hx = some rows ∧
        rows.Perm (((EV.Spec.specChain cfg.act (survivorsFrom t0 st.log)).utxos.filter (·.hx == hx)).map
          (fun u => ⟨u.txnum, u.idx, u.txid, u.height, u.value⟩))) ∧
      (∀ hx limit, limitedHistory s' hx limit =
        some (EV.Spec.historyPairs (EV.Spec.specChain cfg.act (survivorsFrom t0 st.log)) hx limit)) ∧
      s'.m.st.utxoCount = ((EV.Spec.specChain cfg.act (survivorsFrom t0 st.log)).utxos.length : Int) ∧
      s'.m.st.txCount = (EV.Spec.specChain cfg.act (survivorsFrom t0 st.log)).txs.length ∧
      s'.m.st.height = ((survivorsFrom t0 st.log).length : Int) - 1 ∧
      s'.m.st.tip = ((survivorsFrom t0 st.log).getLast?.map (·.hash)).getD 0 ∧
      s'.m.st.chainSize = ((survivorsFrom t0 st.log).map (·.size)).sum ∧
      (∀ start count, readHeaders s' start count =
        (((survivorsFrom t0 st.log).map (·.header)).drop start).take
          (min (count : Int) (((survivorsFrom t0 st.log).length : Int) - start)).toNat) ∧
      (∀ (ht : Nat) (b : Block), (survivorsFrom t0 st.log)[ht]? = some b →
        txHashesAt s' ht = some (b.txs.map (·.id))) := by
  obtain ⟨i, g⟩ := From.good_run ti0 h henv
  have ti := From.trackInv_of_good ti0 i g
  obtain ⟨done, -, hlog⟩ := C06task_final_flush_valid_from cfg ti0 evs st h henv hr
  have hfl : (Track.run cfg t0 (att st.log)).dbLen = (Track.run cfg t0 (att st.log)).chain.length := by
    rw [hlog, Track.run_flushTrue]
  have inv := ti.inv
  rw [Track.run_chain] at inv
  obtain ⟨es, s', h1, inv', hf'⟩ := C03run_reopen_clean inv (ti.flushed hfl)
  refine ⟨es, s', h1, ?_, observables_of_fullInv' inv' hf'⟩
  rw [hf', inv'.base.files.height]
  rfl

/-- **C06 (c), task started on an existing database — kept work.**  As `C06task_kept_work`, with the
chains relative to the start chain. -/
theorem C06task_kept_work_from (cfg : Cfg) {t0 : Track} {s0 : Sys} (ti0 : TrackInv cfg t0 s0)
    (evs : List Ev) (st : St) (h : run cfg { sys := s0 } evs = some st)
    (henv : EnvOk cfg t0 (att st.log)) (hr : st.outer = .returned) :
    (pendingBackup st.innerAtCancel = none →
      survivorsFrom t0 st.logAtCancel <+: survivorsFrom t0 st.log) ∧
    (∀ b, pendingBackup st.innerAtCancel = some b →
      survivorsFrom t0 st.log = (survivorsFrom t0 st.logAtCancel).dropLast) := by
  obtain ⟨done, hrem, hlog⟩ := C06task_final_flush_valid_from cfg ti0 evs st h henv hr
  have hc : survivorsFrom t0 st.log =
      ((Track.run cfg t0 (att st.logAtCancel)).run cfg done).chain := by
    unfold survivorsFrom
    rw [← Track.run_chain cfg t0 (att st.log), hlog, Track.run_append, Track.run_append]
    rfl
  have hcc : survivorsFrom t0 st.logAtCancel = (Track.run cfg t0 (att st.logAtCancel)).chain := by
    unfold survivorsFrom
    rw [← Track.run_chain cfg t0 (att st.logAtCancel)]
  rw [hc, hcc]
  exact rem_chain cfg _ hrem

/-- the section in flight at the request is a well-formed section of the main flow -/
theorem C06task_inflight_wf_from (cfg : Cfg) (s0 : Sys) (evs : List Ev) (st : St)
    (h : run cfg { sys := s0 } evs = some st) :
    ∀ i, st.innerAtCancel = some i → InnerWf i ∧ i.sec ≠ .safe :=
  From.cancelWf_run h

/-- **C06, from any start state — the server stops** (as `C06task_stops`). -/
theorem C06task_stops_from (cfg : Cfg) (s0 : Sys) (evs : List Ev) (st : St)
    (h : run cfg { sys := s0 } evs = some st) :
    (st.outer = .handler → ∃ e, e.isWork = true ∧ (step cfg st e).isSome = true) ∧
    (st.cancelled = true → ∀ evs' st', run cfg st evs' = some st' →
      workCount evs' + todo st' ≤ todo st ∧ todo st ≤ 11) ∧
    (st.cancelled = true → todo st = 0 → st.finished = true) := by
  have w := From.shape_run h
  refine ⟨fun ho => stop_enabled cfg w ho, fun hc evs' st' h' => ⟨stop_bound evs' w hc h', todo_le st⟩, ?_⟩
  intro hc h0
  rcases w.canc2 hc with ho | ho | ho
  · have := todo_handler_pos ho w; omega
  · simp [St.finished, ho]
  · simp [St.finished, ho]

/-! ## non-vacuity: a restart on a one-block database, shutdown requested mid-advance

Start state: `rxB0` indexed and fully flushed by an earlier process, then `open_for_sync`
(`[adv rxB0 0, flush true, reopen]`).  The task fetches `rxB1` (which spends an output of `rxB0` —
from the rows on disk), the request arrives whilst `advance_block(rxB1)` is in a worker thread, the
handler flushes. -/

def exStartOps : List IOp2 := [.adv rxB0 0, .flush true, .reopen]
def exStartT : Track := Track.run rxCfg {} exStartOps

/-- the state of the earlier process at its end (`decide` cannot evaluate `_open_dbs`: the sort of the
    undo keys in `clear_excess_undo_info` is defined by well-founded recursion; the restart is
    therefore evaluated by `simp` on the fields it reads, as in `C15audit.lean`; here the singleton key
    list is sorted by a simp lemma) -/
def exPrev : Sys := okSysD (runOps2 rxCfg {} [.adv rxB0 0, .flush true])

def exSt0 : CState :=
  { height := 0, txCount := 1, chainSize := 80, tip := 7, flushCount := 1, utxoCount := 2,
    firstSync := true }

/-- the state after `open_for_sync`: the store unchanged (nothing to clear, the one undo row is
    inside the window), memory fresh -/
def exStart : Sys :=
  { p := exPrev.p,
    m := { st := exSt0, dbst := exSt0, fsHeight := 0, fsTxCount := 1, txCounts := [1], histFlush := 1,
           compFlush := -1, compCursor := -1 } }

theorem exStart_reopen : reopen rxCfg exPrev = .ok exStart := by
  have hu : exPrev.p.undo = [(0, [])] := by decide
  have hus : exPrev.p.ustate = some exSt0 := by decide
  have hhs : exPrev.p.hstate = some { flushCount := 1, compFlushCount := -1, compCursor := -1 } := by
    decide
  have htc : exPrev.p.txcounts = [1] := by decide
  simp [reopen, openDbs, openStore, openStore1, openUndoEffects, clearUndoKeys, clearExcessEffect,
    openState, openHistState, openTxCounts, applyEffects, hu, hus, hhs, htc, exStart,
    exSt0, rxCfg]

theorem exStart_inv : TrackInv rxCfg exStartT exStart := by
  obtain ⟨s, h, ti⟩ := trackInv_run exStartOps (trackInv_init rxCfg) (by decide)
  obtain ⟨s2, h2, -⟩ := trackInv_run [.adv rxB0 0, .flush true] (trackInv_init rxCfg) (by decide)
  have hp : exPrev = s2 := by rw [exPrev, h2]; rfl
  have hsplit : exStartOps = [.adv rxB0 0, .flush true] ++ [.reopen] := rfl
  rw [hsplit, runOps2_append, h2] at h
  simp only [runOps2, stepOp2, ← hp, exStart_reopen] at h
  cases h
  exact ti

example : exStartT.chain = [rxB0] ∧ exStartT.dbLen = 1 ∧ exStartT.kept = [0] := by decide

def exRestartCancel : List Ev :=
  [.begin, .fetched [rxB1], .nextBlock, .innerStart, .cancel, .jobEnd 1, .deliver,
   .hStart, .jobEnd 0, .deliver]

example : outerOf (run rxCfg { sys := exStart } exRestartCancel) = some .returned := by decide
example : attOf (run rxCfg { sys := exStart } exRestartCancel) = [.adv rxB1 1, .flush true] := by decide
/-- the environment hypothesis holds of this run, relative to the start chain -/
example : EnvOk rxCfg exStartT (attOf (run rxCfg { sys := exStart } exRestartCancel)) := by decide
example : survivorsFrom exStartT [(.adv rxB1 1, true), (.flush true, true)] = [rxB0, rxB1] := by decide

end EV.ShutdownTask

import EV.Proofs.DaemonProc

/-!
# C18 — daemon calls ride out transient faults and return only genuine results

"For any finite sequence of transient daemon failures (timeouts, disconnects, connection resets,
refused service, warming-up replies) followed by availability, every daemon call eventually returns
the daemon's real answer - never a partial, reordered or stale one - failing over to the next
configured URL round-robin once retries back off to the maximum, while genuine RPC errors are raised
to the caller instead of retried; batched calls return results positionally aligned with their
requests."

Model: `EV/Model/Daemon.lean` (literal model of `daemon.py :: Daemon._send`, its `log_error` /
`failover`, `_post_json`, the processors of `_send_single` / `_send_vector`, `getrawtransactions`,
`_get_to_file`), tied to the class in /repo by the `daemon` correspondence suite on every run.

A call is run against the list of what its successive attempts meet.  Every theorem quantifies over
*every* list of transient faults (any length, any mix of the seven kinds), every configuration
`(nUrls, initRetry, maxRetry)` and every starting URL index; the hypotheses are spelled out at each
theorem.  `IsTransient cls x` = "attempt `x` raises something one of the seven `except` clauses of
`_send` catches".
-/
namespace EV.Daemon

variable {α ε σ ι : Type}

/-! ## the fault alphabet really is transient (and nothing else is) -/

/-- The five network exception families, in the order the `except` chain asks, a non-JSON reply
(`ServiceRefusedError`), a single reply whose error code is `WARMING_UP`, and a batch reply with a
warming-up item *anywhere* in it (whatever the other items are, `replace_errs` or not) are all
transient; a transport exception is transient **only** if one of the five families matches. -/
theorem C18_fault_alphabet (wu : Int) (x : ExcClass) (proc : JReply → Outcome α Exc) :
    (IsTransient (classify proc) (.raises x) ↔
      (x.isTimeout || x.isServerDisconnected || x.isConnectionReset || x.isClientConnection
        || x.isClientError) = true) ∧
    IsTransient (classify proc) .nonJson ∧
    (∀ tag v, IsTransient (classify (procSingle wu)) (.json (.obj ⟨.obj (some wu) tag, v⟩))) ∧
    (∀ replace (as : List Ans), (∃ a ∈ as, a.warm wu = true) →
      IsTransient (classify (procVector wu replace)) (.json (.arr (as.map Ans.item)))) := by
  refine ⟨?_, ⟨.serviceRefused, rfl⟩, ?_, ?_⟩
  · exact catchExc_transient_iff x
  · intro tag v; exact ⟨.warmingUp, by simp [classify, procSingle]⟩
  · intro replace as h; exact ⟨.warmingUp, by simp only [classify, procVector_warm wu replace as h]⟩

/-- bitcoind's `RPC_IN_WARMUP` is −28: the code must treat exactly that error code as "warming up"
(environment constant, pinned; regenerated from `Daemon.WARMING_UP` on every run). -/
theorem C18_warming_up_code : Gen.daemonWarmingUp = -28 := rfl

/-- the defaults of `Daemon.__init__` satisfy the hypotheses `0 < init ≤ max` of `C18_failover` -/
theorem C18_defaults_ok : 0 < Gen.daemonInitRetry ∧ Gen.daemonInitRetry ≤ Gen.daemonMaxRetry := by
  decide

/-! ## C18_returns_real -/

/-- **C18 (real answer, genuine errors raised).**  Let the attempts of a `_send` call meet any list
`faults` of transient faults and then an attempt `x` that is not transient, followed by anything
(`rest`).  If `x` returns `v`, the call returns `v` — the value of the *first* non-transient attempt —
after exactly `faults.length` sleeps and `faults.length + 1` attempts, and the side state (the block
file) is what `x` left on top of what the faults left.  If `x` raises a non-listed exception `e`
(a `DaemonError` from the processor, or anything else), the call raises `e` after exactly
`faults.length` sleeps: it is not retried.  In both cases the whole outcome is independent of
`rest`: nothing after the first non-transient attempt is ever looked at.  No hypotheses on the
configuration. -/
theorem C18_returns_real (c : Cfg) (cls : ι → Outcome α ε) (eff : σ → ι → σ) (u : Nat) (s : σ)
    (faults : List ι) (hf : ∀ x ∈ faults, IsTransient cls x) (x : ι) (rest : List ι) :
    (∀ v, cls x = .ok v →
      (send c cls eff u s (faults ++ x :: rest)).res = .returned v ∧
      (send c cls eff u s (faults ++ x :: rest)).sleeps.length = faults.length ∧
      (send c cls eff u s (faults ++ x :: rest)).contacted.length = faults.length + 1 ∧
      (send c cls eff u s (faults ++ x :: rest)).side = eff (faults.foldl eff s) x) ∧
    (∀ e, cls x = .fatal e →
      (send c cls eff u s (faults ++ x :: rest)).res = .raised e ∧
      (send c cls eff u s (faults ++ x :: rest)).sleeps.length = faults.length ∧
      (send c cls eff u s (faults ++ x :: rest)).contacted.length = faults.length + 1) ∧
    (¬ IsTransient cls x →
      send c cls eff u s (faults ++ x :: rest) = send c cls eff u s (faults ++ [x])) := by
  refine ⟨?_, ?_, ?_⟩
  · intro v hx
    rw [send_ok_eq c cls eff u s faults hf x rest v hx]
    simp [sleepsFrom_length, contactedFrom_length]
  · intro e hx
    rw [send_fatal_eq c cls eff u s faults hf x rest e hx]
    simp [sleepsFrom_length, contactedFrom_length]
  · intro hnt
    cases hx : cls x with
    | ok v => rw [send_ok_eq c cls eff u s faults hf x rest v hx, send_ok_eq c cls eff u s faults hf x [] v hx]
    | fatal e =>
      rw [send_fatal_eq c cls eff u s faults hf x rest e hx, send_fatal_eq c cls eff u s faults hf x [] e hx]
    | transient k => exact absurd ⟨k, hx⟩ hnt

/-- The statement in the shape of DESIGN.md: the attempts are given directly as outcomes. -/
theorem C18_returns_real_outcomes (c : Cfg) (u : Nat) (ks : List Transient) (rest : List (Outcome α ε)) :
    (∀ v, (send c id (fun (s : Unit) _ => s) u () (ks.map .transient ++ [.ok v] ++ rest)).res = .returned v ∧
          (send c id (fun (s : Unit) _ => s) u () (ks.map .transient ++ [.ok v] ++ rest)).sleeps.length
            = ks.length) ∧
    (∀ e, (send c id (fun (s : Unit) _ => s) u () (ks.map .transient ++ [.fatal e] ++ rest)).res = .raised e ∧
          (send c id (fun (s : Unit) _ => s) u () (ks.map .transient ++ [.fatal e] ++ rest)).sleeps.length
            = ks.length) := by
  have hf : ∀ x ∈ ks.map (Outcome.transient (α := α) (ε := ε)), IsTransient id x := by
    intro x hx
    obtain ⟨k, _, rfl⟩ := List.mem_map.mp hx
    exact ⟨k, rfl⟩
  refine ⟨?_, ?_⟩
  · intro v
    have h := (C18_returns_real c id (fun (s : Unit) _ => s) u () _ hf (.ok v) rest).1 v rfl
    simp only [List.append_assoc, List.singleton_append]
    exact ⟨h.1, by simpa using h.2.1⟩
  · intro e
    have h := (C18_returns_real c id (fun (s : Unit) _ => s) u () _ hf (.fatal e) rest).2.1 e rfl
    simp only [List.append_assoc, List.singleton_append]
    exact ⟨h.1, by simpa using h.2.1⟩

/-- **C18 (only genuine results), converse direction.**  Whatever the attempts meet — no assumption
at all on the list — if the call returns `v` then `v` is what one particular attempt returned, every
attempt before it was a transient fault, the side state was last written by that same attempt, and
the number of sleeps is the number of those faults.  If it raises `e`, some attempt raised exactly `e`
and everything before it was transient. -/
theorem C18_only_genuine (c : Cfg) (cls : ι → Outcome α ε) (eff : σ → ι → σ) (u : Nat) (s : σ)
    (xs : List ι) :
    (∀ v, (send c cls eff u s xs).res = .returned v →
      ∃ pre x post, xs = pre ++ x :: post ∧ (∀ y ∈ pre, IsTransient cls y) ∧ cls x = .ok v ∧
        (send c cls eff u s xs).side = eff (pre.foldl eff s) x ∧
        (send c cls eff u s xs).sleeps.length = pre.length) ∧
    (∀ e, (send c cls eff u s xs).res = .raised e →
      ∃ pre x post, xs = pre ++ x :: post ∧ (∀ y ∈ pre, IsTransient cls y) ∧ cls x = .fatal e ∧
        (send c cls eff u s xs).sleeps.length = pre.length) :=
  ⟨fun v h => sendLoop_returned c cls eff xs u c.initRetry none s v h,
   fun e h => sendLoop_raised c cls eff xs u c.initRetry none s e h⟩

/-- **C18 for `_send_single`** (`height`, `mempool_hashes`, `getrawtransaction`, …).  After any list
of transient replies, a reply `{"error": e, "result": v}` with a null (falsy) error makes the call
return exactly `v`; a reply whose error is an object with a code other than `WARMING_UP` makes the
call raise `DaemonError(that error)` — after exactly `faults.length` sleeps in both cases. -/
theorem C18_single_real (c : Cfg) (wu : Int) (u : Nat) (faults : List Reply)
    (hf : ∀ r ∈ faults, IsTransient (classify (procSingle wu)) r) (e : JErr) (v : Val)
    (rest : List Reply) :
    (e.truthy = false →
      (sendSingle c wu u (faults ++ .json (.obj ⟨e, v⟩) :: rest)).res = .returned v ∧
      (sendSingle c wu u (faults ++ .json (.obj ⟨e, v⟩) :: rest)).sleeps.length = faults.length) ∧
    (∀ code tag, e = .obj code tag → code ≠ some wu →
      (sendSingle c wu u (faults ++ .json (.obj ⟨e, v⟩) :: rest)).res = .raised (.daemonErrorOne e) ∧
      (sendSingle c wu u (faults ++ .json (.obj ⟨e, v⟩) :: rest)).sleeps.length = faults.length) := by
  refine ⟨?_, ?_⟩
  · intro he
    have hx : classify (procSingle wu) (.json (.obj ⟨e, v⟩)) = .ok v := by
      simp only [classify, procSingle_result wu e v he]
    have h := (C18_returns_real c _ noEff u () faults hf _ rest).1 v hx
    exact ⟨h.1, h.2.1⟩
  · intro code tag he hc
    subst he
    have hx : classify (procSingle wu) (.json (.obj ⟨.obj code tag, v⟩)) =
        .fatal (.daemonErrorOne (.obj code tag)) := by
      simp only [classify, procSingle_error wu code tag v hc]
    have h := (C18_returns_real c _ noEff u () faults hf _ rest).2.1 _ hx
    exact ⟨h.1, h.2.1⟩

/-- `height()` caches the height only when the call returns: a raised error leaves `cached_height()`
as it was. -/
theorem C18_height_cache (c : Cfg) (wu : Int) (u : Nat) (cached : Option Val) (replies : List Reply) :
    (∀ v, (height c wu u cached replies).1.res = .returned v → (height c wu u cached replies).2 = some v) ∧
    (∀ e, (height c wu u cached replies).1.res = .raised e → (height c wu u cached replies).2 = cached) := by
  refine ⟨?_, ?_⟩
  · intro v h; simp only [height] at h ⊢; rw [h]; rfl
  · intro e h; simp only [height] at h ⊢; rw [h]; rfl

/-! ## C18_failover -/

/-- attempts per fail-over cycle: the number of doublings that take `init_retry` to `max_retry`,
plus one (the attempt made *at* `max_retry`) -/
def period (c : Cfg) : Nat := doublings c.maxRetry c.initRetry + 1

/-- `k`: how many of the first `L` faults were observed while `retry = max_retry` and another URL was
there to go to -/
def failovers (c : Cfg) (L : Nat) : Nat := if 1 < c.nUrls then L / period c else 0

/-- the argument of the `i`-th sleep (0-based) -/
def sleepAt (c : Cfg) (i : Nat) : Nat :=
  if 1 < c.nUrls then
    (if i % period c = period c - 1 then 0 else c.initRetry * 2 ^ (i % period c))
  else min c.maxRetry (c.initRetry * 2 ^ i)

/-- `period` is characterised by: `max ≤ init·2^(period−1)` and `init·2^j < max` for `j < period−1` -/
theorem period_eq (c : Cfg) (hinit : 0 < c.initRetry) (p : Nat) (hp : Reaches c p) : period c = p + 1 := by
  rw [period, reaches_unique c _ p (reaches_doublings c hinit) hp]

/-- **C18 (fail-over), closed form.**  Hypotheses: `0 < initRetry ≤ maxRetry` (true of the defaults,
`C18_defaults_ok`; with `init > max` the code never reaches `retry == max_retry` and never fails
over), and the starting index is a valid index (`set_url` and `failover` keep it so).  For every list
of transient faults followed by nothing (call still pending) or by a non-transient attempt:

* `url_index` ends at `(u + k) % nUrls`, `k = faults.length / period` — one fail-over per `period`
  faults, round-robin — and `k = 0` when there is a single URL;
* the `i`-th sleep is `init·2^(i % period)`, except the last of each period which is `0` (the
  fail-over resets `retry` to 0, and the next value is `init` again); with a single URL it is
  `min max (init·2^i)`;
* the `i`-th attempt is sent to URL `(u + i / period) % nUrls`. -/
theorem C18_failover (c : Cfg) (hinit : 0 < c.initRetry) (hle : c.initRetry ≤ c.maxRetry)
    (cls : ι → Outcome α ε) (eff : σ → ι → σ) (u : Nat) (hu : u < c.nUrls) (s : σ)
    (faults : List ι) (hf : ∀ x ∈ faults, IsTransient cls x) (fin : List ι)
    (hfin : ∀ x, fin.head? = some x → ¬ IsTransient cls x) :
    (send c cls eff u s (faults ++ fin)).urlIndex = (u + failovers c faults.length) % c.nUrls ∧
    (send c cls eff u s (faults ++ fin)).sleeps = (List.range faults.length).map (sleepAt c) ∧
    (send c cls eff u s (faults ++ fin)).contacted =
      (List.range (faults.length + (if fin.isEmpty then 0 else 1))).map
        (fun i => (u + failovers c i) % c.nUrls) := by
  obtain ⟨h1, h2, h3⟩ := send_terminal c cls eff u s faults hf fin hfin
  rw [h1, h2, h3]
  have hp := reaches_doublings c hinit
  have hr0 := retryAt_zero c hle
  by_cases hn : 1 < c.nUrls
  · -- several URLs
    have hb := backoff_many c _ hp hle hn faults.length 0 u (Nat.zero_le _) hu
    have hs := sleepsFrom_many c _ hp hle hn faults.length 0 u (Nat.zero_le _)
    have hc := contactedFrom_many c _ hp hle hn faults.length 0 u (Nat.zero_le _) hu
    rw [hr0] at hb hs hc
    have hurl : ∀ m, urlMany c (doublings c.maxRetry c.initRetry) u m = (u + failovers c m) % c.nUrls := by
      intro m; simp [urlMany, failovers, hn, period]
    have hsl : ∀ m, sleepMany c (doublings c.maxRetry c.initRetry) m = sleepAt c m := by
      intro m
      unfold sleepMany sleepAt period
      simp only [hn, if_true, Nat.add_sub_cancel]
    refine ⟨?_, ?_, ?_⟩
    · rw [hb]; simp only [Nat.zero_add]; exact hurl _
    · rw [hs, tabFrom_zero_eq]; exact List.map_congr_left (fun m _ => hsl m)
    · rw [hc, hb]
      simp only [Nat.zero_add]
      cases fin with
      | nil =>
        simp only [List.isEmpty_nil, if_true, List.append_nil, Nat.add_zero]
        rw [tabFrom_zero_eq]; exact List.map_congr_left (fun m _ => hurl m)
      | cons x rest =>
        have := tabFrom_snoc (fun m => urlMany c (doublings c.maxRetry c.initRetry) u m) 0 faults.length
        simp only [Nat.zero_add] at this
        simp only [List.isEmpty_cons, Bool.false_eq_true, if_false]
        rw [← this, tabFrom_zero_eq]; exact List.map_congr_left (fun m _ => hurl m)
  · -- a single URL
    have hb := backoff_single c hle hn faults.length 0 u
    have hs := sleepsFrom_single c hle hn faults.length 0 u
    have hc := contactedFrom_single c hle hn faults.length 0 u
    rw [hr0] at hb hs hc
    have hk : ∀ m, (u + failovers c m) % c.nUrls = u := by
      intro m; simp [failovers, hn, Nat.mod_eq_of_lt hu]
    have hsl : ∀ m, retryAt c m = sleepAt c m := by
      intro m; simp [retryAt, sleepAt, hn]
    refine ⟨?_, ?_, ?_⟩
    · rw [hb, hk]
    · rw [hs, tabFrom_zero_eq]; exact List.map_congr_left (fun m _ => hsl m)
    · rw [hc, hb]
      simp only [hk]
      cases fin with
      | nil => simp [tabFrom_zero_eq]
      | cons x rest =>
        have := tabFrom_snoc (fun _ => u) 0 faults.length
        simp only [List.isEmpty_cons, Bool.false_eq_true, if_false]
        rw [← this, tabFrom_zero_eq]

/-- **C18 (fail-over), the single step.**  No hypothesis on the configuration: a fault observed while
`retry = max_retry` with more than one URL moves to the next URL round-robin and is followed by
`sleep(0)`; the retry time after that sleep is `init_retry` (back-off restarts); with a single URL
nothing changes (`k = 0`), and a fault observed at any other retry time changes neither. -/
theorem C18_failover_step (c : Cfg) (u r : Nat) :
    (1 < c.nUrls → logError c u c.maxRetry = ((u + 1) % c.nUrls, 0) ∧ nextRetry c 0 = c.initRetry) ∧
    (¬ 1 < c.nUrls → logError c u r = (u, r)) ∧
    (r ≠ c.maxRetry → logError c u r = (u, r)) :=
  ⟨fun hn => ⟨logError_many_at_max c hn u, nextRetry_zero c⟩,
   fun hn => logError_single c hn u r,
   fun hr => logError_not_max c u r hr⟩

/-- In the closed form: a sleep is `0` exactly at a fail-over, and (when `init < max`) the sleep after
it is `init_retry`. -/
theorem C18_failover_restart (c : Cfg) (hinit : 0 < c.initRetry) (hle : c.initRetry ≤ c.maxRetry)
    (i : Nat) :
    (sleepAt c i = 0 ↔ 1 < c.nUrls ∧ (i + 1) % period c = 0) ∧
    (1 < c.nUrls → (i + 1) % period c = 0 → c.initRetry < c.maxRetry → sleepAt c (i + 1) = c.initRetry) := by
  have hP : 0 < period c := Nat.succ_pos _
  have hmod : i % period c < period c := Nat.mod_lt _ hP
  have hsucc : (i + 1) % period c = 0 ↔ i % period c = period c - 1 := by
    rw [Nat.add_mod]
    by_cases h : i % period c = period c - 1
    · rw [h]
      by_cases h1 : period c = 1
      · simp [h1]
      · have : 1 % period c = 1 := Nat.mod_eq_of_lt (by omega)
        rw [this]
        have : period c - 1 + 1 = period c := by omega
        simp [this]
    · by_cases h1 : period c = 1
      · omega
      · have h2 : 1 % period c = 1 := Nat.mod_eq_of_lt (by omega)
        rw [h2, Nat.mod_eq_of_lt (by omega)]
        omega
  refine ⟨?_, ?_⟩
  · by_cases hn : 1 < c.nUrls
    · simp only [sleepAt, hn, if_true, true_and, hsucc]
      by_cases h : i % period c = period c - 1
      · simp [h]
      · have : 0 < c.initRetry * 2 ^ (i % period c) := Nat.mul_pos hinit (Nat.two_pow_pos _)
        simp only [h, if_false, iff_false]; omega
    · have := retryAt_pos c hinit hle i
      simp only [sleepAt, hn, if_false, false_and, iff_false]
      simp only [retryAt] at this; omega
  · intro hn h0 hlt
    have hPne : period c ≠ 1 := by
      intro h1
      have hr := reaches_doublings c hinit
      have : doublings c.maxRetry c.initRetry = 0 := by simpa [period] using h1
      have := hr.reach
      simp_all
      omega
    have : ¬ (0 = period c - 1) := by omega
    simp [sleepAt, hn, h0, this]

/-! ## C18_vector_aligned -/

/-- **C18 (batched calls are positionally aligned).**  Environment hypothesis (DESIGN §5.5): the batch
reply answers the requests in order — it is `reqs.map (item ∘ ans)` where `ans r` is the daemon's real
answer to request `r` (a result, or an error object; bitcoind's encoding `Ans.item`) — and none of
those answers is the warming-up error (that case is a transient fault: `C18_fault_alphabet`).
After any list of transient faults, for a non-empty request list:

* with `replace_errs`, or when no answer is an error, the call returns `reqs.map (value ∘ ans)`: same
  length, and item `i` is the result of request `i`, or `null` where that request's answer was an error;
* without `replace_errs` and with at least one error answer, it raises `DaemonError` carrying exactly
  the error objects, in request order — nothing is returned. -/
theorem C18_vector_aligned {ρ : Type} (c : Cfg) (wu : Int) (u : Nat) (replace : Bool) (reqs : List ρ)
    (hne : reqs ≠ []) (ans : ρ → Ans) (hnw : ∀ r ∈ reqs, (ans r).warm wu = false)
    (faults : List Reply) (hf : ∀ r ∈ faults, IsTransient (classify (procVector wu replace)) r)
    (rest : List Reply) :
    ((replace = true ∨ ∀ r ∈ reqs, (ans r).isErr = false) →
      (sendVector c wu u replace reqs
        (faults ++ .json (.arr (reqs.map (fun r => (ans r).item))) :: rest)).res
          = .returned (reqs.map (fun r => (ans r).value)) ∧
      (reqs.map (fun r => (ans r).value)).length = reqs.length ∧
      (∀ i (hi : i < reqs.length), (reqs.map (fun r => (ans r).value))[i]? = some (ans reqs[i]).value)) ∧
    (replace = false → (∃ r ∈ reqs, (ans r).isErr = true) →
      (sendVector c wu u replace reqs
        (faults ++ .json (.arr (reqs.map (fun r => (ans r).item))) :: rest)).res
          = .raised (.daemonErrorMany (errList (reqs.map ans)))) ∧
    (sendVector c wu u replace reqs
        (faults ++ .json (.arr (reqs.map (fun r => (ans r).item))) :: rest)).sleeps.length
      = faults.length := by
  have hemp : reqs.isEmpty = false := by cases reqs <;> simp_all
  have hmap : reqs.map (fun r => (ans r).item) = (reqs.map ans).map Ans.item := by
    rw [List.map_map]; rfl
  have hval : (reqs.map ans).map Ans.value = reqs.map (fun r => (ans r).value) := by
    rw [List.map_map]; rfl
  have hnw' : ∀ a ∈ reqs.map ans, a.warm wu = false := by
    intro a ha
    obtain ⟨r, hr, rfl⟩ := List.mem_map.mp ha
    exact hnw r hr
  have hproc := procVector_answers wu replace (reqs.map ans) hnw'
  have hall : (errList (reqs.map ans)).isEmpty = true ↔ ∀ r ∈ reqs, (ans r).isErr = false := by
    rw [errList_isEmpty]; simp
  simp only [sendVector, hemp, Bool.false_eq_true, if_false, hmap]
  refine ⟨?_, ?_, ?_⟩
  · intro hor
    have hcond : ((errList (reqs.map ans)).isEmpty || replace) = true := by
      rcases hor with h | h
      · simp [h]
      · simp [hall.mpr h]
    have hx : classify (procVector wu replace) (.json (.arr ((reqs.map ans).map Ans.item))) =
        .ok (reqs.map (fun r => (ans r).value)) := by
      simp only [classify, hproc, hcond, if_true, hval]
    refine ⟨((C18_returns_real c _ noEff u () faults hf _ rest).1 _ hx).1, by simp, ?_⟩
    intro i hi
    simp [hi]
  · intro hrep hex
    have hcond : ((errList (reqs.map ans)).isEmpty || replace) = false := by
      subst hrep
      have : ¬ (errList (reqs.map ans)).isEmpty = true := by
        rw [hall]; intro hno
        obtain ⟨r, hr, he⟩ := hex
        rw [hno r hr] at he; exact absurd he (by simp)
      simpa using this
    have hx : classify (procVector wu replace) (.json (.arr ((reqs.map ans).map Ans.item))) =
        .fatal (.daemonErrorMany (errList (reqs.map ans))) := by
      simp only [classify, hproc, hcond, Bool.false_eq_true, if_false]
    exact ((C18_returns_real c _ noEff u () faults hf _ rest).2.1 _ hx).1
  · -- the terminal attempt is not transient either way
    by_cases hcond : ((errList (reqs.map ans)).isEmpty || replace) = true
    · have hx : classify (procVector wu replace) (.json (.arr ((reqs.map ans).map Ans.item))) =
          .ok ((reqs.map ans).map Ans.value) := by
        simp only [classify, hproc, hcond, if_true]
      exact ((C18_returns_real c _ noEff u () faults hf _ rest).1 _ hx).2.1
    · have hx : classify (procVector wu replace) (.json (.arr ((reqs.map ans).map Ans.item))) =
          .fatal (.daemonErrorMany (errList (reqs.map ans))) := by
        have hcond' : ((errList (reqs.map ans)).isEmpty || replace) = false := by simpa using hcond
        simp only [classify, hproc, hcond', Bool.false_eq_true, if_false]
      exact ((C18_returns_real c _ noEff u () faults hf _ rest).2.1 _ hx).2.1

/-- "`None` exactly where that item carried an error": provided the daemon's genuine results are not
themselves `null`. -/
theorem C18_vector_null_iff_error (a : Ans) (hres : ∀ v, a = .result v → v ≠ .null) :
    a.value = .null ↔ a.isErr = true := by
  cases a with
  | result v => simpa [Ans.value, Ans.isErr] using hres v rfl
  | error code tag => simp [Ans.value, Ans.isErr]

/-- An empty request list returns `[]` without contacting the daemon, whatever the daemon would say. -/
theorem C18_vector_empty {ρ : Type} (c : Cfg) (wu : Int) (u : Nat) (replace : Bool) (replies : List Reply) :
    sendVector c wu u replace ([] : List ρ) replies = ⟨.returned [], u, [], [], none, ()⟩ := rfl

/-- the daemon's answer to one `getrawtransaction` of a batch -/
inductive TxAns where
  | tx (raw : Bytes)
  | missing (code : Option Int) (tag : Nat)
deriving Repr, DecidableEq

/-- bitcoind sends the serialised transaction as lower-case hex -/
def TxAns.ans : TxAns → Ans
  | .tx raw => .result (.str (hexChars raw))
  | .missing code tag => .error code tag

def TxAns.expected : TxAns → Option Bytes
  | .tx raw => some raw
  | .missing _ _ => none

/-- **C18 for `getrawtransactions(hashes)`** (`replace_errs=True`, the default).  If the batch reply
answers the hashes in order, each with the hex of a non-empty transaction or with an error that is
not "warming up", the call returns — after any list of transient faults — the list whose item `i` is
the raw bytes of the transaction for hash `i`, or `None` where the daemon reported an error. -/
theorem C18_rawtx_aligned {ρ : Type} (c : Cfg) (wu : Int) (u : Nat) (hashes : List ρ) (hne : hashes ≠ [])
    (ans : ρ → TxAns)
    (hvalid : ∀ h ∈ hashes, ∀ raw, ans h = .tx raw → raw ≠ [] ∧ ∀ b ∈ raw, b < 256)
    (hnw : ∀ h ∈ hashes, (ans h).ans.warm wu = false)
    (faults : List Reply) (hf : ∀ r ∈ faults, IsTransient (classify (procVector wu true)) r)
    (rest : List Reply) :
    (getRawTransactions c wu u true hashes
        (faults ++ .json (.arr (hashes.map (fun h => (ans h).ans.item))) :: rest)).res
      = .returned (hashes.map (fun h => (ans h).expected)) ∧
    (getRawTransactions c wu u true hashes
        (faults ++ .json (.arr (hashes.map (fun h => (ans h).ans.item))) :: rest)).sleeps.length
      = faults.length := by
  have hv := C18_vector_aligned c wu u true hashes hne (fun h => (ans h).ans) hnw faults hf rest
  obtain ⟨h1, _, h3⟩ := hv
  have hres := (h1 (Or.inl rfl)).1
  refine ⟨?_, h3⟩
  simp only [getRawTransactions, hres, convRes]
  have hconv : convAll (hashes.map (fun h => (ans h).ans.value)) =
      .ok (hashes.map (fun h => (ans h).expected)) := by
    apply convAll_map
    intro h hh
    cases ha : ans h with
    | tx raw =>
      obtain ⟨hne', hb⟩ := hvalid h hh raw ha
      simp only [TxAns.ans, Ans.value, TxAns.expected]
      exact hexToBytes_hex raw hne' hb
    | missing code tag => simp [TxAns.ans, Ans.value, TxAns.expected, hexToBytes]
  rw [hconv]

/-! ## C18_file -/

/-- **C18 (block-to-file streaming).**  Whatever the file held before and whatever partial bytes the
failed attempts left in it, when `get_block` returns — after any list of transient faults, including
ones that struck in the middle of a stream — the returned size is the length of the file and the file
holds exactly the chunks of the successful attempt, in order. -/
theorem C18_file (c : Cfg) (u : Nat) (file0 : Bytes) (faults : List FileReply)
    (hf : ∀ r ∈ faults, IsTransient fileOutcome r) (chunks : List Bytes) (rest : List FileReply) :
    (getBlock c u file0 (faults ++ .stream chunks .done :: rest)).res = .returned chunks.flatten.length ∧
    (getBlock c u file0 (faults ++ .stream chunks .done :: rest)).side = chunks.flatten ∧
    (getBlock c u file0 (faults ++ .stream chunks .done :: rest)).sleeps.length = faults.length := by
  obtain ⟨he, ho⟩ := fileEffect_done (faults.foldl fileEffect file0) chunks
  have h := (C18_returns_real c fileOutcome fileEffect u file0 faults hf _ rest).1 _ ho
  exact ⟨h.1, by rw [getBlock, h.2.2.2, he], h.2.1⟩

/-- Converse, with no assumption on the attempts: if `get_block` returns `size`, then some attempt
streamed to completion, all attempts before it were transient faults, the file holds exactly that
attempt's chunks and `size` is its length. -/
theorem C18_file_only (c : Cfg) (u : Nat) (file0 : Bytes) (replies : List FileReply) (size : Nat)
    (h : (getBlock c u file0 replies).res = .returned size) :
    ∃ pre chunks post, replies = pre ++ .stream chunks .done :: post ∧
      (∀ r ∈ pre, IsTransient fileOutcome r) ∧
      (getBlock c u file0 replies).side = chunks.flatten ∧ size = chunks.flatten.length := by
  obtain ⟨pre, x, post, hxs, hpre, hx, hside, _⟩ :=
    (C18_only_genuine c fileOutcome fileEffect u file0 replies).1 size h
  obtain ⟨chunks, rfl⟩ := fileOutcome_ok x size hx
  obtain ⟨he, ho⟩ := fileEffect_done (pre.foldl fileEffect file0) chunks
  refine ⟨pre, chunks, post, hxs, hpre, ?_, ?_⟩
  · rw [getBlock, hside, he]
  · rw [ho] at hx; injection hx with hx; exact hx.symm

/-- Every attempt starts by truncating: what an attempt leaves in the file does not depend on what
was there, in particular not on the partial bytes of a failed attempt. -/
theorem C18_file_truncates (f f' : Bytes) (r : FileReply) : fileEffect f r = fileEffect f' r := by
  cases r <;> rfl

/-! ## non-vacuity -/

/-- the default configuration with two URLs: six timeouts, then an answer.  Sleeps 1,2,4,8 units
(0.25 … 2 s), the fifth fault is observed at `max_retry` = 16 units: fail-over, sleep 0, back to 1. -/
example :
    send ⟨2, 1, 16⟩ id (fun (s : Unit) _ => s) 0 ()
      ((List.replicate 6 (Outcome.transient .timeout)) ++ [Outcome.ok 7, (Outcome.fatal 3 : Outcome Nat Nat)]) =
    ⟨.returned 7, 1, [1, 2, 4, 8, 0, 1], [0, 0, 0, 0, 0, 1, 1], none, ()⟩ := by decide

/-- `period ⟨n, 1, 16⟩ = 5` -/
example : period ⟨2, 1, 16⟩ = 5 :=
  period_eq _ (by decide) 4 ⟨by decide, by decide⟩

/-- one URL: no fail-over, the retry time saturates -/
example :
    (send ⟨1, 1, 4⟩ id (fun (s : Unit) _ => s) 0 ()
      ((List.replicate 5 (Outcome.transient .warmingUp)) ++ [(Outcome.fatal 9 : Outcome Nat Nat)])) =
    ⟨.raised 9, 0, [1, 2, 4, 4, 4], [0, 0, 0, 0, 0, 0], none, ()⟩ := by decide

/-- `init = max`: every fault fails over and every sleep is 0 -/
example :
    (send ⟨3, 2, 2⟩ id (fun (s : Unit) _ => s) 2 ()
      ((List.replicate 4 (Outcome.transient .reset)) ++ [(Outcome.ok 1 : Outcome Nat Nat)])) =
    ⟨.returned 1, 0, [0, 0, 0, 0], [2, 0, 1, 2, 0], some .restored, ()⟩ := by decide

/-- a vector reply with one warming-up item next to a genuine error is a transient fault, after which
the aligned answer (one error replaced by null) is returned -/
example :
    (sendVector ⟨1, 1, 16⟩ (-28) 0 true [10, 11, 12]
      [.json (.arr [⟨.null, .str ['a']⟩, ⟨.obj (some (-28)) 0, .null⟩, ⟨.obj (some (-5)) 1, .null⟩]),
       .raises ⟨true, false, false, false, false, 0⟩, .nonJson,
       .json (.arr [⟨.null, .str ['a']⟩, ⟨.obj (some (-5)) 1, .null⟩, ⟨.null, .str ['c']⟩])]).res =
    .returned [.str ['a'], .null, .str ['c']] := by decide

/-- a stream cut by a disconnect after two chunks, then a complete one: the file holds only the latter -/
example :
    getBlock ⟨1, 1, 16⟩ 0 [9, 9, 9]
      [.stream [[1, 2], [3]] (.raises ⟨false, true, false, true, true, 0⟩), .stream [[4], [5, 6]] .done] =
    ⟨.returned 3, 0, [1], [0, 0], some .restored, [4, 5, 6]⟩ := by decide

/-- …and if the cut is fatal (say, the disk is full: an `OSError`), the partial bytes stay -/
example :
    getBlock ⟨1, 1, 16⟩ 0 [9, 9, 9]
      [.stream [[1, 2], [3]] (.raises ⟨false, false, false, false, false, 7⟩), .stream [[4]] .done] =
    ⟨.raised (.other 7), 0, [], [0], none, [1, 2, 3]⟩ := by decide

example : hexToBytes (.str (hexChars [0, 171, 255])) = .ok (some [0, 171, 255]) := by rfl

end EV.Daemon

import EV.Props.C13

/-!
# C13 (canonical output) — `Tx.serialize` only ever writes minimal varints

`C13_serialize_read` needs `canonTx buf c` (every varint on the parse path is minimal), and the audit
noted that no lemma showed the hypothesis to hold for the serialiser's own output.  This file
closes that: wherever the serialisation of a well-formed transaction occurs in a buffer, `canonTx`
holds there (`C13_serialize_canon`), hence serialise → parse → serialise is the identity on bytes
for every well-formed transaction at every offset (`C13_serialize_read_serialize`).
Nothing existing is touched.
-/
namespace EV.TxCodec

theorem canonVarintAt_at {buf : Bytes} {c n : Nat} (h : At buf c (packVarint n))
    (hn : n < 18446744073709551616) : canonVarintAt buf c = true := by
  unfold canonVarintAt
  rw [readVarint_at h hn]
  simp

theorem canonInput_at {buf : Bytes} {c : Nat} {i : TxIn} (h : At buf c (serIn i)) (hw : WfIn i) :
    canonInput buf c = true := by
  obtain ⟨h32, hr⟩ := hw
  obtain ⟨_, h2, _⟩ := (inRangeIn_iff i).mp hr
  unfold serIn at h
  have a := h.right.right.left.left
  simp only [leBytes_length, h32] at a
  unfold canonInput
  have e : c + 36 = c + 32 + 4 := by omega
  rw [e]
  exact canonVarintAt_at a h2

theorem canonOutput_at {buf : Bytes} {c : Nat} {o : TxOut} (h : At buf c (serOut o)) (hw : WfOut o) :
    canonOutput buf c = true := by
  obtain ⟨_, _, h3⟩ := (inRangeOut_iff o).mp hw
  unfold serOut at h
  have a := h.right.left
  simp only [leBytes_length] at a
  unfold canonOutput
  exact canonVarintAt_at a h3

theorem canonItems_at {α : Type} {reader : Bytes → Nat → Except PyExc (α × Nat)} {ser : α → Bytes}
    {canon1 : Bytes → Nat → Bool} {Wf : α → Prop}
    (hr : ∀ buf c x, At buf c (ser x) → Wf x → reader buf c = .ok (x, c + (ser x).length))
    (hc : ∀ buf c x, At buf c (ser x) → Wf x → canon1 buf c = true)
    {buf : Bytes} (xs : List α) {c : Nat} (h : At buf c (xs.map ser).flatten) (hw : ∀ x ∈ xs, Wf x) :
    canonItems reader canon1 buf xs.length c = true := by
  induction xs generalizing c with
  | nil => simp [canonItems]
  | cons x xs ih =>
    simp only [List.map_cons, List.flatten_cons] at h
    have e1 := hr buf c x h.left (hw x (by simp))
    have e0 := hc buf c x h.left (hw x (by simp))
    have e2 := ih h.right (fun y hy => hw y (by simp [hy]))
    simp only [List.length_cons, canonItems, e0, e1, e2, Bool.and_self]

theorem canonMany_at {α : Type} {reader : Bytes → Nat → Except PyExc (α × Nat)} {ser : α → Bytes}
    {canon1 : Bytes → Nat → Bool} {Wf : α → Prop}
    (hr : ∀ buf c x, At buf c (ser x) → Wf x → reader buf c = .ok (x, c + (ser x).length))
    (hc : ∀ buf c x, At buf c (ser x) → Wf x → canon1 buf c = true)
    {buf : Bytes} (xs : List α) {c : Nat} (h : At buf c (packVarint xs.length ++ (xs.map ser).flatten))
    (hn : xs.length < 18446744073709551616) (hw : ∀ x ∈ xs, Wf x) :
    canonMany reader canon1 buf c = true := by
  unfold canonMany
  rw [canonVarintAt_at h.left hn, readVarint_at h.left hn]
  simp only [canonItems_at hr hc xs h.right hw, Bool.and_self]

/-- **C13 (serialiser output is canonical).**  Wherever the serialisation of a well-formed
transaction occurs in a buffer, every varint on `read_tx`'s parse path there is minimal. -/
theorem C13_serialize_canon {buf : Bytes} {c : Nat} {t : Tx} (h : At buf c (serializeRaw t)) (hw : WfTx t) :
    canonTx buf c = true := by
  obtain ⟨hr, h32⟩ := hw
  obtain ⟨_, _, hin, hins, hon, houts, _⟩ := (inRange_iff t).mp hr
  unfold serializeRaw at h
  have a1 := h.right
  have hwin : ∀ i ∈ t.inputs, WfIn i := fun i hi => ⟨h32 i hi, hins i hi⟩
  have a1' : At buf (c + (leBytes 4 (i32ToNat t.version)).length)
      (packVarint t.inputs.length ++ (t.inputs.map serIn).flatten) := by
    rw [← List.append_assoc] at a1; exact a1.left
  have e2 := readMany_at (Wf := WfIn) (fun _ _ _ => readInput_at) t.inputs a1' hin hwin
  have k2 := canonMany_at (Wf := WfIn) (canon1 := canonInput) (fun _ _ _ => readInput_at)
    (fun _ _ _ => canonInput_at) t.inputs a1' hin hwin
  have a2 : At buf (c + (leBytes 4 (i32ToNat t.version)).length +
      (packVarint t.inputs.length ++ (t.inputs.map serIn).flatten).length)
      (packVarint t.outputs.length ++ ((t.outputs.map serOut).flatten ++ leBytes 4 t.locktime)) := by
    rw [← List.append_assoc] at a1; exact a1.right
  have k3 := canonMany_at (Wf := WfOut) (canon1 := canonOutput) (fun _ _ _ => readOutput_at)
    (fun _ _ _ => canonOutput_at) t.outputs
    (by rw [← List.append_assoc] at a2; exact a2.left) hon houts
  simp only [leBytes_length] at e2 k2 k3
  unfold canonTx
  rw [k2, e2]
  simp only [Bool.true_and]
  exact k3

/-- **C13 (serialise → parse → serialise).**  For every well-formed transaction, at every offset of
every buffer of bytes that contains its serialisation: the parse succeeds, returns the transaction
and the end of its bytes, and serialising the parsed transaction gives back exactly those bytes —
the hypothesis `canonTx` of `C13_serialize_read` is discharged, not assumed. -/
theorem C13_serialize_read_serialize (pre post : Bytes) (t : Tx) (hw : WfTx t)
    (hb : BytesOK (pre ++ (serializeRaw t ++ post))) :
    ∃ e, readTx (pre ++ (serializeRaw t ++ post)) pre.length = .ok (t, e) ∧
      canonTx (pre ++ (serializeRaw t ++ post)) pre.length = true ∧
      serialize t = .ok (slice (pre ++ (serializeRaw t ++ post)) pre.length e) := by
  have hat := At.intro pre (serializeRaw t) post
  have hr := readTx_at hat hw
  have hc := C13_serialize_canon hat hw
  exact ⟨_, hr, hc, C13_serialize_read hr hb hc⟩

/-- non-vacuity: the hypotheses hold for the sample transaction of `C13.lean` between foreign bytes -/
example : WfTx tx0 ∧ BytesOK ([9, 9] ++ (serializeRaw tx0 ++ [5])) := by decide

end EV.TxCodec

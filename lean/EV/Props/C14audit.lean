import EV.Props.C14
import EV.Props.C06task

/-!
# C14 — the store left by a clean shutdown right after a back-out (audit §C14)

`PInv.notAhead : hF p ≤ uF p` (history flush count not ahead of the UTXO one) is a hypothesis of every
C14 run theorem.  It EXCLUDES a store the code itself produces: `History.backup` bumps
`History.flush_count`, `flush_backup` writes the UTXO state with the OLD flush count (it does not copy
`history.flush_count` into the flushed state), and the shutdown flush that follows is a no-op; the
store on disk then has `hF = uF + 1` (`C14_after_backout_example`: the model of C06's own
`exMidBackup` run ends with `(hF, uF) = (2, 1)`).  This is NOT the case "every start first runs
`clear_excess`, which deletes rows" of `C14.py`'s third assumption: no history row has an id above the
UTXO flush count there (`FullInv'.histIds`), so `clear_excess` deletes NOTHING; it only lowers the
history flush count to the UTXO one.

`C14_clear_excess_after_backout` states exactly that, for `History.open_db`'s `clear_excess` step
(`openStore1`), which every process start performs — a server start and the compaction script's own
`_open_dbs(…, compacting=True)` alike: the history table is unchanged, the UTXO state is unchanged, and
afterwards `hF = uF`, i.e. `notAhead` holds.  `C14_clear_excess_of_fullInv'` discharges its hypotheses
for every fully flushed state of the whole-run index invariant.

NOT done (not cheap): deriving the rest of `PInv` (`ordered`, `tight`, `cfcTight`, `width`) from
`FullInv'`.  Blocked by: `FullInv'` says nothing about the compaction fields `comp_flush_count` /
`comp_cursor` of the history state record (they are −1 throughout an index run, but that is not part
of the invariant, and proving it needs its own induction over all run steps), nothing about the
11-byte width of script hashes (`HxWidth`; the index model has unbounded naturals), and its flush-count
clause is the opposite inequality (`FullInv'.fcLe : uF ≤ hF`; equality holds after a full flush or a
restart only).  The C14 theorems are still stated under `PInv` at process start; composing them with
this lemma for the `hF = uF + 1` store is by hand.
-/
namespace EV.Compact
open EV.Index

/-- **C14 (the excluded store is repaired by the first `clear_excess`).**  On a store whose history
flush count is ahead of the UTXO one but which has no history row above the UTXO flush count (what a
clean shutdown right after a back-out leaves), `History.open_db`'s `clear_excess` deletes nothing:
the history table and the UTXO state record are unchanged, and the history flush count becomes the
UTXO flush count — `PInv.notAhead` holds from then on. -/
theorem C14_clear_excess_after_backout (p : Store) (hahead : uF p < hF p)
    (hrows : ∀ e ∈ p.hist, e.1.2 ≤ uF p) :
    (openStore1 p).hist = p.hist ∧ (openStore1 p).ustate = p.ustate ∧
    hF (openStore1 p) = uF p ∧ uF (openStore1 p) = uF p ∧ hF (openStore1 p) ≤ uF (openStore1 p) := by
  have hne : ¬ (p.hstate.getD {}).flushCount ≤ (p.ustate.getD {}).flushCount := by
    unfold hF hsOf uF at hahead; omega
  have hdel : p.hist.filter (fun e => e.1.2 > (p.ustate.getD {}).flushCount) = [] := by
    apply List.filter_eq_nil_iff.mpr
    intro e he
    have := hrows e he
    unfold uF at this
    simp only [gt_iff_lt, decide_eq_true_eq]
    omega
  have hopen : openStore1 p = { p with hstate := some { (p.hstate.getD {}) with
      flushCount := (p.ustate.getD {}).flushCount } } := by
    unfold openStore1 clearExcessEffect
    rw [if_neg hne, hdel]
    simp [applyEffects, applyEffect]
  rw [hopen]
  refine ⟨rfl, rfl, rfl, rfl, ?_⟩
  show (p.ustate.getD {}).flushCount ≤ (p.ustate.getD {}).flushCount
  exact Nat.le_refl _

/-- the hypothesis `hrows` holds in every fully flushed state of the whole-run index invariant (after
    any valid run of advances, flushes, back-outs and restarts) -/
theorem C14_clear_excess_of_fullInv' {cfg : Cfg} {chain : List Block} {K : List Nat} {s : Sys}
    (inv : FullInv' cfg chain K s) (hfl : s.m.dbst.height = s.m.st.height) :
    (∀ e ∈ s.p.hist, e.1.2 ≤ uF s.p) ∧ uF s.p ≤ hF s.p := by
  have hu : s.p.ustate.getD {} = s.m.dbst := by
    rcases inv.base.ustate with ⟨h1, h2⟩ | h
    · rw [h1, h2]; rfl
    · rw [h]; rfl
  constructor
  · intro e he
    unfold uF
    rw [hu]
    exact inv.histIds hfl e he
  · unfold uF hF hsOf
    rw [hu, inv.hstate]
    exact inv.fcLe

open EV.ShutdownTask in
/-- **the excluded store exists**: C06's run `exMidBackup` (two blocks indexed, caught up, forced
reorganisation of one block, shutdown requested during the back-out, handler's flush) ends — cleanly,
task returned — with history flush count 2 and UTXO flush count 1 on disk: `PInv.notAhead` is false
of it. -/
theorem C14_after_backout_example :
    outerOf (run rxCfg {} exMidBackup) = some .returned ∧
    (run rxCfg {} exMidBackup).map (fun st => (hF st.sys.p, uF st.sys.p)) = some (2, 1) := by
  decide

end EV.Compact

import EV.Proofs.MerkleCache

/-!
# C12 — Merkle branches, roots and the incremental cache agree with the definition

> For every non-empty list of hashes and every index, the branch returned folds back to the
> returned root, the root equals the Bitcoin merkle root of the list, the branch has exactly
> ceil(log2(n)) elements, the TSC form differs only by marking duplicated nodes, and a cache that
> has been initialised, extended and truncated in any order returns the same branch and root as a
> from-scratch computation for every (length, index).

Model: `EV/Model/Merkle.lean` (literal model of `lib/merkle.py :: Merkle, MerkleCache`), tied to the
classes in /repo by the `merkle` correspondence suite on every run.

Everything is generic in the node type and in `H : Node → Node → Node` (the code's
`hash_func(a + b)`); **no property of `H` is assumed** — the theorems are equalities of terms.
All theorems are unbounded: every list, every index, every `length` padding, every depth, every
operation sequence.  `merkleRoot` (duplicate the last node of an odd level, hash the pairs,
recurse), `lvl`, `isDup`, `dupN` are the specification (`EV/Model/Merkle.lean`, last section).

Finding F2: at the pinned commit `Merkle.branch_length` was `ceil(log(n, 2))` in floating point:
30 at n = 2^29 (also wrong at 2^31, 2^39, 2^47, 2^51, …; too *small* at 2^49+1, 2^50+1, …), which
makes `branch_and_root` hash a list of exactly 2^29 nodes one level too far (root `H r r`).  IEEE
`log` has no Lean model, so there is no Lean counterexample theorem; the failing inputs are in the
suite's corpus and are replayed on the real function on every run (`branch_length(2**29) == 29`).
The model is the fixed integer function `(hash_count - 1).bit_length()`, and `branchLength_spec`
below holds for *every* n (the property's bound 2^62 is not needed).
-/
namespace EV.Merkle

variable {Node : Type} (H : Node → Node → Node)

/-! ## `branch_length` -/

/-- **C12 (branch length function).**  For every `n ≥ 1`, `branch_length(n) = ⌈log₂ n⌉`. -/
theorem branchLength_spec (n : Nat) (hn : 1 ≤ n) : branchLength (.int n) = .ok (Nat.clog 2 n) := by
  have hc : ¬ ((n : Int) < 1) := by omega
  have : ((n : Int) - 1).toNat = n - 1 := by omega
  simp only [branchLength, hc, if_false, this]
  rw [← branchLengthNat, branchLengthNat_eq_clog hn]

/-- the error branches of `branch_length` -/
theorem branchLength_errors :
    branchLength .notInt = .error .typeError ∧
    ∀ v : Int, v < 1 → branchLength (.int v) = .error .valueError := by
  refine ⟨rfl, fun v hv => ?_⟩
  simp only [branchLength, hv, if_true]

/-- the F2 witnesses, pinned on the model (the real function is compared with these on every run) -/
example : branchLength (.int (2 ^ 29)) = .ok 29 ∧ branchLength (.int (2 ^ 49 + 1)) = .ok 50 ∧
    branchLength (.int (2 ^ 62)) = .ok 62 := by decide

/-! ## `branch_and_root` -/

/-- an `ok` result means the index was in range -/
theorem branchAndRoot_ok_range {hs : List Node} {i : Int} {len : Option IntArg} {tsc : Bool}
    {x : List (Elt Node) × Node} (h : branchAndRoot H hs (.int i) len tsc = .ok x) :
    0 ≤ i ∧ i < hs.length := by
  by_contra hc
  simp only [branchAndRoot, hc, not_false_eq_true, if_true] at h
  cases h

/-- **C12 (root).**  For every non-empty list and every index in range — in either format —
`branch_and_root` returns (it raises nothing, in particular no `IndexError` inside the loop) and
the returned root is the merkle root of the list. -/
theorem bar_root (hs : List Node) (idx : Nat) (tsc : Bool) (h : idx < hs.length) :
    ∃ br, branchAndRoot H hs (.int idx) none tsc =
      .ok (br, merkleRoot H hs (List.ne_nil_of_length_pos (by omega))) :=
  ⟨_, branchAndRoot_none H tsc hs idx h⟩

/-- `Merkle.root(hashes)` is the merkle root -/
theorem root_spec (hs : List Node) (hne : hs ≠ []) : root H hs none = .ok (merkleRoot H hs hne) := by
  have h : 0 < hs.length := List.length_pos_iff.mpr hne
  have := branchAndRoot_none H false hs 0 h
  simp only [root]
  have e : (IntArg.int 0) = .int ((0 : Nat) : Int) := rfl
  rw [e, this]

/-- **C12 (fold).**  The classic branch contains only nodes, and the real verification procedure
`root_from_proof(hashes[idx], branch, idx)` returns exactly the returned root. -/
theorem bar_fold (hs : List Node) (idx : Nat) (h : idx < hs.length) :
    ∃ (nodes : List Node) (r : Node),
      branchAndRoot H hs (.int idx) none false = .ok (nodes.map .node, r) ∧
      rootFromProof H hs[idx] nodes idx = .ok r := by
  have hpow : hs.length ≤ 2 ^ Nat.clog 2 hs.length := Nat.le_pow_clog (by omega) _
  refine ⟨nodesOf (specBranch H false (Nat.clog 2 hs.length) hs idx),
    merkleRoot H hs (List.ne_nil_of_length_pos (by omega)), ?_, ?_⟩
  · rw [← specBranch_false H _ hs idx h]; exact branchAndRoot_none H false hs idx h
  · have := fold_root H hs idx _ h hpow
    simpa [dupN] using this

/-- **C12 (length).**  Whatever `branch_and_root(hashes, index)` returns, the branch has exactly
`⌈log₂ len(hashes)⌉` elements (either format). -/
theorem bar_length (hs : List Node) (i : Int) (tsc : Bool) (br : List (Elt Node)) (r : Node)
    (hres : branchAndRoot H hs (.int i) none tsc = .ok (br, r)) :
    br.length = Nat.clog 2 hs.length := by
  obtain ⟨h0, h1⟩ := branchAndRoot_ok_range H hres
  obtain ⟨idx, rfl⟩ : ∃ n : Nat, i = n := ⟨i.toNat, by omega⟩
  rw [branchAndRoot_none H tsc hs idx (by omega)] at hres
  cases hres
  exact specBranch_length H tsc _ hs idx

/-- **C12 (`length` padding).**  With an explicit `length = l ≥ ⌈log₂ n⌉` the branch has `l`
elements, starts with the natural branch, the root is the merkle root hashed with itself
`l − ⌈log₂ n⌉` times, and the (TSC-aware) fold of the branch still gives that root. -/
theorem bar_padding (hs : List Node) (idx l : Nat) (tsc : Bool) (h : idx < hs.length)
    (hl : Nat.clog 2 hs.length ≤ l) :
    ∃ br brNat r, branchAndRoot H hs (.int idx) (some (.int l)) tsc = .ok (br, r) ∧
      branchAndRoot H hs (.int idx) none tsc = .ok (brNat, merkleRoot H hs (List.ne_nil_of_length_pos (by omega))) ∧
      r = dupN H (l - Nat.clog 2 hs.length) (merkleRoot H hs (List.ne_nil_of_length_pos (by omega))) ∧
      br.length = l ∧ br.take (Nat.clog 2 hs.length) = brNat ∧
      rootFromProofTsc H hs[idx] br idx = .ok r := by
  have hpow : hs.length ≤ 2 ^ l := (Nat.clog_le_iff_le_pow (by omega)).mp hl
  refine ⟨_, _, _, branchAndRoot_some H tsc hs idx l h hl, branchAndRoot_none H tsc hs idx h, rfl,
    specBranch_length H tsc _ hs idx, ?_, fold_root_tsc H tsc hs idx l h hpow⟩
  obtain ⟨k, rfl⟩ : ∃ k, l = Nat.clog 2 hs.length + k := ⟨l - Nat.clog 2 hs.length, by omega⟩
  rw [specBranch_add, List.take_left' (specBranch_length H tsc _ hs idx)]

/-- the error branches of `branch_and_root`, in the code's order -/
theorem bar_errors (hs : List Node) (tsc : Bool) :
    (∀ len, branchAndRoot H hs .notInt len tsc = .error .typeError) ∧
    (∀ (i : Int) len, ¬ (0 ≤ i ∧ i < hs.length) →
      branchAndRoot H hs (.int i) len tsc = .error .valueError) ∧
    (∀ i : Int, 0 ≤ i → i < hs.length →
      branchAndRoot H hs (.int i) (some .notInt) tsc = .error .typeError) ∧
    (∀ i l : Int, 0 ≤ i → i < hs.length → l < Nat.clog 2 hs.length →
      branchAndRoot H hs (.int i) (some (.int l)) tsc = .error .valueError) := by
  refine ⟨fun _ => rfl, fun i len hc => ?_, fun i h0 h1 => ?_, fun i l h0 h1 hl => ?_⟩
  · simp only [branchAndRoot, hc, not_false_eq_true, if_true]
  · have : ¬ ¬ (0 ≤ i ∧ i < hs.length) := by omega
    simp only [branchAndRoot, this, if_false]
  · have : ¬ ¬ (0 ≤ i ∧ i < hs.length) := by omega
    have h1' : 1 ≤ hs.length := by omega
    simp only [branchAndRoot, this, if_false, branchLengthNat_eq_clog h1', hl, if_true]

/-! ## TSC format -/

/-- **C12 (TSC).**  The TSC branch has the same root and length as the classic one, equals it
position by position except that it carries `*` at exactly the positions where the sibling is the
node's own duplicate (`isDup`: the node on the path is the last one of an odd-length level), the
classic branch carries no marker at all, and folding the TSC branch with the running hash
substituted for `*` gives the same root. -/
theorem tsc_spec (hs : List Node) (idx : Nat) (h : idx < hs.length) :
    ∃ (nodes : List Node) (brT : List (Elt Node)) (r : Node),
      branchAndRoot H hs (.int idx) none false = .ok (nodes.map .node, r) ∧
      branchAndRoot H hs (.int idx) none true = .ok (brT, r) ∧
      brT.length = nodes.length ∧
      (∀ k, k < nodes.length →
        brT[k]? = if isDup H hs idx k then some .star else (nodes[k]?).map .node) ∧
      rootFromProofTsc H hs[idx] brT idx = .ok r := by
  have hpow : hs.length ≤ 2 ^ Nat.clog 2 hs.length := Nat.le_pow_clog (by omega) _
  have hcl := specBranch_false H (Nat.clog 2 hs.length) hs idx h
  refine ⟨nodesOf (specBranch H false (Nat.clog 2 hs.length) hs idx),
    specBranch H true (Nat.clog 2 hs.length) hs idx,
    merkleRoot H hs (List.ne_nil_of_length_pos (by omega)), ?_,
    branchAndRoot_none H true hs idx h, ?_, ?_, ?_⟩
  · rw [← hcl]; exact branchAndRoot_none H false hs idx h
  · have := congrArg List.length hcl
    rw [List.length_map, specBranch_length] at this
    rw [specBranch_length, ← this]
  · intro k hk
    have hlen := congrArg List.length hcl
    rw [List.length_map, specBranch_length] at hlen
    rw [specBranch_tsc H _ hs idx h k (by omega)]
    conv => lhs; rw [hcl]
    rw [List.getElem?_map]
  · have := fold_root_tsc H true hs idx _ h hpow
    simpa [dupN] using this

/-! ## `level` and `branch_and_root_from_level` -/

/-- `Merkle.level(hashes, d)` never raises and is level `d` of the tree (for every list, also the
empty one, and every `d`; the final chunk may be partial: its root is padded up to depth `d`). -/
theorem level_spec (hs : List Node) (d : Nat) : level H hs d = .ok (lvl H d hs) := level_eq' H hs d

/-- **C12 (from_level).**  Whenever `d ≤ ⌈log₂ n⌉` — in particular whenever `2^d ≤ n`, the path
`MerkleCache` takes — the branch assembled from the cached level and the `2^d`-aligned segment of
leaves around `idx` (the final segment may be partial) is exactly `branch_and_root` of the whole
list, in both formats; the consistency check passes. -/
theorem from_level [DecidableEq Node] (hs : List Node) (d idx : Nat) (tsc : Bool)
    (hidx : idx < hs.length) (hd : d ≤ Nat.clog 2 hs.length) :
    ∃ lv, level H hs d = .ok lv ∧
      branchAndRootFromLevel H (.list lv)
        (.list ((hs.drop (idx / 2 ^ d * 2 ^ d)).take (2 ^ d))) (.int idx) d tsc =
      branchAndRoot H hs (.int idx) none tsc :=
  ⟨_, level_eq' H hs d, from_level_eq H tsc hs d idx hidx hd⟩

theorem from_level_of_pow_le [DecidableEq Node] (hs : List Node) (d idx : Nat) (tsc : Bool)
    (hidx : idx < hs.length) (hd : 2 ^ d ≤ hs.length) :
    ∃ lv, level H hs d = .ok lv ∧
      branchAndRootFromLevel H (.list lv)
        (.list ((hs.drop (idx / 2 ^ d * 2 ^ d)).take (2 ^ d))) (.int idx) d tsc =
      branchAndRoot H hs (.int idx) none tsc :=
  from_level H hs d idx tsc hidx (pow_le_clog hd)

/-- the type checks of `branch_and_root_from_level` -/
theorem from_level_errors [DecidableEq Node] (lv lf : ListArg Node) (i : IntArg) (d : Nat) (tsc : Bool) :
    (lv = .notList → branchAndRootFromLevel H lv lf i d tsc = .error .typeError) ∧
    (lf = .notList → branchAndRootFromLevel H lv lf i d tsc = .error .typeError) := by
  constructor
  · rintro rfl; rfl
  · rintro rfl; cases lv <;> rfl

/-! ## `MerkleCache`

`CacheInv H c src`: the cache is initialised, `c.length ≤ len(src)`, and `c.level` is level
`c.depthHigher` of the tree of the first `c.length` source hashes (the last entry being the padded
root of the final, possibly partial, segment — the "tail segment rule" of `_extend_to`).
`depthHigher` is *not* constrained: it keeps the value chosen by `initialize` however far the
cache is later extended or truncated, and the theorems hold for every value. -/

/-- `initialize(n)` with `1 ≤ n ≤ len(src)` establishes the invariant (from any prior state) -/
theorem cache_init (c : Cache Node) (src : List Node) (n : Nat) (h1 : 1 ≤ n) (hn : n ≤ src.length) :
    (c.init H src n).2 = none ∧ CacheInv H (c.init H src n).1 src :=
  ⟨(init_inv H c src n h1 hn).1, (init_inv H c src n h1 hn).2.1⟩

/-- `_extend_to(n)` with `n ≤ len(src)` preserves the invariant and raises nothing -/
theorem cache_extend (c : Cache Node) (src : List Node) (n : Nat) (hinv : CacheInv H c src)
    (hn : n ≤ src.length) :
    (c.extendTo H src n).2 = none ∧ CacheInv H (c.extendTo H src n).1 src ∧
      (c.extendTo H src n).1.length = max c.length n :=
  ⟨(extendTo_inv H c src n hinv hn).1, (extendTo_inv H c src n hinv hn).2.1,
   (extendTo_inv H c src n hinv hn).2.2.1⟩

/-- `truncate(a)` preserves the invariant for **every** argument (wrong type, non-positive,
larger than the cache, unaligned …); when it acts the cache covers at most `a` hashes -/
theorem cache_truncate (c : Cache Node) (src : List Node) (a : IntArg) (hinv : CacheInv H c src) :
    CacheInv H (c.truncate a).1 src ∧
    (∀ l : Int, a = .int l → 0 < l →
      (c.truncate a).1.length ≤ c.length ∧ (c.truncate a).1.length ≤ l.toNat) := by
  refine ⟨truncate_inv H c src a hinv, ?_⟩
  rintro l rfl hl
  exact ⟨(truncate_length c l hl).1, (truncate_length c l hl).2.1⟩

/-- the source may change above the cached length (growth, or a re-organisation after
`truncate`) without breaking the invariant -/
theorem cache_source_change (c : Cache Node) (src src' : List Node) (hinv : CacheInv H c src)
    (hlen : c.length ≤ src'.length) (hsame : src'.take c.length = src.take c.length) :
    CacheInv H c src' :=
  hinv.congr H hlen hsame

/-- **C12 (cache).**  Under the invariant, `branch_and_root(length, index)` with
`0 < length ≤ len(src)` and `index < length` returns exactly what a from-scratch
`Merkle.branch_and_root(src[:length], index)` returns — the same branch and the same root, in
either format (and the same `ValueError` for a negative index) — whichever of the two paths
(direct / cached level) the code takes, and the invariant holds afterwards. -/
theorem cache_correct [DecidableEq Node] (c : Cache Node) (src : List Node) (l i : Int) (tsc : Bool)
    (hinv : CacheInv H c src) (hl0 : 0 < l) (hl : l.toNat ≤ src.length) (hi : i < l) :
    (c.query H src (.int l) (.int i) tsc).2 =
        Outcome.ofExcept (branchAndRoot H (src.take l.toNat) (.int i) none tsc) ∧
      CacheInv H (c.query H src (.int l) (.int i) tsc).1 src :=
  ⟨(query_correct H c src l i tsc hinv hl0 hl hi).1, (query_correct H c src l i tsc hinv hl0 hl hi).2.1⟩

/-- requests the cache rejects (wrong types, `length ≤ 0`, `index ≥ length`) or that wait on an
uninitialised cache leave it untouched -/
theorem cache_rejects [DecidableEq Node] (c : Cache Node) (src : List Node) (l i : IntArg) (tsc : Bool) :
    (l = .notInt → c.query H src l i tsc = (c, .raised .typeError)) ∧
    (∀ lv, l = .int lv → i = .notInt → c.query H src l i tsc = (c, .raised .typeError)) ∧
    (∀ lv iv, l = .int lv → i = .int iv → lv ≤ 0 ∨ iv ≥ lv →
      c.query H src l i tsc = (c, .raised .valueError)) ∧
    (∀ lv iv, l = .int lv → i = .int iv → 0 < lv → iv < lv → c.initialized = false →
      c.query H src l i tsc = (c, .blocked)) :=
  query_rejects H c src l i tsc

/-- **C12 (any order).**  Start from a fresh cache, initialise it, then run *any* sequence of
initialise / truncate / query operations (`CacheOp.OK`: lengths within the source; arguments of
the wrong type, non-positive lengths, out-of-range indices are all allowed).  A query made
afterwards for any `(length, index)` with `0 ≤ index < length ≤ len(src)`, in either format,
returns the branch and the merkle root of the first `length` source hashes, exactly as
`Merkle.branch_and_root` computes them from scratch. -/
theorem cache_any_sequence [DecidableEq Node] (src : List Node) (n : Nat) (ops : List CacheOp)
    (l idx : Nat) (tsc : Bool)
    (hn : 1 ≤ n ∧ n ≤ src.length) (hops : ∀ op ∈ ops, op.OK src.length)
    (hl : l ≤ src.length) (hi : idx < l) :
    ∃ br,
      ((({} : Cache Node).run H src (.init n :: ops)).query H src (.int l) (.int idx) tsc).2 =
        .ret (br, merkleRoot H (src.take l) (List.ne_nil_of_length_pos (by rw [List.length_take]; omega))) ∧
      branchAndRoot H (src.take l) (.int idx) none tsc =
        .ok (br, merkleRoot H (src.take l) (List.ne_nil_of_length_pos (by rw [List.length_take]; omega))) := by
  have hinv0 : CacheInv H (({} : Cache Node).step H src (.init n)) src :=
    (init_inv H {} src n hn.1 hn.2).2.1
  have hinv : CacheInv H (({} : Cache Node).run H src (.init n :: ops)) src :=
    run_inv H src ops _ hinv0 hops
  have hq := (query_correct H _ src (l : Int) (idx : Int) tsc hinv (by omega) (by simpa using hl) (by omega)).1
  have hlt : idx < (src.take l).length := by rw [List.length_take]; omega
  have hb := branchAndRoot_none H tsc (src.take l) idx hlt
  simp only [Int.toNat_natCast] at hq
  rw [hb] at hq
  exact ⟨_, hq, hb⟩

/-! ## non-vacuity: concrete instances (free term hash, so the structure is visible) -/

section Examples

inductive T where
  | l (n : Nat)
  | n (a b : T)
deriving DecidableEq, Repr

open T

/-- 3 leaves, index 2: the node is the last of an odd level; TSC marks it, classic repeats it -/
example :
    branchAndRoot T.n [l 0, l 1, l 2] (.int 2) none false
      = .ok ([.node (l 2), .node (n (l 0) (l 1))], n (n (l 0) (l 1)) (n (l 2) (l 2))) ∧
    branchAndRoot T.n [l 0, l 1, l 2] (.int 2) none true
      = .ok ([.star, .node (n (l 0) (l 1))], n (n (l 0) (l 1)) (n (l 2) (l 2))) ∧
    isDup T.n [l 0, l 1, l 2] 2 0 ∧ ¬ isDup T.n [l 0, l 1, l 2] 2 1 ∧
    rootFromProof T.n (l 2) [l 2, n (l 0) (l 1)] 2 = .ok (n (n (l 0) (l 1)) (n (l 2) (l 2))) ∧
    rootFromProof T.n (l 2) [l 2, n (l 0) (l 1)] 6 = .error .valueError := by decide

example : merkleRoot T.n [l 0, l 1, l 2] (by simp) = n (n (l 0) (l 1)) (n (l 2) (l 2)) := by
  simp [merkleRoot, pairs]

/-- `length` padding one above the natural length: root hashed with itself once -/
example :
    branchAndRoot T.n [l 0, l 1] (.int 1) (some (.int 2)) true
      = .ok ([.node (l 0), .star], n (n (l 0) (l 1)) (n (l 0) (l 1))) ∧
    branchAndRoot T.n [l 0, l 1] (.int 1) (some (.int 0)) true = .error .valueError ∧
    branchAndRoot T.n [l 0, l 1] (.int 2) none true = .error .valueError ∧
    branchAndRoot T.n ([] : List T) (.int 0) none true = .error .valueError := by decide

/-- a cache over 5 source hashes: initialise at 3 (depth 1), extend to 5 by a query through the
cached-level path, truncate to 3 (unaligned: the cache keeps 2), query again at length 4 -/
example :
    let src := [l 0, l 1, l 2, l 3, l 4]
    let c1 := (({} : Cache T).init T.n src 3).1
    let q1 := c1.query T.n src (.int 5) (.int 4) false
    let c2 := (q1.1.truncate (.int 3)).1
    let q2 := c2.query T.n src (.int 4) (.int 3) true
    c1.depthHigher = 1 ∧ c1.level = [n (l 0) (l 1), n (l 2) (l 2)] ∧
    q1.1.length = 5 ∧ q1.1.level = [n (l 0) (l 1), n (l 2) (l 3), n (l 4) (l 4)] ∧
    q1.2 = Outcome.ofExcept (branchAndRoot T.n src (.int 4) none false) ∧
    c2.length = 2 ∧ c2.level = [n (l 0) (l 1)] ∧
    q2.2 = Outcome.ofExcept (branchAndRoot T.n (src.take 4) (.int 3) none true) ∧
    q2.1.length = 4 := by dsimp only; decide

/-- the hypotheses of `cache_any_sequence` are satisfiable by a sequence that mixes everything -/
example : ∀ op ∈ [CacheOp.query (.int 5) (.int 4) false, .truncate (.int 3), .truncate .notInt,
      .query (.int 0) (.int 0) true, .init 2, .query (.int 4) (.int (-1)) false, .query .notInt (.int 1) false],
    op.OK 5 := by
  simp [CacheOp.OK]

end Examples

end EV.Merkle

import EV.Proofs.CrashRecover
import EV.Proofs.CrashObs

/-!
# C04 — A crash at any point while indexing forward loses nothing that was committed

"If the process dies at any instant during block processing or a flush (between or in the middle of
metadata file writes, between the history commit and the UTXO commit, before or after the state
record), then on restart the database opens, reports a height it had fully committed, and every
observable of the index equals that of a clean index of the chain to that height; resuming sync then
reaches exactly the same final state as an uninterrupted run."

Model: `flushDbs s fu` gives the ordered effect list of `DB.flush_dbs` (three file writes, the
history batch, and for a full flush the UTXO batch and the trailing direct `put` of the state);
`cuts es` is every state a process crash can leave behind (every prefix of the list, the last file
write of the prefix possibly torn at any record); `recover cfg p = openDbs cfg p false none` is
`DB.open_for_sync()` in a fresh process.  Block processing between flushes changes memory only
(`advance` returns the same `p`), so a crash there is the cut `[]` of the next flush.

What is proved here (for all states, all blocks, all cuts — no bound):
* `C04_cut_before_utxo_batch` — a crash anywhere before the UTXO commit restarts to exactly the
  committed state the flush started from (tables, state records, in-memory state, the files up to
  the committed lengths; `_read_tx_counts` succeeds iff it did);
* `C04_cut_after_utxo_batch` — a crash after the UTXO commit leaves the store of the complete flush;
* `C04_crash` — hence every cut restarts to the committed state before or after the flush, and
  `C04_crash_observables`: every answer of the read path after the restart is the answer a restart
  on one of those two stores gives (C01/C02 say what those answers are);
* `C04_recovery_idempotent` — dying inside recovery's own batches and restarting again gives the
  same system;
* `C04_counterexample_after_compaction` — the hypothesis `FlushPre.ufc` (history flush count not
  below the UTXO one) cannot be dropped: finding F9.

Hypotheses: `FlushPre s` (below, each field explained in `EV/Proofs/CrashFlush.lean`; non-vacuity
example at the end).  Tie to the code: suite `crash` — every cut of every flush of generated runs is
injected into the real `flush_dbs` on LevelDB, the real `open_for_sync()` is run, and the reopened
store is compared with `openDbs (applyEffects before cut)` and with the specification of the chain.
Trusted, not proved: LevelDB batches are atomic and durable; a killed process loses no completed
`write()`; `resuming` = the ordinary sync from the recovered state (C01/C02).
-/
namespace EV.Index

/-- **C04 (crash before the UTXO commit).**  For the effect list `es` of `flush_dbs` (history-only or
full) from a state satisfying `FlushPre`, and every cut `c` of it that does not contain the UTXO
batch — between or inside the three file writes, before or after the history batch — restarting on
the cut store gives the same committed index as restarting on the store the flush started from:
same `h`/`u`/undo tables and UTXO state record, the same history table row for row
(`clear_excess` removes exactly the rows the flush wrote), the same history flush count, the same
`DB.state`/history counters in memory, the same files up to the committed height / tx count, and
`_read_tx_counts` succeeds iff it did before, with the same result. -/
theorem C04_cut_before_utxo_batch (cfg : Cfg) {s : Sys} {fu : Bool} {es : List Effect} {m' : Mem}
    (hpre : FlushPre s) (hf : flushDbs s fu = some (es, m'))
    {c : List Effect} (hc : c ∈ cuts es) (hnu : ∀ e ∈ c, e.isUtxoBatch = false) :
    RecoversSame cfg s.p (applyEffects s.p c) :=
  cut_before_utxo_batch cfg hpre hf hc hnu

/-- in particular `History.get_txnums` is unchanged for every script hash and limit -/
theorem C04_cut_before_getTxnums (cfg : Cfg) {s : Sys} {fu : Bool} {es : List Effect} {m' : Mem}
    (hpre : FlushPre s) (hf : flushDbs s fu = some (es, m'))
    {c : List Effect} (hc : c ∈ cuts es) (hnu : ∀ e ∈ c, e.isUtxoBatch = false)
    (hx : HashX) (limit : Option Nat) :
    getTxnums (openStore cfg (applyEffects s.p c)) hx limit = getTxnums (openStore cfg s.p) hx limit := by
  unfold getTxnums
  rw [(cut_before_utxo_batch cfg hpre hf hc hnu).hist]

/-- the restarted memory (BlockProcessor/DB/History fields) is the same, or the restart fails on both -/
theorem C04_cut_before_memory (cfg : Cfg) {s : Sys} {fu : Bool} {es : List Effect} {m' : Mem}
    (hpre : FlushPre s) (hf : flushDbs s fu = some (es, m'))
    {c : List Effect} (hc : c ∈ cuts es) (hnu : ∀ e ∈ c, e.isUtxoBatch = false) :
    (recover cfg (applyEffects s.p c)).map (·.2.m) = (recover cfg s.p).map (·.2.m) :=
  recover_mem_eq (cut_before_utxo_batch cfg hpre hf hc hnu)

/-- **C04 (crash after the UTXO commit).**  Every cut that contains the UTXO batch leaves exactly
the store of the complete flush: the trailing direct `put` of the state record repeats what the
batch wrote (the model leaves out the wall-clock fields, which are all that differs in the code). -/
theorem C04_cut_after_utxo_batch {s : Sys} {fu : Bool} {es : List Effect} {m' : Mem}
    (hf : flushDbs s fu = some (es, m'))
    {c : List Effect} (hc : c ∈ cuts es) (hu : ∃ e ∈ c, e.isUtxoBatch = true) :
    applyEffects s.p c = applyEffects s.p es :=
  cut_after_utxo_batch hf hc hu

/-- **C04 (every crash point of every flush).**  Whatever the cut, the restart finds the committed
state from before the flush or the one after it — never a mixture. -/
theorem C04_crash (cfg : Cfg) {s : Sys} {fu : Bool} {es : List Effect} {m' : Mem}
    (hpre : FlushPre s) (hf : flushDbs s fu = some (es, m')) {c : List Effect} (hc : c ∈ cuts es) :
    RecoversSame cfg s.p (applyEffects s.p c) ∨ applyEffects s.p c = applyEffects s.p es := by
  by_cases hu : ∃ e ∈ c, e.isUtxoBatch = true
  · exact Or.inr (cut_after_utxo_batch hf hc hu)
  · refine Or.inl (cut_before_utxo_batch cfg hpre hf hc ?_)
    intro e he
    cases h : e.isUtxoBatch
    · rfl
    · exact (hu ⟨e, he, h⟩).elim

/-- **C04 (observables).**  Let `r0` be the system a restart gives on the store the flush started
from and `r1` the one on the store of the completed flush (C01/C02 describe their observables: those
of a clean index of the chain to `r0.m.dbst.height`, resp. to the flushed height).  Then for every
cut the restart succeeds and every read-path answer — `all_utxos`, `limited_history`,
`lookup_utxos`, `fs_tx_hashes_at_blockheight`, `read_headers`, `fs_tx_hash`, the state — equals
that of `r0` or that of `r1`.  `hmono`: the committed part of the tx-counts file is non-decreasing
(it is the cumulative tx count; part of C02's file invariant). -/
theorem C04_crash_observables (cfg : Cfg) {s : Sys} {fu : Bool} {es : List Effect} {m' : Mem}
    (hpre : FlushPre s) (hf : flushDbs s fu = some (es, m')) {c : List Effect} (hc : c ∈ cuts es)
    {e0 e1 : List Effect} {r0 r1 : Sys}
    (h0 : recover cfg s.p = some (e0, r0)) (h1 : recover cfg (applyEffects s.p es) = some (e1, r1))
    (hmono : r0.m.txCounts.Pairwise (· ≤ ·)) :
    ∃ e r, recover cfg (applyEffects s.p c) = some (e, r) ∧ (ObsEq r0 r ∨ r = r1) := by
  rcases C04_crash cfg hpre hf hc with h | h
  · obtain ⟨e, r, hr, hobs⟩ := obsEq_of_recoversSame h h0 hmono
    exact ⟨e, r, hr, Or.inl hobs⟩
  · exact ⟨e1, r1, by rw [h, h1], Or.inr rfl⟩

/-- **C04 (a second crash during recovery).**  `_open_dbs` itself writes two batches
(`clear_excess`, `clear_excess_undo_info`).  Dying at any cut of those and restarting again gives
the same system (store and memory) as the uninterrupted restart. -/
theorem C04_recovery_idempotent (cfg : Cfg) (p : Store) {es : List Effect} {r : Sys}
    (h : recover cfg p = some (es, r)) {c : List Effect} (hc : c ∈ cuts es) :
    (recover cfg (applyEffects p c)).map (·.2) = some r := by
  obtain ⟨rfl, _⟩ := recover_effects h
  have hr : (recover cfg p).map (·.2) = some r := by rw [h]; rfl
  rcases recover_cut_stores cfg p hc with e | e | e <;> rw [e]
  · exact hr
  · rw [recover_congr cfg (openStore_openStore1 cfg p) (openState_openStore1 p)]; exact hr
  · rw [recover_congr cfg (openStore_idem cfg p) (openState_openStore cfg p)]; exact hr

/-! ### F9: the hypothesis `FlushPre.ufc` is needed -/

/-- a database on which a history compaction finished (history flush count reset to 2) but the
    final `set_flush_count` was lost (UTXO state still says 4); block 1 indexed, not yet flushed -/
def exF9 : Sys :=
  { p := { ustate := some { height := 0, txCount := 1, flushCount := 4, tip := 10, utxoCount := 1 },
           hstate := some { flushCount := 2 },
           hist := [((7, 2), [0])],
           headers := [100], txcounts := [1], hashes := [50] },
    m := { st := { height := 1, txCount := 2, tip := 11, utxoCount := 2 },
           dbst := { height := 0, txCount := 1, flushCount := 4, tip := 10, utxoCount := 1 },
           fsHeight := 0, fsTxCount := 1, txCounts := [1, 2], headersU := [101], txHashesU := [[51]],
           unflushed := [(7, [1])], histFlush := 2 } }

/-- the effects of the history-only flush of `exF9` -/
def exF9es : List Effect :=
  [.writeHeaders 1 [101], .writeTxCounts 1 [2], .writeHashes 1 [51],
   .histBatch [] [((7, 3), [1])] { flushCount := 3 }]

/-- **F9 (C14 × C04).**  After a compaction whose last step was lost, a crash between the history
commit and the UTXO commit of the next flush is *not* repaired: `clear_excess` does not fire
(history count 3 ≤ stale UTXO count 4), the uncommitted row `(7, 3) ↦ [1]` survives the restart,
and the history of script hash 7 names tx number 1 although the index is at height 0 with one
transaction.  Every other field of `FlushPre` holds of this state. -/
theorem C04_counterexample_after_compaction :
    (flushDbs exF9 false).map (·.1) = some exF9es ∧
    exF9es ∈ cuts exF9es ∧ (∀ e ∈ exF9es, e.isUtxoBatch = false) ∧
    -- all of `FlushPre` but `ufc`
    exF9.m.histFlush = (exF9.p.hstate.getD {}).flushCount ∧
    (∀ e ∈ exF9.p.hist, e.1.2 ≤ exF9.m.histFlush) ∧
    (exF9.p.ustate.getD {}).height ≤ exF9.m.fsHeight ∧
    (exF9.p.hstate.getD {}).flushCount < (exF9.p.ustate.getD {}).flushCount ∧
    -- the restart before the flush vs. after the cut
    getTxnums (openStore ⟨0, 200⟩ exF9.p) 7 none = [0] ∧
    getTxnums (openStore ⟨0, 200⟩ (applyEffects exF9.p exF9es)) 7 none = [0, 1] ∧
    ((openStore ⟨0, 200⟩ (applyEffects exF9.p exF9es)).ustate.getD {}).txCount = 1 := by
  refine ⟨?_, self_mem_cuts _, by decide, by decide, by decide, by decide, by decide, ?_, ?_, ?_⟩
  · simp [flushDbs, exF9, exF9es, flushFsAsserts, flushFsEffects, histFlushEffect, sortByKey, hstateOf]
  · simp [getTxnums, openStore_eq, openStore1, clearExcessEffect, exF9, applyEffects]
  · simp [getTxnums, openStore_eq, openStore1, clearExcessEffect, exF9, exF9es, applyEffects,
      applyEffect, ainsert, aerase, List.mergeSort]
  · simp [openStore_eq, openStore1, clearExcessEffect, exF9, exF9es, applyEffects, applyEffect]

/-! ### non-vacuity: a state in the middle of a sync satisfies `FlushPre`, its flush has cuts of
every kind, and the restart after the cut "history batch committed, UTXO batch not" succeeds -/

/-- height 0 committed under flush count 1; a history-only flush (id 2) ran ahead for block 1;
    block 2 is indexed in memory -/
def exPre : Sys :=
  { p := { ustate := some { height := 0, txCount := 1, flushCount := 1, tip := 10, utxoCount := 1 },
           hstate := some { flushCount := 2 },
           hist := [((7, 2), [1]), ((7, 1), [0])],
           u := [((7, 0, 0), 50)], h := [((0, 0, 0), 7)],
           headers := [100, 101], txcounts := [1, 2], hashes := [50, 51] },
    m := { st := { height := 2, txCount := 3, tip := 12, utxoCount := 3 },
           dbst := { height := 0, txCount := 1, flushCount := 1, tip := 10, utxoCount := 1 },
           fsHeight := 1, fsTxCount := 2, txCounts := [1, 2, 3], headersU := [102], txHashesU := [[52]],
           cache := [((51, 0), ⟨7, 1, 60⟩), ((52, 0), ⟨7, 2, 70⟩)],
           unflushed := [(7, [2])], histFlush := 2 } }

example : FlushPre exPre :=
  ⟨by decide, by decide, by decide, by decide, by decide, by decide, by decide, by decide⟩

/-- its full flush has six effects and ten cuts (three of them torn one-record file writes) -/
example : (flushDbs exPre true).map (fun r => (r.1.length, (cuts r.1).length)) = some (6, 10) := by
  simp [flushDbs, exPre, flushFsAsserts, flushFsEffects, histFlushEffect, sortByKey, hstateOf,
    utxoBatchEffect, cuts, tornPrefixes]

end EV.Index

import EV.Proofs.System
import EV.Proofs.SystemTip
import EV.Proofs.SystemFix
import EV.Props.C07carrier

/-!
# C07 — subscribers converge on the true status and tip

Model: `EV/Model/System.lean` — the status / history-cache / tip coherence protocol between
`SessionManager` (`limited_history`, `_notify_sessions`, `_refresh_hsub_results`) and the `ElectrumX`
sessions (`hashX_subscribe`, `unsubscribe_hashX`, `address_status` with `mempool_statuses`, both loops
of `_notify_inner`, `headers_subscribe`), every coroutine cut at its history read and
`_notify_sessions` cut at its header read, tied to the real classes by suite `notifcache`.

The true status of a script hash is the pair (`confOf` = version of its confirmed history, `memOf` =
its mempool part).  Environment events and what they owe (ghost sets, see the model's header):
`change` / `mpChange` put the script hash into `carrier` (C07carrier + C08_touched + C20: every
confirmed / mempool change of a script hash is in a touched set that reaches `_notify_sessions`);
`flip x` — the `has_unconfirmed_inputs` flag of a mempool transaction of `x` flips because a PARENT
entered or left the mempool — is carried by NO touched set; it puts `x` into `flipped`, which only
a `_notify_sessions` call with `height_changed = true` empties.

**Environment assumption (E-flip), stated, not proved.**  The status string depends on a mempool
transaction only through `(tx hash, has_unconfirmed_inputs)`, and `has_unconfirmed_inputs` =
"some input's funding transaction is in the server's mempool view" (`MemPool.transaction_summaries`).
The view changes only in `_process_mempool`, which touches every script hash of every transaction it
adds or removes (C08_touched).  So a status changes without its script hash being touched only when
a parent enters / leaves the view while the child stays.  With a daemon whose mempool is closed
under unconfirmed ancestors (bitcoind: eviction, expiry and replacement remove descendants too) a
parent leaves without its child only by being confirmed and re-enters without it only by being
orphaned: together with a change of the chain.  `_process_mempool` runs at `mempool_height =
db_height`, so the refresh that makes the flip visible reports at the new chain's height H, and the
`_notify_sessions(H, ·)` call that Notifications makes once both sources have reported at H
(C20_complete) has `height_changed = true` (`H != notified_height`, or the reorg counter moved: F4).
(A parent evicted from the daemon's mempool while the child stays would flip the child's flag with
no chain change: `_process_mempool` touches the parent's script hashes only.  No faithful daemon does
that — `SimDaemon.mp_evict` evicts descendants as well — so it is an assumption, not a finding.)

`Flags` default (`{}`) is the current code; the pinned earlier behaviours `{checkCount := false}` (F5),
`{batch := true}` (F15), `{recheck := false}` (no second loop: the shape of seeded change C07-1),
`{cmpLive := false}` (stale-copy comparison, fixed in ee7f7d3) and `{raiseOnRace := true}` (the raising
`_refresh_hsub_results`) are refuted below.

All theorems quantify over *every* event list (any interleaving of confirmed / mempool changes,
parent flips, blocks, back-outs, reorg signals, notifications, subscribes, unsubscribes, session
closes, header subscriptions, queries, cache evictions, worker-thread reads of histories and headers
and their completions; any number of sessions and script hashes; no bound on anything).
-/
namespace EV.System

/-- **C07 (invariant).**  In every reachable state, for every connected session `s` and every script
hash `hx` it is subscribed to, one of:
 * a recomputation of `(s, hx)` is pending inside a running `_notify_inner` (`Pending`);
 * a full recomputation for every subscriber is owed (`Owed`: still carried, or handed to a
   `_notify_sessions` call suspended in its header read; the ghost sets `lost` / `suppressed` that
   `Owed` also mentions are empty for the current code: `C07_fixed`);
 * the status the client last received has the current confirmed version and either both it and the
   truth have no mempool part, or `mempool_statuses` records exactly that status and its mempool
   part is current, or a re-check is owed (`OwedF`: a flip awaiting its height-changing
   notification), or the second loop of a running `_notify_inner` of `s` is still to come. -/
theorem C07_invariant (n m : Nat) (evs : List Ev) (s hx : Nat)
    (ha : aliveOf (run {} (init n m) evs) s = true)
    (hs : hx ∈ subsOf (run {} (init n m) evs) s) :
    HeldOK (run {} (init n m) evs) s hx :=
  (inv_run _ evs (inv_init n m)).held s hx ha hs

/-- **C07 (convergence).**  For every schedule, in every *quiescent* state reached (`Quiet`, defined
and mapped to the property's quiescence in `EV/Proofs/System.lean`), for every connected session and
every script hash it is subscribed to: the status the client last received — from the subscribe
reply or a later notification — is the protocol status of the current chain and mempool. -/
theorem C07_converge (n m : Nat) (evs : List Ev) (hq : Quiet (run {} (init n m) evs)) :
    ∀ s hx, aliveOf (run {} (init n m) evs) s = true → hx ∈ subsOf (run {} (init n m) evs) s →
      heldOf (run {} (init n m) evs) s hx = some (curOf (run {} (init n m) evs) hx) :=
  (quiescent_current _ (inv_run _ evs (inv_init n m)) hq
    (fix_run {} rfl rfl rfl rfl rfl _ evs (inv_init n m) (fixInv_init n m)).nolost
    (fix_run {} rfl rfl rfl rfl rfl _ evs (inv_init n m) (fixInv_init n m)).nosupp).1

/-- **C07 (tip).**  In every quiescent state `hsub_results` is the current tip (height and header),
`notified_height` is the DB height, and the last header every connected headers-subscriber received
(subscribe reply or notification) is the current tip.  Holds for all flags. -/
theorem C07_tip (f : Flags) (n m : Nat) (evs : List Ev)
    (hd : (run f (init n m) evs).tipDone = true) (hr : (run f (init n m) evs).hreads = []) :
    (run f (init n m) evs).hsub = tipOf (run f (init n m) evs) ∧
    (run f (init n m) evs).notifiedHeight = dbHeight (run f (init n m) evs) ∧
    ∀ s, aliveOf (run f (init n m) evs) s = true → hdrSubOf (run f (init n m) evs) s = true →
      heldHdrOf (run f (init n m) evs) s = some (tipOf (run f (init n m) evs)) :=
  quiescent_tip _ (tipInv_run f _ evs (tipInv_init n m)) hd hr

/-- **C07 (tip, invariant).**  In every reachable state the last header a connected
headers-subscriber received is `hsub_results` (no header notification is ever skipped or overtaken). -/
theorem C07_tip_invariant (f : Flags) (n m : Nat) (evs : List Ev) (s : Nat)
    (ha : aliveOf (run f (init n m) evs) s = true) (hs : hdrSubOf (run f (init n m) evs) s = true) :
    heldHdrOf (run f (init n m) evs) s = some (run f (init n m) evs).hsub :=
  (tipInv_run f _ evs (tipInv_init n m)).heldCur s ha hs

/-- **C07 (queryable).**  A notification carrying a height is never sent before that block is
queryable: in every reachable state `hsub_results` and every header a client holds is the genesis
block or the (height, header) of a block at the moment the DB made it readable — `advance d` is the
flush that `C01sync_told` shows to precede `Notifications.on_block`, and the header is read from the
DB at `min(height, db height)` (F16), so this needs no assumption on the heights `_notify_sessions`
is called with. -/
theorem C07_queryable (f : Flags) (n m : Nat) (evs : List Ev) (p : Nat × Nat)
    (hp : p = (run f (init n m) evs).hsub ∨ ∃ s, heldHdrOf (run f (init n m) evs) s = some p) :
    p = (0, 0) ∨ ∃ pre post, evs = pre ++ .advance p.2 :: post ∧
      (run f (init n m) pre).chain.length = p.1 := by
  apply seen_sound f n m evs p
  have h := tipInv_run f _ evs (tipInv_init n m)
  rcases hp with rfl | ⟨s, hs⟩
  · exact h.hsubSeen
  · exact h.heldSeen s p hs

/-- **Nothing is lost or suppressed by the current code.**  In every reachable state: no notification
has been lost by `_refresh_hsub_results` raising (it always reads again), no needed send has been hidden
by the second loop's comparison, and `mempool_statuses` records only statuses the client holds.  (This
is why `Quiet` need not mention the ghost sets `lost` and `suppressed`.) -/
theorem C07_fixed (n m : Nat) (evs : List Ev) :
    (run {} (init n m) evs).suppressed = [] ∧ (run {} (init n m) evs).lost = [] ∧
    (∀ s x v, lookup x (msOf (run {} (init n m) evs) s) = some v →
      heldOf (run {} (init n m) evs) s x = some v) := by
  have hF := fix_run {} rfl rfl rfl rfl rfl _ evs (inv_init n m) (fixInv_init n m)
  exact ⟨hF.nosupp, hF.nolost, hF.msHeld⟩

/-! ### non-vacuity -/

/-- subscribe, then a change is notified and recomputed: a quiescent state in which the session
holds version 1 -/
def exConverge : List Ev :=
  [.subscribe 0 0, .readDo 0, .readFinish 0, .change 0, .notify 0 [0], .readDo 0, .readFinish 0]

example : (run {} (init 1 2) exConverge).carrier = [] ∧ (run {} (init 1 2) exConverge).tasks = [] ∧
    (run {} (init 1 2) exConverge).flipped = [] ∧ (run {} (init 1 2) exConverge).lost = [] ∧
    (run {} (init 1 2) exConverge).suppressed = [] ∧ (run {} (init 1 2) exConverge).hreads = [] ∧
    (run {} (init 1 2) exConverge).tipDone = true ∧
    aliveOf (run {} (init 1 2) exConverge) 0 = true ∧ 0 ∈ subsOf (run {} (init 1 2) exConverge) 0 ∧
    heldOf (run {} (init 1 2) exConverge) 0 0 = some (1, 0) ∧ curOf (run {} (init 1 2) exConverge) 0 = (1, 0) := by
  decide +kernel

/-- the `Pending` disjunct of the invariant is inhabited: `_notify_inner` waiting for its read -/
example : Pending (run {} (init 1 2) (exConverge.take 5)) 0 0 ∧
    heldOf (run {} (init 1 2) (exConverge.take 5)) 0 0 = some (0, 0) ∧
    curOf (run {} (init 1 2) (exConverge.take 5)) 0 = (1, 0) ∧
    (run {} (init 1 2) (exConverge.take 5)).carrier = [] := by
  refine ⟨⟨⟨0, 1, none, .notify 0 [] []⟩, ?_, Or.inl ⟨[], [], rfl, Or.inl rfl⟩⟩, ?_⟩
  · decide +kernel
  · decide +kernel

/-- a flip handled by the second loop: the child's parent is orphaned by a reorg (mempool part
2 → 1, not carried); the height-changing notification re-checks `mempool_statuses` and the client is
sent the new status; a headers-subscriber is sent the new tip.  A quiescent state. -/
def exFlip : List Ev :=
  [.mpChange 0 2, .notify 0 [0], .subscribe 0 0, .readDo 0, .readFinish 0, .subscribeHeaders 0,
   .backup, .reorgSignal, .flip 0 1, .advance 5, .notify 1 [], .hdrDo 0, .hdrFinish 0]

example : (run {} (init 1 2) (exFlip.take 10)).flipped = [0] ∧
    heldOf (run {} (init 1 2) (exFlip.take 10)) 0 0 = some (0, 2) ∧
    curOf (run {} (init 1 2) (exFlip.take 10)) 0 = (0, 1) ∧
    lookup 0 (msOf (run {} (init 1 2) (exFlip.take 10)) 0) = some (0, 2) := by
  decide +kernel

example : (run {} (init 1 2) exFlip).carrier = [] ∧ (run {} (init 1 2) exFlip).tasks = [] ∧
    (run {} (init 1 2) exFlip).flipped = [] ∧ (run {} (init 1 2) exFlip).lost = [] ∧
    (run {} (init 1 2) exFlip).suppressed = [] ∧ (run {} (init 1 2) exFlip).hreads = [] ∧
    (run {} (init 1 2) exFlip).tipDone = true ∧
    heldOf (run {} (init 1 2) exFlip) 0 0 = some (0, 1) ∧ curOf (run {} (init 1 2) exFlip) 0 = (0, 1) ∧
    (run {} (init 1 2) exFlip).hsub = (1, 5) ∧ tipOf (run {} (init 1 2) exFlip) = (1, 5) ∧
    heldHdrOf (run {} (init 1 2) exFlip) 0 = some (1, 5) := by
  decide +kernel

/-! ### the pinned behaviours violate the property -/

/-- F5 schedule: the history read of `subscribe` is in flight while the change is notified -/
def exStaleSubscribe : List Ev :=
  [.subscribe 0 0, .readDo 0, .change 0, .notify 0 [0], .readFinish 0]

/-- **C07 fails without the notification-count check (F5).**  `hashX_subscribe` whose history read
is performed before a change and delivered after the change was notified: the stale read is
accepted, the subscription is stored too late to be notified; at rest the session holds version 0
while the current version is 1. -/
theorem C07_counterexample_stale_subscribe :
    (run {checkCount := false} (init 1 2) exStaleSubscribe).carrier = [] ∧
    (run {checkCount := false} (init 1 2) exStaleSubscribe).tasks = [] ∧
    (run {checkCount := false} (init 1 2) exStaleSubscribe).flipped = [] ∧
    (run {checkCount := false} (init 1 2) exStaleSubscribe).lost = [] ∧
    (run {checkCount := false} (init 1 2) exStaleSubscribe).suppressed = [] ∧
    (run {checkCount := false} (init 1 2) exStaleSubscribe).hreads = [] ∧
    (run {checkCount := false} (init 1 2) exStaleSubscribe).tipDone = true ∧
    0 ∈ subsOf (run {checkCount := false} (init 1 2) exStaleSubscribe) 0 ∧
    heldOf (run {checkCount := false} (init 1 2) exStaleSubscribe) 0 0 = some (0, 0) ∧
    curOf (run {checkCount := false} (init 1 2) exStaleSubscribe) 0 = (1, 0) := by
  decide +kernel

/-- the same schedule on the current code: the read is repeated, the subscription not yet stored -/
example : (run {} (init 1 2) exStaleSubscribe).tasks = [⟨0, 1, none, .sub 0 0⟩] ∧
    subsOf (run {} (init 1 2) exStaleSubscribe) 0 = [] := by
  decide +kernel

/-- F15 schedule: two subscriptions; `notify [0,1]` computes the status of 0 and waits for the
history of 1; `change 0; notify [0]` is computed and delivered; then the first notification finishes -/
def exOvertaken : List Ev :=
  [.subscribe 0 0, .readDo 0, .readFinish 0, .subscribe 0 1, .readDo 0, .readFinish 0,
   .change 0, .change 1, .notify 0 [0, 1], .readDo 0, .readFinish 0,
   .change 0, .notify 0 [0], .readDo 1, .readFinish 0,
   .readDo 0, .readFinish 0, .readDo 0, .readFinish 0]

/-- **C07 fails when `_notify_inner` sends all statuses after computing all of them (F15).**  A later
notification overtakes an earlier one that still waits for another history; the earlier one then
sends the older status last: at rest the session holds version 1 of script hash 0 while the current
version is 2. -/
theorem C07_counterexample_overtaken :
    (run {batch := true} (init 1 2) exOvertaken).carrier = [] ∧
    (run {batch := true} (init 1 2) exOvertaken).tasks = [] ∧
    (run {batch := true} (init 1 2) exOvertaken).flipped = [] ∧
    (run {batch := true} (init 1 2) exOvertaken).lost = [] ∧
    (run {batch := true} (init 1 2) exOvertaken).suppressed = [] ∧
    (run {batch := true} (init 1 2) exOvertaken).hreads = [] ∧
    (run {batch := true} (init 1 2) exOvertaken).tipDone = true ∧
    0 ∈ subsOf (run {batch := true} (init 1 2) exOvertaken) 0 ∧
    heldOf (run {batch := true} (init 1 2) exOvertaken) 0 0 = some (1, 0) ∧
    curOf (run {batch := true} (init 1 2) exOvertaken) 0 = (2, 0) := by
  decide +kernel

/-- the same schedule on the current code ends with the current version -/
example : (run {} (init 1 2) exOvertaken).carrier = [] ∧ (run {} (init 1 2) exOvertaken).tasks = [] ∧
    heldOf (run {} (init 1 2) exOvertaken) 0 0 = some (2, 0) ∧ curOf (run {} (init 1 2) exOvertaken) 0 = (2, 0) := by
  decide +kernel

/-- **C07 fails without the `mempool_statuses` re-check** (no second loop; seeded change C07-1 has
this effect for a script hash whose mempool transactions have confirmed parents).  Schedule `exFlip`:
the flip caused by the reorg reaches nobody; at rest the session holds mempool part 2 while the
protocol status has mempool part 1. -/
theorem C07_counterexample_flip_lost :
    (run {recheck := false} (init 1 2) exFlip).carrier = [] ∧
    (run {recheck := false} (init 1 2) exFlip).tasks = [] ∧
    (run {recheck := false} (init 1 2) exFlip).flipped = [] ∧
    (run {recheck := false} (init 1 2) exFlip).lost = [] ∧
    (run {recheck := false} (init 1 2) exFlip).suppressed = [] ∧
    (run {recheck := false} (init 1 2) exFlip).hreads = [] ∧
    (run {recheck := false} (init 1 2) exFlip).tipDone = true ∧
    aliveOf (run {recheck := false} (init 1 2) exFlip) 0 = true ∧
    0 ∈ subsOf (run {recheck := false} (init 1 2) exFlip) 0 ∧
    heldOf (run {recheck := false} (init 1 2) exFlip) 0 0 = some (0, 2) ∧
    curOf (run {recheck := false} (init 1 2) exFlip) 0 = (0, 1) := by
  decide +kernel

/-- The stale-copy schedule.  Session 0 is subscribed to 1 (mempool part 2) and 0 (mempool part 1: a
child of an unconfirmed parent); the cached history of 1 has been evicted.  `notify 1 []` (height
changed) starts the second loop over the copy `{1 ↦ (0,2), 0 ↦ (0,1)}` and suspends on the history of
1.  The parent confirms (`flip 0 2`), the client re-subscribes 0 and is told `(0,2)`; a reorg orphans
the parent again (`flip 0 1`).  The suspended loop resumes: the status of 0 is `(0,1)` = the value in
its copy, so nothing is sent — but `(0,1)` is stored in `mempool_statuses`, so the reorg's own
height-changing notification finds "no change" as well. -/
def exStaleCopy : List Ev :=
  [.mpChange 1 2, .mpChange 0 1, .notify 0 [0, 1],
   .subscribe 0 1, .readDo 0, .readFinish 0, .subscribe 0 0, .readDo 0, .readFinish 0,
   .evict 1, .advance 1, .notify 1 [], .hdrDo 0, .hdrFinish 0,
   .flip 0 2, .subscribe 0 0, .flip 0 1, .readDo 0, .readFinish 0,
   .reorgSignal, .notify 1 [], .hdrDo 0, .hdrFinish 0]

/-- **C07 fails for the pinned second-loop comparison (stale copy; fixed in ee7f7d3).**  At the end of
`exStaleCopy` nothing is carried, flipped, lost or in flight and the tip has been notified, yet the
client holds `(0,2)` while the protocol status is `(0,1)`; the ghost set `suppressed` records the
two comparisons that hid it. -/
theorem C07_counterexample_stale_copy :
    (run {cmpLive := false} (init 1 2) exStaleCopy).carrier = [] ∧ (run {cmpLive := false} (init 1 2) exStaleCopy).tasks = [] ∧
    (run {cmpLive := false} (init 1 2) exStaleCopy).flipped = [] ∧ (run {cmpLive := false} (init 1 2) exStaleCopy).lost = [] ∧
    (run {cmpLive := false} (init 1 2) exStaleCopy).hreads = [] ∧ (run {cmpLive := false} (init 1 2) exStaleCopy).tipDone = true ∧
    (run {cmpLive := false} (init 1 2) exStaleCopy).suppressed = [0, 0] ∧
    aliveOf (run {cmpLive := false} (init 1 2) exStaleCopy) 0 = true ∧ 0 ∈ subsOf (run {cmpLive := false} (init 1 2) exStaleCopy) 0 ∧
    heldOf (run {cmpLive := false} (init 1 2) exStaleCopy) 0 0 = some (0, 2) ∧
    curOf (run {cmpLive := false} (init 1 2) exStaleCopy) 0 = (0, 1) := by
  decide +kernel

/-- the same schedule on the current code: the resumed loop compares with the live value `(0,2)`,
sends `(0,1)`, and the state is quiescent with the current status -/
example : (run {} (init 1 2) exStaleCopy).carrier = [] ∧
    (run {} (init 1 2) exStaleCopy).tasks = [] ∧
    (run {} (init 1 2) exStaleCopy).flipped = [] ∧
    (run {} (init 1 2) exStaleCopy).hreads = [] ∧
    (run {} (init 1 2) exStaleCopy).tipDone = true ∧
    heldOf (run {} (init 1 2) exStaleCopy) 0 0 = some (0, 1) ∧
    curOf (run {} (init 1 2) exStaleCopy) 0 = (0, 1) := by
  decide +kernel

/-- The raising refresh.  The DB is lowered while the header is read (IndexError) and is back at that
height when the error reaches `_refresh_hsub_results`; the pinned code then did
`if height <= self.db.state.height: raise`. -/
def exRaised : List Ev :=
  [.subscribe 0 0, .readDo 0, .readFinish 0, .advance 1, .change 0, .notify 1 [0],
   .backup, .hdrDo 0, .advance 2, .hdrFinish 0]

/-- **C07 fails when `_refresh_hsub_results` raises on that race.**  The `_notify_sessions` call — its
touched set `[0]` — is lost (`lost`; in the server the exception also kills the calling task: the
mempool refresh or the block processor): nothing is carried or in flight any more, and the client
keeps version 0 of a history whose version is 1. -/
theorem C07_counterexample_refresh_raised :
    (run {raiseOnRace := true} (init 1 2) exRaised).lost = [0] ∧
    (run {raiseOnRace := true} (init 1 2) exRaised).carrier = [] ∧
    (run {raiseOnRace := true} (init 1 2) exRaised).flipped = [] ∧
    (run {raiseOnRace := true} (init 1 2) exRaised).tasks = [] ∧
    (run {raiseOnRace := true} (init 1 2) exRaised).hreads = [] ∧
    aliveOf (run {raiseOnRace := true} (init 1 2) exRaised) 0 = true ∧
    0 ∈ subsOf (run {raiseOnRace := true} (init 1 2) exRaised) 0 ∧
    heldOf (run {raiseOnRace := true} (init 1 2) exRaised) 0 0 = some (0, 0) ∧
    curOf (run {raiseOnRace := true} (init 1 2) exRaised) 0 = (1, 0) := by
  decide +kernel

/-- the same schedule on the current code: the header is read again at the clamped height; once that
read and the recomputation it releases are through, the client holds version 1 and `hsub_results` is
the block the DB holds at height 1 -/
example : (run {} (init 1 2) exRaised).hreads = [⟨1, none, [0], []⟩] ∧
    (run {} (init 1 2) exRaised).lost = [] ∧
    (run {} (init 1 2) (exRaised ++ [.hdrDo 0, .hdrFinish 0, .readDo 0, .readFinish 0])).hreads = [] ∧
    (run {} (init 1 2) (exRaised ++ [.hdrDo 0, .hdrFinish 0, .readDo 0, .readFinish 0])).tasks = [] ∧
    (run {} (init 1 2) (exRaised ++ [.hdrDo 0, .hdrFinish 0, .readDo 0, .readFinish 0])).carrier = [] ∧
    (run {} (init 1 2) (exRaised ++ [.hdrDo 0, .hdrFinish 0, .readDo 0, .readFinish 0])).hsub = (1, 2) ∧
    heldOf (run {} (init 1 2) (exRaised ++ [.hdrDo 0, .hdrFinish 0, .readDo 0, .readFinish 0])) 0 0 = some (1, 0) ∧
    curOf (run {} (init 1 2) (exRaised ++ [.hdrDo 0, .hdrFinish 0, .readDo 0, .readFinish 0])) 0 = (1, 0) := by
  decide +kernel

/-- the hypothesis `tipDone` of `C07_tip` is needed: two `_notify_sessions` calls for different
heights whose header reads complete out of order leave `hsub_results` at the older block.  (The
environment never produces this: while one call is in progress Notifications emits no call for
another height — `tipDone` is what records it.) -/
example :
    (run {} (init 1 2) [.subscribeHeaders 0, .advance 1, .notify 1 [], .advance 2, .notify 2 [],
      .hdrDo 0, .hdrDo 0, .hdrFinish 1, .hdrFinish 0]).hreads = [] ∧
    (run {} (init 1 2) [.subscribeHeaders 0, .advance 1, .notify 1 [], .advance 2, .notify 2 [],
      .hdrDo 0, .hdrDo 0, .hdrFinish 1, .hdrFinish 0]).tipDone = false ∧
    (run {} (init 1 2) [.subscribeHeaders 0, .advance 1, .notify 1 [], .advance 2, .notify 2 [],
      .hdrDo 0, .hdrDo 0, .hdrFinish 1, .hdrFinish 0]).hsub = (1, 1) ∧
    tipOf (run {} (init 1 2) [.subscribeHeaders 0, .advance 1, .notify 1 [], .advance 2, .notify 2 [],
      .hdrDo 0, .hdrDo 0, .hdrFinish 1, .hdrFinish 0]) = (2, 2) := by
  decide +kernel

end EV.System

import EV.Proofs.System
import EV.Props.C07carrier

/-!
# C07 — subscribers converge on the true status

Model: `EV/Model/System.lean` — the status / history-cache coherence protocol between
`SessionManager` (`limited_history`, `_notify_sessions`) and the `ElectrumX` sessions
(`hashX_subscribe`, `_notify_inner`), every coroutine cut at its history read, tied to the real
classes by suite `notifcache`.  The true state of a script hash is a version number (`curOf`); a
change bumps it and puts the script hash into the `carrier` (that every change is carried is what
C01–C03, C08 and C20 justify); `_notify_sessions` takes script hashes out of the carrier.

`Flags` default (`{}`) is the current code; `{checkCount := false}` (F5) and `{batch := true}` (F15)
are the pinned earlier behaviours, for which the property is refuted below.

All theorems quantify over *every* event list (any interleaving of changes, notifications,
subscriptions, queries, worker-thread reads and their completions; no bound on anything).
-/
namespace EV.System

/-- **C07 (invariant).**  In every reachable state, for every session `s` and every script hash
`hx` it is subscribed to: either the status the session was last sent belongs to a version that is
current or whose change is still being carried towards `_notify_sessions`, or a recomputation of
`(s, hx)` is pending inside a running `_notify_inner`. -/
theorem C07_invariant (n m : Nat) (evs : List Ev) (s hx : Nat)
    (hs : hx ∈ subsOf (run {} (init n m) evs) s) :
    (∃ v, heldOf (run {} (init n m) evs) s hx = some v ∧
        (v = curOf (run {} (init n m) evs) hx ∨ hx ∈ (run {} (init n m) evs).carrier)) ∨
      Pending (run {} (init n m) evs) s hx :=
  (inv_run _ evs (inv_init n m)).held s hx hs

/-- **C07 (convergence).**  For every schedule, in every *quiescent* state reached (no change still
carried, no history read or `_notify_inner` in flight), for every session and every script hash it is
subscribed to: the status last sent to the session is that of the current version. -/
theorem C07_converge (n m : Nat) (evs : List Ev)
    (hc : (run {} (init n m) evs).carrier = []) (ht : (run {} (init n m) evs).tasks = []) :
    ∀ s hx, hx ∈ subsOf (run {} (init n m) evs) s →
      heldOf (run {} (init n m) evs) s hx = some (curOf (run {} (init n m) evs) hx) :=
  (quiescent_current _ (inv_run _ evs (inv_init n m)) hc ht).1

/-! ### non-vacuity -/

/-- subscribe, then a change is notified and recomputed: a quiescent state in which the session
holds version 1 -/
def exConverge : List Ev :=
  [.subscribe 0 0, .readDo 0, .readFinish 0, .change 0, .notify [0], .readDo 0, .readFinish 0]

example : (run {} (init 1 2) exConverge).carrier = [] ∧ (run {} (init 1 2) exConverge).tasks = [] ∧
    0 ∈ subsOf (run {} (init 1 2) exConverge) 0 ∧
    heldOf (run {} (init 1 2) exConverge) 0 0 = some 1 ∧ curOf (run {} (init 1 2) exConverge) 0 = 1 := by
  rw [run_eq_foldl_stepS _ _ _ (by decide)]
  decide +kernel

/-- the `Pending` disjunct of the invariant is inhabited: `_notify_inner` waiting for its read -/
example : Pending (run {} (init 1 2) (exConverge.take 5)) 0 0 ∧
    heldOf (run {} (init 1 2) (exConverge.take 5)) 0 0 = some 0 ∧
    curOf (run {} (init 1 2) (exConverge.take 5)) 0 = 1 ∧
    (run {} (init 1 2) (exConverge.take 5)).carrier = [] := by
  refine ⟨⟨⟨0, 1, none, .notify 0 [] []⟩, ?_, [], [], rfl, Or.inl rfl⟩, ?_⟩
  · rw [run_eq_foldl_stepS _ _ _ (by decide)]; decide +kernel
  · rw [run_eq_foldl_stepS _ _ _ (by decide)]; decide +kernel

/-! ### the pinned behaviours violate the property -/

/-- F5 schedule: the history read of `subscribe` is in flight while the change is notified -/
def exStaleSubscribe : List Ev :=
  [.subscribe 0 0, .readDo 0, .change 0, .notify [0], .readFinish 0]

/-- **C07 fails without the notification-count check (F5).**  `hashX_subscribe` whose history read
is performed before a change and delivered after the change was notified: the stale read is
accepted, the subscription is stored too late to be notified; at rest the session holds version 0
while the current version is 1. -/
theorem C07_counterexample_stale_subscribe :
    (run {checkCount := false} (init 1 2) exStaleSubscribe).carrier = [] ∧
    (run {checkCount := false} (init 1 2) exStaleSubscribe).tasks = [] ∧
    0 ∈ subsOf (run {checkCount := false} (init 1 2) exStaleSubscribe) 0 ∧
    heldOf (run {checkCount := false} (init 1 2) exStaleSubscribe) 0 0 = some 0 ∧
    curOf (run {checkCount := false} (init 1 2) exStaleSubscribe) 0 = 1 := by
  rw [run_eq_foldl_stepS _ _ _ (by decide)]
  decide +kernel

/-- the same schedule on the current code: the read is repeated, the subscription not yet stored -/
example : (run {} (init 1 2) exStaleSubscribe).tasks = [⟨0, 1, none, .sub 0 0⟩] ∧
    subsOf (run {} (init 1 2) exStaleSubscribe) 0 = [] := by
  rw [run_eq_foldl_stepS _ _ _ (by decide)]
  decide +kernel

/-- F15 schedule: two subscriptions; `notify [0,1]` computes the status of 0 and waits for the
history of 1; `change 0; notify [0]` is computed and delivered; then the first notification finishes -/
def exOvertaken : List Ev :=
  [.subscribe 0 0, .readDo 0, .readFinish 0, .subscribe 0 1, .readDo 0, .readFinish 0,
   .change 0, .change 1, .notify [0, 1], .readDo 0, .readFinish 0,
   .change 0, .notify [0], .readDo 1, .readFinish 0,
   .readDo 0, .readFinish 0, .readDo 0, .readFinish 0]

/-- **C07 fails when `_notify_inner` sends all statuses after computing all of them (F15).**  A later
notification overtakes an earlier one that still waits for another history; the earlier one then
sends the older status last: at rest the session holds version 1 of script hash 0 while the current
version is 2. -/
theorem C07_counterexample_overtaken :
    (run {batch := true} (init 1 2) exOvertaken).carrier = [] ∧
    (run {batch := true} (init 1 2) exOvertaken).tasks = [] ∧
    0 ∈ subsOf (run {batch := true} (init 1 2) exOvertaken) 0 ∧
    heldOf (run {batch := true} (init 1 2) exOvertaken) 0 0 = some 1 ∧
    curOf (run {batch := true} (init 1 2) exOvertaken) 0 = 2 := by
  rw [run_eq_foldl_stepS _ _ _ (by decide)]
  decide +kernel

/-- the same schedule on the current code ends with the current version -/
example : (run {} (init 1 2) exOvertaken).carrier = [] ∧ (run {} (init 1 2) exOvertaken).tasks = [] ∧
    heldOf (run {} (init 1 2) exOvertaken) 0 0 = some 2 ∧ curOf (run {} (init 1 2) exOvertaken) 0 = 2 := by
  rw [run_eq_foldl_stepS _ _ _ (by decide)]
  decide +kernel

end EV.System

import EV.Props.C01sync
import EV.Props.C01run
import EV.Proofs.IndexHistInv

/-!
# C02 — Confirmed history of every script hash is complete, ordered and duplicate-free

Specification: `Spec.historyOf S hx` = the tx numbers `n` (ascending = chain order: height, then
position in block) whose transaction spends an output paying to `hx` or creates a spendable output
paying to `hx`; by construction each number occurs once.  Model: `History.add_unflushed / flush /
backup / get_txnums` on rows keyed `(hashX, flush id)`.  Tie to the code: suite `index`
(history rows and the unflushed dict are compared after every operation; `limited_history` is
compared with the specification for limits 0, 1, k−1, k, k+1, None at every flushed state).
-/
namespace EV.Index
open EV.Spec

/-- **C02 (the specification's history is ordered and duplicate-free).** -/
theorem C02_spec_ordered (S : St) (hx : HashX) : (historyOf S hx).Pairwise (· < ·) :=
  historyOf_pairwise S hx

/-- **C02 (advance).**  `add_unflushed` with the per-tx script-hash lists of a block (which
`C01_block` shows are the specification's touched lists; a tx touching one script hash through
several inputs and outputs is recorded once: `set(hashXs)`) keeps, for every script hash,
`rows in flush-id order ++ unflushed tail = specification history`. -/
theorem C02_advance {S : St} {p : Store} {unf : List (HashX × List Nat)} {fc : Nat}
    (hinv : HistInv S p unf fc) (hlen : S.touched.length = S.txs.length)
    (act height : Nat) (txs : List Tx) :
    HistInv (txs.foldl (applyTx act height) S) p
      (addUnflushed unf (blockTouched act height S txs) S.txs.length) fc :=
  histInv_advance hinv hlen act height txs

/-- **C02 (every flush, history-only or full, however many).**  `History.flush` writes the
unflushed tails under flush id `flush_count + 1`; because every existing id is `≤ flush_count`
the new row of each script hash lands last in key order, so the invariant is kept with an empty
tail — a history may be split over arbitrarily many rows. -/
theorem C02_flush {S : St} (s : Sys) (hinv : HistInv S s.p s.m.unflushed s.m.histFlush) :
    HistInv S (applyEffect s.p (histFlushEffect s)) [] (s.m.histFlush + 1) :=
  histInv_flush s hinv

/-- **C02/C03 (back-out).**  `History.backup(touched, tx_count)` with a touched set containing
every script hash the block touched (`C03_undo_exact`) cuts every history back to the
specification history of the chain without the block. -/
theorem C02_backup {S : St} (s : Sys) (act height : Nat) (txs : List Tx) (touched : List HashX)
    (hlen : S.touched.length = S.txs.length)
    (hinv : HistInv (txs.foldl (applyTx act height) S) s.p [] s.m.histFlush)
    (htouched : ∀ hx ∈ (blockTouched act height S txs).flatten, hx ∈ touched) :
    HistInv S (applyEffect s.p (histBackupEffect s touched S.txs.length)) [] (s.m.histFlush + 1) :=
  histInv_backup s act height txs touched hlen hinv htouched

/-- **C02 (what is read).**  On a flushed history `get_txnums(hashX, limit)` is exactly the
specification history, or exactly its first `limit` entries. -/
theorem C02_history {S : St} {p : Store} {fc : Nat} (hinv : HistInv S p [] fc) (hx : HashX)
    (limit : Option Nat) :
    getTxnums p hx limit =
      match limit with
      | none => historyOf S hx
      | some k => (historyOf S hx).take k :=
  getTxnums_flushed hinv hx limit

theorem C02_init : HistInv {} {} [] 0 := histInv_init

/-! non-vacuity: the invariant holds initially (`C02_init`) and the three preservation theorems
carry it through every run; `IndexHist.lean` has concrete flush/backup instances and the two
necessity counterexamples (stale row above the flush count; non-ascending rows). -/

end EV.Index

import EV.Proofs.IndexLookupEnv
import EV.Props.C01run
import EV.Props.C01sync
import EV.Props.C03run

/-!
# C08 / C09 — the index side of the mempool's environment: `DB.lookup_utxos` is exact / truthful

C08 ("a synchronised mempool view is exact") is proved under `EnvQuiet`, whose index clauses are

  * `lookup`   : "the index is at the daemon's height: `lookup_utxos` answers from `U`, for every
                  chunk" — `∀ k ps, lookup k ps = ps.map (ulookup U)`,
  * `utxoTrue` : "the confirmed UTXO map records true outputs" — `∀ b ∈ U, truePair W b.1 = some b.2`;

C09 ("the mempool tracker survives every daemon race") under `EnvSound`, whose index clause is

  * `lookup`   : "`lookup_utxos` answers `None` or the true `(hashX, value)` of that output" —
                 `∀ k ps p pr, (p, some pr) ∈ zip ps (lookup k ps) → truePair W p = some pr`.

Here these clauses are PROVED of the index model (`EV/Model/Index.lean`: `lookupUtxo` = `lookup_hashX`
over the `h` rows with prefix `pfx(txid) + idx`, every candidate's tx number resolved through
`fs_tx_hash` and compared with the full hash, then the `u` row), on the states the whole-run
refinement theorems reach:

  * `lookupUtxo_flushed` / `lookupUtxos_flushed`: on every fully flushed state of the run invariant
    `FullInv cfg chain s`, `lookup_utxos` IS the specification's lookup in `(specChain chain).utxos`
    — one answer per prevout, in order; `some (hashX, value)` iff that outpoint is unspent in the
    chain, with exactly its script hash and value; `None` for everything else (spent, never
    created, unspendable, output index out of range), prefix collisions included;
  * `lookupUtxo_committed`: on EVERY state of the extended invariant `FullInv'` (cache, queued deletes,
    unflushed blocks, files ahead of `DB.state`; after back-outs and restarts), it is the
    specification's lookup in the UTXO set of the COMMITTED chain `chain.take (DB.state.height + 1)`;
  * `lookupUtxo_truthful`: hence every answer is an output of a transaction of the committed chain
    (a prefix of every chain between committed and current), never a false pair;
  * `envQuiet_of_index`, `envSound_of_index`: the mempool model's `lookup` parameter instantiated
    with the index model satisfies the clauses above (`U` = the specification's UTXO set; a racing
    index may answer every prevout in a state of its own); `C08lookup_exact`, `C09lookup_inv`: C08 /
    C09 with `lookup` := the index model, no assumption about `lookup_utxos` left;
  * F22 — the two `run_in_thread` jobs of `lookup_utxos` read in different states
    (`EV/Model/IndexSplit.lean`): before the fix a back-out + re-advance + flush between them gave a
    FALSE pair (`lookupUtxoSplit_reorg_hazard`); the fixed job 2 re-checks `fs_tx_hash` and
    `lookupUtxoSplit_fixed_sound` / `lookupUtxoSplit_any_ops` / `envSound_of_index_split` prove `None` or
    the true pair for ANY sequence of operations in between (job 1's state is unconstrained), while
    `lookupUtxoSplit_fixed_stable` shows nothing is lost for outputs that stay; `lookupValue2_sound` /
    `lookupValue2_aba_hazard` say what holds below the one-job-one-state granularity;
  * whole-run corollaries: after any valid run (advances, flushes; with back-outs and restarts) and
    a full flush; after every step of such a run; at every point clients are told a height.

Tie to the code: the model is unchanged (suite `index`, lines `Q_LOOKUP`/`S_LOOKUP`, compares
`lookupUtxo` with the real `DB.lookup_utxos` over LevelDB on every run).
-/
namespace EV.Index
open EV.Spec

/-! ## the lookup refinement on a flushed index -/

/-- **`lookup_utxos` is exact (one prevout).**  On every fully flushed invariant state, for EVERY
outpoint `(txid, idx)`, the answer is the specification's lookup in the chain's UTXO set. -/
theorem lookupUtxo_flushed {cfg : Cfg} {chain : List Block} {s : Sys} (inv : FullInv cfg chain s)
    (hf : Flushed s) (txid : Hash) (idx : Nat) :
    lookupUtxo s txid idx = EV.Spec.lookup (specChain cfg.act chain) txid idx :=
  lookupUtxo_rows (rowsOf_flushed inv hf) txid idx

/-- **…spelled out.**  `some (hashX, value)` iff the specification's UTXO set contains an output
with that txid and index, and then with exactly that script hash and value; `None` iff it contains
none — whatever other unspent outputs share the 4-byte prefix and the index, and whether the
outpoint was spent, never created, unspendable or beyond the transaction's outputs. -/
theorem lookupUtxo_flushed_iff {cfg : Cfg} {chain : List Block} {s : Sys}
    (inv : FullInv cfg chain s) (hf : Flushed s) (txid : Hash) (idx : Nat) :
    (∀ hx v, lookupUtxo s txid idx = some (hx, v) ↔
      ∃ u ∈ (specChain cfg.act chain).utxos, u.txid = txid ∧ u.idx = idx ∧ u.hx = hx ∧ u.value = v) ∧
    (lookupUtxo s txid idx = none ↔
      ∀ u ∈ (specChain cfg.act chain).utxos, ¬ (u.txid = txid ∧ u.idx = idx)) := by
  have r := rowsOf_flushed inv hf
  rw [lookupUtxo_rows r]
  exact ⟨fun hx v => lookupIn_eq_some_iff r.nodup, lookupIn_eq_none_iff⟩

/-- **`lookup_utxos` is exact (the list).**  One answer per prevout, in the order asked. -/
theorem lookupUtxos_flushed {cfg : Cfg} {chain : List Block} {s : Sys} (inv : FullInv cfg chain s)
    (hf : Flushed s) (ps : List (Hash × Nat)) :
    lookupUtxos s ps = ps.map (fun p => EV.Spec.lookup (specChain cfg.act chain) p.1 p.2) :=
  lookupUtxos_rows (rowsOf_flushed inv hf) ps

theorem lookupUtxos_length (s : Sys) (ps : List (Hash × Nat)) :
    (lookupUtxos s ps).length = ps.length := by
  simp [lookupUtxos]

/-! ## the unflushed case: answers are w.r.t. the committed chain -/

/-- **`lookup_utxos` in ANY invariant state** (UTXO cache and queued deletes non-empty, blocks
advanced but not flushed, a history-only flush done so that the files are ahead of `DB.state`, after
back-outs and restarts): the answer is the specification's lookup in the UTXO set of the committed
chain — the blocks up to the last UTXO flush.  Outputs spent since then are still answered (their
rows are deleted by the next UTXO flush), outputs created since then are not. -/
theorem lookupUtxo_committed {cfg : Cfg} {chain : List Block} {K : List Nat} {s : Sys}
    (inv : FullInv' cfg chain K s) (txid : Hash) (idx : Nat) :
    lookupUtxo s txid idx =
      EV.Spec.lookup (specChain cfg.act (chain.take (s.m.dbst.height + 1).toNat)) txid idx :=
  lookupUtxo_rows (rowsOf_committed inv) txid idx

theorem lookupUtxos_committed {cfg : Cfg} {chain : List Block} {K : List Nat} {s : Sys}
    (inv : FullInv' cfg chain K s) (ps : List (Hash × Nat)) :
    lookupUtxos s ps = ps.map (fun p =>
      EV.Spec.lookup (specChain cfg.act (chain.take (s.m.dbst.height + 1).toNat)) p.1 p.2) :=
  lookupUtxos_rows (rowsOf_committed inv) ps

theorem lookupUtxo_committed_iff {cfg : Cfg} {chain : List Block} {K : List Nat} {s : Sys}
    (inv : FullInv' cfg chain K s) (txid : Hash) (idx : Nat) :
    (∀ hx v, lookupUtxo s txid idx = some (hx, v) ↔
      ∃ u ∈ (specChain cfg.act (chain.take (s.m.dbst.height + 1).toNat)).utxos,
        u.txid = txid ∧ u.idx = idx ∧ u.hx = hx ∧ u.value = v) ∧
    (lookupUtxo s txid idx = none ↔
      ∀ u ∈ (specChain cfg.act (chain.take (s.m.dbst.height + 1).toNat)).utxos,
        ¬ (u.txid = txid ∧ u.idx = idx)) := by
  have r := rowsOf_committed inv
  rw [lookupUtxo_rows r]
  exact ⟨fun hx v => lookupIn_eq_some_iff r.nodup, lookupIn_eq_none_iff⟩

/-- the answers do not move while `advance_block`'s transaction loop runs (`spend_utxo` /
    `put_utxo` touch only the cache and the delete queue) -/
theorem lookupUtxo_during_block {s s' : Sys} (h : SameBut s s') (txid : Hash) (idx : Nat) :
    lookupUtxo s' txid idx = lookupUtxo s txid idx :=
  lookupUtxo_sameBut h txid idx

/-- **`lookup_utxos` is truthful** (the shape `EnvSound` uses: `None` or the true pair).  In any
invariant state an answer `(hashX, value)` for `(txid, idx)` is output `idx` — spendable, with that
script hash and value — of a transaction with id `txid` in a block of the committed chain, hence of
every chain that extends the committed one (the current chain in particular). -/
theorem lookupUtxo_truthful {cfg : Cfg} {chain : List Block} {K : List Nat} {s : Sys}
    (inv : FullInv' cfg chain K s) {txid : Hash} {idx : Nat} {hx : HashX} {v : Nat}
    (h : lookupUtxo s txid idx = some (hx, v)) :
    ∀ c, chain.take (s.m.dbst.height + 1).toNat <+: c →
      ∃ (ht : Nat) (b : Block) (tx : Tx) (o : TxOut), c[ht]? = some b ∧ tx ∈ b.txs ∧ tx.id = txid ∧
        tx.outs[idx]? = some o ∧ o.hx = hx ∧ o.value = v ∧ unspendable cfg.act ht o.kind = false := by
  intro c hc
  rw [lookupUtxo_committed inv, lookup_eq_lookupIn] at h
  obtain ⟨u, hu, h1, h2, h3⟩ := lookupIn_some_mem h
  simp only [Prod.mk.injEq] at h3
  obtain ⟨b, tx, o, g1, g2, g3, g4, g5, g6, g7⟩ := (specChain_outputOf cfg.act _ u hu).prefix hc
  exact ⟨u.height, b, tx, o, g1, g2, g3.trans h1, h2 ▸ g4, g5.trans h3.1.symm, g6.trans h3.2.symm, g7⟩

/-- in particular an outpoint of a transaction id that occurs nowhere in the committed chain (not
    yet indexed, not yet flushed, or backed out) is answered `None` -/
theorem lookupUtxo_unknown_txid {cfg : Cfg} {chain : List Block} {K : List Nat} {s : Sys}
    (inv : FullInv' cfg chain K s) {txid : Hash}
    (h : ∀ b ∈ chain.take (s.m.dbst.height + 1).toNat, ∀ tx ∈ b.txs, tx.id ≠ txid) (idx : Nat) :
    lookupUtxo s txid idx = none := by
  cases hl : lookupUtxo s txid idx with
  | none => rfl
  | some r =>
    obtain ⟨hx, v⟩ := r
    obtain ⟨ht, b, tx, o, g1, g2, g3, -⟩ := lookupUtxo_truthful inv hl _ (List.prefix_refl _)
    exact absurd g3 (h b (List.mem_of_getElem? g1) tx g2)

/-! ## the two jobs of `lookup_utxos` in different states (F22)

The real coroutine reads the `h` rows (and `fs_tx_hash`) in one `run_in_thread` job and the `u` rows
in a second one; between the two the block-processing task may do anything.  Before the fix of F22
job 2 trusted the tx number handed over by job 1; tx numbers are reused after a back-out
(`lookupUtxoSplit_reorg_hazard`).  The fixed job 2 calls `fs_tx_hash(tx_num)` again and answers
`None` unless it still gives the prevout's tx hash (`EV/Model/IndexSplit.lean`, `recheck = true`). -/

/-- **The fixed split lookup is sound whatever happens between the two jobs.**  `s1` — the state job 1
was read in — is ANY state (no hypothesis); if job 2 is read in an invariant state `s2`, the answer
is `None` or the answer of the one-state lookup in `s2`, i.e. the specification's lookup on the
chain committed when job 2 ran. -/
theorem lookupUtxoSplit_fixed_sound {cfg : Cfg} {chain : List Block} {K : List Nat} (s1 : Sys)
    {s2 : Sys} (inv2 : FullInv' cfg chain K s2) (txid : Hash) (idx : Nat) :
    lookupUtxoSplit true s1 s2 txid idx = none ∨
      lookupUtxoSplit true s1 s2 txid idx = lookupUtxo s2 txid idx := by
  rw [lookupUtxo_rows (rowsOf_committed inv2)]
  exact lookupUtxoSplit_fixed_rows s1 (rowsOf_committed inv2) txid idx

/-- **…across ANY sequence of operations between the two jobs**: advances, flushes of either kind,
back-outs, restarts (`IOp2`), in any valid order and number.  Job 1 after `ops1`, job 2 after
`ops1 ++ ops2`: the answer is `None` or the specification's lookup on the chain committed after
`ops1 ++ ops2`. -/
theorem lookupUtxoSplit_any_ops (cfg : Cfg) (ops1 ops2 : List IOp2)
    (hv : ValidOps2 cfg {} (ops1 ++ ops2)) :
    ∃ s1 s2, runOps2 cfg {} ops1 = .ok s1 ∧ runOps2 cfg s1 ops2 = .ok s2 ∧
      ∀ txid idx, lookupUtxoSplit true s1 s2 txid idx = none ∨
        lookupUtxoSplit true s1 s2 txid idx = EV.Spec.lookup (specChain cfg.act
          ((Track.run cfg {} (ops1 ++ ops2)).chain.take (Track.run cfg {} (ops1 ++ ops2)).dbLen))
          txid idx := by
  obtain ⟨hv1, hv2⟩ := (validOps2_append cfg {} ops1 ops2).mp hv
  obtain ⟨s1, h1, ti1⟩ := trackInv_run ops1 (trackInv_init cfg) hv1
  obtain ⟨s2, h2, ti2⟩ := trackInv_run ops2 ti1 hv2
  refine ⟨s1, s2, h1, h2, fun txid idx => ?_⟩
  rw [← Track.run_append] at ti2
  have hK : (s2.m.dbst.height + 1).toNat = (Track.run cfg {} (ops1 ++ ops2)).dbLen := by
    have := ti2.db; omega
  rw [← hK, ← lookupUtxo_committed ti2.inv]
  exact lookupUtxoSplit_fixed_sound s1 ti2.inv txid idx

/-- **…and truthful**: an answer of the fixed split lookup is an output of a transaction of the chain
committed when job 2 ran (hence of every chain extending it). -/
theorem lookupUtxoSplit_fixed_truthful {cfg : Cfg} {chain : List Block} {K : List Nat} (s1 : Sys)
    {s2 : Sys} (inv2 : FullInv' cfg chain K s2) {txid : Hash} {idx : Nat} {hx : HashX} {v : Nat}
    (h : lookupUtxoSplit true s1 s2 txid idx = some (hx, v)) :
    ∀ c, chain.take (s2.m.dbst.height + 1).toNat <+: c →
      ∃ (ht : Nat) (b : Block) (tx : Tx) (o : TxOut), c[ht]? = some b ∧ tx ∈ b.txs ∧ tx.id = txid ∧
        tx.outs[idx]? = some o ∧ o.hx = hx ∧ o.value = v ∧ unspendable cfg.act ht o.kind = false := by
  rcases lookupUtxoSplit_fixed_sound s1 inv2 txid idx with h0 | h0
  · rw [h0] at h; cases h
  · rw [h0] at h; exact lookupUtxo_truthful inv2 h

/-- **The fix loses nothing for outputs that stay.**  An output that is in the committed UTXO set
both when job 1 and when job 2 runs, as the same record (same tx number: not backed out and
re-created in between), is answered — blocks advanced and flushed in between do not matter. -/
theorem lookupUtxoSplit_fixed_stable {cfg : Cfg} {chain1 chain2 : List Block} {K1 K2 : List Nat}
    {s1 s2 : Sys} (inv1 : FullInv' cfg chain1 K1 s1) (inv2 : FullInv' cfg chain2 K2 s2) {u : Utxo}
    (h1 : u ∈ (specChain cfg.act (chain1.take (s1.m.dbst.height + 1).toNat)).utxos)
    (h2 : u ∈ (specChain cfg.act (chain2.take (s2.m.dbst.height + 1).toNat)).utxos) :
    lookupUtxoSplit true s1 s2 u.txid u.idx = some (u.hx, u.value) :=
  lookupUtxoSplit_stable true (rowsOf_committed inv1) (rowsOf_committed inv2) h1 h2

/-- both jobs in one state: the model's `lookupUtxo` (so every theorem above about `lookupUtxo`
    is about the fixed code read without interleaving) -/
theorem lookupUtxoSplit_one_state (b : Bool) (s : Sys) (txid : Hash) (idx : Nat) :
    lookupUtxoSplit b s s txid idx = lookupUtxo s txid idx :=
  lookupUtxoSplit_self b s txid idx

/-- the code before the fix (`recheck = false`): sound only when both committed chains are prefixes of
    ONE chain (blocks advanced and flushed in between, none backed out) -/
theorem lookupUtxoSplit_orig_sound {cfg : Cfg} {chain1 chain2 c : List Block} {K1 K2 : List Nat}
    {s1 s2 : Sys} (inv1 : FullInv' cfg chain1 K1 s1) (inv2 : FullInv' cfg chain2 K2 s2)
    (h1 : chain1.take (s1.m.dbst.height + 1).toNat <+: c)
    (h2 : chain2.take (s2.m.dbst.height + 1).toNat <+: c) (txid : Hash) (idx : Nat) :
    lookupUtxoSplit false s1 s2 txid idx = none ∨
      lookupUtxoSplit false s1 s2 txid idx = lookupUtxo s2 txid idx := by
  rw [lookupUtxo_rows (rowsOf_committed inv2)]
  exact lookupUtxoSplit_orig_rows (rowsOf_committed inv1) (rowsOf_committed inv2)
    (txnum_txid_of_prefixes cfg.act h1 h2) txid idx

/-- **Below the model's granularity** (one `run_in_thread` job = one state): if another thread
commits between the two statements of the fixed job 2 — the `u` row read in `sa`, the re-check in
`sb` — the answer is still `None` or the one-state answer in `sa`, for ANY hand-over from job 1,
provided no block was backed out between `sa` and `sb` (both committed chains prefixes of one
chain).  What remains is `lookupValue2_aba_hazard`. -/
theorem lookupValue2_sound {cfg : Cfg} {chaina chainb c : List Block} {Ka Kb : List Nat}
    {sa sb : Sys} (inva : FullInv' cfg chaina Ka sa) (invb : FullInv' cfg chainb Kb sb)
    (ha : chaina.take (sa.m.dbst.height + 1).toNat <+: c)
    (hb : chainb.take (sb.m.dbst.height + 1).toNat <+: c) (txid : Hash) (idx : Nat)
    (ph : Option (HashX × Nat)) :
    lookupValue2 sa sb txid idx ph = none ∨
      lookupValue2 sa sb txid idx ph = lookupUtxo sa txid idx := by
  rw [lookupUtxo_rows (rowsOf_committed inva)]
  apply lookupValue2_rows (rowsOf_committed inva)
  intro y hy t ht
  rw [resolve_of_prefix invb.base.files hb ht, spec_txid_of_prefix cfg.act ha y hy]

/-! ## the clauses of `EnvQuiet` / `EnvSound` -/

/-- **`EnvQuiet.lookup`** — "the index is at the daemon's height: `lookup_utxos` answers from `U`,
for every chunk" — holds of the index model on every fully flushed invariant state of chain `c`,
with `U` = the specification's UTXO set of `c`. -/
theorem envQuiet_lookup_of_index {cfg : Cfg} {chain : List Block} {s : Sys}
    (inv : FullInv cfg chain s) (hf : Flushed s) :
    ∀ k ps, mpLookup s k ps = ps.map (EV.Mempool.ulookup (utxoMap (specChain cfg.act chain))) := by
  intro k ps
  rw [mpLookup_eq_map]
  apply List.map_congr_left
  intro p _
  rw [ulookup_utxoMap, lookupUtxo_flushed inv hf, lookup_eq_lookupIn]

/-- **`EnvQuiet`, index clauses discharged.**  If the daemon side of a quiet refresh holds
(`DaemonQuiet`: the listing is a set of deliverable, valid transactions, closed over `M ∪ U`,
acyclic, conflict-free) and the mempool's world knows the chain's transactions (`WorldHas`), then
`EnvQuiet` holds with `lookup` := the index model on a flushed invariant state and `U` := the
specification's UTXO set. -/
theorem envQuiet_of_index {cfg : Cfg} {chain : List Block} {s : Sys}
    (inv : FullInv cfg chain s) (hf : Flushed s)
    {W : EV.Mempool.Hash → Option EV.Mempool.RawTx} (hW : WorldHas W chain)
    {M : List EV.Mempool.Hash} {fetch : EV.Mempool.Hash → Option EV.Mempool.RawTx}
    (hd : DaemonQuiet W M (utxoMap (specChain cfg.act chain)) fetch) :
    EV.Mempool.EnvQuiet W M (utxoMap (specChain cfg.act chain)) fetch (mpLookup s) where
  nodup := hd.nodup
  fetch := hd.fetch
  valid := hd.valid
  utxoTrue := utxoTrue_of_world hW
  lookup := envQuiet_lookup_of_index inv hf
  closed := hd.closed
  acyclic := hd.acyclic
  conflictFree := hd.conflictFree

/-- **`EnvSound.lookup`** — "`lookup_utxos` answers `None` or the true `(hashX, value)` of that
output" — holds of the index model in EVERY invariant state (flushed or not, behind the daemon or
not), provided the mempool's world knows the chain's transactions. -/
theorem envSound_lookup_of_index {cfg : Cfg} {chain : List Block} {K : List Nat} {s : Sys}
    (inv : FullInv' cfg chain K s)
    {W : EV.Mempool.Hash → Option EV.Mempool.RawTx} (hW : WorldHas W chain) :
    ∀ k ps p pr, (p, some pr) ∈ List.zip ps (mpLookup s k ps) → EV.Mempool.truePair W p = some pr := by
  intro k ps p pr hp
  rw [mpLookup_eq_map] at hp
  have := EV.Mempool.mem_zip_map _ hp
  exact truePair_of_rows (rowsOf_committed inv) (List.take_prefix _ _) hW this.symm

/-- **`EnvSound`, index clause discharged, racing index.**  The answer for the `i`-th prevout of
chunk `k` may be read in its own state `σ k i` (the block processor advances, flushes, backs out,
restarts between and during the chunk tasks): if each of these is a state of the extended invariant
for some chain whose transactions the world knows, `EnvSound` holds with `lookup` := the index
model read at those states. -/
theorem envSound_of_index {W : EV.Mempool.Hash → Option EV.Mempool.RawTx}
    {fetch : EV.Mempool.Hash → Option EV.Mempool.RawTx} (σ : Nat → Nat → Sys)
    (hσ : ∀ k i, ∃ cfg chain K, FullInv' cfg chain K (σ k i) ∧ WorldHas W chain)
    (hfetch : ∀ h t, fetch h = some t → W h = some t) (valid : EV.Mempool.Valid W) :
    EV.Mempool.EnvSound W fetch (mpLookupAt σ) where
  fetch := hfetch
  valid := valid
  lookup := by
    intro k ps p pr hp
    obtain ⟨i, hi⟩ := mem_zip_zipIdx_map _ hp
    obtain ⟨cfg, chain, K, inv, hW⟩ := hσ k i
    exact truePair_of_rows (rowsOf_committed inv) (List.take_prefix _ _) hW hi.symm

/-- **`EnvSound`, index clause discharged at the granularity of the real coroutine** (after the fix
of F22).  For the `i`-th prevout of chunk `k`, job 1 of `lookup_utxos` is read in `σ1 k i` — ANY
state, no hypothesis — and job 2 in `σ2 k i`; if every `σ2 k i` is a state of the extended invariant
for some chain whose transactions the world knows, `EnvSound` holds: whatever the block processor
does between the two jobs (advances, flushes, back-outs, re-advances, restarts), no false pair. -/
theorem envSound_of_index_split {W : EV.Mempool.Hash → Option EV.Mempool.RawTx}
    {fetch : EV.Mempool.Hash → Option EV.Mempool.RawTx} (σ1 σ2 : Nat → Nat → Sys)
    (hσ : ∀ k i, ∃ cfg chain K, FullInv' cfg chain K (σ2 k i) ∧ WorldHas W chain)
    (hfetch : ∀ h t, fetch h = some t → W h = some t) (valid : EV.Mempool.Valid W) :
    EV.Mempool.EnvSound W fetch (mpLookupSplitAt σ1 σ2) where
  fetch := hfetch
  valid := valid
  lookup := by
    intro k ps p pr hp
    obtain ⟨i, hi⟩ := mem_zip_zipIdx_map _ hp
    obtain ⟨cfg, chain, K, inv, hW⟩ := hσ k i
    simp only at hi
    rcases lookupUtxoSplit_fixed_sound (σ1 k i) inv p.1 p.2 with h0 | h0
    · rw [h0] at hi; cases hi
    · rw [h0] at hi
      exact truePair_of_rows (rowsOf_committed inv) (List.take_prefix _ _) hW hi.symm

/-- **C08 on the index model.**  `C08_exact` with the environment's `lookup` replaced by the index
model on a fully flushed invariant state of `chain` and `U` by the specification's UTXO set of
`chain`: the refresh returns, drops nothing and leaves exactly the specification pool.  No
assumption about `lookup_utxos` is left: only the daemon side (`DaemonQuiet`) and `WorldHas`. -/
theorem C08lookup_exact {cfg : Cfg} {chain : List Block} {s : Sys}
    (inv : FullInv cfg chain s) (hf : Flushed s)
    (W : EV.Mempool.Hash → Option EV.Mempool.RawTx) (hW : WorldHas W chain)
    (M : List EV.Mempool.Hash) (fetch : EV.Mempool.Hash → Option EV.Mempool.RawTx)
    (hd : DaemonQuiet W M (utxoMap (specChain cfg.act chain)) fetch)
    (st : EV.Mempool.St) (touched : List EV.Mempool.HashX) (h : Int) (order : List Nat)
    (hinv : EV.Mempool.MpInv W st)
    (hord : order.Perm (List.range (EV.Mempool.numChunks EV.Gen.mempoolChunk st M))) :
    ∃ r, EV.Mempool.processMempool st M touched h h fetch (mpLookup s) order = .ok r ∧
      r.dropped = [] ∧
      r.st.txs.Perm (EV.Mempool.specPool W M (utxoMap (specChain cfg.act chain))) ∧
      EV.Mempool.MpInv W r.st := by
  obtain ⟨r, h1, h2, h3, h4⟩ :=
    EV.Mempool.processMempoolN_quiet (envQuiet_of_index inv hf hW hd)
      (by decide : 0 < EV.Gen.mempoolChunk) hinv touched h hord
  exact ⟨r, h1, h2, h4, h3⟩

/-- **C09 on the index model.**  `C09_inv` with the environment's `lookup` replaced by the index
model read, prevout by prevout, at arbitrary invariant states: the refresh never raises and keeps
`MpInv` (only true input pairs and fees are recorded). -/
theorem C09lookup_inv (W : EV.Mempool.Hash → Option EV.Mempool.RawTx)
    (fetch : EV.Mempool.Hash → Option EV.Mempool.RawTx) (σ : Nat → Nat → Sys)
    (hσ : ∀ k i, ∃ cfg chain K, FullInv' cfg chain K (σ k i) ∧ WorldHas W chain)
    (hfetch : ∀ h t, fetch h = some t → W h = some t) (valid : EV.Mempool.Valid W)
    (st : EV.Mempool.St) (hinv : EV.Mempool.MpInv W st)
    (allHashes : List EV.Mempool.Hash) (order : List Nat) (touched : List EV.Mempool.HashX)
    (h : Int) :
    ∃ r, EV.Mempool.processMempool st allHashes touched h h fetch (mpLookupAt σ) order = .ok r ∧
      EV.Mempool.MpInv W r.st := by
  obtain ⟨r, h1, F⟩ := EV.Mempool.processMempoolN_sound
    ((envSound_of_index σ hσ hfetch valid).soundOn allHashes) EV.Gen.mempoolChunk hinv touched h order
  exact ⟨r, h1, F.inv⟩

/-- **C09 on the index model, split jobs.**  As `C09lookup_inv`, with every answer produced by the
two jobs of the fixed `lookup_utxos` read in two states, the first of them arbitrary. -/
theorem C09lookup_inv_split (W : EV.Mempool.Hash → Option EV.Mempool.RawTx)
    (fetch : EV.Mempool.Hash → Option EV.Mempool.RawTx) (σ1 σ2 : Nat → Nat → Sys)
    (hσ : ∀ k i, ∃ cfg chain K, FullInv' cfg chain K (σ2 k i) ∧ WorldHas W chain)
    (hfetch : ∀ h t, fetch h = some t → W h = some t) (valid : EV.Mempool.Valid W)
    (st : EV.Mempool.St) (hinv : EV.Mempool.MpInv W st)
    (allHashes : List EV.Mempool.Hash) (order : List Nat) (touched : List EV.Mempool.HashX)
    (h : Int) :
    ∃ r, EV.Mempool.processMempool st allHashes touched h h fetch (mpLookupSplitAt σ1 σ2) order
        = .ok r ∧ EV.Mempool.MpInv W r.st := by
  obtain ⟨r, h1, F⟩ := EV.Mempool.processMempoolN_sound
    ((envSound_of_index_split σ1 σ2 hσ hfetch valid).soundOn allHashes) EV.Gen.mempoolChunk hinv
    touched h order
  exact ⟨r, h1, F.inv⟩

/-! ## whole runs -/

/-- **After any run of advances and flushes, then a full flush**, `lookup_utxos` is the
specification's lookup of the chain advanced (composition with `C01run_end_to_end`). -/
theorem lookupUtxos_end_to_end (cfg : Cfg) (ops : List IOp) (hv : ValidOps cfg [] ops) :
    ∃ s, runOps cfg {} (ops ++ [.flush true]) = .ok s ∧
      ∀ ps, lookupUtxos s ps =
        ps.map (fun p => EV.Spec.lookup (specChain cfg.act (chainOf ops)) p.1 p.2) := by
  obtain ⟨s1, h1, inv1⟩ := C01_run cfg ops hv
  obtain ⟨s, h2, inv⟩ := fullInv_flush inv1 true
  refine ⟨s, ?_, lookupUtxos_flushed inv (flush_full_flushed inv1 h2)⟩
  rw [runOps_append, h1]
  simp only [runOps, h2]

/-- **After any run with back-outs and restarts, then a full flush**, `lookup_utxos` is the
specification's lookup of the SURVIVING chain: no answer from an orphaned block, although tx
numbers are reused after a back-out (composition with `C03run_observables`). -/
theorem lookupUtxos_after_reorgs (cfg : Cfg) (ops : List IOp2) (hv : ValidOps2 cfg {} ops) :
    ∃ s, runOps2 cfg {} (ops ++ [.flush true]) = .ok s ∧
      ∀ ps, lookupUtxos s ps =
        ps.map (fun p => EV.Spec.lookup (specChain cfg.act (chainOf2 [] 0 ops)) p.1 p.2) := by
  obtain ⟨s, s0, K, h1, -, -, inv, hfl, -⟩ := fresh_index cfg ops hv
  exact ⟨s, h1, lookupUtxos_flushed inv.base (flushed_of_db inv.base hfl)⟩

/-- **After every step of any run with back-outs and restarts** (no final flush: cache, queued
deletes and unflushed blocks present), `lookup_utxos` is the specification's lookup of the committed
part of the surviving chain: its first `dbLen` blocks, where `dbLen` is the bookkeeping's count of
blocks committed by the last full flush / back-out. -/
theorem lookupUtxos_every_step (cfg : Cfg) (ops : List IOp2) (hv : ValidOps2 cfg {} ops) (k : Nat) :
    ∃ s, runOps2 cfg {} (ops.take k) = .ok s ∧
      ∀ ps, lookupUtxos s ps = ps.map (fun p => EV.Spec.lookup (specChain cfg.act
        ((Track.run cfg {} (ops.take k)).chain.take (Track.run cfg {} (ops.take k)).dbLen)) p.1 p.2) := by
  obtain ⟨s, h1, ti⟩ := trackInv_run (ops.take k) (trackInv_init cfg) (validOps2_take hv k)
  refine ⟨s, h1, fun ps => ?_⟩
  have hK : (s.m.dbst.height + 1).toNat = (Track.run cfg {} (ops.take k)).dbLen := by
    have := ti.db; omega
  rw [lookupUtxos_committed ti.inv ps, hK]

/-- **At every point clients are told a height** (`EV.SyncLoop`: any fetch batching, any flush
placement, any placement of `on_caught_up`), `lookup_utxos` is the specification's lookup of the
chain up to the told height (composition with `C01sync_told`) — so a mempool refresh that starts
from such a point with the daemon at that height has `EnvQuiet.lookup`. -/
theorem lookupUtxos_told (cfg : Cfg) (evs : List EV.SyncLoop.Ev)
    (hv : EV.SyncLoop.ValidEvs cfg [] evs) :
    ∃ l ts, EV.SyncLoop.run cfg {} evs = .ok (l, ts) ∧
      ∀ t ∈ ts, ∃ c, c <+: EV.SyncLoop.blocksOf evs ∧ t.1 = (c.length : Int) - 1 ∧
        ∀ ps, lookupUtxos t.2 ps =
          ps.map (fun p => EV.Spec.lookup (specChain cfg.act c) p.1 p.2) := by
  obtain ⟨l, ts, h1, -, h3⟩ := EV.SyncLoop.C01sync_told cfg evs hv
  refine ⟨l, ts, h1, ?_⟩
  intro t ht
  obtain ⟨c, hc, inv, hfl, hh⟩ := h3 t ht
  exact ⟨c, hc, hh, lookupUtxos_flushed inv hfl⟩

/-! ## non-vacuity

`lkT1`, `lkT2` share the 4-byte prefix (5), `lkT3` has another one (6).  Block 0: `lkT1` creates
outputs 0, 1 and an `OP_FALSE OP_RETURN` output 2; `lkT2` creates output 0 — so the rows of
`(lkT1, 0)` and `(lkT2, 0)` collide under the key prefix `h + pfx + idx`.  Block 1: `lkT3` spends
`(lkT1, 0)`. -/

def lkCfg : Cfg := { act := 1, reorgLimit := 2 }
def lkGen : TxIn := ⟨0, 4294967295⟩
def lkT1 : Hash := 5 * 2 ^ 224 + 1
def lkT2 : Hash := 5 * 2 ^ 224 + 2
def lkT3 : Hash := 6 * 2 ^ 224 + 1
def lkB0 : Block := ⟨7, 0, 100, 80,
  [⟨lkT1, [lkGen], [⟨50, 1, .normal⟩, ⟨60, 4, .normal⟩, ⟨0, 9, .opFalseReturn⟩]⟩,
   ⟨lkT2, [lkGen], [⟨70, 2, .normal⟩]⟩]⟩
def lkB1 : Block := ⟨8, 7, 101, 81, [⟨lkT3, [⟨lkT1, 0⟩], [⟨45, 3, .normal⟩]⟩]⟩

/-- block 0 fully flushed; block 1 advanced and history-flushed only (files ahead of `DB.state`,
    cache and delete queue non-empty) -/
def lkOps : List IOp2 := [.adv lkB0 0, .flush true, .adv lkB1 1, .flush false]

example : pfx lkT1 = 5 ∧ pfx lkT2 = 5 ∧ pfx lkT3 = 6 := by decide

example : ValidOps2 lkCfg {} lkOps := by decide

/-- the hypotheses of `lookupUtxo_flushed` are satisfiable by a state with a prefix collision -/
example : ∃ s, runOps2 lkCfg {} (lkOps.take 2) = .ok s ∧ FullInv lkCfg [lkB0] s ∧ Flushed s := by
  obtain ⟨s, h, ti⟩ := trackInv_run (lkOps.take 2) (trackInv_init lkCfg) (by decide)
  exact ⟨s, h, ti.inv.base, flushed_of_db ti.inv.base (ti.flushed (by decide))⟩

/-- two candidate rows under the key prefix of `(lkT1, 0)` … -/
example : ((okSysD (runOps2 lkCfg {} (lkOps.take 2))).p.h.filter
    (fun e => e.1.1 == pfx lkT1 && e.1.2.1 == 0)).length = 2 := by decide

/-- … and each of the colliding outpoints gets ITS pair; the unspendable output, an index beyond the
    outputs and an unknown transaction get `None`; one answer per prevout, in order -/
example : lookupUtxos (okSysD (runOps2 lkCfg {} (lkOps.take 2)))
      [(lkT2, 0), (lkT1, 0), (lkT1, 1), (lkT1, 2), (lkT1, 3), (lkT3, 0), (lkT2, 0)] =
    [some (2, 70), some (1, 50), some (4, 60), none, none, none, some (2, 70)] := by decide

example : [(lkT2, 0), (lkT1, 0), (lkT1, 1), (lkT1, 2), (lkT1, 3), (lkT3, 0), (lkT2, 0)].map
      (fun p => EV.Spec.lookup (specChain lkCfg.act [lkB0]) p.1 p.2) =
    [some (2, 70), some (1, 50), some (4, 60), none, none, none, some (2, 70)] := by decide

/-- the hypothesis of `lookupUtxo_committed` in a state with unflushed work: two blocks indexed, one
    committed, delete queue and cache non-empty -/
example : ∃ s, runOps2 lkCfg {} lkOps = .ok s ∧ FullInv' lkCfg [lkB0, lkB1] [1, 0] s ∧
    s.m.dbst.height = 0 ∧ s.m.st.height = 1 := by
  obtain ⟨s, h, ti⟩ := trackInv_run lkOps (trackInv_init lkCfg) (by decide)
  exact ⟨s, h, ti.inv, ti.db, ti.inv.base.files.height⟩

example : (okSysD (runOps2 lkCfg {} lkOps)).m.deletes.length = 2 ∧
    (okSysD (runOps2 lkCfg {} lkOps)).m.cache.length = 1 := by decide

/-- there: `(lkT1, 0)`, spent by the unflushed block 1, is still answered; `(lkT3, 0)`, created by
    it, is not … -/
example : lookupUtxos (okSysD (runOps2 lkCfg {} lkOps)) [(lkT1, 0), (lkT3, 0), (lkT2, 0)] =
    [some (1, 50), none, some (2, 70)] := by decide

/-- … and after the full flush it is the other way round -/
example : lookupUtxos (okSysD (runOps2 lkCfg {} (lkOps ++ [.flush true])))
      [(lkT1, 0), (lkT3, 0), (lkT2, 0)] =
    [none, some (3, 45), some (2, 70)] := by decide

example : utxoMap (specChain lkCfg.act [lkB0]) =
    [((lkT1, 0), (1, 50)), ((lkT1, 1), (4, 60)), ((lkT2, 0), (2, 70))] := by decide

/-- the index as the mempool model's `lookup`: the answer for the prevout of transaction 99 -/
example : mpLookup (okSysD (runOps2 lkCfg {} (lkOps.take 2))) 0 [(lkT2, 0), (99, 0)] =
    [some (2, 70), none] := by decide

/-- a world for `WorldHas` / `envQuiet_of_index` / `envSound_of_index`, as a table (so that the
    daemon-side clauses are decidable): the chain's transactions (all outputs, the unspendable one
    included) and a mempool transaction 99 spending `(lkT2, 0)` -/
def lkTb : EV.Mempool.Table :=
  [(lkT1, { inputs := [(0, 4294967295)], outs := [(1, 50), (4, 60), (9, 0)], size := 100 }),
   (lkT2, { inputs := [(0, 4294967295)], outs := [(2, 70)], size := 60 }),
   (lkT3, { inputs := [(lkT1, 0)], outs := [(3, 45)], size := 61 }),
   (99, { inputs := [(lkT2, 0)], outs := [(8, 65)], size := 62 })]

example : WorldHas (EV.Mempool.dget lkTb) [lkB0, lkB1] := by decide

/-- `DaemonQuiet` (hypothesis of `envQuiet_of_index` / `C08lookup_exact`) holds of this world with
    `U` = the specification's UTXO set of `[lkB0]` -/
theorem lkDaemon : DaemonQuiet (EV.Mempool.dget lkTb) [99] (utxoMap (specChain lkCfg.act [lkB0]))
    (EV.Mempool.dget lkTb) :=
  DaemonQuiet.of_envQuiet (EV.Mempool.envQuiet_of_table (rank := id) (by decide))

/-- all hypotheses of `C08lookup_exact` hold together, on the state with the prefix collision -/
example : ∃ s, runOps2 lkCfg {} (lkOps.take 2) = .ok s ∧
    ∃ r, EV.Mempool.processMempool {} [99] [] 0 0 (EV.Mempool.dget lkTb) (mpLookup s) [0] = .ok r ∧
      r.dropped = [] ∧
      r.st.txs.Perm (EV.Mempool.specPool (EV.Mempool.dget lkTb) [99]
        (utxoMap (specChain lkCfg.act [lkB0]))) ∧
      EV.Mempool.MpInv (EV.Mempool.dget lkTb) r.st := by
  obtain ⟨s, h, ti⟩ := trackInv_run (lkOps.take 2) (trackInv_init lkCfg) (by decide)
  refine ⟨s, h, C08lookup_exact ti.inv.base (flushed_of_db ti.inv.base (ti.flushed (by decide)))
    _ (by decide) _ _ lkDaemon _ _ _ _ (EV.Mempool.MpInv_empty _) ?_⟩
  have : EV.Mempool.numChunks EV.Gen.mempoolChunk {} [99] = 1 := by decide
  rw [this]
  exact List.Perm.refl _

/-- … and the run is the expected one: 99 is accepted with its input pair read from the index
    (`(lkT2, 0)` ↦ `(2, 70)`, the colliding outpoint), fee 70 − 65 -/
example : (EV.Mempool.resultOf (EV.Mempool.processMempool {} [99] [] 0 0 (EV.Mempool.dget lkTb)
      (mpLookup (okSysD (runOps2 lkCfg {} (lkOps.take 2)))) [0])).map
      (fun r => r.st.txs.map (fun e => (e.1, e.2.inPairs, e.2.fee))) =
    some [(99, [(2, 70)], 5)] := by decide

/-- the hypothesis `hσ` of `envSound_of_index` / `C09lookup_inv` with two DIFFERENT states: the first
    prevout of every chunk is answered by the flushed one-block index, the others by the index with
    the second block advanced and unflushed -/
example : ∃ σ : Nat → Nat → Sys,
    (∀ k i, ∃ cfg chain K, FullInv' cfg chain K (σ k i) ∧ WorldHas (EV.Mempool.dget lkTb) chain) ∧
    (σ 0 0).m.st.height = 0 ∧ (σ 0 1).m.st.height = 1 := by
  obtain ⟨s1, -, ti1⟩ := trackInv_run (lkOps.take 2) (trackInv_init lkCfg) (by decide)
  obtain ⟨s2, -, ti2⟩ := trackInv_run lkOps (trackInv_init lkCfg) (by decide)
  refine ⟨fun _ i => if i = 0 then s1 else s2, ?_, ti1.inv.base.files.height,
    ti2.inv.base.files.height⟩
  intro k i
  by_cases hi : i = 0
  · simp only [hi, if_true]
    exact ⟨lkCfg, _, _, ti1.inv, by decide⟩
  · simp only [hi, if_false]
    exact ⟨lkCfg, _, _, ti2.inv, by decide⟩

/-- split reading, no back-out: job 1 in the flushed one-block state, job 2 after block 1 was advanced
    and fully flushed.  `(lkT1, 0)` was spent in between: `None`; `(lkT2, 0)` stayed: answered
    (`lookupUtxoSplit_fixed_stable`) — by the fixed code and by the code before the fix alike -/
example : ∀ b, lookupUtxoSplit b (okSysD (runOps2 lkCfg {} (lkOps.take 2)))
      (okSysD (runOps2 lkCfg {} (lkOps ++ [.flush true]))) lkT1 0 = none ∧
    lookupUtxo (okSysD (runOps2 lkCfg {} (lkOps.take 2))) lkT1 0 = some (1, 50) ∧
    lookupUtxoSplit b (okSysD (runOps2 lkCfg {} (lkOps.take 2)))
      (okSysD (runOps2 lkCfg {} (lkOps ++ [.flush true]))) lkT2 0 = some (2, 70) := by decide

/-- the hypotheses of `lookupUtxoSplit_fixed_stable` (and of `lookupUtxoSplit_orig_sound`) hold there -/
example : ∃ s1 s2, runOps2 lkCfg {} (lkOps.take 2) = .ok s1 ∧
    runOps2 lkCfg {} (lkOps ++ [.flush true]) = .ok s2 ∧
    ∃ K1 K2, FullInv' lkCfg [lkB0] K1 s1 ∧ FullInv' lkCfg [lkB0, lkB1] K2 s2 ∧
      [lkB0].take (s1.m.dbst.height + 1).toNat <+: [lkB0, lkB1] ∧
      [lkB0, lkB1].take (s2.m.dbst.height + 1).toNat <+: [lkB0, lkB1] ∧
      (⟨lkT2, 0, 1, 0, 70, 2⟩ : Utxo) ∈ (specChain lkCfg.act [lkB0]).utxos ∧
      (⟨lkT2, 0, 1, 0, 70, 2⟩ : Utxo) ∈ (specChain lkCfg.act [lkB0, lkB1]).utxos := by
  obtain ⟨s1, h1, ti1⟩ := trackInv_run (lkOps.take 2) (trackInv_init lkCfg) (by decide)
  obtain ⟨s2, h2, ti2⟩ := trackInv_run (lkOps ++ [.flush true]) (trackInv_init lkCfg) (by decide)
  refine ⟨s1, s2, h1, h2, _, _, ti1.inv, ti2.inv, ?_, List.take_prefix _ _, by decide, by decide⟩
  exact (List.take_prefix _ _).trans (List.prefix_append [lkB0] [lkB1])

/-! ### the split reading across a back-out (F22)

`lkB1a` and `lkB1b` are two alternatives for block 1; each holds one transaction (`lkTx` resp.
`lkTy`, tx number 2 in both chains) paying script hash 3 at output 0, with values 10 resp. 20. -/

def lkTx : Hash := 7 * 2 ^ 224 + 1
def lkTy : Hash := 8 * 2 ^ 224 + 1
def lkB1a : Block := ⟨8, 7, 101, 81, [⟨lkTx, [lkGen], [⟨10, 3, .normal⟩]⟩]⟩
def lkB1b : Block := ⟨9, 7, 102, 82, [⟨lkTy, [lkGen], [⟨20, 3, .normal⟩]⟩]⟩
def lkReorg : List IOp2 :=
  [.adv lkB0 0, .adv lkB1a 1, .flush true, .backup lkB1a, .adv lkB1b 1, .flush true]

/-- **F22: the code before the fix records a false pair** (`recheck = false`; why
`lookupUtxoSplit_orig_sound` needs "no back-out in between").  Tx numbers are reused after a
back-out.  Job 1 read before the reorganisation finds the row of `(lkTx, 0)`: script hash 3, tx
number 2.  Job 2 read after it finds the `u` row `(3, 0, 2)` — now the row of `(lkTy, 0)` — and
answers `(3, 20)` for `(lkTx, 0)`, whose value is 10: the mempool would record a wrong input value
and fee.  Read in one state, either state answers correctly.  Both states are reachable
(`ValidOps2`).  The fixed code (`recheck = true`) answers `None` on the same schedule.  Replayed on
the real coroutine by `integration/lookup-split-replay.py` and found by suite `index`
(`Q_LOOKUP2A` / `Q_LOOKUP2B`). -/
theorem lookupUtxoSplit_reorg_hazard :
    ValidOps2 lkCfg {} lkReorg ∧
    lookupUtxoSplit false (okSysD (runOps2 lkCfg {} (lkReorg.take 3)))
      (okSysD (runOps2 lkCfg {} lkReorg)) lkTx 0 = some (3, 20) ∧
    lookupUtxoSplit true (okSysD (runOps2 lkCfg {} (lkReorg.take 3)))
      (okSysD (runOps2 lkCfg {} lkReorg)) lkTx 0 = none ∧
    lookupUtxo (okSysD (runOps2 lkCfg {} (lkReorg.take 3))) lkTx 0 = some (3, 10) ∧
    lookupUtxo (okSysD (runOps2 lkCfg {} lkReorg)) lkTx 0 = none ∧
    lookupUtxo (okSysD (runOps2 lkCfg {} lkReorg)) lkTy 0 = some (3, 20) := by
  refine ⟨by decide, by decide, by decide, by decide, by decide, by decide⟩

/-- the hypotheses of `lookupUtxoSplit_any_ops` with a back-out, a re-advance and a flush between the
    two jobs -/
example : ValidOps2 lkCfg {} (lkReorg.take 3 ++ lkReorg.drop 3) := by decide

/-- back to the first branch: `lkB1b` backed out, `lkB1a` advanced again and flushed -/
def lkAba : List IOp2 := lkReorg ++ [.backup lkB1b, .adv lkB1a 1, .flush true]

/-- **What remains below the model's granularity** (why `lookupValue2_sound` needs "no back-out
between the two statements"): job 1 on branch a; then a complete reorganisation to branch b; the
`u` row read of job 2 there (`sa`); then a second complete reorganisation back to branch a, landing
between two consecutive statements of job 2; the re-check there (`sb`) sees tx number 2 resolve to
`lkTx` again and passes the value 20 of `(lkTy, 0)`.  With job 2 read in one state — either of them
— the answer is right. -/
theorem lookupValue2_aba_hazard :
    ValidOps2 lkCfg {} lkAba ∧
    lookupHashX (okSysD (runOps2 lkCfg {} (lkAba.take 3))) lkTx 0 = some (3, 2) ∧
    lookupValue2 (okSysD (runOps2 lkCfg {} (lkAba.take 6))) (okSysD (runOps2 lkCfg {} lkAba)) lkTx 0
      (some (3, 2)) = some (3, 20) ∧
    lookupValue true (okSysD (runOps2 lkCfg {} (lkAba.take 6))) lkTx 0 (some (3, 2)) = none ∧
    lookupValue true (okSysD (runOps2 lkCfg {} lkAba)) lkTx 0 (some (3, 2)) = some (3, 10) := by
  refine ⟨by decide, by decide, by decide, by decide, by decide⟩

end EV.Index

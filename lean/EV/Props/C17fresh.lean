import EV.Props.C17retry
import EV.Proofs.HistFresh

/-!
# C17 — freshness of `SessionManager.limited_history` while the index moves

Property C17 (second half): "a script hash whose confirmed history would not fit in the maximum reply
size is answered with a 'history too large' error — consistently, also from cache and for
subscriptions, which are then dropped — rather than with a truncated history or a status computed
from a truncated history."

`C17.lean` / `C17audit.lean` / `C17retry.lean` prove this for one request against a fixed index, given
`CacheOK`.  The theorems here are about the transition system of `EV/Model/HistFresh.lean`: any number
of concurrent requests, blocks (growth or shrink) and notifications in ANY interleaving, the database
read of a request seeing ANY index version between the start of the read and the resumption of the
coroutine.  Hypothesis of all of them: `RunOK` — each block changes only the histories of the script
hashes in its touched set.  Nothing is assumed about the touched sets of notifications, about their
order or about how many blocks one of them covers: "pending" is defined from what actually happened
(`Pending s hx`: a block touched `hx`, and no notification naming `hx` that was called after that
block has run its cache deletion yet).

`limit` is a parameter (`EV.Rpc.histLimit maxSend` in the code: `C17_fresh_CacheOK` ties the two).
-/
namespace EV.HistFresh

open EV.Rpc (Bytes HistRes dGet)

/-- **C17 fresh (a): `CacheFresh`.**  At every moment of every run, each `_history_cache` entry for a
script hash is what a miss would compute from the CURRENT index version, or a notification for a
block that touched the script hash is still pending. -/
theorem C17_fresh_cache (hist : Index) (limit : Nat) (evs : List Ev)
    (hok : RunOK hist limit init evs) (hx : Bytes) (r : HistRes)
    (hr : dGet hx (run hist limit init evs).cache = some r) :
    r = cut limit (hist (run hist limit init evs).ver hx) ∨ Pending (run hist limit init evs) hx :=
  (inv_run evs (inv_init hist limit) hok).fresh hx r hr

/-- **C17 fresh (a), at quiescence.**  When every block has been notified and every notification has
run its deletion, the cache is coherent with the index. -/
theorem C17_fresh_quiescent (hist : Index) (limit : Nat) (evs : List Ev)
    (hok : RunOK hist limit init evs) (hq : Quiescent (run hist limit init evs))
    (hx : Bytes) (r : HistRes) (hr : dGet hx (run hist limit init evs).cache = some r) :
    r = cut limit (hist (run hist limit init evs).ver hx) := by
  rcases C17_fresh_cache hist limit evs hok hx r hr with h | h
  · exact h
  · exact absurd h (not_pending_of_quiescent hq hx)

/-- `cut` is `histCompute` of `EV.Model.Rpc` -/
theorem cut_eq_histCompute (w : EV.Rpc.World) (hx : Bytes) :
    cut (EV.Rpc.histLimit w.maxSend) (w.history hx) = EV.Rpc.histCompute w hx := rfl

/-- **C17 fresh (a), as `CacheOK`.**  At quiescence the history cache satisfies the hypothesis
`CacheOK w m` of the fixed-index theorems (`C17_history`, `C17_get_history`, `C17_subscribe`,
`C17_notify`), for any world `w` whose histories are those of the current version. -/
theorem C17_fresh_CacheOK (hist : Index) (evs : List Ev) (w : EV.Rpc.World)
    (hok : RunOK hist (EV.Rpc.histLimit w.maxSend) init evs)
    (hq : Quiescent (run hist (EV.Rpc.histLimit w.maxSend) init evs))
    (hw : ∀ hx, w.history hx = hist (run hist (EV.Rpc.histLimit w.maxSend) init evs).ver hx) :
    EV.Rpc.CacheOK w { histCache := (run hist (EV.Rpc.histLimit w.maxSend) init evs).cache } where
  hist := by
    intro hx r hr
    rw [← cut_eq_histCompute, hw hx]
    exact C17_fresh_quiescent hist _ evs hok hq hx r hr
  tx := fun _ h => by simp at h

/-- **C17 fresh (b): never a truncated history.**  Every reply of every run — hit or miss — is what
`limited_history` computes from ONE index version `v` that was current no later than the reply and,
for a miss, no earlier than the arrival of the request (current at some moment during the request):
a list only if it is the WHOLE history of `v` and shorter than `limit`; the refusal exactly if the
history of `v` has `limit` entries or more. -/
theorem C17_fresh_answer (hist : Index) (limit : Nat) (evs : List Ev)
    (hok : RunOK hist limit init evs) (a : Ans) (ha : a ∈ replies hist limit init evs) :
    a.arrVer ≤ a.ansVer ∧
    ∃ v, v ≤ a.ansVer ∧ (a.hit = false → a.arrVer ≤ v) ∧ a.res = cut limit (hist v a.hx) ∧
      (∀ l, a.res = .ok l → l = hist v a.hx ∧ l.length < limit) ∧
      (a.res = .tooLarge ↔ limit ≤ (hist v a.hx).length) := by
  obtain ⟨s', _, sp⟩ := replies_spec evs (inv_init hist limit) hok a ha
  obtain ⟨v, hv1, hv2, hv3⟩ := sp.whole
  refine ⟨sp.arr, v, hv1, hv2, hv3, ?_, ?_, ?_⟩
  · intro l hl
    rw [hv3] at hl
    obtain ⟨h1, h2⟩ := cut_ok hl
    exact ⟨h1, by rw [h1]; exact h2⟩
  · intro h; rw [hv3] at h; exact cut_tooLarge h
  · intro h; rw [hv3]; exact cut_large h

/-- **C17 fresh (b'): the reply is current.**  A miss is answered from the history of the version
current AT THE REPLY unless a block touched the script hash after the last read started and no
notification naming it has been called since (`a.dirty`); a hit likewise unless, in addition, a
notification that was called for such a block has not yet run its deletion (`a.inflight`). -/
theorem C17_fresh_answer_current (hist : Index) (limit : Nat) (evs : List Ev)
    (hok : RunOK hist limit init evs) (a : Ans) (ha : a ∈ replies hist limit init evs) :
    (a.hit = false → a.dirty = false → a.res = cut limit (hist a.ansVer a.hx)) ∧
    (a.dirty = false → a.inflight = false → a.res = cut limit (hist a.ansVer a.hx)) := by
  obtain ⟨s', _, sp⟩ := replies_spec evs (inv_init hist limit) hok a ha
  exact ⟨sp.miss, sp.hit⟩

/-- **C17 fresh (c): after quiescence.**  From any reachable state in which `hx` is not pending (in
particular a quiescent one), and for as long as no further block touches `hx` — whatever else
happens: other blocks, notifications with any touched sets, evictions, other requests — EVERY reply
for `hx`, from cache or not, from a request that arrived before or after, is what `limited_history`
computes from the current history: the whole history if a reorg shrank it below `limit`, the refusal
if it grew to `limit`. -/
theorem C17_fresh_after (hist : Index) (limit : Nat) (evs evs' : List Ev) (hx : Bytes)
    (hok : RunOK hist limit init evs)
    (hp : ¬ Pending (run hist limit init evs) hx)
    (hok' : RunOK hist limit (run hist limit init evs) evs')
    (hnb : ∀ t, Ev.block t ∈ evs' → hx ∉ t)
    (a : Ans) (ha : a ∈ replies hist limit (run hist limit init evs) evs') (hax : a.hx = hx) :
    a.res = cut limit (hist (run hist limit init evs).ver hx) ∧
    ((hist (run hist limit init evs).ver hx).length < limit →
        a.res = .ok (hist (run hist limit init evs).ver hx)) ∧
    (limit ≤ (hist (run hist limit init evs).ver hx).length → a.res = .tooLarge) := by
  have h := replies_not_pending evs' (inv_run evs (inv_init hist limit) hok) hp hok' hnb a ha hax
  exact ⟨h, fun hl => by rw [h, cut_small hl], fun hl => by rw [h, cut_large hl]⟩

/-- **C17 fresh (c), from a quiescent state.** -/
theorem C17_fresh_after_quiescence (hist : Index) (limit : Nat) (evs evs' : List Ev) (hx : Bytes)
    (hok : RunOK hist limit init evs)
    (hq : Quiescent (run hist limit init evs))
    (hok' : RunOK hist limit (run hist limit init evs) evs')
    (hnb : ∀ t, Ev.block t ∈ evs' → hx ∉ t)
    (a : Ans) (ha : a ∈ replies hist limit (run hist limit init evs) evs') (hax : a.hx = hx) :
    a.res = cut limit (hist (run hist limit init evs).ver hx) :=
  (C17_fresh_after hist limit evs evs' hx hok (not_pending_of_quiescent hq hx) hok' hnb a ha hax).1

/-- quiescence is reached by a notification whose touched set covers everything changed since the
previous one (what `Notifications._maybe_notify` hands to `_notify_sessions`), once it has run its
deletion -/
theorem C17_fresh_covering (hist : Index) (limit : Nat) (s : State) (t : List Bytes)
    (hc : ∀ hx ∈ s.dirty, hx ∈ t) : (step hist limit s (.notifyBegin t)).dirty = [] :=
  notifyBegin_covering hc

/-- **C17 fresh: the fixed-index model is the interference-free case.**  A request that is resumed
with no event in between (read = the current version) changes the cache and answers exactly as
`EV.Rpc.limitedHistory` — the function the limits suite compares with the real
`SessionManager.limited_history` on every run — does on a world with that history. -/
theorem C17_fresh_sequential (hist : Index) (w : EV.Rpc.World) (s : State) (hx : Bytes)
    (hw : w.history hx = hist s.ver hx) :
    (run hist (EV.Rpc.histLimit w.maxSend) s [.request hx, .resume s.reqs.length s.ver]).cache =
        (EV.Rpc.limitedHistory w { histCache := s.cache } hx).1.histCache ∧
    (replies hist (EV.Rpc.histLimit w.maxSend) s [.request hx, .resume s.reqs.length s.ver]).map
        (fun a => a.res.toExcept) = [(EV.Rpc.limitedHistory w { histCache := s.cache } hx).2] := by
  unfold EV.Rpc.limitedHistory
  cases h : dGet hx s.cache with
  | some r =>
    simp [run, runWith, replies, repliesWith, stepWith, outWith, h]
  | none =>
    simp [run, runWith, replies, repliesWith, stepWith, outWith, h, accepts, ← cut_eq_histCompute, hw]

/-- the two parts of (c) as ONE run: `evs` up to a state where `hx` is not pending, then `evs'` -/
theorem C17_fresh_after_run (hist : Index) (limit : Nat) (evs evs' : List Ev) (hx : Bytes)
    (hok : RunOK hist limit init (evs ++ evs'))
    (hp : ¬ Pending (run hist limit init evs) hx)
    (hnb : ∀ t, Ev.block t ∈ evs' → hx ∉ t) :
    ∃ old new, replies hist limit init (evs ++ evs') = old ++ new ∧
      old = replies hist limit init evs ∧
      ∀ a ∈ new, a.hx = hx → a.res = cut limit (hist (run hist limit init evs).ver hx) := by
  rw [runOK_append] at hok
  refine ⟨_, _, replies_append evs evs' init, rfl, ?_⟩
  intro a ha hax
  exact (C17_fresh_after hist limit evs evs' hx hok.1 hp hok.2 hnb a ha hax).1

/-! ## Non-vacuity and sharpness

`limit = 2`; script hash `[1]`; entries `e1`, `e2`. -/
namespace Ex

def e1 : Entry := ([7], 1)
def e2 : Entry := ([8], 2)

/-- growth to the limit: `[1]` has one entry in version 0 and two (= `limit`) from version 1 on -/
def histA : Index := fun v hx => if hx = [1] then (if v = 0 then [e1] else [e1, e2]) else []

/-- a read that spans two blocks and their notifications: the request for `[1]` arrives, block 1
touches `[1]` and is notified, block 2 touches `[2]` only and is notified, and only then is the
request resumed — with the result of version 0 (the read's start).  A second request follows. -/
def traceA : List Ev :=
  [.request [1], .block [[1]], .notifyBegin [[1]], .notifyDrop 0,
   .block [[2]], .notifyBegin [[2]], .notifyDrop 0, .resume 0 0, .request [1]]

def notBlock : Ev → Bool
  | .block _ => false
  | _ => true

theorem traceA_ok (evs : List Ev) (h : ∀ e ∈ evs, notBlock e = true) :
    RunOK histA 2 init (traceA ++ evs) := by
  have hnb : ∀ (evs : List Ev), (∀ e ∈ evs, notBlock e = true) → ∀ s, RunOK histA 2 s evs := by
    intro evs
    induction evs with
    | nil => intro _ _; trivial
    | cons e r ih =>
      intro h s
      refine ⟨?_, ih (fun e' he' => h e' (List.mem_cons_of_mem _ he')) _⟩
      cases e with
      | block t => exact absurd (h _ List.mem_cons_self) (by simp [notBlock])
      | _ => trivial
  simp only [traceA, List.cons_append, List.nil_append, RunOK, EvOK, true_and]
  refine ⟨?_, ?_, hnb evs h _⟩
  · intro hx hm
    have hne : hx ≠ [1] := by simpa using hm
    simp [histA, hne]
  · intro hx _
    show histA 2 hx = histA 1 hx
    simp [histA]

/-- the code: the stale result is rejected (`notify_count` moved), the read is repeated once
(`loops = 1`) and both requests are refused — from version 2, in which `[1]` has `limit` entries -/
example :
    replies histA 2 init (traceA ++ [.resume 0 2, .resume 0 2]) =
      [{ hx := [1], res := .tooLarge, hit := false, arrVer := 0, ansVer := 2, loops := 1,
         dirty := false, inflight := false },
       { hx := [1], res := .tooLarge, hit := false, arrVer := 2, ansVer := 2, loops := 0,
         dirty := false, inflight := false }] := by decide

example : RunOK histA 2 init (traceA ++ [.resume 0 2, .resume 0 2]) :=
  traceA_ok _ (by decide)

example : Quiescent (run histA 2 init traceA) := by decide

/-- a read spanning ONE notification loops once as well -/
example :
    replies histA 2 init [.request [1], .block [[1]], .notifyBegin [[1]], .resume 0 0, .notifyDrop 0,
                          .resume 0 1, .request [1]] =
      [{ hx := [1], res := .tooLarge, hit := false, arrVer := 0, ansVer := 1, loops := 1,
         dirty := false, inflight := false },
       { hx := [1], res := .tooLarge, hit := true, arrVer := 1, ansVer := 1, loops := 0,
         dirty := false, inflight := false }] := by decide

/-- `a.dirty` is needed in (b'): resumed between the block and its notification, the code serves the
history of version 0 (whole, below the limit — (b) holds) while version 1 is current -/
example :
    replies histA 2 init [.request [1], .block [[1]], .resume 0 0] =
      [{ hx := [1], res := .ok [e1], hit := false, arrVer := 0, ansVer := 1, loops := 0,
         dirty := true, inflight := false }] := by decide

/-- `a.inflight` is needed in (b') for hits: between the two halves of `_notify_sessions` (while it
awaits `_refresh_hsub_results`) the cache still holds the entry of version 0 and serves it -/
example :
    (replies histA 2 init [.request [1], .resume 0 0, .block [[1]], .notifyBegin [[1]], .request [1],
                           .notifyDrop 0, .request [1], .resume 0 1]).map
        (fun a => (a.res, a.hit, a.ansVer, a.dirty, a.inflight)) =
      [(.ok [e1], false, 0, false, false), (.ok [e1], true, 1, false, true),
       (.tooLarge, false, 1, false, false)] := by decide

/-- shrink across the limit (a reorg): two entries (= `limit`) in version 0, one from version 1 on -/
def histB : Index := fun v hx => if hx = [1] then (if v = 0 then [e1, e2] else [e1]) else []

/-- the refusal is computed and cached; the reorg shrinks the history, is notified; a new request -/
def traceB : List Ev :=
  [.request [1], .resume 0 0, .block [[1]], .notifyBegin [[1]], .notifyDrop 0, .request [1]]

theorem traceB_ok : RunOK histB 2 init (traceB ++ [.resume 0 1, .request [1]]) := by
  simp only [traceB, List.cons_append, List.nil_append, RunOK, EvOK, true_and, and_true]
  intro hx hm
  have hne : hx ≠ [1] := by simpa using hm
  simp [histB, hne]

/-- the code: refused before the reorg, served whole after it — by the miss and then from cache -/
example :
    (replies histB 2 init (traceB ++ [.resume 0 1, .request [1]])).map (fun a => (a.res, a.hit, a.ansVer)) =
      [(.tooLarge, false, 0), (.ok [e1], false, 1), (.ok [e1], true, 1)] := by decide

example : Quiescent (run histB 2 init traceB) := by decide

theorem traceB_ok' : RunOK histB 2 init traceB := by
  simp only [traceB, RunOK, EvOK, true_and, and_true]
  intro hx hm
  have hne : hx ≠ [1] := by simpa using hm
  simp [histB, hne]

/-- `C17_fresh_after` instantiated: all its hypotheses hold of the quiescent state after the notified
reorg, and it yields that every later reply for `[1]` is the whole one-entry history -/
example (a : Ans)
    (ha : a ∈ replies histB 2 (run histB 2 init traceB) [.resume 0 1, .request [1]])
    (hax : a.hx = [1]) : a.res = .ok [e1] :=
  (C17_fresh_after histB 2 traceB [.resume 0 1, .request [1]] [1] traceB_ok'
    (not_pending_of_quiescent (by decide) _) ⟨trivial, trivial, trivial⟩
    (by intro t ht; simp at ht) a ha hax).2.1 (by decide)

end Ex

/-! ### the two seeded regressions -/
namespace Orig

open Ex

/-- **Counterexample (i): `notify_count == self._notify_count or hashX not in last_touched`.**
With two notifications during one read (`traceA`) the stale read of version 0 is accepted because the
LATEST touched set (`[[2]]`) does not name `[1]`: the one-entry history is served and cached although
nothing is pending (`dirty = inflight = false`, the state is quiescent) and the current version
(2) has `limit` entries — (b') fails for the first reply, (a) and (c) for the cache and the second
reply, which is a hit at quiescence. -/
theorem C17_fresh_lastTouched_counterexample :
    repliesWith true false histA 2 init traceA =
      [{ hx := [1], res := .ok [e1], hit := false, arrVer := 0, ansVer := 2, loops := 0,
         dirty := false, inflight := false },
       { hx := [1], res := .ok [e1], hit := true, arrVer := 2, ansVer := 2, loops := 0,
         dirty := false, inflight := false }] ∧
    cut 2 (histA 2 [1]) = .tooLarge ∧
    Quiescent (runWith true false histA 2 init traceA) ∧
    dGet [1] (runWith true false histA 2 init traceA).cache = some (.ok [e1]) := by decide

/-- **Counterexample (ii): the deletion of `_notify_sessions` keeps cached refusals.**  After the
reorg of `traceB` has been notified the state is quiescent, the current history of `[1]` has one entry
(< `limit`), and the new request is still refused from cache — (a) and (c) fail. -/
theorem C17_fresh_keepRefusals_counterexample :
    (repliesWith false true histB 2 init traceB).map (fun a => (a.res, a.hit, a.ansVer, a.dirty, a.inflight)) =
      [(.tooLarge, false, 0, false, false), (.tooLarge, true, 1, false, false)] ∧
    cut 2 (histB 1 [1]) = .ok [e1] ∧
    Quiescent (runWith false true histB 2 init traceB) := by decide

end Orig

end EV.HistFresh

import EV.Proofs.Peers
import EV.Proofs.PeersCons

/-!
# C19 — only verified, public, recently good peers are advertised, spread over networks

> For any set of known peers in any state, the peer list given to clients contains only peers that
> were verified recently, are not marked bad and are publicly routable (plus the server's own
> recently verified identities), never more than two such peers per external address bucket, and a
> bounded number of onion peers; a peer built from an arbitrary announced feature dictionary always
> has ports that are valid or absent and is treated as public only if its host is a syntactically
> valid hostname or a routable, non-private address.

Model: `EV/Model/Peers.lean` — literal models of `PeerManager.on_peers_subscribe` /
`_get_recent_good_peers` (`electrumx/server/peers.py`) and of `Peer.__init__`,
`peers_from_features`, `_port`, `_integer`, `_string`, `pruning`, `_protocol_version_string`,
`is_valid`, `is_public` (`electrumx/lib/peer.py`), tied to the real classes by the `peers`
correspondence suite on every run.

Quantification: every list of peer views (any states, any sharing of buckets, our own identities
inside or outside the peer set), every requester kind, every outcome of every `random.shuffle`
call (`IsShuffle`: each call returns a permutation of its argument); every decoded JSON value
`J` as feature dictionary, every source string.  Nothing is bounded.

The returned Python `set` is a list without repeated identities in the model; "number of returned
peers such that …" is `List.countP`.
-/
namespace EV.Peers

/-- **C19 (sound).**  Every peer in the answer of `on_peers_subscribe` is one of the server's own
identities verified less than `STALE_SECS` ago, or a known peer verified less than `STALE_SECS`
ago that is not marked bad and is public. -/
theorem C19_sound (now : Int) (peers myselves : List PeerV) (isTor : Bool)
    (shuf : Nat → List PeerV → List PeerV) (hshuf : IsShuffle shuf) :
    ∀ r ∈ onPeersSubscribe now peers myselves isTor shuf,
      (r ∈ myselves ∧ r.lastGood > now - EV.Gen.staleSecs) ∨
      (r ∈ peers ∧ r.lastGood > now - EV.Gen.staleSecs ∧ r.bad = false ∧ r.isPublic = true) := by
  intro r hr
  rcases mem_setUpdate hr with h | h
  · rcases mem_clearPart hshuf.sub h with h | h
    · exact Or.inl (mem_initSet h)
    · exact Or.inr (mem_recentGood h.1)
  · exact Or.inr (mem_recentGood (mem_onionPicks hshuf.sub h).1)

/-- **C19 (the answer is a set).**  No peer object is advertised twice — the counts in
`C19_bucket` / `C19_onion` count distinct objects.  Holds for any `shuf` whatsoever. -/
theorem C19_nodup (now : Int) (peers myselves : List PeerV) (isTor : Bool)
    (shuf : Nat → List PeerV → List PeerV) :
    ((onPeersSubscribe now peers myselves isTor shuf).map (·.id)).Nodup :=
  answer_nodup now peers myselves isTor shuf

/-- `gen_consts.py` could observe the caps on the running code (the method still has the shape
"`N` per bucket; `cap_tor` resp. `max(floor, n // d)` onion peers"); otherwise the `Gen` values
are sentinels and nothing below may be relied on. -/
theorem caps_observed : EV.Gen.peersCapsObserved = true := by decide

/-- The literal the property text fixes ("never more than two"), read off the running code by
`gen_consts.py` (it observes how many of 40 eligible same-bucket peers the real method returns). -/
theorem bucketCap_is_two : EV.Gen.bucketCap = 2 := by decide

/-- **C19 (bucket).**  For every external address bucket `b`, at most **two** returned clearnet
peers other than the server's own identities have bucket `b`.  (Instance of the parametric
`bucket_le_cap` at the literal `2`: editing `bucket_peers[:2]` regenerates `Gen.bucketCap` and this
theorem stops checking while `bucket_le_cap` still holds.) -/
theorem C19_bucket (now : Int) (peers myselves : List PeerV) (isTor : Bool)
    (shuf : Nat → List PeerV → List PeerV) (hshuf : IsShuffle shuf) (b : String) :
    (onPeersSubscribe now peers myselves isTor shuf).countP
      (fun r => !r.isTor && decide (r.bucket = b) && !isMyself myselves r) ≤ 2 := by
  have h := bucket_le_cap now peers myselves isTor shuf hshuf.sub b
  rw [bucketCap_is_two] at h
  exact h

/-- **C19 (onion).**  The number of returned onion peers other than the server's own identities is
at most `cap_tor` for a Tor requester and `max(floor, n // div)` otherwise, where `n` is the size of
the clearnet part of the answer (`clearPart`: own identities + bucket picks) and the three
constants are the ones observed on the running code (50, 10, 4 at the pinned commit). -/
theorem C19_onion (now : Int) (peers myselves : List PeerV) (isTor : Bool)
    (shuf : Nat → List PeerV → List PeerV) (hshuf : IsShuffle shuf) :
    (onPeersSubscribe now peers myselves isTor shuf).countP
      (fun r => r.isTor && !isMyself myselves r) ≤
    if isTor then EV.Gen.onionCapTor
    else max EV.Gen.onionFloor ((clearPart now peers myselves shuf).length / EV.Gen.onionDiv) :=
  onion_le_max now peers myselves isTor shuf hshuf.sub

/-- What "the clearnet part" in `C19_onion` is: the answer is the clearnet part followed by onion
picks only, and every member of the clearnet part is an own identity or a clearnet peer. -/
theorem C19_onion_split (now : Int) (peers myselves : List PeerV) (isTor : Bool)
    (shuf : Nat → List PeerV → List PeerV) (hshuf : IsShuffle shuf) :
    (∃ extra, onPeersSubscribe now peers myselves isTor shuf
        = clearPart now peers myselves shuf ++ extra ∧ ∀ e ∈ extra, e.isTor = true) ∧
    ∀ c ∈ clearPart now peers myselves shuf, c ∈ myselves ∨ c.isTor = false := by
  constructor
  · obtain ⟨extra, h1, h2⟩ := setUpdate_prefix (onionPicks now peers myselves isTor shuf)
      (clearPart now peers myselves shuf)
    exact ⟨extra, h1, fun e he => (mem_onionPicks hshuf.sub (h2 e he)).2⟩
  · intro c hc
    rcases mem_clearPart hshuf.sub hc with h | h
    · exact Or.inl (mem_initSet h).1
    · exact Or.inr h.2

/-- **C19 (ports).**  For every decoded JSON value announced as feature dictionary and every
source, `Peer.peers_from_features` does not raise, and every peer it builds has a TCP port and an
SSL port that are absent or satisfy `0 < port < 65536` (and a pruning value absent or positive).
Hypothesis `PyStrOK`: CPython's `str(i)` succeeds for `0` and for every `i` that `int(s)` can
produce (it is the only operation in `Peer.__init__` that could raise: `version_string`). -/
theorem C19_ports (P : Py) (hP : PyStrOK P) (features : J) (source : String) :
    ∃ ps, peersFromFeatures P features source = .ok ps ∧
      ∀ p ∈ ps, (∀ v, p.tcpPort = some v → 0 < v ∧ v < 65536) ∧
                (∀ v, p.sslPort = some v → 0 < v ∧ v < 65536) ∧
                (∀ v, p.pruning = some v → 0 < v) := by
  obtain ⟨ps, hps⟩ := peersFromFeatures_ok hP features source
  refine ⟨ps, hps, fun p hp => ?_⟩
  obtain ⟨host, hok⟩ := peersFromFeatures_mem hps p hp
  exact hok.2

/-- **C19 (ports), without any assumption on CPython**: whatever `int(str)` / `str(int)` do, every
peer that is built has valid-or-absent ports, and the only exception that can escape is the
`ValueError` of `str(int)`. -/
theorem C19_ports_any (P : Py) (features : J) (source : String) :
    (∀ ps, peersFromFeatures P features source = .ok ps →
      ∀ p ∈ ps, (∀ v, p.tcpPort = some v → 0 < v ∧ v < 65536) ∧
                (∀ v, p.sslPort = some v → 0 < v ∧ v < 65536)) ∧
    (∀ e, peersFromFeatures P features source = .error e → e = .valueError) := by
  refine ⟨fun ps hps p hp => ?_, fun e he => peersFromFeatures_err he⟩
  obtain ⟨host, hok⟩ := peersFromFeatures_mem hps p hp
  exact ⟨hok.2.1, hok.2.2.1⟩

/-- **C19 (public).**  A peer is treated as public only if its host does not parse as an IP
address, is a syntactically valid hostname and is not `localhost`; or parses as an address that is
(global or private), not multicast, not unspecified and not private.  `ipaddress` and
`aiorpcx.is_valid_hostname` are the parameters `N`. -/
theorem C19_public (N : Net) (p : Peer) (h : p.isPublic N = true) :
    (N.ipOf p.host = none ∧ N.validHostname p.host = true ∧ p.host ≠ "localhost") ∨
    (∃ a, N.ipOf p.host = some a ∧ (a.isGlobal = true ∨ a.isPrivate = true) ∧
      a.isMulticast = false ∧ a.isUnspecified = false ∧ a.isPrivate = false) := by
  simp only [Peer.isPublic, isPublicHost, isValidHost] at h
  cases hip : N.ipOf p.host with
  | none =>
    rw [hip] at h
    simp only [Bool.and_eq_true, bne_iff_ne, ne_eq] at h
    exact Or.inl ⟨rfl, h.1, h.2⟩
  | some a =>
    rw [hip] at h
    simp only [Bool.and_eq_true, Bool.or_eq_true, Bool.not_eq_true', Bool.or_eq_false_iff] at h
    exact Or.inr ⟨a, rfl, h.1.1, h.1.2.1, h.1.2.2, h.2⟩

/-- **C19 (advertised peers are public hosts).**  Putting the two halves together: if the views
handed to `on_peers_subscribe` are the views of constructed peers, every advertised peer that is
not one of our own identities has a host that passes the `C19_public` test. -/
theorem C19_advertised_public (N : Net) (bucketOf : Option String → String)
    (now : Int) (peers myselves : List PeerV) (isTor : Bool)
    (shuf : Nat → List PeerV → List PeerV) (hshuf : IsShuffle shuf)
    (hview : ∀ v ∈ peers, ∃ id p ip lg bad, v = viewOf N bucketOf id p ip lg bad) :
    ∀ r ∈ onPeersSubscribe now peers myselves isTor shuf, r ∉ myselves →
      (N.ipOf r.host = none ∧ N.validHostname r.host = true ∧ r.host ≠ "localhost") ∨
      (∃ a, N.ipOf r.host = some a ∧ (a.isGlobal = true ∨ a.isPrivate = true) ∧
        a.isMulticast = false ∧ a.isUnspecified = false ∧ a.isPrivate = false) := by
  intro r hr hnm
  rcases C19_sound now peers myselves isTor shuf hshuf r hr with h | h
  · exact absurd h.1 hnm
  · obtain ⟨id, p, ip, lg, bad, rfl⟩ := hview r h.1
    exact C19_public N p h.2.2.2

/-! ## Non-vacuity -/

/-- a shuffle that really permutes -/
example : IsShuffle (fun _ l => l.reverse) := fun _ l => List.reverse_perm l

/-- `PyStrOK` holds of the executable CPython instance the driver uses -/
example : PyStrOK pyAscii := pyAscii_strOK

private def pv (id : Nat) (lg : Int) (bad tor pub : Bool) (b : String) : PeerV :=
  { id := id, lastGood := lg, bad := bad, isTor := tor, isPublic := pub, bucket := b }

/-- three eligible peers in one /16, one stale, one bad, one private, one onion, our own identity
also a member of the peer set: two of the three are advertised (with the reversing shuffle the last
two), the stale / bad / private ones are not. -/
example :
    (onPeersSubscribe 20000 [pv 1 19000 false false true "1.2.0.0/16",
                             pv 2 19000 false false true "1.2.0.0/16",
                             pv 3 19000 false false true "1.2.0.0/16",
                             pv 4 9200 false false true "5.6.0.0/16",
                             pv 5 19000 true false true "5.6.0.0/16",
                             pv 6 19000 false false false "5.6.0.0/16",
                             pv 7 19000 false true true "onion",
                             pv 0 19999 false false true "9.9.0.0/16"]
        [pv 0 19999 false false true "9.9.0.0/16"] false (fun _ l => l.reverse)).map (·.id)
      = [0, 3, 2, 7] := by decide

/-- the boundary: `last_good = now - STALE_SECS` is *not* recent, one second later is -/
example :
    (onPeersSubscribe 20000 [pv 1 9200 false false true "", pv 2 9201 false false true ""]
        [] false (fun _ l => l)).map (·.id) = [2] := by decide

private def pyToy : Py := { intOfString := fun _ => none, strOfInt := fun _ => some "0" }

/-- a constructed peer with a port taken from the host entry, one out of range dropped, `true`
accepted as the integer 1 -/
example :
    (match peersFromFeatures pyToy
        (.obj [("hosts", .obj [("a", .obj [("tcp_port", .int 50001), ("ssl_port", .int 65536)]),
                               ("b", .obj [("tcp_port", .bool true)])])]) "src" with
     | .ok [p, q] => p.tcpPort == some 50001 && p.sslPort == none && q.tcpPort == some 1
     | _ => false) = true := by decide

private def netToy : Net :=
  { ipOf := fun h =>
      if h = "8.8.8.8" then some { isGlobal := true, isPrivate := false, isMulticast := false, isUnspecified := false }
      else if h = "10.0.0.1" then some { isGlobal := false, isPrivate := true, isMulticast := false, isUnspecified := false }
      else none
    validHostname := fun h => h = "a.example.com" || h = "localhost" }

private def peerToy (host : String) : Peer :=
  { host := host, source := "", features := [], pruning := none, serverVersion := none,
    protocolMin := "0.0", protocolMax := "0.0", sslPort := none, tcpPort := none }

/-- `C19_public` is not vacuous: a global address and a valid name are public, a private address
and `localhost` are not -/
example : (peerToy "8.8.8.8").isPublic netToy = true ∧ (peerToy "a.example.com").isPublic netToy = true ∧
    (peerToy "10.0.0.1").isPublic netToy = false ∧ (peerToy "localhost").isPublic netToy = false ∧
    (peerToy "b.example.com").isPublic netToy = false := by decide

/-- the hypothesis `hview` of `C19_advertised_public` is satisfiable by a population that is
actually advertised -/
example :
    (∀ v ∈ [viewOf netToy (fun _ => "") 1 (peerToy "8.8.8.8") none 19000 false],
      ∃ id p ip lg bad, v = viewOf netToy (fun _ => "") id p ip lg bad) ∧
    (onPeersSubscribe 20000 [viewOf netToy (fun _ => "") 1 (peerToy "8.8.8.8") none 19000 false]
      [] false (fun _ l => l)).length = 1 := by
  refine ⟨fun v hv => ?_, ?_⟩
  · simp only [List.mem_singleton] at hv
    exact ⟨1, peerToy "8.8.8.8", none, 19000, false, hv⟩
  · have hp : (peerToy "8.8.8.8").isPublic netToy = true := by decide
    simp only [viewOf, hp]
    -- whether or not the host ends in ".onion" (not kernel-evaluable), the peer is advertised
    generalize (peerToy "8.8.8.8").isTor = t
    cases t <;> decide

end EV.Peers

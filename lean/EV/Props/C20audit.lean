import EV.Props.C20

/-!
# C20 — audit strengthenings

* `C20_emitted_at_report`, `C20_emitted_le_highest`: every height the class notifies at is the height
  of a block-like report (`on_block` or `start`) received by then — in particular it is bounded by the
  highest such report.  (No hypothesis on the heights; the only other possibility, the initial
  `_highest_block = -1` paired with a mempool report at `-1` before any block-like report, is stated
  explicitly.)  This is the `Notifications` part of C07's "a height-carrying notification never
  precedes the block being queryable": the block processor calls `on_block(h)` only after the flush
  that makes `h` readable (C01sync_told / C07carrier_reads), and `start` is called with the DB height.
* completeness is per PAIRING EVENT (audit §C20): `C20_both_reported_not_drained`.
* the justification of `StartOK` given in `C20.py` was wrong: `C20_startok_counterexample`.
-/
namespace EV.Notif

/-- the height of a block-like report (`on_block`, `start`), if the operation is one -/
def Op.blockLike : Op → Option Int
  | .start h => some h
  | .block _ h => some h
  | .mempool _ _ => none

/-- the highest block-like report of a history (`-1`, the initial `_highest_block`, if there is none) -/
def highestReport (ops : List Op) : Int :=
  ops.foldl (fun m o => match o.blockLike with | some h => max m h | none => m) (-1)

theorem foldl_max_ge (ops : List Op) (m : Int) :
    m ≤ ops.foldl (fun m o => match o.blockLike with | some h => max m h | none => m) m := by
  induction ops generalizing m with
  | nil => exact Int.le_refl _
  | cons o r ih =>
    simp only [List.foldl_cons]
    cases o.blockLike with
    | none => exact ih m
    | some h => exact Int.le_trans (Int.le_max_left m h) (ih _)

theorem le_foldl_max_of_mem (ops : List Op) (m : Int) {o : Op} {h : Int} (ho : o ∈ ops)
    (hb : o.blockLike = some h) :
    h ≤ ops.foldl (fun m o => match o.blockLike with | some h => max m h | none => m) m := by
  induction ops generalizing m with
  | nil => simp at ho
  | cons a r ih =>
    simp only [List.foldl_cons]
    rcases List.mem_cons.mp ho with rfl | ho
    · rw [hb]
      exact Int.le_trans (Int.le_max_right m h) (foldl_max_ge r _)
    · exact ih _ ho

/-- every block-like report is at most `highestReport` -/
theorem le_highestReport {ops : List Op} {o : Op} {h : Int} (ho : o ∈ ops) (hb : o.blockLike = some h) :
    h ≤ highestReport ops :=
  le_foldl_max_of_mem ops (-1) ho hb

/-- **C20 (a notification is always AT the height of a block-like report).**  For every history
and every notification `notify(e.1, _)` made by its last operation: a `start(e.1)` or an
`on_block(_, e.1)` has been received by then — or no block-like report at all has been received and
`e.1 = -1`, the initial `_highest_block` (possible only if the mempool tracker reports at height `-1`,
which `C20_safety` excludes by its non-negativity hypothesis). -/
theorem C20_emitted_at_report (pre : List Op) (op : Op) (e : Emit)
    (he : (step (run init pre).1 op).2 = some e) :
    (∃ o ∈ pre ++ [op], o.blockLike = some e.1) ∨ (e.1 = -1 ∧ lastBlockLike pre = none) := by
  have hI := hinv_run pre
  cases op with
  | start h =>
    simp [step, start] at he; subst he
    exact Or.inl ⟨.start h, by simp, rfl⟩
  | mempool t h =>
    simp only [step, onMempool_eq] at he
    have hp := maybeNotify_emit he
    rcases pickHeight_some hp with ⟨_, h2, _⟩ | ⟨_, h2, _, _⟩
    · obtain ⟨t', ht'⟩ := hI.bpK _ h2
      exact Or.inl ⟨.block t' e.1, by simp [ht'], rfl⟩
    · have hhi : e.1 = (lastBlockLike pre).getD (-1) := by rw [h2]; exact hI.hi
      cases hl : lastBlockLike pre with
      | none => rw [hl] at hhi; exact Or.inr ⟨by simpa using hhi, rfl⟩
      | some H =>
        rw [hl] at hhi; simp at hhi; subst hhi
        rcases lastBlockLike_mem hl with ⟨t'', h4⟩ | h4
        · exact Or.inl ⟨.block t'' e.1, by simp [h4], rfl⟩
        · exact Or.inl ⟨.start e.1, by simp [h4], rfl⟩
  | block t h =>
    simp only [step, onBlock_eq] at he
    have hp := maybeNotify_emit he
    rcases pickHeight_some hp with ⟨_, h2, _⟩ | ⟨_, h2, _, _⟩
    · rcases (keys_preBlock_bp _ t h e.1).mp h2 with h3 | ⟨h3, _⟩
      · exact Or.inl ⟨.block t h, by simp, by rw [h3]; rfl⟩
      · obtain ⟨t', ht'⟩ := hI.bpK _ h3
        exact Or.inl ⟨.block t' e.1, by simp [ht'], rfl⟩
    · have : e.1 = h := by rw [h2]; rfl
      exact Or.inl ⟨.block t h, by simp, by rw [this]; rfl⟩

/-- **C20 (emitted heights are bounded by the highest block-like report).**  No notification carries
a height above the highest height the block processor (or start-up) has reported so far. -/
theorem C20_emitted_le_highest (pre : List Op) (op : Op) (e : Emit)
    (he : (step (run init pre).1 op).2 = some e) :
    e.1 ≤ highestReport (pre ++ [op]) := by
  rcases C20_emitted_at_report pre op e he with ⟨o, ho, hb⟩ | ⟨h1, _⟩
  · exact le_highestReport ho hb
  · rw [h1]; exact foldl_max_ge _ _

/-- non-vacuity: a history with falling heights; the notification at 6 is at the block report 6, and
    the bound is the EARLIER, higher report 8 (the bound cannot be improved to the last report: after
    `start` below an earlier block height a notification at the earlier height is possible, see
    `C20_startok_counterexample`) -/
example : (step (run init [.start 5, .mempool [1] 7, .block [2] 8, .block [3] 6]).1 (.mempool [4] 6)).2
      = some (6, [4, 3, 1, 2]) ∧
    highestReport ([.start 5, .mempool [1] 7, .block [2] 8, .block [3] 6] ++ [.mempool [4] 6]) = 8 := by
  decide

example : (step (run init [.block [1] 8, .start 6]).1 (.mempool [] 8)).2 = some (8, [1]) ∧
    lastBlockLike [.block [1] 8, .start 6] = some 6 ∧
    highestReport ([.block [1] 8, .start 6] ++ [.mempool [] 8]) = 8 := by decide

/-- the second disjunct of `C20_emitted_at_report` is inhabited (negative height, no block yet) -/
example : (step (run init []).1 (.mempool [1] (-1))).2 = some (-1, [1]) := by decide

/-- **C20: completeness is per pairing event, not per state** (audit §C20).  Both sources' most
recent reports are at height 5, yet script hash 1 is pending and nothing but `start`'s empty
notification has been emitted: the block report at 5 arrived AFTER height 5 had been paired (the
same-height reorganisation / idle poll `on_block(touched, 5)`).  It is released by the next mempool
report at that height (`C20_complete`), which the mempool tracker produces on its next refresh. -/
theorem C20_both_reported_not_drained :
    lastBlockLike [Op.start 5, .mempool [] 5, .block [1] 5] = some 5 ∧
    lastMempool [Op.start 5, .mempool [] 5, .block [1] 5] = some 5 ∧
    pending (run init [.start 5, .mempool [] 5, .block [1] 5]).1 = [1] ∧
    emitted (run init [.start 5, .mempool [] 5, .block [1] 5]).2 = [] ∧
    -- the next mempool report at 5 releases it
    (run init [.start 5, .mempool [] 5, .block [1] 5, .mempool [] 5]).2 = [(5, []), (5, []), (5, [1])] := by
  decide

/-- **`StartOK` can be violated by the code** (the justification "start is called once, with the DB
height, which is ≥ every earlier block height" was wrong): `SessionManager.serve` calls
`notifications.start(self.db.state.height, …)` when the sessions start, which can be while
`reorg_chain` has lowered the DB height below the height of an earlier `on_block`.  Then `StartOK`
fails, and the mempool report at the new height leaves the block's touched set pending (it stays
pending until a block report at a height ≥ 8 or a mempool report pairs with it — `C20_no_loss` still
holds: nothing is dropped).  Harmless in practice: before `start` the `notify` callback is the no-op
installed by `Notifications.__init__` and no session exists, so nobody can hold a status that the
pending script hash would have to refresh; sessions that subscribe later compute their status from
the index. -/
theorem C20_startok_counterexample :
    ¬ StartOK [Op.block [1] 8, .start 6, .mempool [] 6] ∧
    lastBlockLike [Op.block [1] 8, .start 6] = some 6 ∧
    pending (run init [.block [1] 8, .start 6, .mempool [] 6]).1 = [1] ∧
    (run init [.block [1] 8, .start 6, .mempool [] 6]).2 = [(6, []), (6, [])] := by
  refine ⟨?_, by decide, by decide, by decide⟩
  intro h
  have := h [Op.block [1] 8] 6 [.mempool [] 6] rfl [1] 8 (by simp)
  omega

/-- a NON-trivial witness of `StartOK` (block reports BEFORE `start`; the in-file witness of
    `C20.lean` has `start` first, which makes the condition vacuous) -/
example : StartOK [Op.block [1] 5, .mempool [2] 5, .block [3] 6, .start 6, .mempool [4] 6] := by
  intro pre h post heq t k hk
  have : pre = [Op.block [1] 5, .mempool [2] 5, .block [3] 6] ∧ h = 6 := by
    match pre, heq with
    | [], heq => simp at heq
    | [_], heq => simp at heq
    | [_, _], heq => simp at heq
    | [_, _, _], heq => simp at heq; obtain ⟨rfl, rfl, rfl, rfl, _⟩ := heq; simp
    | [_, _, _, _], heq => simp at heq
    | _ :: _ :: _ :: _ :: _ :: _, heq => simp at heq
  obtain ⟨rfl, rfl⟩ := this
  simp at hk
  rcases hk with ⟨_, rfl⟩ | ⟨_, rfl⟩ <;> omega

/-- a witness of the hypothesis `hmp` of `C20_complete_block` (none in `C20.lean`): the mempool report
    at 6 is pending when the block report at 6 arrives second, after a detour over height 7 -/
example : (6 : Int) ∈ keys (run init [.start 5, .mempool [9] 6, .block [1] 7]).1.mp ∧
    (run init ([.start 5, .mempool [9] 6, .block [1] 7] ++ [.block [2] 6])).2 = [(5, []), (6, [9, 2, 1])] := by
  decide

end EV.Notif

import EV.Proofs.CrashBackup
import EV.Proofs.CrashRedo

/-!
# C05 — A crash in the middle of undoing blocks is recoverable

"If the process dies at any instant while a reorganisation is being backed out (between the history
rollback and the UTXO rollback of any block, or between blocks), then after restart and catching up
with the daemon the index again equals a fresh index of the daemon's chain, whichever chain the
daemon is on by then."

Model: `backupFull cfg s b` = `BlockProcessor.backup_block(b)` + `DB.flush_backup`; its persistent
effects are exactly two LevelDB batches, in this order: `History.backup`'s batch (truncated rows +
history state) and the UTXO batch (deleted / restored rows + UTXO state).  `cuts` of that list:
nothing / history batch only / both.  `recover` = `open_for_sync()` in a fresh process.

**The property as stated is false of the code (finding F8, recorded, not repaired).**
* `C05_cut_harmless` — proved: the cuts before the history batch and after the UTXO batch are the
  clean pre / post stores (so are cuts *between* blocks); only the cut between the two batches is
  new.
* `C05_counterexample_oldbranch` — machine-checked: for that cut, the restarted index reports
  height N with all UTXOs of block N but with the touched histories lacking block N's
  transactions; flushing restores nothing; when the daemon is (back) on the old branch — or a
  forced reorg found the chain unchanged — the next block is indexed on top and the history stays
  wrong for good.
* `C05_newbranch_partial` — proved (the continuation "the daemon's chain does not contain block
  N"): backing out block N again on the restarted system succeeds, performs the same UTXO batch,
  and leaves every history exactly as the uninterrupted back-out leaves it (`History.backup` is
  idempotent on already-truncated rows); the two flush counters and undo rows below the window are
  all that can differ.
Tie to the code: suite `crash`, entry `run_backup` (every cut of every `flush_backup` of generated
reorganisations × continuations new branch / old branch extended / unchanged chain, on the real
code); the known-finding predicate of the check is exactly the hypothesis excluded here: cut
between the two batches ∧ continuation ∈ {old branch, unchanged}.
-/
namespace EV.Index

/-- **C05 (harmless cuts).**  The effect list of a back-out is `[e1, e2]` with `e1` the history
batch and `e2` the UTXO batch, both atomic; its cuts are `[]`, `[e1]`, `[e1, e2]`.  Every cut other
than `[e1]` leaves the store the back-out started from, or the store of the complete back-out. -/
theorem C05_cut_harmless {cfg : Cfg} {s : Sys} {b : Block} {es : List Effect} {s' : Sys}
    (h : backupFull cfg s b = .ok (es, s')) :
    ∃ e1 e2, es = [e1, e2] ∧ e1.isHistBatch = true ∧ e2.isUtxoBatch = true ∧
      cuts es = [[], [e1], [e1, e2]] ∧
      ∀ c ∈ cuts es, c ≠ [e1] → applyEffects s.p c = s.p ∨ applyEffects s.p c = s'.p := by
  obtain ⟨e1, e2, rfl, h1, h2, hp⟩ := backupFull_effects h
  have hc := cuts_atomic2 e1 e2 (tornPrefixes_of_histBatch h1) (tornPrefixes_of_utxoBatch h2)
  refine ⟨e1, e2, rfl, h1, h2, hc, ?_⟩
  intro c hcm hne
  rw [hc] at hcm
  simp only [List.mem_cons, List.not_mem_nil, or_false] at hcm
  rcases hcm with rfl | rfl | rfl
  · exact Or.inl rfl
  · exact (hne rfl).elim
  · exact Or.inr hp.symm

/-- **F8 (C05 is false of the code): the cut between the two batches, old branch / unchanged chain.**
Chain: blocks 0 and 1, each a coinbase paying script hash 7 (`cxB0`, `cxB1`), indexed and fully
flushed (`cxS`: the real sync reaches it — first two conjuncts).  Block 1 is backed out; the
process dies after `History.backup`'s batch `cxE1` and before the UTXO batch `cxE2`.  The restart
(`cxR`) reports height 1 with both UTXOs, but the history of 7 is `[0]` where the chain says
`[0, 1]`; `flush_dbs` has nothing to flush (so nothing ever rewrites the row); and once block 2
arrives on top of block 1 the index is at height 2 with history `[0, 2]` instead of `[0, 1, 2]`. -/
theorem C05_counterexample_oldbranch :
    -- the state is reached by the real sync, and the back-out has exactly these two effects
    ((okSys (advance cxCfg 1 {} cxB0)).bind (fun s => okSys (advance cxCfg 1 s cxB1))) = some cxS2 ∧
    flush cxS2 true = .ok cxS ∧
    (match backupFull cxCfg cxS cxB1 with | .ok (es, _) => some es | .error _ => none) = some [cxE1, cxE2] ∧
    [cxE1] ∈ cuts [cxE1, cxE2] ∧
    -- restart after the cut between the batches
    (recover cxCfg (applyEffects cxS.p [cxE1])).map (·.2) = some cxR ∧
    cxR.m.dbst.height = 1 ∧
    allUtxos cxR 7 = some [⟨0, 0, 2^224, 0, 5⟩, ⟨1, 0, 2^225, 1, 6⟩] ∧
    getTxnums cxR.p 7 none = [0] ∧ limitedHistory cxR 7 none = some [(2^224, 0)] ∧
    EV.Spec.historyOf (EV.Spec.specChain 0 [cxB0, cxB1]) 7 = [0, 1] ∧
    -- nothing to flush: the unchanged-chain continuation ends here
    flushDbs cxR true = some ([], cxR.m) ∧
    -- old branch extended by block 2
    (((okSys (advance cxCfg 2 cxR cxB2)).bind (fun s => okSys (flush s true))).map
        (fun s => (s.m.dbst.height, getTxnums s.p 7 none))) = some (2, [0, 2]) ∧
    EV.Spec.historyOf (EV.Spec.specChain 0 [cxB0, cxB1, cxB2]) 7 = [0, 1, 2] :=
  ⟨cx_advance, cx_flush, cx_backup, by simp [cuts, tornPrefixes, cxE1], cx_recover, rfl, cx_utxos, cx_hist,
   cx_limited, cx_spec, cx_noflush, cx_old, cx_spec2⟩

/-- the same cut with the daemon on a branch without block 1: backing it out again on the restarted
    system ends in the very store the uninterrupted back-out produces (instance of the theorem below) -/
theorem C05_newbranch_example :
    (match backupFull cxCfg cxR cxB1, backupFull cxCfg cxS cxB1 with
      | .ok (_, a), .ok (_, b) => decide (a.p = b.p)
      | _, _ => false) = true :=
  cx_new

/-- **C05 (new branch; partial).**  Full statement: for every cut of every `flush_backup` and every
continuation, the index after restart and catch-up equals a fresh index of the daemon's chain —
false by `C05_counterexample_oldbranch`.  Proved part, for the cut `[e1]` between the two batches
when block N is backed out again after the restart (what the sync loop does when the daemon's chain
does not contain block N): from a fully flushed state `s` (`FlushedB`, below) with a retained undo
row, if the uninterrupted back-out succeeds with effects `[e1, e2]` and result `s'`, then the restart
on `applyEffects s.p [e1]` succeeds, the repeated back-out on the restarted system `r` succeeds
with effects `[e1', e2]` — *the same UTXO batch* — and its result `s2` has the same `h`/`u` tables,
the same UTXO state record, the same files, the same in-memory chain state and tx counts, and, for
every script hash, the same history as `s'`; its undo table is that of `s'` pruned by the restart.
What may differ: the two flush counters, `touched`, undo rows below the window. -/
theorem C05_newbranch_partial {cfg : Cfg} {s : Sys} {b : Block} {e1 e2 : Effect} {s' : Sys}
    (hfl : FlushedB cfg s) (h : backupFull cfg s b = .ok ([e1, e2], s')) :
    ∃ er r e1' s2, recover cfg (applyEffects s.p [e1]) = some (er, r) ∧
      backupFull cfg r b = .ok ([e1', e2], s2) ∧
      s2.p.h = s'.p.h ∧ s2.p.u = s'.p.u ∧ s2.p.ustate = s'.p.ustate ∧
      s2.p.headers = s'.p.headers ∧ s2.p.txcounts = s'.p.txcounts ∧ s2.p.hashes = s'.p.hashes ∧
      s2.p.undo = undoAfterOpen s'.p.undo (s.m.st.height - cfg.reorgLimit + 1) ∧
      s2.m.st = s'.m.st ∧ s2.m.dbst = s'.m.dbst ∧ s2.m.txCounts = s'.m.txCounts ∧
      (∀ hx, getTxnums s2.p hx none = getTxnums s'.p hx none) :=
  redo_backup hfl h

/-! non-vacuity of `FlushedB`: the state of the counterexample -/
example : FlushedB cxCfg cxS := flushed_cxS

end EV.Index

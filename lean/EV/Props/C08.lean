import EV.Props.C08lookup
import EV.Proofs.MempoolObs
import EV.Proofs.MempoolFinite

/-!
# C08 — a synchronised mempool view is exact

"Whenever a mempool refresh completes while the daemon's mempool and height were stable and the
index was at that height, then for every script hash the unconfirmed balance delta, the list of
unconfirmed transactions with their fee and has-unconfirmed-inputs flag, the unconfirmed UTXOs and
the set of potential spends equal what the daemon's mempool and the confirmed UTXO set imply; and
the set of script hashes reported as touched since the previous refresh includes every script hash
that gained or lost an unconfirmed transaction (a mere flip of the has-unconfirmed-inputs flag of a
transaction that stays, caused by its parent confirming, is re-examined by sessions on the height
change instead)."

Model: `EV/Model/Mempool.lean` (literal model of `mempool.py`), tied to the real class on every run
by the `mempool` suite.  `processMempool` is `_process_mempool` with the source's chunk size
(`EV.Gen.mempoolChunk`, observed from the running code); every theorem below is proved for *every*
positive chunk size and instantiated.

Quantifiers: every tracker state satisfying `MpInv` (any earlier history, races included), every
listing `M` (a duplicate-free list in the iteration order of `all_hashes.difference(txs)`), every
completion order `order` of the chunk tasks (a permutation of the chunk indices), every world `W`
(function from ids to transactions: txid injectivity), every confirmed UTXO map `U`.  No bound on
the number of transactions, chain depth, outputs per script hash or number of chunks.

`EnvQuiet W M U fetch lookup` (`EV/Proofs/MempoolExact.lean`) spells "stable and synchronised":
the listing is a set; every listed transaction is delivered and is the transaction with that id;
transactions only name existing outputs (`Valid`); `lookup_utxos` answers from `U`, which records
true outputs; `M` is closed (every non-generation input is funded by `M` or `U`), acyclic, and
conflict-free (no output spent by two listed transactions).  Conflict-freedom is needed: see
`C08_counterexample_conflict`.
-/
namespace EV.Mempool

theorem mempoolChunk_pos : 0 < EV.Gen.mempoolChunk := by decide

/-- **C08 (exactness).**  From any `MpInv` state, a refresh of a quiet environment returns, drops
nothing, and leaves exactly the specification pool: every listed transaction with its true input
pairs and `fee = max 0 (Σin − Σout)`, nothing else — in whatever order the chunk tasks complete.
(`MpInv` of the result makes `hashXs` the exact inverse index of that pool.) -/
theorem C08_exact (W : Hash → Option RawTx) (M : List Hash) (U : List (Prevout × Pair))
    (fetch : Hash → Option RawTx) (lookup : Nat → List Prevout → List (Option Pair))
    (st : St) (touched : List HashX) (h : Int) (order : List Nat)
    (hinv : MpInv W st) (henv : EnvQuiet W M U fetch lookup)
    (hord : order.Perm (List.range (numChunks EV.Gen.mempoolChunk st M))) :
    ∃ r, processMempool st M touched h h fetch lookup order = .ok r ∧ r.dropped = [] ∧
      r.st.txs.Perm (specPool W M U) ∧ MpInv W r.st := by
  obtain ⟨r, h1, h2, h3, h4⟩ := processMempoolN_quiet henv mempoolChunk_pos hinv touched h hord
  exact ⟨r, h1, h2, h4, h3⟩

/-- **C08 (the five observables).**  After such a refresh, for every script hash `x`:
`balance_delta` *equals* the specification's balance; `transaction_summaries` (hash, fee,
has-unconfirmed-inputs), `unordered_UTXOs` and `potential_spends` return — without raising — the
specification's lists up to order (they are built by iterating a set). -/
theorem C08_observables (W : Hash → Option RawTx) (M : List Hash) (U : List (Prevout × Pair))
    (fetch : Hash → Option RawTx) (lookup : Nat → List Prevout → List (Option Pair))
    (st : St) (touched : List HashX) (h : Int) (order : List Nat)
    (hinv : MpInv W st) (henv : EnvQuiet W M U fetch lookup)
    (hord : order.Perm (List.range (numChunks EV.Gen.mempoolChunk st M))) (x : HashX) :
    ∃ r, processMempool st M touched h h fetch lookup order = .ok r ∧
      balanceDelta r.st x = .ok (specBalance (specPool W M U) x) ∧
      (∃ l, transactionSummaries r.st x = .ok l ∧ l.Perm (specSummaries (specPool W M U) x)) ∧
      (∃ l, unorderedUTXOs r.st x = .ok l ∧ l.Perm (specUTXOs (specPool W M U) x)) ∧
      (∃ l, potentialSpends r.st x = .ok l ∧ l.Perm (specSpends (specPool W M U) x)) := by
  obtain ⟨r, h1, _, h3, h4⟩ := C08_exact W M U fetch lookup st touched h order hinv henv hord
  refine ⟨r, h1, ?_, ?_, ?_, ?_⟩
  · rw [balanceDelta_spec h4, specBalance_perm h3]
  · obtain ⟨l, g1, g2⟩ := transactionSummaries_spec h4 x
    exact ⟨l, g1, g2.trans (specSummaries_perm h3 x)⟩
  · obtain ⟨l, g1, g2⟩ := unorderedUTXOs_spec h4 x
    exact ⟨l, g1, g2.trans (specUTXOs_perm h3 x)⟩
  · obtain ⟨l, g1, g2⟩ := potentialSpends_spec h4 x
    exact ⟨l, g1, g2.trans (specSpends_perm h3 x)⟩

/-- **C08 (the observables in any `MpInv` state).**  Not only after a quiet refresh: whenever the
invariant holds the four methods never raise and equal the specification read off the *stored*
transaction set. -/
theorem C08_observables_inv (W : Hash → Option RawTx) (st : St) (hinv : MpInv W st) (x : HashX) :
    balanceDelta st x = .ok (specBalance st.txs x) ∧
    (∃ l, transactionSummaries st x = .ok l ∧ l.Perm (specSummaries st.txs x)) ∧
    (∃ l, unorderedUTXOs st x = .ok l ∧ l.Perm (specUTXOs st.txs x)) ∧
    (∃ l, potentialSpends st x = .ok l ∧ l.Perm (specSpends st.txs x)) :=
  ⟨balanceDelta_spec hinv x, transactionSummaries_spec hinv x, unorderedUTXOs_spec hinv x,
   potentialSpends_spec hinv x⟩

/-- **C08 (touched).**  For *every* sound environment (quiet or racing), every listing and order:
the refresh returns, and its `touched` contains what was there before, every hashX of every
transaction that went and of every transaction that came; a transaction that stays is kept as the
very same record (so its script hashes need not be reported). -/
theorem C08_touched (W : Hash → Option RawTx) (fetch : Hash → Option RawTx)
    (lookup : Nat → List Prevout → List (Option Pair)) (st : St) (allHashes : List Hash)
    (touched : List HashX) (h : Int) (order : List Nat)
    (hinv : MpInv W st) (henv : EnvSound W fetch lookup) :
    ∃ r, processMempool st allHashes touched h h fetch lookup order = .ok r ∧
      (∀ x ∈ touched, x ∈ r.touched) ∧
      (∀ e ∈ st.txs, e.1 ∉ r.st.txs.map (·.1) → ∀ x ∈ txHashXs e.2, x ∈ r.touched) ∧
      (∀ e ∈ r.st.txs, e.1 ∉ st.txs.map (·.1) → ∀ x ∈ txHashXs e.2, x ∈ r.touched) ∧
      (∀ e ∈ st.txs, e.1 ∈ r.st.txs.map (·.1) → e ∈ r.st.txs) := by
  obtain ⟨r, h1, F⟩ := processMempoolN_sound (henv.soundOn allHashes) EV.Gen.mempoolChunk hinv
    touched h order
  refine ⟨r, h1, F.touchedMono, F.lost, F.gained, ?_⟩
  intro e he hk
  obtain ⟨e', he', hk'⟩ := List.mem_map.mp hk
  exact F.stays e he (hk' ▸ F.listed e' he')

/-- **C08 (touched reaches the sessions).**  One iteration of `_refresh_hashes` that hands a view
over passes `on_mempool` the accumulated set: what was pending from failed rounds plus everything
this round lost or gained; a round that hands nothing over leaves the pending set as it was. -/
theorem C08_touched_handed_over (W : Hash → Option RawTx) (l : Loop) (r : Round)
    (hinv : MpInv W l.st) (henv : EnvSound W r.fetch r.lookup) :
    ∃ l', refreshRound EV.Gen.mempoolChunk l r = .ok l' ∧
      (l' = l ∨ ∃ t, l'.emits = l.emits ++ [(t, r.cachedHeight)] ∧ l'.touched = [] ∧
        (∀ x ∈ l.touched, x ∈ t) ∧
        (∀ e ∈ l.st.txs, e.1 ∉ l'.st.txs.map (·.1) → ∀ x ∈ txHashXs e.2, x ∈ t) ∧
        (∀ e ∈ l'.st.txs, e.1 ∉ l.st.txs.map (·.1) → ∀ x ∈ txHashXs e.2, x ∈ t)) := by
  unfold refreshRound
  split
  · exact ⟨l, rfl, Or.inl rfl⟩
  · by_cases hdb : r.cachedHeight = r.dbHeight
    · obtain ⟨p, h1, h2, h3, h4, _⟩ := C08_touched W r.fetch r.lookup l.st r.hashes l.touched
        r.cachedHeight r.order hinv henv
      have h1' : processMempoolN EV.Gen.mempoolChunk l.st r.hashes l.touched r.cachedHeight
          r.dbHeight r.fetch r.lookup r.order = .ok p := by rw [← hdb]; exact h1
      simp only [h1']
      exact ⟨_, rfl, Or.inr ⟨p.touched, rfl, rfl, h2, h3, h4⟩⟩
    · have : processMempoolN EV.Gen.mempoolChunk l.st r.hashes l.touched r.cachedHeight
          r.dbHeight r.fetch r.lookup r.order = .error .dbSyncError := by
        simp only [processMempoolN, ne_eq, hdb, not_false_eq_true, if_true]
      simp only [this]
      exact ⟨l, rfl, Or.inl rfl⟩

/-! ### non-vacuity: a concrete quiet world -/

namespace Example

/-- 5 is confirmed (outputs to script hash 6).  10 ← 11 ← 12 is an unconfirmed chain: 10 spends
    the confirmed output (5,0) and pays script hash 7 twice; 11 also has a generation-like input;
    12 spends outputs of both.  13 spends (5,1) and pays out more than it takes in. -/
def tb : Table :=
  [(5, { inputs := [(0, 4294967295)], outs := [(6, 100), (6, 30)], size := 60 }),
   (10, { inputs := [(5, 0)], outs := [(7, 50), (7, 20), (8, 25)], size := 100 }),
   (11, { inputs := [(0, 4294967295), (10, 0)], outs := [(9, 40)], size := 90 }),
   (12, { inputs := [(11, 0), (10, 2)], outs := [(7, 60)], size := 80 }),
   (13, { inputs := [(5, 1)], outs := [(8, 500)], size := 70 })]

def U : List (Prevout × Pair) := [((5, 0), (6, 100)), ((5, 1), (6, 30))]

/-- children listed before their parents -/
def M : List Hash := [12, 13, 11, 10]

theorem quiet : EnvQuiet (dget tb) M U (dget tb) (lookupFrom U) :=
  envQuiet_of_table (rank := id) (by decide)

theorem order_ok : [0].Perm (List.range (numChunks EV.Gen.mempoolChunk {} M)) := by
  have : numChunks EV.Gen.mempoolChunk {} M = 1 := by decide
  rw [this]; exact List.Perm.refl _

/-- all hypotheses of `C08_exact` hold of this world (starting from the empty tracker) … -/
example : ∃ r, processMempool {} M [] 100 100 (dget tb) (lookupFrom U) [0] = .ok r ∧
    r.dropped = [] ∧ r.st.txs.Perm (specPool (dget tb) M U) ∧ MpInv (dget tb) r.st :=
  C08_exact _ _ _ _ _ _ _ _ _ (MpInv_empty _) quiet order_ok

/-- … and the run is not trivial: 12 and 11 are deferred (twice resp. once) before the fix-point
    loop accepts them; fees 0 (clipped), 5, 10, 5 -/
example : (resultOf (processMempool {} M [] 100 100 (dget tb) (lookupFrom U) [0])).map
      (fun r => (r.st.txs.map (fun e => (e.1, e.2.fee)), r.dropped)) =
    some ([(13, 0), (10, 5), (11, 10), (12, 5)], []) := by decide

example : (resultOf (processMempool {} M [] 100 100 (dget tb) (lookupFrom U) [0])).map
      (fun r => okOf (balanceDelta r.st 7)) = some (some 80) := by decide

example : (resultOf (processMempool {} M [] 100 100 (dget tb) (lookupFrom U) [0])).map
      (fun r => okOf (transactionSummaries r.st 7)) =
    some (some [(10, 5, false), (11, 10, true), (12, 5, true)]) := by decide

example : (resultOf (processMempool {} M [] 100 100 (dget tb) (lookupFrom U) [0])).map
      (fun r => okOf (unorderedUTXOs r.st 7)) =
    some (some [(10, 0, 50), (10, 1, 20), (12, 0, 60)]) := by decide

/-- the exclusion stated in the property: the parent 10 confirms, the child 11 stays; the flag of
    11 flips from `true` to `false`, and script hash 9 (touched only by 11) is *not* reported —
    `touched` is `[6, 7, 8]`, the script hashes of the transaction that went. -/
def U' : List (Prevout × Pair) :=
  [((5, 1), (6, 30)), ((10, 0), (7, 50)), ((10, 1), (7, 20)), ((10, 2), (8, 25))]

theorem quiet' : EnvQuiet (dget tb) [11] U' (dget tb) (lookupFrom U') :=
  envQuiet_of_table (rank := id) (by decide)

def twoRefreshes : Option (ProcResult × ProcResult) :=
  (resultOf (processMempool {} [10, 11] [] 100 100 (dget tb) (lookupFrom U) [0])).bind fun r1 =>
    (resultOf (processMempool r1.st [11] [] 101 101 (dget tb) (lookupFrom U') [])).map fun r2 =>
      (r1, r2)

example : twoRefreshes.map (fun p => okOf (transactionSummaries p.1.st 9)) =
    some (some [(11, 10, true)]) := by decide
example : twoRefreshes.map (fun p => okOf (transactionSummaries p.2.st 9)) =
    some (some [(11, 10, false)]) := by decide
example : twoRefreshes.map (fun p => p.2.touched) = some [6, 7, 8] := by decide

end Example

/-! ### why conflict-freedom is a hypothesis -/

namespace Conflict

/-- 20 and 21 both spend the confirmed output (5,0); 21 also spends an output of 22, which is
    listed after it.  21 is deferred, 20 is accepted and its prevouts leave the returned utxo map,
    so the fix-point loop can no longer fund 21: it is dropped. -/
def tb : Table :=
  [(5, { inputs := [(0, 4294967295)], outs := [(6, 100), (6, 30)], size := 60 }),
   (20, { inputs := [(5, 0)], outs := [(7, 50)], size := 100 }),
   (21, { inputs := [(5, 0), (22, 0)], outs := [(9, 40)], size := 90 }),
   (22, { inputs := [(5, 1)], outs := [(7, 10)], size := 80 })]

def M : List Hash := [20, 21, 22]

def rank (h : Hash) : Nat := if h = 21 then 100 else h

/-- every clause of `EnvQuiet` except conflict-freedom holds, and a listed transaction is dropped -/
theorem C08_counterexample_conflict :
    (decide M.Nodup && M.all (fun h => (dget tb h).isSome) && validB tb &&
      Example.U.all (fun b => decide (truePair (dget tb) b.1 = some b.2)) &&
      closedB tb M Example.U && acyclicB tb M rank) = true ∧
    conflictFreeB tb M = false ∧
    (resultOf (processMempool {} M [] 100 100 (dget tb) (lookupFrom Example.U) [0])).map
      (fun r => (r.st.txs.map (·.1), r.dropped)) = some ([20, 22], [21]) := by decide

end Conflict

end EV.Mempool

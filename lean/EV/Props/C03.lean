import EV.Props.C03run
import EV.Proofs.IndexObs
import EV.Proofs.Reorg

/-!
# C03 — After any reorganisation the index equals a fresh index of the surviving chain

Architecture (DESIGN.md §6.0/§6 C03): the representation relation `RepSys s U` speaks only about
the *specification's* UTXO list `U` of the chain currently indexed — not about how the system got
there.  Advancing maintains it (`C01_block`), backing out maintains it (`C03_undo_exact` below), so
after any interleaving of advances and back-outs that ends on a chain `c'` the system represents
`specChain c'` — exactly what a server that only ever saw `c'` represents: no trace of an orphaned
block is left in anything the read path can see (`C01_all_utxos`).
-/
namespace EV.Index
open EV.Spec

/-- **C03 (undo is exact).**  Whatever the cache/rows split and prefix collisions: the loop of
`backup_block`, run on a system representing the UTXO set after a valid block `b` with that block's
undo list (the list `advance_block` produced for it, `C01_block`), succeeds, consumes exactly that
undo list, and leaves a system representing the UTXO set *before* the block; tx count and UTXO
count go back by exactly the block's contribution, and every script hash the block touched is in
the touched set handed to `History.backup`. -/
theorem C03_undo_exact (cfg : Cfg) (height : Nat) (b : Block) (S : St) (s : Sys)
    (hS : (S.utxos.map opOf).Nodup) (hv : ValidTxs cfg.act height S b.txs)
    (hrep : RepSys s (applyBlock cfg.act S height b).utxos) :
    ∃ a', backupTxs sysOps cfg height b.txs.reverse (blockUndo cfg.act height S b.txs)
            { s := s, txNum := 0 } = .ok (a', []) ∧
      RepSys a'.s S.utxos ∧ a'.txNum = b.txs.length ∧
      a'.delta = - blockDelta cfg.act height S b.txs ∧
      (∀ hx ∈ (blockTouched cfg.act height S b.txs).flatten, hx ∈ a'.touched) := by
  obtain ⟨a', h1, h2, h3, h4, h5⟩ :=
    backupTxs_inverts sysIface cfg height b.txs S hS hv [] { s := s, txNum := 0 } hrep
  refine ⟨a', by simpa using h1, h2, by simpa using h3, by simp only [h4]; omega, ?_⟩
  intro hx hmem
  exact h5 hx (Or.inr hmem)

/-- **C03 (advance then back out = nothing happened, for the UTXO set).** -/
theorem C03_advance_backup (cfg : Cfg) (height : Nat) (b : Block) (S : St) (s : Sys)
    (hrep : RepSys s S.utxos) (hv : ValidTxs cfg.act height S b.txs) :
    ∃ a1 a2, advanceTxs sysOps cfg height b.txs { s := s, txNum := S.txs.length } = .ok a1 ∧
      backupTxs sysOps cfg height b.txs.reverse a1.undo { s := a1.s, txNum := 0 } = .ok (a2, []) ∧
      RepSys a2.s S.utxos := by
  obtain ⟨a1, h1, h2, _, _, _, h6, _⟩ := C01_aux cfg height b S s hrep hv
  have hS : (S.utxos.map opOf).Nodup := sysIface.nodup hrep
  obtain ⟨a2, g1, g2, _⟩ := C03_undo_exact cfg height b S a1.s hS hv h2
  exact ⟨a1, a2, h1, by rw [h6]; exact g1, g2⟩
where
  C01_aux (cfg : Cfg) (height : Nat) (b : Block) (S : St) (s : Sys)
      (hrep : RepSys s S.utxos) (hv : ValidTxs cfg.act height S b.txs) :
      ∃ a', advanceTxs sysOps cfg height b.txs { s := s, txNum := S.txs.length } = .ok a' ∧
        RepSys a'.s (applyBlock cfg.act S height b).utxos ∧ True ∧ True ∧ True ∧
        a'.undo = blockUndo cfg.act height S b.txs ∧ True := by
    obtain ⟨a', h1, h2, _, _, _, h6, _, _⟩ :=
      advanceTxs_spec sysIface cfg height b.txs S { s := s, txNum := S.txs.length } hrep rfl hv
    exact ⟨a', h1, h2, trivial, trivial, trivial, by simpa using h6, trivial⟩

/-- **C03 (which blocks are backed out).**  `_calc_reorg_range` returns exactly the fork point and
the number of blocks above it when the chain is at least twice as high as the fork is deep (the
condition in the property), and exactly the last `k` blocks for a forced reorg of `k`. -/
theorem C03_reorg_range {mine daemon : Nat → Reorg.Hash} {f n : Nat} (hf : Reorg.ForkAt mine daemon f)
    (hf1 : 1 ≤ f) (hfn : f ≤ n) (hcond : 2 * (n - f + 1) ≤ n) :
    Reorg.calcReorgRange mine daemon n (-1) = ((f : Int), (n : Int) - f + 1) :=
  Reorg.calcReorgRange_exact hf hf1 hfn hcond

theorem C03_reorg_range_forced (mine daemon : Nat → Reorg.Hash) (n k : Nat) :
    Reorg.calcReorgRange mine daemon n k = ((n : Int) - k + 1, (k : Int)) :=
  Reorg.calcReorgRange_forced mine daemon n k

end EV.Index

import EV.Proofs.TxCacheInv

/-!
# C11 (transaction-proof half) and C10 (by-height answers) — which tx-hash list is folded

> C11: For any indexed chain, also after reorganisations and with requests in flight while blocks
> are undone, a transaction merkle proof (by hash or by position, classic or TSC format) folds to the
> merkle root in the header of that block …; requests outside the chain are refused rather than
> answered wrongly.
> C10: answers served to clients are never stale once quiescent (incl. `transaction.id_from_pos` by
> height).

Composition (DESIGN.md §6 C11): C12 says that whatever list is folded, the branch folds to that
list's merkle root.  **This file** says WHICH list a transaction proof folds.  Model
`EV/Model/TxCache.lean`: the by-height caches of `SessionManager` (`_tx_hashes_cache`,
`_merkle_cache`, `_reorg_count`, the `_handle_chain_reorgs` task), any number of concurrent requests
(`transaction.id_from_pos`, `merkle_branch_for_tx_pos`, `merkle_branch_for_tx_hash`,
`tsc_merkle_proof_for_tx_hash`) each a program counter over its real awaits (the worker-thread read
of the tx hashes inside the `_reorg_count` re-read loop; the worker-thread read of the header of a
TSC proof), every read cut into issue / perform against the DB *as it is then* / deliver; the DB as
its readers see it (`tx_counts`, the hashes file, the headers file, `DB.state.height`); new blocks
advanced (`tx_counts` appended, nothing written) and flushed (files written, then the state raised);
reorganisations as the real sequence (per block: `tx_counts.pop()`, later `DB.state` lowered; then
`backed_up_event`; `_handle_chain_reorgs` runs at some LATER event); LRU evictions at any time.

Theorems, for **all** event sequences, any number of requests, every threshold:
  * `seen_sound`           the ghost history `Req.seen` is what it is said to be (every variant)
  * `C11_tx_safe`          every answer is computed from the tx-hash list of the block that was at the
                           requested height on the chain visible at SOME moment between the request's
                           start and its answer (linearizability); the root is that block's Bitcoin
                           merkle root; a TSC proof names the header of a block that was at that
                           height at some moment of the request and its branch's root is that
                           header's merkle-root field
  * `C11_tx_fold`          composition with C12: the branch handed out folds (`root_from_proof`, TSC
                           aware) from the transaction to that merkle root / that header's root field
  * `C11_tx_unchanged`     a request during which the visible chain did not change is answered from
                           that chain; in particular (`C10_tx_hit_current`) an answer served from the
                           cache without any await is an answer for the current chain — in every
                           reachable state, also while blocks are being undone
  * `C10_tx_caches`        in every reachable state the two caches hold only lists of the reference
                           chain (`MerkleCache`s satisfying the C12 invariant over them); once
                           quiescent (no reorganisation under way, `_handle_chain_reorgs` has run)
                           that is the current chain: nothing stale is cached
  * `C11_tx_never_wrong`, `C11_tx_outside`, `C11_tx_refused`
                           a request ends refused, with an error, or with a safe answer; a height that
                           no chain visible during the request had is never answered; a height beyond
                           `DB.state.height` is not served from the cache and a read performed then is
                           refused
and the variants of the code violate the property, each a machine-checked counterexample:
  * `stale_hit_counterexample`   the code AS PINNED (no `height <= db.state.height` test on a cache
                           hit): a block being backed out is served from the cache until
                           `_handle_chain_reorgs` runs — **finding**, fixed by
                           `/verif/integration/txcache-fix.diff`
  * `C11_1_counterexample` re-read loop removed (seeded change C11-1)
  * `C10_1_counterexample` `fs_tx_hashes_at_blockheight` bounded by `len(tx_counts) - 1` (seeded C10-1)
  * `C10_3_counterexample` `backed_up_event` not signalled (seeded C10-3)
  * `tsc_sanity_counterexample`  TSC proof without its `root != root_from_header` check
  * `fifo_needed_counterexample` environment: `_handle_chain_reorgs` delayed beyond the next
                           `advance_block` (excluded by asyncio's FIFO ready queue; validated by the
                           `sched` check of suite `txcache` on a real event loop)
Tie to the code: suite `txcache` (the real `SessionManager` coroutines and the real `DB` read / flush
/ back-out methods on a stub, stepped event by event against this model) and suite `system`.
-/
namespace EV.TxCache
open EV.Merkle

variable {Node : Type} [DecidableEq Node] (H : Node → Node → Node)

/-! ## the ghost history is what it is said to be (every variant of the code) -/

omit [DecidableEq Node] in
theorem finishBranch_ghost (r : Req Node) (mk : List (Elt Node) → Node → PC Node)
    (o : Outcome (List (Elt Node) × Node)) :
    (finishBranch r mk o).seen = r.seen ∧ (finishBranch r mk o).height = r.height ∧
      (finishBranch r mk o).kind = r.kind := by
  unfold finishBranch; split <;> exact ⟨rfl, rfl, rfl⟩

theorem afterHashes_ghost (thr : Nat) (txc : Nat → Option (List Node)) (mc : Nat → Option (MEntry Node))
    (r : Req Node) (L : List Node) :
    (afterHashes H thr txc mc r L).req.seen = r.seen ∧ (afterHashes H thr txc mc r L).req.height = r.height ∧
      (afterHashes H thr txc mc r L).req.kind = r.kind := by
  unfold afterHashes
  repeat' split
  all_goals first
    | exact ⟨rfl, rfl, rfl⟩
    | exact finishBranch_ghost r _ _

theorem newReq_ghost (cfg : Cfg) (s : St Node) (k : Kind Node) (h : Nat) :
    (newReq H cfg s k h).req.seen = [visible s] ∧ (newReq H cfg s k h).req.height = h ∧
      (newReq H cfg s k h).req.kind = k := by
  unfold newReq
  split
  · exact afterHashes_ghost H _ _ _ _ _
  · exact ⟨rfl, rfl, rfl⟩

omit [DecidableEq Node] in
theorem performReq_ghost (cfg : Cfg) (s : St Node) (r : Req Node) :
    (performReq cfg s r).seen = r.seen ∧ (performReq cfg s r).height = r.height ∧
      (performReq cfg s r).kind = r.kind := by
  unfold performReq; split <;> exact ⟨rfl, rfl, rfl⟩

theorem deliverReq_ghost (cfg : Cfg) (s : St Node) (r : Req Node) :
    (deliverReq H cfg s r).req.seen = r.seen ∧ (deliverReq H cfg s r).req.height = r.height ∧
      (deliverReq H cfg s r).req.kind = r.kind := by
  unfold deliverReq
  repeat' split
  all_goals first
    | exact ⟨rfl, rfl, rfl⟩
    | exact afterHashes_ghost H _ _ _ _ _

omit [DecidableEq Node] in
theorem see_ghost (S : List (Block Node)) (r : Req Node) :
    (r.see S).kind = r.kind ∧ (r.see S).height = r.height ∧
      ((r.see S).seen = r.seen ∨ ((r.see S).seen = S :: r.seen ∧ r.active = true)) := by
  unfold Req.see; split
  · next h => exact ⟨rfl, rfl, Or.inr ⟨rfl, h⟩⟩
  · exact ⟨rfl, rfl, Or.inl rfl⟩

/-- **the ghost history is sound** (every variant of the code): a new request starts with the
singleton history `[visible chain]`; in one step an existing request keeps what it asks for, and its
history either stays as it is or gets the *new* visible chain pushed in front, the latter only for a
request that has not finished.  So `seen` lists values the visible chain (`disk[: DB.state.height+1]`)
had between the request's start and its end. -/
theorem seen_sound (cfg : Cfg) (s : St Node) (ev : Ev Node) :
    (∀ (i : Nat) (r : Req Node), s.reqs[i]? = some r → ∃ r' : Req Node, (step H cfg s ev).reqs[i]? = some r' ∧
      r'.kind = r.kind ∧ r'.height = r.height ∧
      (r'.seen = r.seen ∨ (r'.seen = visible (step H cfg s ev) :: r.seen ∧ r.active = true))) ∧
    (∀ (i : Nat) (r' : Req Node), s.reqs.length ≤ i → (step H cfg s ev).reqs[i]? = some r' →
      r'.seen = [visible (step H cfg s ev)]) := by
  have hmap : ∀ (S : List (Block Node)),
      ∀ (i : Nat) (r : Req Node), s.reqs[i]? = some r → ∃ r' : Req Node, (s.reqs.map (Req.see S))[i]? = some r' ∧
        r'.kind = r.kind ∧ r'.height = r.height ∧ (r'.seen = r.seen ∨ (r'.seen = S :: r.seen ∧ r.active = true)) := by
    intro S i r hr
    exact ⟨r.see S, by rw [List.getElem?_map, hr]; rfl, see_ghost S r⟩
  have hmapnew : ∀ (f : Req Node → Req Node) (S : List (Block Node)) (i : Nat) (r' : Req Node), s.reqs.length ≤ i →
      (s.reqs.map f)[i]? = some r' → r'.seen = [S] := by
    intro f S i r' hi hr'
    rw [List.getElem?_eq_none (by rw [List.length_map]; exact hi)] at hr'
    cases hr'
  have hsetnew : ∀ (j : Nat) (x : Req Node) (S : List (Block Node)) (i : Nat) (r' : Req Node), s.reqs.length ≤ i →
      (s.reqs.set j x)[i]? = some r' → r'.seen = [S] := by
    intro j x S i r' hi hr'
    rw [List.getElem?_eq_none (by rw [List.length_set]; exact hi)] at hr'
    cases hr'
  have hset : ∀ (j : Nat) (r0 x : Req Node) (S : List (Block Node)), s.reqs[j]? = some r0 →
      (x.seen = r0.seen ∧ x.height = r0.height ∧ x.kind = r0.kind) →
      ∀ (i : Nat) (r : Req Node), s.reqs[i]? = some r → ∃ r' : Req Node, (s.reqs.set j x)[i]? = some r' ∧
        r'.kind = r.kind ∧ r'.height = r.height ∧ (r'.seen = r.seen ∨ (r'.seen = S :: r.seen ∧ r.active = true)) := by
    intro j r0 x S hj hx i r hr
    by_cases hij : j = i
    · subst hij
      rw [hj] at hr; cases hr
      obtain ⟨hlt, _⟩ := List.getElem?_eq_some_iff.mp hj
      exact ⟨x, by rw [List.getElem?_set_self hlt], hx.2.2, hx.2.1, Or.inl hx.1⟩
    · exact ⟨r, by rw [List.getElem?_set_ne hij, hr], rfl, rfl, Or.inl rfl⟩
  have hid : ∀ (S : List (Block Node)) (i : Nat) (r : Req Node), s.reqs[i]? = some r → ∃ r' : Req Node, s.reqs[i]? = some r' ∧
      r'.kind = r.kind ∧ r'.height = r.height ∧ (r'.seen = r.seen ∨ (r'.seen = S :: r.seen ∧ r.active = true)) :=
    fun _ i r hr => ⟨r, hr, rfl, rfl, Or.inl rfl⟩
  have hidnew : ∀ (S : List (Block Node)) (i : Nat) (r' : Req Node), s.reqs.length ≤ i → s.reqs[i]? = some r' → r'.seen = [S] := by
    intro S i r' hi hr'
    rw [List.getElem?_eq_none hi] at hr'
    cases hr'
  cases ev with
  | start k h =>
    simp only [step]
    refine ⟨fun i r hr => ⟨r, ?_, rfl, rfl, Or.inl rfl⟩, ?_⟩
    · obtain ⟨hlt, _⟩ := List.getElem?_eq_some_iff.mp hr
      rw [List.getElem?_append_left hlt, hr]
    · intro i r' hi hr'
      rw [List.getElem?_append_right hi] at hr'
      cases hk : i - s.reqs.length with
      | zero =>
        rw [hk] at hr'
        simp only [List.getElem?_cons_zero, Option.some.injEq] at hr'
        subst hr'
        exact (newReq_ghost H cfg s k h).1
      | succ k => rw [hk] at hr'; simp at hr'
  | perform j =>
    simp only [step]
    split
    · exact ⟨hid _, hidnew _⟩
    · next r0 hj => exact ⟨hset j r0 _ _ hj (performReq_ghost _ _ _), hsetnew j _ _⟩
  | deliver j =>
    simp only [step]
    split
    · exact ⟨hid _, hidnew _⟩
    · next r0 hj => exact ⟨hset j r0 _ _ hj (deliverReq_ghost H _ _ _), hsetnew j _ _⟩
  | evictTx h => exact ⟨hid _, hidnew _⟩
  | evictMc h => exact ⟨hid _, hidnew _⟩
  | advance b => simp only [step]; split <;> exact ⟨hid _, hidnew _⟩
  | flushFs => simp only [step]; split <;> exact ⟨hid _, hidnew _⟩
  | flushSt =>
    simp only [step]
    split
    · exact ⟨hmap _, hmapnew _ _⟩
    · exact ⟨hid _, hidnew _⟩
  | reorgStart n => simp only [step]; split <;> exact ⟨hid _, hidnew _⟩
  | boPop => simp only [step]; split <;> exact ⟨hid _, hidnew _⟩
  | boLower =>
    simp only [step]
    split
    · exact ⟨hmap _, hmapnew _ _⟩
    · exact ⟨hid _, hidnew _⟩
  | reorgEnd => simp only [step]; split <;> exact ⟨hid _, hidnew _⟩
  | handler => simp only [step]; split <;> exact ⟨hid _, hidnew _⟩

/-! ## safety -/

omit [DecidableEq Node] in
/-- a branch without its root determines the root: it is the merkle root (C12 `bar_root`) -/
theorem branchOnly_some {L : List Node} {pos : Nat} {tsc : Bool} {br : List (Elt Node)}
    (h : branchOnly H L pos tsc = some br) :
    pos < L.length ∧ ∃ hne, branchAndRoot H L (.int pos) none tsc = .ok (br, merkleRoot H L hne) := by
  unfold branchOnly barOpt at h
  cases hb : branchAndRoot H L (.int pos) none tsc with
  | error e => rw [hb] at h; cases h
  | ok x =>
    rw [hb] at h
    simp only [Option.map_some, Option.some.injEq] at h
    obtain ⟨_, h1⟩ := branchAndRoot_ok_range H hb
    have hlt : pos < L.length := by omega
    obtain ⟨br', hbr'⟩ := bar_root H L pos tsc hlt
    rw [hb] at hbr'
    injection hbr' with hbr'
    subst hbr'
    exact ⟨hlt, _, by rw [← h]⟩

omit [DecidableEq Node] in
theorem barOpt_some {L : List Node} {pos : Nat} {tsc : Bool} {x : List (Elt Node) × Node}
    (h : barOpt H L pos tsc = some x) : branchAndRoot H L (.int pos) none tsc = .ok x := by
  unfold barOpt at h
  split at h
  · rename_i y hy; injection h with h; rw [hy, h]
  · cases h

/-- **C11 (transaction proofs) / C10 (by-height answers): linearizability.**  Start from a server
that is consistent (`Init`: e.g. caught up on any chain, `init_ofChain`) and let *any* sequence of
events happen — any number of requests of the four kinds started at any time, each worker-thread
read performed at any later time against the DB as it is then and delivered at any time after
that, LRU evictions, new blocks advanced and flushed, reorganisations of any depth (per block
`tx_counts.pop()` then `DB.state` lowered; then `backed_up_event`), the `_handle_chain_reorgs` task
running at any later event (before the next block is advanced) — in any order, for any threshold
of `_merkle_branch`.  Then every answer a request for height `h` returns is computed from the
tx-hash list of a block `b` that was at height `h` on the chain visible (`DB.state`) at some moment
between the request's start and its answer (`S ∈ seen`, see `seen_sound`):
  * `id_from_pos(h, pos)` returns `b.txs[pos]`;
  * `merkle_branch_for_tx_pos(h, pos)` returns `b.txs[pos]` and the from-scratch
    `branch_and_root(b.txs, pos)`, whose root is the Bitcoin merkle root of `b.txs`;
  * `merkle_branch_for_tx_hash(h, tx)` returns the first position of `tx` in `b.txs` and that branch;
  * `tsc_merkle_proof_for_tx_hash(h, tx)` returns that position, the TSC branch of `b.txs` at it,
    and as target the header of a block `b2` that was at height `h` at some moment of the request,
    and the root of the branch — the merkle root of `b.txs` — is the merkle-root field of that
    header. -/
theorem C11_tx_safe (thr : Nat) (s : St Node) (evs : List (Ev Node)) (h0 : Init H s) :
    ∀ r ∈ (run H (Cfg.fixed thr) s evs).reqs,
      (∀ tx, r.pc = .done (.txid tx) →
        ∃ pos, r.kind = .idPos pos ∧ ∃ S ∈ r.seen, ∃ b, S[r.height]? = some b ∧ b.txs[pos]? = some tx) ∧
      (∀ br tx, r.pc = .done (.branchPos br tx) →
        ∃ pos, r.kind = .brPos pos ∧ ∃ S ∈ r.seen, ∃ b, S[r.height]? = some b ∧ b.txs[pos]? = some tx ∧
          ∃ hne, branchAndRoot H b.txs (.int pos) none false = .ok (br, merkleRoot H b.txs hne)) ∧
      (∀ br pos, r.pc = .done (.branchHash br pos) →
        ∃ tx, r.kind = .brHash tx ∧ ∃ S ∈ r.seen, ∃ b, S[r.height]? = some b ∧
          pos = b.txs.idxOf tx ∧ b.txs[pos]? = some tx ∧
          ∃ hne, branchAndRoot H b.txs (.int pos) none false = .ok (br, merkleRoot H b.txs hne)) ∧
      (∀ pos hd br, r.pc = .done (.tsc pos hd br) →
        ∃ tx, r.kind = .tsc tx ∧
          (∃ S ∈ r.seen, ∃ b, S[r.height]? = some b ∧ pos = b.txs.idxOf tx ∧ b.txs[pos]? = some tx ∧
            ∃ hne, branchAndRoot H b.txs (.int pos) none true = .ok (br, merkleRoot H b.txs hne) ∧
              hd.root = merkleRoot H b.txs hne) ∧
          (∃ S ∈ r.seen, ∃ b2, S[r.height]? = some b2 ∧ b2.hdr = hd)) := by
  intro r hr
  have hsafe := ((inv_run H thr s evs h0.inv).reqs r hr).safe
  have hidx : ∀ (L : List Node) (tx : Node), L.idxOf tx < L.length → L[L.idxOf tx]? = some tx := by
    intro L tx h
    rw [List.getElem?_eq_getElem h, List.getElem_idxOf h]
  refine ⟨?_, ?_, ?_, ?_⟩
  · intro tx hpc
    unfold Req.Safe at hsafe
    rw [hpc] at hsafe
    cases hk : r.kind with
    | idPos pos =>
      simp only [hk] at hsafe
      obtain ⟨S, hS, b, hb, htx⟩ := hsafe
      exact ⟨pos, rfl, S, hS, b, Option.mem_def.mp hb, htx⟩
    | brPos pos => simp only [hk] at hsafe
    | brHash t => simp only [hk] at hsafe
    | tsc t => simp only [hk] at hsafe
  · intro br tx hpc
    unfold Req.Safe at hsafe
    rw [hpc] at hsafe
    cases hk : r.kind with
    | idPos pos => simp only [hk] at hsafe
    | brPos pos =>
      simp only [hk] at hsafe
      obtain ⟨S, hS, b, hb, htx, hbr⟩ := hsafe
      exact ⟨pos, rfl, S, hS, b, Option.mem_def.mp hb, htx, (branchOnly_some H hbr).2⟩
    | brHash t => simp only [hk] at hsafe
    | tsc t => simp only [hk] at hsafe
  · intro br pos hpc
    unfold Req.Safe at hsafe
    rw [hpc] at hsafe
    cases hk : r.kind with
    | idPos p => simp only [hk] at hsafe
    | brPos p => simp only [hk] at hsafe
    | brHash t =>
      simp only [hk] at hsafe
      obtain ⟨S, hS, b, hb, hpos, hlt, hbr⟩ := hsafe
      exact ⟨t, rfl, S, hS, b, Option.mem_def.mp hb, hpos, by rw [hpos] at hlt ⊢; exact hidx _ _ hlt,
        (branchOnly_some H hbr).2⟩
    | tsc t => simp only [hk] at hsafe
  · intro pos hd br hpc
    unfold Req.Safe at hsafe
    rw [hpc] at hsafe
    cases hk : r.kind with
    | idPos p => simp only [hk] at hsafe
    | brPos p => simp only [hk] at hsafe
    | brHash t => simp only [hk] at hsafe
    | tsc t =>
      simp only [hk] at hsafe
      obtain ⟨⟨S, hS, b, hb, hpos, hlt, hbar⟩, ⟨S2, hS2, b2, hb2, hbh⟩⟩ := hsafe
      have hbar' := barOpt_some H hbar
      obtain ⟨br', hbr'⟩ := bar_root H b.txs pos true hlt
      rw [hbar'] at hbr'
      injection hbr' with hbr'
      injection hbr' with _ hroot
      refine ⟨t, rfl, ⟨S, hS, b, Option.mem_def.mp hb, hpos, by rw [hpos] at hlt ⊢; exact hidx _ _ hlt, _, ?_, hroot⟩,
        ⟨S2, hS2, b2, Option.mem_def.mp hb2, hbh⟩⟩
      rw [← hroot]; exact hbar'

/-- **C11 (the proof verifies) — composition with C12** (`bar_fold`, `tsc_spec`).  Under the
hypotheses of `C11_tx_safe`: the classic branch handed out for `(h, pos)` / `(h, tx)` consists of
nodes only and the real verification procedure `root_from_proof(tx, branch, pos)` returns the
Bitcoin merkle root of the tx-hash list of a block that was at height `h` during the request; the
TSC proof's nodes, folded with the running hash substituted for `*`, give the merkle-root field of
the header the proof names as its target — the header of a block that was at height `h` during the
request. -/
theorem C11_tx_fold (thr : Nat) (s : St Node) (evs : List (Ev Node)) (h0 : Init H s) :
    ∀ r ∈ (run H (Cfg.fixed thr) s evs).reqs,
      (∀ br tx, r.pc = .done (.branchPos br tx) →
        ∃ pos, r.kind = .brPos pos ∧ ∃ S ∈ r.seen, ∃ b, S[r.height]? = some b ∧ ∃ hne nodes,
          br = nodes.map .node ∧ rootFromProof H tx nodes pos = .ok (merkleRoot H b.txs hne)) ∧
      (∀ br pos, r.pc = .done (.branchHash br pos) →
        ∃ tx, r.kind = .brHash tx ∧ ∃ S ∈ r.seen, ∃ b, S[r.height]? = some b ∧ ∃ hne nodes,
          br = nodes.map .node ∧ rootFromProof H tx nodes pos = .ok (merkleRoot H b.txs hne)) ∧
      (∀ pos hd br, r.pc = .done (.tsc pos hd br) →
        ∃ tx, r.kind = .tsc tx ∧ rootFromProofTsc H tx br pos = .ok hd.root ∧
          ∃ S ∈ r.seen, ∃ b2, S[r.height]? = some b2 ∧ b2.hdr = hd) := by
  intro r hr
  obtain ⟨_, s2, s3, s4⟩ := C11_tx_safe H thr s evs h0 r hr
  have hfold : ∀ (L : List Node) (pos : Nat) (tx : Node) (br : List (Elt Node)) (root : Node),
      L[pos]? = some tx → branchAndRoot H L (.int pos) none false = .ok (br, root) →
      ∃ nodes, br = nodes.map .node ∧ rootFromProof H tx nodes pos = .ok root := by
    intro L pos tx br root htx hbar
    obtain ⟨hlt, hget⟩ := List.getElem?_eq_some_iff.mp htx
    obtain ⟨nodes, r', h1, h2⟩ := bar_fold H L pos hlt
    rw [hbar] at h1
    injection h1 with h1
    injection h1 with h1a h1b
    rw [hget] at h2
    exact ⟨nodes, h1a, by rw [h1b]; exact h2⟩
  refine ⟨?_, ?_, ?_⟩
  · intro br tx hpc
    obtain ⟨pos, hk, S, hS, b, hb, htx, hne, hbar⟩ := s2 br tx hpc
    obtain ⟨nodes, hn1, hn2⟩ := hfold _ _ _ _ _ htx hbar
    exact ⟨pos, hk, S, hS, b, hb, hne, nodes, hn1, hn2⟩
  · intro br pos hpc
    obtain ⟨tx, hk, S, hS, b, hb, _, htx, hne, hbar⟩ := s3 br pos hpc
    obtain ⟨nodes, hn1, hn2⟩ := hfold _ _ _ _ _ htx hbar
    exact ⟨tx, hk, S, hS, b, hb, hne, nodes, hn1, hn2⟩
  · intro pos hd br hpc
    obtain ⟨tx, hk, ⟨S, hS, b, hb, _, htx, hne, hbar, hroot⟩, h2⟩ := s4 pos hd br hpc
    obtain ⟨hlt, hget⟩ := List.getElem?_eq_some_iff.mp htx
    obtain ⟨nodes, brT, r', _, t2, _, _, t5⟩ := tsc_spec H b.txs pos hlt
    rw [hbar] at t2
    injection t2 with t2
    injection t2 with t2a t2b
    rw [hget, ← t2a, ← t2b, ← hroot] at t5
    exact ⟨tx, hk, t5, h2⟩

/-- **C11 / C10 (no chain change during the request: the current chain).**  If the visible chain had
one single value `S` from the request's start to its answer, the answer is computed from `S`. -/
theorem C11_tx_unchanged (thr : Nat) (s : St Node) (evs : List (Ev Node)) (h0 : Init H s) :
    ∀ r ∈ (run H (Cfg.fixed thr) s evs).reqs, ∀ S, r.seen = [S] →
      (∀ tx, r.pc = .done (.txid tx) → ∃ pos b, r.kind = .idPos pos ∧ S[r.height]? = some b ∧ b.txs[pos]? = some tx) ∧
      (∀ br tx, r.pc = .done (.branchPos br tx) → ∃ pos b, r.kind = .brPos pos ∧ S[r.height]? = some b ∧
        b.txs[pos]? = some tx ∧ ∃ hne, branchAndRoot H b.txs (.int pos) none false = .ok (br, merkleRoot H b.txs hne)) ∧
      (∀ br pos, r.pc = .done (.branchHash br pos) → ∃ tx b, r.kind = .brHash tx ∧ S[r.height]? = some b ∧
        pos = b.txs.idxOf tx ∧ b.txs[pos]? = some tx ∧
        ∃ hne, branchAndRoot H b.txs (.int pos) none false = .ok (br, merkleRoot H b.txs hne)) ∧
      (∀ pos hd br, r.pc = .done (.tsc pos hd br) → ∃ tx b, r.kind = .tsc tx ∧ S[r.height]? = some b ∧
        pos = b.txs.idxOf tx ∧ b.txs[pos]? = some tx ∧ b.hdr = hd ∧
        ∃ hne, branchAndRoot H b.txs (.int pos) none true = .ok (br, merkleRoot H b.txs hne) ∧
          hd.root = merkleRoot H b.txs hne) := by
  intro r hr S hS
  obtain ⟨s1, s2, s3, s4⟩ := C11_tx_safe H thr s evs h0 r hr
  rw [hS] at s1 s2 s3 s4
  refine ⟨?_, ?_, ?_, ?_⟩
  · intro tx hpc
    obtain ⟨pos, hk, S', hS', b, hb, htx⟩ := s1 tx hpc
    rw [List.mem_singleton] at hS'; subst hS'
    exact ⟨pos, b, hk, hb, htx⟩
  · intro br tx hpc
    obtain ⟨pos, hk, S', hS', b, hb, htx⟩ := s2 br tx hpc
    rw [List.mem_singleton] at hS'; subst hS'
    exact ⟨pos, b, hk, hb, htx⟩
  · intro br pos hpc
    obtain ⟨tx, hk, S', hS', b, hb, htx⟩ := s3 br pos hpc
    rw [List.mem_singleton] at hS'; subst hS'
    exact ⟨tx, b, hk, hb, htx⟩
  · intro pos hd br hpc
    obtain ⟨tx, hk, ⟨S', hS', b, hb, hpos, htx, hne, hbar, hroot⟩, ⟨S2, hS2, b2, hb2, hbh⟩⟩ := s4 pos hd br hpc
    rw [List.mem_singleton] at hS' hS2; subst hS' hS2
    rw [hb] at hb2
    injection hb2 with hb2
    subst hb2
    exact ⟨tx, b, hk, hb, hpos, htx, hbh, hne, hbar, hroot⟩

/-- **C10 (an answer served from the cache is current — in every reachable state).**  Whatever
happened before — also while blocks are being undone and before `_handle_chain_reorgs` has run —
a request that is answered without any await (its tx hashes found in `_tx_hashes_cache`) starts and
ends with the history `[visible chain]`: by `C11_tx_unchanged` its answer is computed from the
chain visible at that very moment. -/
theorem C10_tx_hit_current (cfg : Cfg) (s : St Node) (k : Kind Node) (h : Nat) :
    ∃ r, (step H cfg s (.start k h)).reqs = s.reqs ++ [r] ∧ r.seen = [visible s] ∧ r.height = h ∧ r.kind = k ∧
      visible (step H cfg s (.start k h)) = visible s :=
  ⟨_, rfl, (newReq_ghost H cfg s k h).1, (newReq_ghost H cfg s k h).2.1, (newReq_ghost H cfg s k h).2.2, rfl⟩

/-! ## cache invariant -/

/-- **C10 (nothing stale is cached).**  In every reachable state — any number of requests in
flight —: every entry of `_tx_hashes_cache` is the tx-hash list of the block at that height on the
reference chain `ref`, every entry of `_merkle_cache` is a `MerkleCache` that satisfies the C12
invariant over that list (so C12 `cache_correct` applies to it), and the visible chain is an
initial part of `ref`.  Whenever no reorganisation is under way and `_handle_chain_reorgs` has run
(quiescent), `ref` IS the visible chain: both caches hold only lists of the current chain, whatever
was queried and cached before. -/
theorem C10_tx_caches (thr : Nat) (s : St Node) (evs : List (Ev Node)) (h0 : Init H s) :
    (∀ h L, (run H (Cfg.fixed thr) s evs).txc h = some L →
      ∃ b, (run H (Cfg.fixed thr) s evs).ref[h]? = some b ∧ L = b.txs) ∧
    (∀ h e, (run H (Cfg.fixed thr) s evs).mc h = some e →
      ∃ b, (run H (Cfg.fixed thr) s evs).ref[h]? = some b ∧ e.src = b.txs ∧ CacheInv H e.c e.src) ∧
    visible (run H (Cfg.fixed thr) s evs) <+: (run H (Cfg.fixed thr) s evs).ref ∧
    ((run H (Cfg.fixed thr) s evs).bp = .idle → (run H (Cfg.fixed thr) s evs).woken = false →
      (run H (Cfg.fixed thr) s evs).ref = visible (run H (Cfg.fixed thr) s evs)) := by
  have hinv := inv_run H thr s evs h0.inv
  exact ⟨hinv.txc, hinv.mc, hinv.pre, hinv.closed⟩

/-- the reference chain of the window: it is frozen from the first back-out of a reorganisation
until `_handle_chain_reorgs` runs — no event other than the handler (and, when no window is open, a
flush) changes it -/
theorem ref_window (cfg : Cfg) (s : St Node) (ev : Ev Node) :
    (step H cfg s ev).ref = s.ref ∨ (ev = .handler ∧ s.woken = true ∧ (step H cfg s ev).ref = visible s) ∨
      (ev = .flushSt ∧ s.bp = .idle ∧ s.woken = false ∧ (step H cfg s ev).ref = visible (step H cfg s ev)) := by
  cases ev with
  | start k h => exact Or.inl rfl
  | perform i => simp only [step]; split <;> exact Or.inl rfl
  | deliver i => simp only [step]; split <;> exact Or.inl rfl
  | evictTx h => exact Or.inl rfl
  | evictMc h => exact Or.inl rfl
  | advance b => simp only [step]; split <;> exact Or.inl rfl
  | flushFs => simp only [step]; split <;> exact Or.inl rfl
  | flushSt =>
    simp only [step]
    split
    · split
      · next hc => exact Or.inr (Or.inr ⟨True.intro, hc.1, hc.2, rfl⟩)
      · exact Or.inl rfl
    · exact Or.inl rfl
  | reorgStart n => simp only [step]; split <;> exact Or.inl rfl
  | boPop => simp only [step]; split <;> exact Or.inl rfl
  | boLower => simp only [step]; split <;> exact Or.inl rfl
  | reorgEnd => simp only [step]; split <;> exact Or.inl rfl
  | handler =>
    simp only [step]
    split
    · next hw => exact Or.inr (Or.inl ⟨True.intro, hw, rfl⟩)
    · exact Or.inl rfl

/-! ## refusal -/

/-- **C11 (never a wrong answer).**  However a request ends — in every reachable state — it was
refused (`RPCError`), it failed with an error, or it returned an answer that satisfies the safety
clause. -/
theorem C11_tx_never_wrong (thr : Nat) (s : St Node) (evs : List (Ev Node)) (h0 : Init H s) :
    ∀ r ∈ (run H (Cfg.fixed thr) s evs).reqs, ∀ res, r.pc = .done res →
      (∃ w, res = .refused w) ∨ (∃ e, res = .error e) ∨ r.Safe H := fun r hr _ _ =>
  Or.inr (Or.inr ((inv_run H thr s evs h0.inv).reqs r hr).safe)

/-- **C11 (requests outside the chain are not answered).**  If no chain visible between the
request's start and its end had a block at the requested height, the request ends refused or with
an error — never with an answer. -/
theorem C11_tx_outside (thr : Nat) (s : St Node) (evs : List (Ev Node)) (h0 : Init H s) :
    ∀ r ∈ (run H (Cfg.fixed thr) s evs).reqs, (∀ S ∈ r.seen, S.length ≤ r.height) →
      ∀ res, r.pc = .done res → (∃ w, res = .refused w) ∨ (∃ e, res = .error e) := by
  intro r hr hout res hpc
  obtain ⟨s1, s2, s3, s4⟩ := C11_tx_safe H thr s evs h0 r hr
  have hno : ∀ S ∈ r.seen, ∀ b, S[r.height]? = some b → False := by
    intro S hS b hb
    obtain ⟨hlt, _⟩ := List.getElem?_eq_some_iff.mp hb
    have := hout S hS
    omega
  cases res with
  | refused w => exact Or.inl ⟨w, rfl⟩
  | error e => exact Or.inr ⟨e, rfl⟩
  | txid tx =>
    obtain ⟨_, _, S, hS, b, hb, _⟩ := s1 tx hpc
    exact (hno S hS b hb).elim
  | branchPos br tx =>
    obtain ⟨_, _, S, hS, b, hb, _⟩ := s2 br tx hpc
    exact (hno S hS b hb).elim
  | branchHash br pos =>
    obtain ⟨_, _, S, hS, b, hb, _⟩ := s3 br pos hpc
    exact (hno S hS b hb).elim
  | tsc pos hd br =>
    obtain ⟨_, _, ⟨S, hS, b, hb, _⟩, _⟩ := s4 pos hd br hpc
    exact (hno S hS b hb).elim

/-- **C11 (a height beyond `DB.state.height` is refused) — in ANY state, no invariant needed.**
Under the fixed code a request for a height the DB does not have (`vis ≤ h`) is not served from the
cache, whatever the cache holds: it issues its read; a read performed while the height is still
beyond `DB.state.height` raises `DBError`; delivered, the request ends with
`RPCError(BAD_REQUEST, 'db error: …')` and neither cache is touched. -/
theorem C11_tx_refused (thr : Nat) (s : St Node) (k : Kind Node) (h : Nat) (hv : s.vis ≤ h) :
    (newReq H (Cfg.fixed thr) s k h).req.pc = .rd s.rc .issued ∧
    (newReq H (Cfg.fixed thr) s k h).mc = s.mc ∧
    ∀ (s' : St Node) (r : Req Node), s'.vis ≤ r.height → ∀ rc0, r.pc = .rd rc0 .issued →
      (performReq (Cfg.fixed thr) s' r).pc = .rd rc0 .dbError ∧
      ∀ s'' : St Node, (deliverReq H (Cfg.fixed thr) s'' (performReq (Cfg.fixed thr) s' r)).req.pc =
          .done (.refused .dbError) ∧
        (deliverReq H (Cfg.fixed thr) s'' (performReq (Cfg.fixed thr) s' r)).txc = s''.txc ∧
        (deliverReq H (Cfg.fixed thr) s'' (performReq (Cfg.fixed thr) s' r)).mc = s''.mc := by
  have hmiss : cacheHit (Cfg.fixed thr) s h = none := by
    unfold cacheHit
    split
    · simp [hv]
    · rfl
  refine ⟨?_, ?_, ?_⟩
  · unfold newReq; rw [hmiss]
  · unfold newReq; rw [hmiss]
  · intro s' r hv' rc0 hpc
    have hp : performReq (Cfg.fixed thr) s' r = { r with pc := .rd rc0 .dbError } := by
      unfold performReq
      rw [hpc]
      simp only [(read_beyond (Cfg.fixed thr) rfl s' r.height hv').1]
    rw [hp]
    exact ⟨rfl, fun s'' => ⟨rfl, rfl, rfl⟩⟩

/-! ## non-vacuity, the finding, and the ways the variants of the code violate the property -/

/-- Cantor pairing: an *injective* stand-in for the hash on `Nat` -/
def Hc (a b : Nat) : Nat := (a + b) * (a + b + 1) / 2 + b

/-- a well-formed block: its header's root field is the merkle root of its txs -/
def blk (id : Nat) (txs : List Nat) : Block Nat :=
  ⟨⟨id, match Merkle.root Hc txs none with | .ok r => r | .error _ => 0⟩, txs⟩

/-- heights 0, 1, 2 -/
def ch3 : List (Block Nat) := [blk 0 [10], blk 1 [11, 12], blk 2 [13, 14, 15]]

/-- the hypothesis `Init` of the theorems is satisfiable: a caught-up server on any chain -/
theorem ch3_init : Init Hc (St.ofChain ch3) := init_ofChain Hc ch3

instance (r : Req Nat) : Decidable (r.Safe Hc) := by
  unfold Req.Safe
  split <;> (try split) <;> infer_instance

/-- what the examples below observe of a run: for every request how it stands and whether it is safe -/
def obs (cfg : Cfg) (evs : List (Ev Nat)) : List (Bool × Bool) :=
  (run Hc cfg (St.ofChain ch3) evs).reqs.map (fun r => (r.active, decide (r.Safe Hc)))

/-- the finding: a client caches block 2; a reorganisation backs block 2 out (`DB.state` lowered to
height 1); before `reorg_chain` has finished and `_handle_chain_reorgs` has run, a second request
for height 2 arrives -/
def evsHit : List (Ev Nat) :=
  [.start (.idPos 0) 2, .perform 0, .deliver 0, .reorgStart 1, .boPop, .boLower, .start (.idPos 0) 2]

/-- **Finding (code as pinned: a cache hit is served whatever `DB.state.height` is).**  The second
request is answered from `_tx_hashes_cache` with tx 13 of the block that has been backed out: at no
moment between its start and its answer did the visible chain (heights 0..1) have a block at
height 2 — a header request for height 2 made at the same moment is refused — so the answer is for
a height outside the chain: "requests outside the chain are refused rather than answered wrongly"
is violated, for `id_from_pos`, `get_merkle` and `id_from_pos(merkle=True)` alike, from the moment
`flush_backup` lowers `DB.state` until `_handle_chain_reorgs` has run (for a reorganisation of `n`
blocks: `n` worker-thread back-outs). -/
theorem stale_hit_counterexample :
    obs { hitBound := false, thr := 2 } evsHit = [(false, true), (false, false)] ∧
    ((run Hc { hitBound := false, thr := 2 } (St.ofChain ch3) evsHit).reqs.map (·.pc))[1]? = some (.done (.txid 13)) ∧
    (run Hc { hitBound := false, thr := 2 } (St.ofChain ch3) evsHit).vis = 2 ∧
    readHdr (run Hc { hitBound := false, thr := 2 } (St.ofChain ch3) evsHit) 2 = .outOfRange := by decide

/-- the same for a merkle proof through the per-height `MerkleCache` (threshold 2) -/
theorem stale_hit_counterexample_merkle :
    obs { hitBound := false, thr := 2 }
      [.start (.brPos 1) 2, .perform 0, .deliver 0, .reorgStart 1, .boPop, .boLower, .start (.brHash 15) 2] =
    [(false, true), (false, false)] := by decide

/-- the fixed code on the same schedules: the second request is not served from the cache; its read
is refused -/
example :
    obs (Cfg.fixed 2) (evsHit ++ [.perform 1, .deliver 1]) = [(false, true), (false, true)] ∧
    ((run Hc (Cfg.fixed 2) (St.ofChain ch3) (evsHit ++ [.perform 1, .deliver 1])).reqs.map (·.pc))[1]? =
      some (.done (.refused .dbError)) := by decide

/-- C11-1: a proof request for height 2 has its tx-hash read performed; block 2 is replaced by
block 7 (reorganisation, `_handle_chain_reorgs`, advance, flush); the read is delivered; a second
proof request for height 2 follows -/
def evsC11_1 : List (Ev Nat) :=
  [.start (.brPos 0) 2, .perform 0, .reorgStart 1, .boPop, .boLower, .reorgEnd, .handler,
   .advance (blk 7 [23, 24, 25]), .flushFs, .flushSt, .deliver 0, .start (.brPos 1) 2, .perform 1, .deliver 1]

/-- **(a) re-read loop removed (seeded change C11-1).**  The stale list is returned (here still
linearizable: it was current when read) but `_merkle_branch` stores a `MerkleCache` over it under
height 2 AFTER the caches were cleared; the second request reads the new block's hashes and is
answered with tx 24 of the new block and a branch of the OLD block's tree. -/
theorem C11_1_counterexample :
    obs { reread := false, thr := 2 } evsC11_1 = [(false, true), (false, false)] ∧
    ((run Hc { reread := false, thr := 2 } (St.ofChain ch3) evsC11_1).mc 2).map (·.src) = some [13, 14, 15] ∧
    visible (run Hc { reread := false, thr := 2 } (St.ofChain ch3) evsC11_1) =
      [blk 0 [10], blk 1 [11, 12], blk 7 [23, 24, 25]] := by decide

/-- C10-1: block 2 is replaced by block 7 (one tx fewer); between `advance_block` and the flush a
request for height 2 reads the DB -/
def evsC10_1 : List (Ev Nat) :=
  [.reorgStart 1, .boPop, .boLower, .reorgEnd, .handler, .advance (blk 7 [23, 24]),
   .start (.idPos 0) 2, .perform 0, .deliver 0, .flushFs, .flushSt, .start (.idPos 1) 2]

/-- **(b) `fs_tx_hashes_at_blockheight` bounded by `len(tx_counts) - 1` (seeded change C10-1).**
`tx_counts` already has the new block, the hashes file still has the old block's hashes at those
offsets: the read returns `[13, 14]`, it is cached (`_reorg_count` did not move), and it is served
at quiescence after the new block has been flushed. -/
theorem C10_1_counterexample :
    obs { stateBound := false, thr := 2 } evsC10_1 = [(false, false), (false, false)] ∧
    (run Hc { stateBound := false, thr := 2 } (St.ofChain ch3) evsC10_1).txc 2 = some [13, 14] ∧
    (run Hc { stateBound := false, thr := 2 } (St.ofChain ch3) evsC10_1).bp = .idle ∧
    (run Hc { stateBound := false, thr := 2 } (St.ofChain ch3) evsC10_1).woken = false := by decide

/-- C10-3: block 2 is cached; it is replaced by block 7 -/
def evsC10_3 : List (Ev Nat) :=
  [.start (.idPos 0) 2, .perform 0, .deliver 0, .reorgStart 1, .boPop, .boLower, .reorgEnd, .handler,
   .advance (blk 7 [23, 24]), .flushFs, .flushSt, .start (.idPos 1) 2]

/-- **(c) `backed_up_event` not signalled (seeded change C10-3).**  `_handle_chain_reorgs` never
runs, the cache keeps the orphaned block's hashes and serves tx 14 at quiescence. -/
theorem C10_3_counterexample :
    obs { signal := false, thr := 2 } evsC10_3 = [(false, true), (false, false)] ∧
    (run Hc { signal := false, thr := 2 } (St.ofChain ch3) evsC10_3).txc 2 = some [13, 14, 15] ∧
    (run Hc { signal := false, thr := 2 } (St.ofChain ch3) evsC10_3).bp = .idle ∧
    (run Hc { signal := false, thr := 2 } (St.ofChain ch3) evsC10_3).woken = false := by decide

/-- a TSC request for tx 14 at height 2 reads block 2's hashes; block 2 is replaced by block 7,
which also contains tx 14 (at the same position); the header is read afterwards -/
def evsTsc : List (Ev Nat) :=
  [.start (.tsc 14) 2, .perform 0, .reorgStart 1, .boPop, .boLower, .deliver 0, .reorgEnd, .handler,
   .advance (blk 7 [23, 14]), .flushFs, .flushSt, .perform 0, .deliver 0]

/-- **TSC proof without the `root != root_from_header` sanity check.**  The proof names the header
of block 7 as its target and carries the branch of block 2: it does not verify.  (The current code
refuses: the check is necessary, also in the fixed code.) -/
theorem tsc_sanity_counterexample :
    obs { sanity := false, thr := 2 } evsTsc = [(false, false)] ∧
    obs (Cfg.fixed 2) evsTsc = [(false, true)] ∧
    (run Hc (Cfg.fixed 2) (St.ofChain ch3) evsTsc).reqs.map (·.pc) = [.done (.refused .sanity)] := by decide

/-- block 2 is cached and replaced by block 7, `_handle_chain_reorgs` runs only after the new block
has been flushed -/
def evsFifo : List (Ev Nat) :=
  [.start (.idPos 0) 2, .perform 0, .deliver 0, .reorgStart 1, .boPop, .boLower, .reorgEnd,
   .advance (blk 7 [23, 24]), .flushFs, .flushSt, .start (.idPos 1) 2]

/-- **Environment hypothesis `fifo` is necessary.**  If the `_handle_chain_reorgs` task, woken by
`backed_up_event.set()`, could be delayed beyond the next `advance_block` and flush, the (fixed)
code would serve tx 14 of the orphaned block for a height the DB has again.  asyncio's ready queue
is FIFO and the block processor needs at least one more loop iteration (`run_with_lock` creates a
task) before it advances: the model excludes the schedule (`advance` is ignored while `woken`), and
the `sched` check of suite `txcache` validates that on a real event loop. -/
theorem fifo_needed_counterexample :
    obs { fifo := false, thr := 2 } evsFifo = [(false, true), (false, false)] ∧
    obs (Cfg.fixed 2) evsFifo = [(false, true), (true, true)] := by decide

/-- the same schedules under the fixed code: every request that has ended is safe (as the theorem
says) and answers do occur — through the direct path and through the `MerkleCache` path
(threshold 2), before, during and after a reorganisation -/
example :
    obs (Cfg.fixed 2) (evsC11_1 ++ [.perform 0, .deliver 0]) = [(false, true), (false, true)] ∧
    (run Hc (Cfg.fixed 2) (St.ofChain ch3) (evsC11_1 ++ [.perform 0, .deliver 0])).reqs.map (·.pc) =
      [.done (.branchPos [.node 24, .node (Hc 25 25)] 23), .done (.branchPos [.node 23, .node (Hc 25 25)] 24)] ∧
    obs (Cfg.fixed 2) (evsC10_1 ++ [.perform 1, .deliver 1]) = [(false, true), (false, true)] ∧
    (run Hc (Cfg.fixed 2) (St.ofChain ch3) (evsC10_1 ++ [.perform 1, .deliver 1])).reqs.map (·.pc) =
      [.done (.refused .dbError), .done (.txid 24)] ∧
    obs (Cfg.fixed 2) (evsC10_3 ++ [.perform 1, .deliver 1]) = [(false, true), (false, true)] ∧
    (run Hc (Cfg.fixed 2) (St.ofChain ch3) (evsC10_3 ++ [.perform 1, .deliver 1])).reqs.map (·.pc) =
      [.done (.txid 13), .done (.txid 24)] := by decide

/-- a TSC proof is answered (non-vacuity of the TSC clause): its target is the header of block 2 -/
example :
    (run Hc (Cfg.fixed 2) (St.ofChain ch3) [.start (.tsc 15) 2, .perform 0, .deliver 0, .perform 0, .deliver 0]).reqs.map
      (fun r => (r.pc, decide (r.Safe Hc))) =
    [(.done (.tsc 2 (blk 2 [13, 14, 15]).hdr [.star, .node (Hc 13 14)]), true)] := by decide

/-- `C11_tx_unchanged` / `C10_tx_hit_current` are not vacuous: a cache hit, answered with the
history `[visible chain]`; and `C11_tx_outside`: a height beyond the chain, refused -/
example :
    (run Hc (Cfg.fixed 2) (St.ofChain ch3) [.start (.idPos 1) 1, .perform 0, .deliver 0, .start (.brHash 12) 1]).reqs.map
      (fun r => (r.pc, r.seen.length)) =
      [(.done (.txid 12), 1), (.done (.branchHash [.node 11] 1), 1)] ∧
    (run Hc (Cfg.fixed 2) (St.ofChain ch3) [.start (.idPos 0) 3, .perform 0, .deliver 0]).reqs.map (·.pc) =
      [.done (.refused .dbError)] := by decide

/-- the `tx_counts.pop()` window of `backup_block`: a read of the tip performed between the pop and
the lowering of `DB.state` fails with `IndexError` (an error, not an answer) -/
example :
    (run Hc (Cfg.fixed 2) (St.ofChain ch3) [.start (.idPos 0) 2, .reorgStart 1, .boPop, .perform 0, .deliver 0]).reqs.map
      (·.pc) = [.done (.error .readError)] := by decide

end EV.TxCache

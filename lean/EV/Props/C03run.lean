import EV.Proofs.IndexRunReorg

/-!
# C03 / C15 over whole runs — back-outs and restarts are run operations

C03: "After any reorganisation the index equals a fresh index of the surviving chain … every
observable of the index - UTXOs and balances, histories, headers, per-block transaction hashes,
transaction/UTXO counts, chain size and tip - is identical to what a server that only ever saw the
final chain reports.  No trace of an orphaned block remains."  (forks of any depth within the reorg
limit, several times in a row)

C15: "After the server has caught up with the daemon, any reorganisation replacing up to the
configured reorg limit of most recent blocks can be carried out, because undo information exists
for each of them, whether those blocks were indexed during initial sync, while caught up, or before
a restart; undo information older than the window is removed on start-up."

`EV/Props/C01run.lean` proved the whole-run refinement for advances and flushes.  Here the run
operations are `IOp2` = advance | flush (history-only or full) | **backup** (`backup_block` +
`flush_backup`) | **reopen** (`_open_dbs` on the persistent part, memory dropped, in ANY state: a
clean restart after a full flush loses nothing, a restart in between falls back to the blocks
committed by the last UTXO flush), and the invariant is `FullInv'` = `FullInv` plus

  * the chain indexed so far is valid,
  * for every height in the ghost set `K` of *retained heights* (all below the tip — `U` rows at or
    above the tip, such as the one an orphaned block leaves behind, N2, are unconstrained) the undo
    information a back-out would find (`undoLookup`: last unflushed entry, else the `U` row) is
    exactly `blockUndo` of that block w.r.t. the specification state before it,
  * the committed part (`h`/`u` rows, history rows with ids up to the UTXO flush count, the state
    record) describes exactly the chain as of the last UTXO flush,
  * the flush-count bookkeeping a restart relies on, and `chain_size`.

`K` is computed from the operation history (`Track`): an advance at height `n` adds `n` iff
`undoKept cfg daemonH n` (`n ≥ daemonH − reorgLimit + 1`: holes left by falling daemon heights, F10,
are heights missing from `K`), a back-out removes the tip height, a restart keeps the committed
heights `≥ height − reorgLimit + 1`.  A back-out is admissible (`BackupOk`, a decidable predicate
over the history) iff the state is fully flushed (the real code asserts it; `reorg_chain` flushes first), the
block handed over is the tip (`reorg_chain` checks the hash), the tip is above height 0 (the real
code asserts it) and the tip height is retained.

Tie to the code: the model is unchanged (`EV/Model/Index.lean`, suites `index` and `sync`).
-/
namespace EV.Index
open EV.Spec

/-! ## the invariant over whole runs -/

/-- **C03 (whole-run refinement with reorganisations and restarts).**  For EVERY operation list
that is valid w.r.t. the evolving chain — each `adv b dH` is a valid next block of the surviving
chain (`ValidNext`: links to the tip, `ValidTxs`), each `backup b` is admissible (`BackupOk`);
flushes of either kind and restarts anywhere — no operation fails and the final state satisfies the
extended invariant for the SURVIVING chain `chainOf2 [] 0 ops` (advances append, back-outs pop, a
restart falls back to the blocks of the last full flush / back-out): UTXO representation,
histories, tx-number tables and meta files, tip, counters, chain size, retained undo information —
with no reference to any orphaned or lost block. -/
theorem C03run_refinement (cfg : Cfg) (ops : List IOp2) (hv : ValidOps2 cfg {} ops) :
    ∃ s, runOps2 cfg {} ops = .ok s ∧
      FullInv' cfg (chainOf2 [] 0 ops) (Track.run cfg {} ops).kept s := by
  obtain ⟨s, h1, ti⟩ := trackInv_run ops (trackInv_init cfg) hv
  refine ⟨s, h1, ?_⟩
  have := ti.inv
  rwa [Track.run_chain] at this

/-- **…after every step**, not only at the end of the run (several reorganisations in a row,
each of any admissible depth). -/
theorem C03run_every_step (cfg : Cfg) (ops : List IOp2) (hv : ValidOps2 cfg {} ops) (k : Nat) :
    ∃ s, runOps2 cfg {} (ops.take k) = .ok s ∧
      FullInv' cfg (chainOf2 [] 0 (ops.take k)) (Track.run cfg {} (ops.take k)).kept s :=
  trackInv_run_prefix ops (trackInv_init cfg) hv k

/-- **One step each**, from any invariant state (the induction step of the run theorem). -/
theorem C03run_steps {cfg : Cfg} {t : Track} {s : Sys} (ti : TrackInv cfg t s) (op : IOp2)
    (hok : OkOp cfg t op) :
    ∃ s', stepOp2 cfg s op = .ok s' ∧ TrackInv cfg (t.step cfg op) s' :=
  trackInv_step ti op hok

/-- **C03 (`backup_block` + `flush_backup` is exact on the whole index).**  In a fully flushed
invariant state of `pre ++ [b]` (`hfl`; the real code asserts it) with `pre` non-empty (the real
code refuses to back out height 0) whose tip height is retained (`hk`: the undo row is the one
written for `b`), backing out `b` succeeds with exactly the two batches of `flush_backup` and leaves
a fully flushed invariant state of `pre`: files and pointers, tx counts, histories, UTXO rows, state
record, tip, UTXO count and chain size are those of an index of `pre`; the heights below stay
retained. -/
theorem C03run_backup {cfg : Cfg} {pre : List Block} {b : Block} {K : List Nat} {s : Sys}
    (inv : FullInv' cfg (pre ++ [b]) K s) (hfl : s.m.dbst.height = s.m.st.height)
    (hpre : pre ≠ []) (hk : pre.length ∈ K) :
    ∃ e1 e2 s', backupFull cfg s b = .ok ([e1, e2], s') ∧
      FullInv' cfg pre (keptAfterBackup pre.length K) s' ∧
      s'.m.dbst.height = s'.m.st.height :=
  fullInv'_backup inv hfl hpre hk

/-- **C15 (refusal).**  In a flushed invariant state above height 0, a back-out at a height without
an undo row is refused with `ChainError` before anything is changed. -/
theorem C03run_backup_refused {cfg : Cfg} {chain : List Block} {K : List Nat} {s : Sys}
    (inv : FullInv' cfg chain K s) (hfl : s.m.dbst.height = s.m.st.height)
    (hlen : 2 ≤ chain.length) (hnone : alookup (chain.length - 1) s.p.undo = none) (b : Block) :
    backupFull cfg s b = .error .chainError :=
  fullInv'_backup_refused inv hfl hlen hnone b

/-- **C15 / C04 (a restart).**  `_open_dbs` on the persistent part of ANY invariant state (all memory
dropped) succeeds — `_read_tx_counts`' assertions hold — and yields a fully flushed invariant state
of the chain as of the last UTXO flush (`clear_excess` removes exactly the history rows written
after it; nothing, also right after a back-out, when the state was fully flushed): the committed
retained heights `≥ height − reorgLimit + 1` stay retained (rows inside the window survive the
restart), older undo rows are pruned.  After a full flush the committed chain is the whole chain. -/
theorem C03run_reopen {cfg : Cfg} {chain : List Block} {K : List Nat} {s : Sys}
    (inv : FullInv' cfg chain K s) :
    ∃ es s', openDbs cfg s.p false none = some (es, s') ∧
      FullInv' cfg (chain.take (s.m.dbst.height + 1).toNat)
        (keptAfterReopen cfg (s.m.dbst.height + 1).toNat K) s' ∧
      s'.m.dbst.height = s'.m.st.height ∧ s'.m.dbst.height = s.m.dbst.height :=
  fullInv'_reopen inv

/-- …a clean restart (fully flushed state) keeps the whole chain -/
theorem C03run_reopen_clean {cfg : Cfg} {chain : List Block} {K : List Nat} {s : Sys}
    (inv : FullInv' cfg chain K s) (hfl : s.m.dbst.height = s.m.st.height) :
    ∃ es s', openDbs cfg s.p false none = some (es, s') ∧
      FullInv' cfg chain (keptAfterReopen cfg chain.length K) s' ∧
      s'.m.dbst.height = s'.m.st.height := by
  obtain ⟨es, s', h1, h2, h3, -⟩ := fullInv'_reopen inv
  have hall : (s.m.dbst.height + 1).toNat = chain.length := by
    have := inv.base.files.height; omega
  rw [hall, List.take_length] at h2
  exact ⟨es, s', h1, h2, h3⟩

/-! ## observables -/

/-- **C03 (every observable is the specification's of the surviving chain).**  After any valid run
followed by a full flush: `all_utxos` (hence balances), `limited_history` for every limit, UTXO and
transaction counts, height, tip, chain size, `read_headers`, `fs_tx_hashes_at_blockheight` answer
exactly what the specification of the SURVIVING chain says. -/
theorem C03run_observables (cfg : Cfg) (ops : List IOp2) (hv : ValidOps2 cfg {} ops) :
    ∃ s, runOps2 cfg {} (ops ++ [.flush true]) = .ok s ∧
      (∀ hx, ∃ rows, allUtxos s hx = some rows ∧
        rows.Perm (((specChain cfg.act (chainOf2 [] 0 ops)).utxos.filter (·.hx == hx)).map
          (fun u => ⟨u.txnum, u.idx, u.txid, u.height, u.value⟩))) ∧
      (∀ hx limit, limitedHistory s hx limit =
        some (historyPairs (specChain cfg.act (chainOf2 [] 0 ops)) hx limit)) ∧
      s.m.st.utxoCount = ((specChain cfg.act (chainOf2 [] 0 ops)).utxos.length : Int) ∧
      s.m.st.txCount = (specChain cfg.act (chainOf2 [] 0 ops)).txs.length ∧
      s.m.st.height = ((chainOf2 [] 0 ops).length : Int) - 1 ∧
      s.m.st.tip = ((chainOf2 [] 0 ops).getLast?.map (·.hash)).getD 0 ∧
      s.m.st.chainSize = ((chainOf2 [] 0 ops).map (·.size)).sum ∧
      (∀ start count, readHeaders s start count =
        (((chainOf2 [] 0 ops).map (·.header)).drop start).take
          (min (count : Int) (((chainOf2 [] 0 ops).length : Int) - start)).toNat) ∧
      (∀ (h : Nat) (b : Block), (chainOf2 [] 0 ops)[h]? = some b →
        txHashesAt s h = some (b.txs.map (·.id))) := by
  obtain ⟨s, s0, K, h1, -, -, inv, hf, -⟩ := fresh_index cfg ops hv
  exact ⟨s, h1, observables_of_fullInv' inv hf⟩

/-- **C03 (identical to what a server that only ever saw the final chain reports).**  After any
valid run with reorganisations and restarts, followed by a full flush, the index answers every
query exactly like the index `s0` of `C01run_end_to_end` for a run that only ever advanced the
surviving chain (which is a valid run): same histories for every script hash and limit, same UTXOs
up to row order, same counters, height, tip and chain size, same headers, same per-block
transaction hashes. -/
theorem C03run_fresh_index (cfg : Cfg) (ops : List IOp2) (hv : ValidOps2 cfg {} ops) :
    ∃ s s0, runOps2 cfg {} (ops ++ [.flush true]) = .ok s ∧
      ValidOps cfg [] (advOnly (chainOf2 [] 0 ops)) ∧
      chainOf (advOnly (chainOf2 [] 0 ops)) = chainOf2 [] 0 ops ∧
      runOps cfg {} (advOnly (chainOf2 [] 0 ops) ++ [.flush true]) = .ok s0 ∧
      SameAnswers s s0 := by
  obtain ⟨s, s0, K, h1, h2, h3, -, -, h4⟩ := fresh_index cfg ops hv
  exact ⟨s, s0, h1, h3, chainOf_advOnly _, h2, h4⟩

/-! ## C15: the window -/

/-- **C15 (which heights are retained).**  Over a stretch without back-outs (advances, flushes,
restarts — clean or losing unflushed blocks) that ends at a height `≤ H` and during which no daemon
height exceeded `H`, every height `h` above `H − reorgLimit` that is on the chain at the end, and
was retained before the stretch or not yet indexed then, is retained at the end — whether it was
indexed during initial sync, while caught up, or before a restart. -/
theorem C15run_kept (cfg : Cfg) (H : Int) (ops : List IOp2) (t : Track) (hnb : NoBackup ops)
    (hd : DaemonLe H ops) (hdb : t.dbLen ≤ t.chain.length)
    (hH : ((t.run cfg ops).chain.length : Int) - 1 ≤ H) (h : Nat)
    (hw : H - cfg.reorgLimit < h) (hfin : h < (t.run cfg ops).chain.length)
    (hin : h < t.chain.length → h ∈ t.kept) :
    h ∈ (t.run cfg ops).kept :=
  kept_window cfg H ops t hnb hd hdb hH h hw hfin hin

/-- **C15 (any reorganisation of up to `reorgLimit` most recent blocks can be carried out).**
Index any valid back-out-free run from the empty index (advances with any daemon heights `≤ H`,
flushes of either kind, restarts anywhere — clean or losing unflushed blocks) ending with `H + 1`
blocks, i.e. caught up at height `H`.  Then a full flush followed by `k` consecutive back-outs, tip first, for ANY
`k ≤ reorgLimit` with `k ≤ H` (height 0 cannot be backed out), is a valid run: none of the
back-outs fails, and the result is a fully flushed invariant state of the first `H + 1 − k` blocks. -/
theorem C15run_window (cfg : Cfg) (ops : List IOp2) (hv : ValidOps2 cfg {} ops) (hnb : NoBackup ops)
    (H : Nat) (hH : (chainOf2 [] 0 ops).length = H + 1) (hd : DaemonLe H ops)
    (k : Nat) (hk1 : k ≤ cfg.reorgLimit) (hk2 : k ≤ H) :
    ValidOps2 cfg {} (ops ++ [.flush true] ++ backOuts (chainOf2 [] 0 ops) k) ∧
    ∃ s' K', runOps2 cfg {} (ops ++ [.flush true] ++ backOuts (chainOf2 [] 0 ops) k) = .ok s' ∧
      FullInv' cfg ((chainOf2 [] 0 ops).take (H + 1 - k)) K' s' ∧
      s'.m.dbst.height = s'.m.st.height :=
  reorg_window_run (trackInv_init cfg) ops hv hnb H hH hd k hk1 hk2
    (by intro h _ hlt; simp at hlt)

/-- …the same from any invariant state (so after earlier reorganisations too): heights of the
window that were indexed before the stretch must have been retained then. -/
theorem C15run_window_from {cfg : Cfg} {t : Track} {s : Sys} (ti : TrackInv cfg t s)
    (ops : List IOp2) (hv : ValidOps2 cfg t ops) (hnb : NoBackup ops) (H : Nat)
    (hH : (chainOf2 t.chain t.dbLen ops).length = H + 1) (hd : DaemonLe H ops)
    (k : Nat) (hk1 : k ≤ cfg.reorgLimit) (hk2 : k ≤ H)
    (hold : ∀ h, H + 1 - k ≤ h → h < t.chain.length → h ∈ t.kept) :
    ValidOps2 cfg t (ops ++ [.flush true] ++ backOuts (chainOf2 t.chain t.dbLen ops) k) ∧
    ∃ s' K', runOps2 cfg s (ops ++ [.flush true] ++ backOuts (chainOf2 t.chain t.dbLen ops) k) = .ok s' ∧
      FullInv' cfg ((chainOf2 t.chain t.dbLen ops).take (H + 1 - k)) K' s' ∧
      s'.m.dbst.height = s'.m.st.height :=
  reorg_window_run ti ops hv hnb H hH hd k hk1 hk2 hold

/-! ## non-vacuity and counterexamples

Reorg limit 2.  `rxB0` creates two outputs; `rxB1` spends the first; the fork block `rxB1'` (same
parent) spends the second; `rxB2` on top of `rxB1'` spends an output of `rxB1'` and the first output
of `rxB0` (an output that the abandoned branch had destroyed). -/

def rxCfg : Cfg := { act := 1, reorgLimit := 2 }
def rxGen : TxIn := ⟨0, 4294967295⟩
def rxB0 : Block := ⟨7, 0, 100, 80, [⟨11, [rxGen], [⟨50, 1, .normal⟩, ⟨60, 4, .normal⟩]⟩]⟩
def rxB1 : Block := ⟨8, 7, 101, 81, [⟨12, [⟨11, 0⟩], [⟨50, 2, .normal⟩]⟩]⟩
def rxB1' : Block := ⟨9, 7, 102, 82, [⟨13, [⟨11, 1⟩], [⟨60, 3, .normal⟩]⟩]⟩
def rxB2 : Block := ⟨10, 9, 103, 83, [⟨14, [⟨13, 0⟩, ⟨11, 0⟩], [⟨110, 1, .normal⟩]⟩]⟩

/-- advance, full flush, advance, history-only flush, restart (loses the second block: it was not
    committed), advance it again, full flush, back the tip out, advance the fork block, flush, clean
    restart, advance on the new branch, flush, back out two blocks in a row -/
def rxOps : List IOp2 :=
  [.adv rxB0 0, .flush true, .adv rxB1 1, .flush false, .reopen, .adv rxB1 1, .flush true,
   .backup rxB1, .adv rxB1' 1, .flush true, .reopen, .adv rxB2 2, .flush true, .backup rxB2,
   .backup rxB1']

/-- `ValidOps2` (the hypothesis of the run theorems) holds of a run with a restart that loses a
    block, a back-out, a re-advance of a different block at the same height, a clean restart and two
    back-outs in a row -/
example : ValidOps2 rxCfg {} rxOps := by decide

example : chainOf2 [] 0 rxOps = [rxB0] := by decide
example : chainOf2 [] 0 (rxOps.take 4) = [rxB0, rxB1] ∧ chainOf2 [] 0 (rxOps.take 5) = [rxB0] := by
  decide
example : chainOf2 [] 0 (rxOps.take 12) = [rxB0, rxB1', rxB2] := by decide
example : (Track.run rxCfg {} (rxOps.take 12)).kept = [2, 1, 0] := by decide

/-- the specification of the surviving chain after the first reorganisation: `rxB1`'s spend of
    output 0 is gone, `rxB1'`/`rxB2` are in -/
example : (specChain rxCfg.act (chainOf2 [] 0 (rxOps.take 12))).utxos = [⟨14, 0, 2, 2, 110, 1⟩] := by
  decide

/-- the hypotheses of `C03run_backup` / `C03run_reopen_clean` / `C03run_steps` are satisfiable: the
    run theorem produces such states -/
example : ∃ s, FullInv' rxCfg ([rxB0] ++ [rxB1]) [1, 0] s ∧ s.m.dbst.height = s.m.st.height ∧
    [rxB0] ≠ [] ∧ [rxB0].length ∈ [1, 0] := by
  obtain ⟨s, -, ti⟩ := trackInv_run (rxOps.take 7) (trackInv_init rxCfg) (by decide)
  exact ⟨s, ti.inv, ti.flushed (by decide), by decide, by decide⟩

/-- …and so is the hypothesis of `C03run_reopen` in a state with unflushed work (two blocks indexed,
    one committed) -/
example : ∃ s, FullInv' rxCfg [rxB0, rxB1] [1, 0] s ∧ s.m.dbst.height = 0 ∧ s.m.st.height = 1 := by
  obtain ⟨s, -, ti⟩ := trackInv_run (rxOps.take 4) (trackInv_init rxCfg) (by decide)
  exact ⟨s, ti.inv, ti.db, ti.inv.base.files.height⟩

/-- the hypotheses of `C03run_backup_refused`: an invariant flushed state of two blocks without an
    undo row at the tip (both blocks indexed while the daemon was far ahead) -/
example : ∃ s, FullInv' rxCfg [rxB0, rxB1] [] s ∧ s.m.dbst.height = s.m.st.height ∧
    alookup ([rxB0, rxB1].length - 1) s.p.undo = none := by
  refine ⟨match runOps2 rxCfg {} [.adv rxB0 10, .adv rxB1 10, .flush true] with
          | .ok s => s | .error _ => {}, ?_, by decide, by decide⟩
  obtain ⟨s, h, ti⟩ := trackInv_run [.adv rxB0 10, .adv rxB1 10, .flush true] (trackInv_init rxCfg)
    (by decide)
  rw [h]
  exact ti.inv

/-- the hypotheses of `C15run_window`: a back-out-free valid run with a clean restart and a restart
    that loses a block, daemon heights `≤ H = 2`, and `k = 2 = reorgLimit ≤ H` -/
def rxSync : List IOp2 :=
  [.adv rxB0 0, .flush true, .reopen, .adv rxB1' 2, .flush false, .reopen, .adv rxB1' 1,
   .adv rxB2 2]

example : ValidOps2 rxCfg {} rxSync ∧ NoBackup rxSync ∧ (chainOf2 [] 0 rxSync).length = 2 + 1 ∧
    DaemonLe (2 : Nat) rxSync ∧ 2 ≤ rxCfg.reorgLimit := by
  refine ⟨by decide, ?_, by decide, ?_, by decide⟩
  · intro b hb; simp [rxSync] at hb
  · intro b d hb
    simp only [rxSync, List.mem_cons, IOp2.adv.injEq, List.not_mem_nil, or_false, reduceCtorEq,
      false_or] at hb
    rcases hb with ⟨-, rfl⟩ | ⟨-, rfl⟩ | ⟨-, rfl⟩ | ⟨-, rfl⟩ <;> decide

example : backOuts (chainOf2 [] 0 rxSync) 2 = [.backup rxB2, .backup rxB1'] := by decide

def okErr (r : Except Err Sys) : Option Err := match r with | .error e => some e | .ok _ => none
def okSysD (r : Except Err Sys) : Sys := match r with | .error _ => {} | .ok s => s

/-- **F10 over a whole run** (the hypothesis `DaemonLe H` of `C15run_window` cannot be dropped):
reorg limit 2, blocks 0 and 1 indexed while the daemon showed height 10, the daemon's height then
falls and the server is caught up at height 1.  Block 1 is inside the window {0, 1}, yet its height
is not retained, the back-out is inadmissible, and the model (like the code) refuses it with
`ChainError`. -/
theorem C15run_counterexample_falling_daemon_height :
    (Track.run rxCfg {} [.adv rxB0 10, .adv rxB1 10, .flush true]).kept = [] ∧
    ¬ ValidOps2 rxCfg {} [.adv rxB0 10, .adv rxB1 10, .flush true, .backup rxB1] ∧
    okErr (runOps2 rxCfg {} [.adv rxB0 10, .adv rxB1 10, .flush true, .backup rxB1])
      = some .chainError := by
  refine ⟨by decide, by decide, by decide⟩

/-- the run in which the fork block `rxB1'` is indexed while the daemon shows height `d` and is then
    backed out again -/
def rxStale (d : Int) : List IOp2 :=
  [.adv rxB0 0, .adv rxB1 1, .flush true, .backup rxB1, .adv rxB1' d, .flush true, .backup rxB1']

/-- **N2 over a whole run** (the clause "the tip height is retained" of `BackupOk` cannot be
weakened to "an undo row exists"): `backup_block` leaves the `U` row of the orphaned `rxB1` behind.
If the fork block `rxB1'` is indexed inside its window (`d = 1`) the row is overwritten, the run is
valid, and backing `rxB1'` out restores output 1 of `rxB0` (script hash 4, value 60).  If it is
indexed while the daemon is far ahead (`d = 10`) no undo list is kept, height 1 is not retained and
the back-out is inadmissible — and indeed the model (like the code, see
`integration/idxbackup-n2-replay.py`) does not refuse it but consumes the STALE row of `rxB1`:
no error, and output 1 of `rxB0` comes back with the script hash and value of output 0, so script
hash 4 has lost its UTXO and script hash 1 has two of value 50, while the specification of the
surviving chain `[rxB0]` has one UTXO each. -/
theorem C03run_counterexample_stale_undo_row :
    (ValidOps2 rxCfg {} (rxStale 1) ∧
      allUtxos (okSysD (runOps2 rxCfg {} (rxStale 1))) 4 = some [⟨0, 1, 11, 0, 60⟩]) ∧
    (¬ ValidOps2 rxCfg {} (rxStale 10) ∧
      (Track.run rxCfg {} ((rxStale 10).take 6)).kept = [0] ∧
      okErr (runOps2 rxCfg {} (rxStale 10)) = none ∧
      allUtxos (okSysD (runOps2 rxCfg {} (rxStale 10))) 4 = some [] ∧
      allUtxos (okSysD (runOps2 rxCfg {} (rxStale 10))) 1 =
        some [⟨0, 1, 11, 0, 50⟩, ⟨0, 0, 11, 0, 50⟩]) ∧
    chainOf2 [] 0 (rxStale 10) = [rxB0] ∧
    (specChain rxCfg.act [rxB0]).utxos = [⟨11, 0, 0, 0, 50, 1⟩, ⟨11, 1, 0, 0, 60, 4⟩] := by
  refine ⟨⟨by decide, by decide⟩, ⟨by decide, by decide, by decide, by decide, by decide⟩,
    by decide, by decide⟩

end EV.Index

import EV.Props.C09

/-!
# C08 / C09 — audit strengthenings (audit appendix B and C)

* `refreshRound_quiet_exact` (C08, `_refresh_hashes` level).  `C08_touched_handed_over`,
  `C09_height_guard` and `C09_loop` all have the shape "`l' = l` or …" and therefore also hold of a
  loop that never hands anything over.  This is the positive direction: a round in a quiet
  environment whose three heights agree DOES call `on_mempool` (exactly once, with a fresh `touched`
  afterwards), and the view handed over is the exact one of `C08_exact`.
* `chunkPhase_inv`, `C09_inv_every_suspension` (C09, "at every suspension point").  `C09_inv` is about
  the END of a refresh.  `_process_mempool` suspends only while the chunk tasks run (the removal phase
  and the deferred loop are synchronous), and each chunk task touches shared state only in its final
  synchronous segment; sessions that query the mempool between two chunk completions therefore see
  the state after the removal phase and after some PREFIX of the accept segments in completion order.
  The theorems say that every such state satisfies `MpInv` (so `balance_delta`, `potential_spends`,
  `transaction_summaries`, `unordered_UTXOs` cannot raise and return only true pairs there), for every
  sound environment, listing, completion order and prefix length.

Tie to the code: unchanged (suite `mempool`); the race entry calls `check_inv` after each round only,
not between chunk completions (acknowledged in `harness/props/C09.py`).
-/
namespace EV.Mempool

/-- **C08 (`_refresh_hashes`, positive direction).**  From any `MpInv` state, a round whose listing
is `M`, whose environment is quiet for `M` and `U`, whose daemon height is the same before and after
the listing (`h1`) and equals the DB height (`h2`), with the chunk tasks completing in any order
(`hord`), succeeds, emits exactly one `on_mempool(t, cachedHeight)`, starts a fresh `touched`, and
leaves exactly the specification pool (with the invariant, hence with the observables of
`C08_observables_inv`). -/
theorem refreshRound_quiet_exact (W : Hash → Option RawTx) (M : List Hash) (U : List (Prevout × Pair))
    (l : Loop) (r : Round) (hinv : MpInv W l.st) (hM : r.hashes = M)
    (henv : EnvQuiet W M U r.fetch r.lookup)
    (h1 : r.cachedHeight = r.height) (h2 : r.cachedHeight = r.dbHeight)
    (hord : r.order.Perm (List.range (numChunks EV.Gen.mempoolChunk l.st M))) :
    ∃ l' t, refreshRound EV.Gen.mempoolChunk l r = .ok l' ∧
      l'.emits = l.emits ++ [(t, r.cachedHeight)] ∧ l'.touched = [] ∧
      l'.st.txs.Perm (specPool W M U) ∧ MpInv W l'.st := by
  obtain ⟨p, g1, _, g3, g4⟩ :=
    C08_exact W M U r.fetch r.lookup l.st l.touched r.cachedHeight r.order hinv henv hord
  have g1' : processMempoolN EV.Gen.mempoolChunk l.st r.hashes l.touched r.cachedHeight r.dbHeight
      r.fetch r.lookup r.order = .ok p := by rw [← h2, hM]; exact g1
  refine ⟨{ st := p.st, touched := [], emits := l.emits ++ [(p.touched, r.cachedHeight)] },
    p.touched, ?_, rfl, rfl, g3, g4⟩
  unfold refreshRound
  simp only [h1, ne_eq, not_true_eq_false, if_false]
  rw [← h1, g1']

/-- **C09 (mid-refresh, the chunk phase).**  From any `MpInv` state, after the accept segments of ANY
list `order` of chunk tasks (in particular any prefix of the completion order) the chunk phase has
not raised and the shared state satisfies `MpInv`. -/
theorem chunkPhase_inv {W : Hash → Option RawTx} {allHashes : List Hash}
    {fetch : Hash → Option RawTx} {lookup : Nat → List Prevout → List (Option Pair)}
    (henv : SoundOn W allHashes fetch lookup) (cs : Nat) {st : St} (hinv : MpInv W st)
    (touched : List HashX) (order : List Nat) :
    ∃ m, chunkPhase allHashes fetch lookup (chunksOf cs (newHashes st.txs allHashes))
        { st := st, txMap := [], um := [], touched := touched } order = .ok m ∧ MpInv W m.st := by
  let P : Merge → Prop := fun m =>
      Grow W allHashes st touched m.st m.touched ∧ UmSound W m.um ∧
        ∀ e ∈ m.txMap, Fetched W e ∧ e.1 ∈ allHashes
  have hchunk : ∀ k, ∀ h ∈ (chunksOf cs (newHashes st.txs allHashes)).getD k [], h ∈ allHashes :=
    fun k h hh => (mem_newHashes.mp (chunksOf_subset hh)).1
  have hstep : ∀ k m, P m →
      ∃ r, fetchAndAccept m.st allHashes fetch lookup k
          ((chunksOf cs (newHashes st.txs allHashes)).getD k []) m.touched = .ok r ∧
        P { st := r.st, txMap := m.txMap ++ r.deferred, um := r.unspent ++ m.um,
            touched := r.touched } := by
    intro k m ⟨hg, hum, hD⟩
    have hL := fetched_of_txMapOf henv.fetch (hchunk k)
    obtain ⟨r, h1, c⟩ := acceptTransactions_facts
      (UmSound_utxoMapOf henv.lookup k
        (lookupPrevouts allHashes (txMapOf fetch ((chunksOf cs (newHashes st.txs allHashes)).getD k []))))
      henv.valid hg.inv (fun e he => (hL e he).1) m.touched
    refine ⟨r, h1, hg.step c (fun e he => (hL e he).2), ?_, ?_⟩
    · intro p pr hp
      rcases List.mem_append.mp hp with h2 | h2
      · exact UmSound_utxoMapOf henv.lookup k _ p pr (c.unspentSub _ h2)
      · exact hum p pr h2
    · intro e he
      rcases List.mem_append.mp he with h2 | h2
      · exact hD e h2
      · exact hL e (c.sub.subset h2)
  obtain ⟨m, h1, hg, _, _⟩ := chunkPhase_ind' P hstep order
    { st := st, txMap := [], um := [], touched := touched }
    ⟨Grow.refl hinv, by intro p pr h; simp at h, by simp⟩
  exact ⟨m, h1, hg.inv⟩

/-- **C09 (the invariant at every suspension point inside a refresh).**  From any `MpInv` state, under
any sound environment, for every listing, pending `touched`, completion order `order` of the chunk
tasks and every `k`: the removal phase succeeds and leaves an `MpInv` state, and after the first `k`
chunk completions (`order.take k`; `k = 0`: right after the removal phase, `k ≥ order.length`: when the
last task has completed and the synchronous deferred loop starts) the shared state `m.st` that
sessions can read satisfies `MpInv`. -/
theorem C09_inv_every_suspension (W : Hash → Option RawTx) (fetch : Hash → Option RawTx)
    (lookup : Nat → List Prevout → List (Option Pair)) (st : St)
    (hinv : MpInv W st) (henv : EnvSound W fetch lookup)
    (allHashes : List Hash) (order : List Nat) (touched : List HashX) (k : Nat) :
    ∃ st1 t1, removalLoop st touched (st.txs.filter (fun e => !allHashes.contains e.1)) = .ok (st1, t1) ∧
      MpInv W st1 ∧
      ∃ m, chunkPhase allHashes fetch lookup
          (chunksOf EV.Gen.mempoolChunk (newHashes st1.txs allHashes))
          { st := st1, txMap := [], um := [], touched := t1 } (order.take k) = .ok m ∧
        MpInv W m.st := by
  obtain ⟨st1, t1, h1, h2, -, -⟩ := removal_facts hinv allHashes touched
  obtain ⟨m, h3, h4⟩ := chunkPhase_inv (henv.soundOn allHashes) EV.Gen.mempoolChunk h2 t1 (order.take k)
  exact ⟨st1, t1, h1, h2, m, h3, h4⟩

/-! ### non-vacuity -/

namespace AuditExample
open Example

/-- a round over the quiet world of `C08.lean`: heights 100 = 100 = 100 -/
def round1 : Round :=
  { cachedHeight := 100, hashes := M, height := 100, dbHeight := 100,
    fetch := dget tb, lookup := lookupFrom U, order := [0] }

/-- all hypotheses of `refreshRound_quiet_exact` hold of it, from the empty tracker … -/
example : ∃ l' t, refreshRound EV.Gen.mempoolChunk {} round1 = .ok l' ∧
    l'.emits = ([] : List (List HashX × Int)) ++ [(t, 100)] ∧ l'.touched = [] ∧
    l'.st.txs.Perm (specPool (dget tb) M U) ∧ MpInv (dget tb) l'.st :=
  refreshRound_quiet_exact (dget tb) M U {} round1 (MpInv_empty _) rfl quiet rfl rfl order_ok

/-- … and what is handed over is not trivial: four transactions, script hashes 6, 7, 8, 9 touched -/
example : (match refreshRound EV.Gen.mempoolChunk {} round1 with
    | .ok l => some (l.st.txs.map (·.1), l.emits.map (fun (e : List HashX × Int) => (dedup e.1, e.2)), l.touched)
    | .error _ => none) = some ([13, 10, 11, 12], [([6, 9, 8, 7], 100)], []) := by decide

/-- the state after that round: a NON-EMPTY `MpInv` state (the in-tree witness of `MpInv` was the
    empty tracker only) -/
def st1 : St := match refreshRound EV.Gen.mempoolChunk {} round1 with
  | .ok l => l.st
  | .error _ => {}

theorem st1_inv : MpInv (dget tb) st1 ∧ st1.txs.length = 4 := by
  obtain ⟨l', t, h, -, -, hp, hinv⟩ :=
    refreshRound_quiet_exact (dget tb) M U {} round1 (MpInv_empty _) rfl quiet rfl rfl order_ok
  have : st1 = l'.st := by rw [st1, h]
  rw [this]
  exact ⟨hinv, by rw [hp.length_eq]; decide⟩

/-- second round from that non-empty state: the parent 10 has confirmed (listing `[11]`, UTXO set
    `U'`), no new hashes, so no chunk task: the hypotheses hold with a non-empty `MpInv` state and an
    empty completion order, and the round hands over the one-transaction pool -/
def round2 : Round :=
  { cachedHeight := 101, hashes := [11], height := 101, dbHeight := 101,
    fetch := dget tb, lookup := lookupFrom U', order := [] }

example : ∃ l' t, refreshRound EV.Gen.mempoolChunk { st := st1 } round2 = .ok l' ∧
    l'.emits = ([] : List (List HashX × Int)) ++ [(t, 101)] ∧ l'.touched = [] ∧
    l'.st.txs.Perm (specPool (dget tb) [11] U') ∧ MpInv (dget tb) l'.st :=
  refreshRound_quiet_exact (dget tb) [11] U' { st := st1 } round2 st1_inv.1 rfl quiet' rfl rfl
    (by have : numChunks EV.Gen.mempoolChunk st1 [11] = 0 := by decide
        show ([] : List Nat).Perm (List.range (numChunks EV.Gen.mempoolChunk st1 [11]))
        rw [this]; exact List.Perm.refl _)

/-- `C09_inv_every_suspension` on the racing world of `C09.lean` (`Race.sound`: 10 and 99 are never
    delivered, the index knows one output), from the NON-EMPTY state `st1` whose transactions 10 and 12
    have vanished from the listing: the removal phase removes them, and after 0 and after 1 chunk
    completions the state satisfies `MpInv` -/
example (k : Nat) : ∃ st' t1, removalLoop st1 [] (st1.txs.filter (fun e => ![11, 13, 99].contains e.1))
      = .ok (st', t1) ∧ MpInv (dget tb) st' ∧
    ∃ m, chunkPhase [11, 13, 99] (fun h => if [10, 99].contains h then none else dget tb h)
        (lookupFrom [((5, 1), (6, 30))])
        (chunksOf EV.Gen.mempoolChunk (newHashes st'.txs [11, 13, 99]))
        { st := st', txMap := [], um := [], touched := t1 } (([0] : List Nat).take k) = .ok m ∧
      MpInv (dget tb) m.st :=
  C09_inv_every_suspension _ _ _ st1 st1_inv.1 Race.sound [11, 13, 99] [0] [] k

end AuditExample

end EV.Mempool

import EV.Props.C12

/-!
# C12 (binding) — what a verifying proof tells the client

`EV/Props/C12.lean` shows that the branch handed out folds to the merkle root (completeness: the
server's proof verifies).  The theorems there assume nothing about the hash.  This file adds the
converse direction a client relies on, which *does* need the hash to be collision-free, stated as
an explicit hypothesis on the abstract `H` (`Collisionless H`: `H a b = H c d → a = c ∧ b = d`;
the free term hash `T.n` of the examples satisfies it, so the hypothesis is satisfiable; for
double-SHA256 it is the usual cryptographic assumption and is *not* claimed here):

* `rfpLoop_inj` — the verification loop of `Merkle.root_from_proof` is injective in (leaf, branch)
  for a fixed index and branch length;
* `bar_binds` — any (leaf, branch) of the natural length that `root_from_proof` folds, at position
  `idx`, to the merkle root of `hs` **is** `hs[idx]` with exactly the branch `branch_and_root`
  returns: the server cannot be made to "prove" another leaf at that position, and the branch is
  unique;
* `bar_binds_unique` — hence no two different leaves have verifying proofs for one position;
* `rfpTscLoop_inj_leaf`, `bar_binds_tsc` — in the TSC format (`*` = duplicate of the running hash) the
  branch is not unique by design (a `*` and an explicit copy fold alike) but the leaf still binds.

Nothing in `EV/Model/Merkle.lean` or `EV/Props/C12.lean` is touched.
-/
namespace EV.Merkle

variable {Node : Type} (H : Node → Node → Node)

/-- the hash never maps two different pairs to the same node -/
def Collisionless : Prop := ∀ a b c d, H a b = H c d → a = c ∧ b = d

/-- **C12 (binding, loop).**  For a collision-free hash, `root_from_proof`'s loop is injective in
the leaf and the branch (same index, same branch length). -/
theorem rfpLoop_inj (hinj : Collisionless H) :
    ∀ (br br' : List Node) (x y : Node) (i : Int), br.length = br'.length →
      (rfpLoop H x br i).1 = (rfpLoop H y br' i).1 → x = y ∧ br = br'
  | [], [], x, y, i, _, h => ⟨by simpa [rfpLoop] using h, rfl⟩
  | e :: r, e' :: r', x, y, i, hl, h => by
      simp only [rfpLoop] at h
      have hl' : r.length = r'.length := by simpa using hl
      obtain ⟨h1, h2⟩ := rfpLoop_inj hinj r r' _ _ _ hl' h
      by_cases hi : i % 2 = 1
      · simp only [hi, if_true] at h1
        obtain ⟨a, b⟩ := hinj _ _ _ _ h1
        exact ⟨b, by rw [a, h2]⟩
      · simp only [hi, if_false] at h1
        obtain ⟨a, b⟩ := hinj _ _ _ _ h1
        exact ⟨a, by rw [b, h2]⟩
  | [], _ :: _, _, _, _, hl, _ => by simp at hl
  | _ :: _, [], _, _, _, hl, _ => by simp at hl

/-- **C12 (binding).**  Let `H` be collision-free, `idx < len(hs)`.  If
`root_from_proof(x, br, idx)` returns the merkle root of `hs` for some leaf `x` and some branch
`br` of the natural length `⌈log₂ n⌉`, then `x = hs[idx]` and `br` is exactly the (classic)
branch `branch_and_root(hs, idx)` returns. -/
theorem bar_binds (hinj : Collisionless H) (hs : List Node) (idx : Nat) (h : idx < hs.length)
    (x : Node) (br : List Node) (hlen : br.length = Nat.clog 2 hs.length)
    (hv : rootFromProof H x br idx =
      .ok (merkleRoot H hs (List.ne_nil_of_length_pos (by omega)))) :
    x = hs[idx] ∧
      branchAndRoot H hs (.int idx) none false =
        .ok (br.map .node, merkleRoot H hs (List.ne_nil_of_length_pos (by omega))) := by
  obtain ⟨nodes, r, hb, hf⟩ := bar_fold H hs idx h
  obtain ⟨br0, hroot⟩ := bar_root H hs idx false h
  have hr : r = merkleRoot H hs (List.ne_nil_of_length_pos (by omega)) := by
    rw [hb] at hroot; cases hroot; rfl
  have hnl : nodes.length = Nat.clog 2 hs.length := by
    have := bar_length H hs idx false _ _ hb
    simpa using this
  subst hr
  unfold rootFromProof at hv hf
  split at hv
  · cases hv
  · split at hf
    · cases hf
    · have e1 : (rfpLoop H x br idx).1 = (rfpLoop H hs[idx] nodes idx).1 := by
        have a := Except.ok.inj hv
        have b := Except.ok.inj hf
        rw [a, b]
      obtain ⟨hx, hbr⟩ := rfpLoop_inj H hinj br nodes x hs[idx] idx (by omega) e1
      exact ⟨hx, by rw [hbr]; exact hb⟩

/-- **C12 (binding, two leaves).**  With a collision-free hash no two different leaves have
verifying proofs (of the natural length) for the same position against the same list. -/
theorem bar_binds_unique (hinj : Collisionless H) (hs : List Node) (idx : Nat) (h : idx < hs.length)
    (x y : Node) (bx by' : List Node)
    (hlx : bx.length = Nat.clog 2 hs.length) (hly : by'.length = Nat.clog 2 hs.length)
    (hvx : rootFromProof H x bx idx = .ok (merkleRoot H hs (List.ne_nil_of_length_pos (by omega))))
    (hvy : rootFromProof H y by' idx = .ok (merkleRoot H hs (List.ne_nil_of_length_pos (by omega)))) :
    x = y := by
  rw [(bar_binds H hinj hs idx h x bx hlx hvx).1, (bar_binds H hinj hs idx h y by' hly hvy).1]

/-- **C12 (binding, TSC loop).**  In the TSC format a `*` and an explicit copy of the running hash
fold alike, so the *branch* is not unique by design; the **leaf** still is: for a collision-free
hash the client's TSC verification loop is injective in the leaf (same index, same length). -/
theorem rfpTscLoop_inj_leaf (hinj : Collisionless H) :
    ∀ (br br' : List (Elt Node)) (x y : Node) (i : Int), br.length = br'.length →
      (rfpTscLoop H x br i).1 = (rfpTscLoop H y br' i).1 → x = y
  | [], [], x, y, i, _, h => by simpa [rfpTscLoop] using h
  | .star :: r, .star :: r', x, y, i, hl, h => by
      simp only [rfpTscLoop] at h
      have h1 := rfpTscLoop_inj_leaf hinj r r' _ _ _ (by simpa using hl) h
      exact (hinj _ _ _ _ h1).1
  | .star :: r, .node e' :: r', x, y, i, hl, h => by
      simp only [rfpTscLoop] at h
      have h1 := rfpTscLoop_inj_leaf hinj r r' _ _ _ (by simpa using hl) h
      by_cases hi : i % 2 = 1
      · simp only [hi, if_true] at h1; exact (hinj _ _ _ _ h1).2
      · simp only [hi, if_false] at h1; exact (hinj _ _ _ _ h1).1
  | .node e :: r, .star :: r', x, y, i, hl, h => by
      simp only [rfpTscLoop] at h
      have h1 := rfpTscLoop_inj_leaf hinj r r' _ _ _ (by simpa using hl) h
      by_cases hi : i % 2 = 1
      · simp only [hi, if_true] at h1; exact (hinj _ _ _ _ h1).2
      · simp only [hi, if_false] at h1; exact (hinj _ _ _ _ h1).1
  | .node e :: r, .node e' :: r', x, y, i, hl, h => by
      simp only [rfpTscLoop] at h
      have h1 := rfpTscLoop_inj_leaf hinj r r' _ _ _ (by simpa using hl) h
      by_cases hi : i % 2 = 1
      · simp only [hi, if_true] at h1; exact (hinj _ _ _ _ h1).2
      · simp only [hi, if_false] at h1; exact (hinj _ _ _ _ h1).1
  | [], _ :: _, _, _, _, hl, _ => by simp at hl
  | _ :: _, [], _, _, _, hl, _ => by simp at hl

/-- **C12 (binding, TSC).**  Collision-free `H`, `idx < len(hs)`: any leaf `x` with *any* TSC
branch of the natural length that the client folds to the merkle root of `hs` at position `idx`
is `hs[idx]`. -/
theorem bar_binds_tsc (hinj : Collisionless H) (hs : List Node) (idx : Nat) (h : idx < hs.length)
    (x : Node) (br : List (Elt Node)) (hlen : br.length = Nat.clog 2 hs.length)
    (hv : rootFromProofTsc H x br idx =
      .ok (merkleRoot H hs (List.ne_nil_of_length_pos (by omega)))) :
    x = hs[idx] := by
  obtain ⟨nodes, brT, r, hb, hbT, hl, _, hf⟩ := tsc_spec H hs idx h
  obtain ⟨br0, hroot⟩ := bar_root H hs idx true h
  have hr : r = merkleRoot H hs (List.ne_nil_of_length_pos (by omega)) := by
    rw [hbT] at hroot; cases hroot; rfl
  have hnl : brT.length = Nat.clog 2 hs.length := bar_length H hs idx true _ _ hbT
  subst hr
  unfold rootFromProofTsc at hv hf
  split at hv
  · cases hv
  · split at hf
    · cases hf
    · have a := Except.ok.inj hv
      have b := Except.ok.inj hf
      exact rfpTscLoop_inj_leaf H hinj br brT x hs[idx] idx (by omega) (by rw [a, b])

/-! ## the classic format never contains the TSC marker (every argument, also `length` padding) -/

theorem barStep_false_node {hs hs' : List Node} {idx : Nat} {e : Elt Node}
    (h : barStep false hs idx = .ok (hs', e)) : e ≠ .star := by
  unfold barStep at h
  simp only [Bool.false_and, Bool.false_eq_true, if_false] at h
  split at h
  · split at h
    · cases h
    · split at h
      · cases h
      · cases h; intro hc; cases hc
  · split at h
    · cases h
    · cases h; intro hc; cases hc

theorem barLoop_false_nodes :
    ∀ (n : Nat) (hs : List Node) (idx : Nat) (br br' : List (Elt Node)) (r : Node),
      (∀ e ∈ br, e ≠ Elt.star) → barLoop H false n hs idx br = .ok (br', r) → ∀ e ∈ br', e ≠ Elt.star
  | 0, hs, idx, br, br', r, hbr, h => by
      unfold barLoop at h
      split at h
      · cases h
      · cases h; exact hbr
  | n + 1, hs, idx, br, br', r, hbr, h => by
      unfold barLoop at h
      split at h
      · cases h
      · rename_i hs1 e hstep
        split at h
        · cases h
        · refine barLoop_false_nodes n _ _ _ br' r ?_ h
          intro x hx
          rcases List.mem_append.mp hx with hx | hx
          · exact hbr x hx
          · rw [List.mem_singleton.mp hx]; exact barStep_false_node hstep

/-- **C12 (classic format is star-free).**  Whatever the arguments — any index, any `length`
padding — a branch returned with `tsc_format=False` contains only nodes, never the `*` marker
(closes the gap noted for `bar_padding`, which states the fold only through the TSC-aware loop). -/
theorem bar_classic_starfree (hs : List Node) (index : IntArg) (length : Option IntArg)
    (br : List (Elt Node)) (r : Node)
    (h : branchAndRoot H hs index length false = .ok (br, r)) :
    ∃ nodes : List Node, br = nodes.map .node := by
  have hall : ∀ e ∈ br, e ≠ Elt.star := by
    unfold branchAndRoot at h
    split at h
    · cases h
    · split at h
      · cases h
      · split at h
        · exact barLoop_false_nodes H _ _ _ [] br r (by simp) h
        · cases h
        · split at h
          · cases h
          · exact barLoop_false_nodes H _ _ _ [] br r (by simp) h
  clear h
  induction br with
  | nil => exact ⟨[], rfl⟩
  | cons e t ih =>
    obtain ⟨ns, hns⟩ := ih (fun x hx => hall x (List.mem_cons_of_mem _ hx))
    cases e with
    | star => exact absurd rfl (hall .star (List.mem_cons_self))
    | node x => exact ⟨x :: ns, by rw [hns]; rfl⟩

/-- for a star-free branch the TSC-aware client loop is the classic `root_from_proof` loop, so
`bar_padding`'s fold statement is about the real `root_from_proof` when `tsc_format=False` -/
theorem rfpTscLoop_map_node (x : Node) (nodes : List Node) (i : Int) :
    rfpTscLoop H x (nodes.map .node) i = rfpLoop H x nodes i := by
  induction nodes generalizing x i with
  | nil => rfl
  | cons e t ih => simp only [List.map_cons, rfpTscLoop, rfpLoop]; exact ih _ _

/-- **C12 (`length` padding, classic format, real verifier).**  With `tsc_format=False` and any
padding `l ≥ ⌈log₂ n⌉` the branch is a list of `l` nodes and `root_from_proof(hs[idx], branch, idx)`
— the real classic verifier — returns the returned root. -/
theorem bar_padding_classic (hs : List Node) (idx l : Nat) (h : idx < hs.length)
    (hl : Nat.clog 2 hs.length ≤ l) :
    ∃ (nodes : List Node) (r : Node),
      branchAndRoot H hs (.int idx) (some (.int l)) false = .ok (nodes.map .node, r) ∧
      nodes.length = l ∧ rootFromProof H hs[idx] nodes idx = .ok r := by
  obtain ⟨br, _, r, hb, _, _, hlen, _, hf⟩ := bar_padding H hs idx l false h hl
  obtain ⟨nodes, rfl⟩ := bar_classic_starfree H hs _ _ br r hb
  refine ⟨nodes, r, hb, by simpa using hlen, ?_⟩
  unfold rootFromProofTsc at hf
  unfold rootFromProof
  rw [rfpTscLoop_map_node] at hf
  exact hf

/-! ## non-vacuity -/

section Examples
open T

/-- the free term hash of the examples in `C12.lean` is collision-free -/
theorem T_collisionless : Collisionless T.n := by
  intro a b c d h; cases h; exact ⟨rfl, rfl⟩

/-- the hypotheses of `bar_binds` are met by the proof the server hands out for leaf 2 of 3 -/
example :
    ([l 2, n (l 0) (l 1)] : List T).length = Nat.clog 2 ([l 0, l 1, l 2] : List T).length ∧
    rootFromProof T.n (l 2) [l 2, n (l 0) (l 1)] 2 = .ok (merkleRoot T.n [l 0, l 1, l 2] (by simp)) := by
  refine ⟨by simp [Nat.clog]; decide, ?_⟩
  simp [merkleRoot, pairs, rootFromProof, rfpLoop]

/-- without collision-freeness the conclusion fails: a constant hash accepts any leaf -/
example : rootFromProof (fun _ _ : Nat => 0) 7 [5] 0 = rootFromProof (fun _ _ : Nat => 0) 8 [5] 0 := by
  decide

/-- TSC: the branch is not unique (`*` vs. an explicit copy of the running hash), the leaf is -/
example : rootFromProofTsc T.n (l 2) [.star, .node (n (l 0) (l 1))] 2 =
    rootFromProofTsc T.n (l 2) [.node (l 2), .node (n (l 0) (l 1))] 2 := by decide

end Examples

end EV.Merkle

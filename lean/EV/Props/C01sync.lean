import EV.Proofs.SyncLoop
import EV.Props.C01run

/-!
# C01 / C02 at server level — what a client can read when it is told a height

"After the server has indexed any valid chain up to height h, the unspent outputs it reports …, the
confirmed balance …, its UTXO count (C01) and the confirmed history of every script hash (C02) are
exactly those implied by the chain's transactions up to h.  This holds for every fetch batching and
for every placement of intermediate cache flushes (history-only or full)."

`EV.SyncLoop` models *when* the block-processing task advances, flushes and tells clients a height
(`advance_blocks` with the flushes requested by the cache-size loop, `on_caught_up`).  The theorems
compose it with the whole-run refinement of the index (`EV/Props/C01run.lean`).
Tie to the code: suite `sync` replays the event trace of the real `fetch_and_process_blocks` task
on this model (told heights and state heights after every event) and judges every told point on the
real DB against the Lean specification.
-/
namespace EV.SyncLoop
open EV.Index EV.Spec

/-- **Told-then-visible (invariant form).**  For every valid chain, every batching of its blocks and
every placement of history-only / full flushes requested between them, and every placement of
`on_caught_up` calls: the task never fails, and at every moment clients are told a height `h`
(`Notifications.on_block`) the index is fully flushed, `h` is the height of the chain indexed so far,
and the state satisfies the refinement invariant for exactly that chain. -/
theorem C01sync_told (cfg : Cfg) (evs : List Ev) (hv : ValidEvs cfg [] evs) :
    ∃ l ts, run cfg {} evs = .ok (l, ts) ∧ FullInv cfg (blocksOf evs) l.s ∧
      ∀ t ∈ ts, ∃ c, c <+: blocksOf evs ∧ FullInv cfg c t.2 ∧ Flushed t.2 ∧ t.1 = (c.length : Int) - 1 := by
  obtain ⟨l, ts, h1, h2, h3⟩ := run_inv (cfg := cfg) (l := {}) evs (fullInv_init cfg) hv
  refine ⟨l, ts, h1, by simpa using h2, ?_⟩
  intro t ht
  obtain ⟨c, -, hc2, rest⟩ := h3 t ht
  exact ⟨c, by simpa using hc2, rest⟩

/-- **Told-then-visible (observables).**  At every told point, what the read path answers from the
index — `all_utxos` of every script hash (up to order), `limited_history` with every limit, the
UTXO count and the tx count — is the specification of the chain up to the told height. -/
theorem C01sync_observables (cfg : Cfg) (evs : List Ev) (hv : ValidEvs cfg [] evs) :
    ∃ l ts, run cfg {} evs = .ok (l, ts) ∧
      ∀ t ∈ ts, ∃ c, c <+: blocksOf evs ∧ t.1 = (c.length : Int) - 1 ∧
        (∀ hx, ∃ rows, allUtxos t.2 hx = some rows ∧
          rows.Perm (((specChain cfg.act c).utxos.filter (·.hx == hx)).map
            (fun u => ⟨u.txnum, u.idx, u.txid, u.height, u.value⟩))) ∧
        (∀ hx limit, limitedHistory t.2 hx limit = some (historyPairs (specChain cfg.act c) hx limit)) ∧
        t.2.m.st.utxoCount = ((specChain cfg.act c).utxos.length : Int) ∧
        t.2.m.st.txCount = (specChain cfg.act c).txs.length := by
  obtain ⟨l, ts, h1, -, h3⟩ := C01sync_told cfg evs hv
  refine ⟨l, ts, h1, ?_⟩
  intro t ht
  obtain ⟨c, hc, inv, hfl, hh⟩ := h3 t ht
  exact ⟨c, hc, hh, C01_observables inv hfl⟩

/-- The first `on_caught_up` tells nothing (it only marks the server as caught up); every later one
tells the current height. -/
theorem C01sync_first_catchup_silent (cfg : Cfg) (l : Loop) (l' : Loop) (t : Option Int)
    (h : step cfg l .caughtUp = .ok (l', t)) : l'.caughtUp = true ∧ (t.isSome ↔ l.caughtUp = true) := by
  simp only [step] at h
  split at h
  · exact absurd h (by simp)
  · split at h <;> simp only [Except.ok.injEq, Prod.mk.injEq] at h <;> obtain ⟨rfl, rfl⟩ := h <;> simp_all

/-! non-vacuity: the two linked blocks of `C01run.lean` (a tx of the second block spends an output of
the first), a history-only flush requested after the first block and a full one after the second,
caught up three times: the second and third `on_caught_up` tell heights 0 and 1 -/
def exEvs : List Ev := [.block exB0 0 (some false), .caughtUp, .caughtUp, .block exB1 1 (some true), .caughtUp]

example : ValidEvs exCfg [] exEvs := by
  have hS : specChain exCfg.act [exB0] = ⟨[⟨11, 0, 0, 0, 50, 1⟩], [[1]], [(11, 0)]⟩ := by decide
  refine ⟨⟨rfl, ?_, ?_, trivial⟩, ⟨rfl, ?_, ?_, trivial⟩, trivial⟩
  · simp [InputsOK, TxIn.isGen]
  · intro u hu; simp [specChain, specFrom] at hu
  · show InputsOK (specChain exCfg.act [exB0]).utxos [⟨11, 0⟩]
    rw [hS]
    simp [InputsOK, TxIn.isGen, opOf]
  · intro u hu
    change u ∈ (specChain exCfg.act [exB0]).utxos at hu
    rw [hS] at hu
    simp at hu
    subst hu
    decide

example : (match run exCfg {} exEvs with
           | .ok (_, ts) => ts.map (·.1)
           | .error _ => []) = [0, 1] := by decide

end EV.SyncLoop

import EV.Props.C04audit
import EV.Proofs.CrashResume

/-!
# C04 — resuming sync after a crash reaches the same state (the second half of the property)

"If the process dies at any instant during block processing or a flush …, then on restart the
database opens, reports a height it had fully committed, and every observable of the index equals
that of a clean index of the chain to that height; **resuming sync then reaches exactly the same
final state as an uninterrupted run.**"

`EV/Props/C04audit.lean` (`C04run_restart`) proves the first half for every cut `c` of every flush of
every valid run `ops`.  For a cut that contains the UTXO batch the restarted state `r` IS the state of
the crash-free run `ops ++ [flush, reopen]` (`C04run_resume_committed`: every continuation from `r`
is literally a suffix of that run).  For a cut before the UTXO batch the restarted store is NOT the
one a clean restart `r0` of the pre-flush store gives: the three meta files may carry torn data
beyond the committed lengths, `clear_excess` has rewritten the history state record.  This file
proves that the difference never matters and disappears:

* `ResEq r0 r` — same memory, same `h`/`u`/undo/history tables, same UTXO state record, same history
  flush count, files equal on the first `fs_height + 1` headers / counts and `fs_tx_count` hashes;
* every operation of a run — `advance_block` of any block, either kind of flush, a back-out, another
  restart — fails on both with the same error or succeeds on both with `ResEq` results
  (`EV/Proofs/CrashResume.lean`: `resEq_step`), because nothing reads a file beyond the committed
  lengths and `flush_fs` writes at the offsets `fs_height + 1` / `prior_tx_count`;
* hence for EVERY continuation `ops'` that is valid for the crash-free run `ops ++ [reopen] ++ ops'`
  the resumed run succeeds and ends `ResEq` to the end state `a` of that crash-free run: same
  read-path answers (`ObsEq`), same undo rows, same history state record, same flush effect lists,
  same outcome of any further operation (`SameResume`); `a` satisfies the whole-run invariant for the
  surviving chain, so C01/C03 (`observables_of_fullInv'`, `fresh_index`) say what those answers are;
* the files agree from the old tip on (`TailEq`), so as soon as the resumed sync has flushed past the
  height / tx count the interrupted flush was writing, the two stores are equal outright
  (`StoreEqv`: every table, every record, every file byte);
* the same for ANY NUMBER of crashes (`Resumed`, `C04run_crashes`, `C04run_crashes_progress`): a
  state reached by run operations and crashes at arbitrary cuts of arbitrary flushes is `SameResume`
  to the end state of the crash-free run that explains it, and the crashed sync never gets stuck;
* "an uninterrupted run" proper — no crash, no restart, its own flush schedule — differs from the
  crash-free run above in things no query shows (flush ids, the partition of history rows by flush
  id, which old undo rows a restart pruned); `C04run_crashes_vs_uninterrupted`: when both stand fully
  flushed on the same surviving chain, every query is answered alike and the undo information of
  every height both retain is the same.

Hypotheses: validity of the crash-free run (`ValidOps2`, as in C03/C04audit — each advanced block
links to the tip and spends existing outputs, each back-out is admissible); nothing else.
Trusted, as in `C04.lean`: LevelDB batches are atomic and durable; a killed process loses no
completed `write()`.
-/
namespace EV.Index
open EV.Spec

/-- "the resumed run is in the same state as the crash-free run": `a` is the end state of the
    crash-free run, `b` the one of the run that crashed, restarted and resumed -/
structure SameResume (cfg : Cfg) (a b : Sys) : Prop where
  /-- same memory, tables, UTXO state record, history flush count; files equal up to the pointers -/
  res : ResEq a b
  /-- the history state record as a whole (absent = all defaults) -/
  hstate : b.p.hstate.getD {} = a.p.hstate.getD {}
  /-- every read-path answer -/
  obs : ObsEq a b
  /-- `read_undo_info` of every height, on disk and pending -/
  undo : ∀ h, alookup h b.p.undo = alookup h a.p.undo ∧ undoLookup b h = undoLookup a h
  /-- the effect list (and new memory) of the next flush of either kind -/
  flush : ∀ fu, flushDbs b fu = flushDbs a fu
  /-- any further operation, valid or not: same error, or `ResEq` results -/
  next : ∀ op, ResEqE (stepOp2 cfg a op) (stepOp2 cfg b op)

/-- the restart of the crash-free run and its bookkeeping -/
theorem C04run_clean_restart (cfg : Cfg) (ops : List IOp2) (hv : ValidOps2 cfg {} ops) {s : Sys}
    (hs : runOps2 cfg {} ops = .ok s) :
    ∃ e0 r0, recover cfg s.p = some (e0, r0) ∧ runOps2 cfg {} (ops ++ [.reopen]) = .ok r0 ∧
      TrackInv cfg ((Track.run cfg {} ops).step cfg .reopen) r0 ∧ CompIdle s ∧ CompIdle r0 := by
  obtain ⟨s1, hs1, ti⟩ := trackInv_run ops (trackInv_init cfg) hv
  rw [hs] at hs1
  cases hs1
  obtain ⟨r0, hr0, ti0⟩ := trackInv_step ti .reopen trivial
  have hcs : CompIdle s := compIdle_run ops compIdle_init hs
  cases h0 : recover cfg s.p with
  | none =>
    simp only [stepOp2, reopen] at hr0
    rw [show openDbs cfg s.p false none = none from h0] at hr0
    cases hr0
  | some x =>
    obtain ⟨e0, r0'⟩ := x
    have : r0' = r0 := by
      simp only [stepOp2, reopen] at hr0
      rw [show openDbs cfg s.p false none = some (e0, r0') from h0] at hr0
      cases hr0
      rfl
    subst this
    refine ⟨e0, r0', rfl, ?_, ti0, hcs, compIdle_recover ⟨hcs.pf, hcs.pc⟩ h0⟩
    rw [runOps2_append, hs]
    simp only [runOps2, hr0]

/-- **C04 (resuming after a crash before the UTXO commit).**  Let `s` be the end state of a valid
run `ops`, `es` the effects of a flush (either kind) issued there, `c` any cut of it WITHOUT the UTXO
batch — a crash during block processing (`c = []`), between or inside the three file writes, before
or after the history batch — and `ops'` any continuation such that the crash-free run
`ops ++ [reopen] ++ ops'` (the same operations with a clean restart in place of the crash) is valid.
Then the restart on the cut store succeeds with a state `r`, the clean restart gives `r0`, and
running `ops'` from `r` succeeds, like the crash-free run does, with end states `a` (crash-free) and
`b` (crashed and resumed) such that

* `a` satisfies the whole-run invariant for the surviving chain (so its observables are the
  specification's: `observables_of_fullInv'`);
* `SameResume cfg a b`: `ResEq`, the same history state record, the same read-path answers, the same
  undo rows, the same effects of the next flush, the same outcome of ANY next operation;
* the files of `a` and `b` agree from the tip of the interrupted flush on; and if the file pointers
  of the end state have reached that tip (`s.m.st.height ≤ a.m.fsHeight`,
  `s.m.st.txCount ≤ a.m.fsTxCount`: the resumed sync has re-flushed what the crash interrupted) the
  two stores hold exactly the same data. -/
theorem C04run_resume (cfg : Cfg) (ops ops' : List IOp2)
    (hv : ValidOps2 cfg {} (ops ++ .reopen :: ops')) {s : Sys}
    (hs : runOps2 cfg {} ops = .ok s) {fu : Bool} {es : List Effect} {m' : Mem}
    (hf : flushDbs s fu = some (es, m')) {c : List Effect} (hc : c ∈ cuts es)
    (hnu : ∀ e ∈ c, e.isUtxoBatch = false) :
    ∃ e0 r0 e r a b,
      recover cfg s.p = some (e0, r0) ∧ recover cfg (applyEffects s.p c) = some (e, r) ∧
      ResEq r0 r ∧
      runOps2 cfg {} (ops ++ .reopen :: ops') = .ok a ∧
      runOps2 cfg r0 ops' = .ok a ∧ runOps2 cfg r ops' = .ok b ∧
      FullInv' cfg (chainOf2 [] 0 (ops ++ .reopen :: ops'))
        (Track.run cfg {} (ops ++ .reopen :: ops')).kept a ∧
      SameResume cfg a b ∧
      TailEq (s.m.st.height + 1).toNat (s.m.st.height + 1).toNat s.m.st.txCount a.p b.p ∧
      (s.m.st.height ≤ a.m.fsHeight → s.m.st.txCount ≤ a.m.fsTxCount → StoreEqv a.p b.p) := by
  obtain ⟨hv1, -, hv2⟩ := (validOps2_append cfg {} ops (.reopen :: ops')).mp hv
  obtain ⟨e0, r0, h0, hrun0, ti0, hcs, hc0⟩ := C04run_clean_restart cfg ops hv1 hs
  have invs := C04run_inv cfg ops hv1 hs
  have hRS := cut_before_utxo_batch cfg (flushPre_of_fullInv' invs) hf hc hnu
  obtain ⟨e, r, hr, R⟩ := resEq_of_recoversSame hRS h0
  -- the tail bound right after the crash
  have T0 := tailEq_of_cut invs.base.files hf hc
  have T : TailEq (s.m.st.height + 1).toNat (s.m.st.height + 1).toNat s.m.st.txCount r0.p r.p := by
    rw [(recover_effects h0).2, (recover_effects hr).2]
    exact T0.of_files (files_openStore cfg _) (files_openStore cfg _)
  -- no compaction anywhere
  have hcr : CompIdle r := by
    refine compIdle_recover ?_ hr
    exact compIdleP_applyEffects (compIdle_cut (compIdle_flushDbs hcs.mf hcs.mc hf).1 hc)
      ⟨hcs.pf, hcs.pc⟩
  obtain ⟨a, b, ha, hb, tia, Rab, Tab⟩ := resEq_run_tail ops' ti0 R T hv2
  have hca : CompIdle a := compIdle_run ops' hc0 ha
  have hcb : CompIdle b := compIdle_run ops' hcr hb
  have hfull : runOps2 cfg {} (ops ++ .reopen :: ops') = .ok a := by
    have : ops ++ .reopen :: ops' = (ops ++ [.reopen]) ++ ops' := by simp
    rw [this, runOps2_append, hrun0]
    exact ha
  have inva := tia.inv
  have hrun : ((Track.run cfg {} ops).step cfg .reopen).run cfg ops' =
      Track.run cfg {} (ops ++ .reopen :: ops') := by
    rw [Track.run_append, Track.run_cons]
  rw [hrun] at inva
  have inva' := inva
  rw [Track.run_chain] at inva'
  refine ⟨e0, r0, e, r, a, b, h0, hr, R, hfull, ha, hb, inva',
    ⟨Rab, hstate_eq_of_compIdle Rab hca hcb, obsEq_of_resEq inva.base.files Rab, Rab.undoRows,
      Rab.flushDbs, resEq_step inva.base Rab⟩, Tab, ?_⟩
  intro h1 h2
  exact storeEqv_of_tail Rab Tab hca hcb (by omega) (by omega) h2

/-- **C04 (resuming after a crash after the UTXO commit).**  A cut that contains the UTXO batch
leaves the store of the complete flush, so the restarted state `r` is the end state of the
crash-free run `ops ++ [flush, reopen]`, and every continuation from `r` — valid or not — is
literally the rest of that run. -/
theorem C04run_resume_committed (cfg : Cfg) (ops : List IOp2) (hv : ValidOps2 cfg {} ops) {s : Sys}
    (hs : runOps2 cfg {} ops = .ok s) {fu : Bool} {es : List Effect} {m' : Mem}
    (hf : flushDbs s fu = some (es, m')) {c : List Effect} (hc : c ∈ cuts es)
    (hu : ∃ e ∈ c, e.isUtxoBatch = true) :
    ∃ e r, recover cfg (applyEffects s.p c) = some (e, r) ∧
      runOps2 cfg {} (ops ++ [.flush fu, .reopen]) = .ok r ∧
      ∀ ops', runOps2 cfg r ops' = runOps2 cfg {} (ops ++ .flush fu :: .reopen :: ops') := by
  have hcut := cut_after_utxo_batch hf hc hu
  have hv2 : ValidOps2 cfg {} (ops ++ [.flush fu, .reopen]) :=
    (validOps2_append cfg {} ops _).mpr ⟨hv, trivial, trivial, trivial⟩
  obtain ⟨r, hrun, -⟩ := trackInv_run _ (trackInv_init cfg) hv2
  have h1 : flush s fu = .ok { m := m', p := applyEffects s.p es } := by
    unfold flush; rw [hf]
  have hrun' := hrun
  rw [runOps2_append, hs] at hrun'
  simp only [runOps2, stepOp2, h1, reopen] at hrun'
  cases hrec : recover cfg (applyEffects s.p es) with
  | none =>
    rw [show openDbs cfg (applyEffects s.p es) false none = none from hrec] at hrun'
    cases hrun'
  | some x =>
    obtain ⟨e, r'⟩ := x
    rw [show openDbs cfg (applyEffects s.p es) false none = some (e, r') from hrec] at hrun'
    simp only [Except.ok.injEq] at hrun'
    subst hrun'
    refine ⟨e, r', by rw [hcut]; exact hrec, hrun, ?_⟩
    intro ops'
    have : ops ++ .flush fu :: .reopen :: ops' = (ops ++ [.flush fu, .reopen]) ++ ops' := by simp
    rw [this, runOps2_append, hrun]

/-- **C04 (crash at any instant, then resume).**  For the end state `s` of every valid run `ops`,
every flush issued there and EVERY cut `c` of its effects, the restart succeeds with a state `r`,
and

* (cut without the UTXO batch — nothing of the flush is committed) for every continuation `ops'`
  valid after a clean restart in place of the crash, the resumed run `ops'` from `r` succeeds and
  ends in the same state as the crash-free run `ops ++ [reopen] ++ ops'`, in the sense of
  `C04run_resume`; or
* (cut with the UTXO batch — the flush is committed) `r` is the end state of the crash-free run
  `ops ++ [flush, reopen]` and every continuation is the rest of that run. -/
theorem C04run_crash_resume (cfg : Cfg) (ops : List IOp2) (hv : ValidOps2 cfg {} ops) {s : Sys}
    (hs : runOps2 cfg {} ops = .ok s) {fu : Bool} {es : List Effect} {m' : Mem}
    (hf : flushDbs s fu = some (es, m')) {c : List Effect} (hc : c ∈ cuts es) :
    ∃ e r, recover cfg (applyEffects s.p c) = some (e, r) ∧
      (((∀ e ∈ c, e.isUtxoBatch = false) ∧
        ∀ ops', ValidOps2 cfg {} (ops ++ .reopen :: ops') →
          ∃ a b, runOps2 cfg {} (ops ++ .reopen :: ops') = .ok a ∧ runOps2 cfg r ops' = .ok b ∧
            FullInv' cfg (chainOf2 [] 0 (ops ++ .reopen :: ops'))
              (Track.run cfg {} (ops ++ .reopen :: ops')).kept a ∧
            SameResume cfg a b ∧
            TailEq (s.m.st.height + 1).toNat (s.m.st.height + 1).toNat s.m.st.txCount a.p b.p ∧
            (s.m.st.height ≤ a.m.fsHeight → s.m.st.txCount ≤ a.m.fsTxCount → StoreEqv a.p b.p)) ∨
       ((∃ e ∈ c, e.isUtxoBatch = true) ∧
        runOps2 cfg {} (ops ++ [.flush fu, .reopen]) = .ok r ∧
        ∀ ops', runOps2 cfg r ops' = runOps2 cfg {} (ops ++ .flush fu :: .reopen :: ops'))) := by
  by_cases hu : ∃ e ∈ c, e.isUtxoBatch = true
  · obtain ⟨e, r, h1, h2, h3⟩ := C04run_resume_committed cfg ops hv hs hf hc hu
    exact ⟨e, r, h1, Or.inr ⟨hu, h2, h3⟩⟩
  · have hnu : ∀ e ∈ c, e.isUtxoBatch = false := by
      intro e he
      cases h : e.isUtxoBatch
      · rfl
      · exact (hu ⟨e, he, h⟩).elim
    have hv0 : ValidOps2 cfg {} (ops ++ .reopen :: []) :=
      (validOps2_append cfg {} ops _).mpr ⟨hv, trivial, trivial⟩
    obtain ⟨-, -, e, r, -, -, -, hr, -⟩ := C04run_resume cfg ops [] hv0 hs hf hc hnu
    refine ⟨e, r, hr, Or.inl ⟨hnu, ?_⟩⟩
    intro ops' hv'
    obtain ⟨-, -, e', r', a, b, -, hr', -, h1, -, h2, h3, h4, h5, h6⟩ :=
      C04run_resume cfg ops ops' hv' hs hf hc hnu
    rw [hr] at hr'
    simp only [Option.some.injEq, Prod.mk.injEq] at hr'
    obtain ⟨-, rfl⟩ := hr'
    exact ⟨a, b, h1, h2, h3, h4, h5, h6⟩

/-- **C04 (…and answers like a clean index).**  In the setting of `C04run_resume`, whenever the
resumed run ends fully flushed, every observable of the crashed-and-resumed index `b` is the
specification's of the surviving chain of the crash-free run — exactly what a fresh index that only
ever advanced that chain answers (`C03run_fresh_index`). -/
theorem C04run_resume_observables (cfg : Cfg) (ops ops' : List IOp2)
    (hv : ValidOps2 cfg {} (ops ++ .reopen :: ops')) {s : Sys}
    (hs : runOps2 cfg {} ops = .ok s) {fu : Bool} {es : List Effect} {m' : Mem}
    (hf : flushDbs s fu = some (es, m')) {c : List Effect} (hc : c ∈ cuts es)
    (hnu : ∀ e ∈ c, e.isUtxoBatch = false) :
    ∃ e r b, recover cfg (applyEffects s.p c) = some (e, r) ∧ runOps2 cfg r ops' = .ok b ∧
      (b.m.dbst.height = b.m.st.height →
        (∀ hx, ∃ rows, allUtxos b hx = some rows ∧
          rows.Perm (((specChain cfg.act (chainOf2 [] 0 (ops ++ .reopen :: ops'))).utxos.filter
            (·.hx == hx)).map (fun u => ⟨u.txnum, u.idx, u.txid, u.height, u.value⟩))) ∧
        (∀ hx limit, limitedHistory b hx limit =
          some (historyPairs (specChain cfg.act (chainOf2 [] 0 (ops ++ .reopen :: ops'))) hx limit)) ∧
        b.m.st.utxoCount =
          ((specChain cfg.act (chainOf2 [] 0 (ops ++ .reopen :: ops'))).utxos.length : Int) ∧
        b.m.st.txCount = (specChain cfg.act (chainOf2 [] 0 (ops ++ .reopen :: ops'))).txs.length ∧
        b.m.st.height = ((chainOf2 [] 0 (ops ++ .reopen :: ops')).length : Int) - 1 ∧
        b.m.st.tip = ((chainOf2 [] 0 (ops ++ .reopen :: ops')).getLast?.map (·.hash)).getD 0 ∧
        (∀ start count, readHeaders b start count =
          (((chainOf2 [] 0 (ops ++ .reopen :: ops')).map (·.header)).drop start).take
            (min (count : Int) (((chainOf2 [] 0 (ops ++ .reopen :: ops')).length : Int) - start)).toNat) ∧
        (∀ (h : Nat) (blk : Block), (chainOf2 [] 0 (ops ++ .reopen :: ops'))[h]? = some blk →
          txHashesAt b h = some (blk.txs.map (·.id)))) := by
  obtain ⟨-, -, e, r, a, b, -, hr, -, -, -, hb, inva, hsame, -, -⟩ :=
    C04run_resume cfg ops ops' hv hs hf hc hnu
  refine ⟨e, r, b, hr, hb, ?_⟩
  intro hfl
  have hm := hsame.res.m
  rw [hm] at hfl
  obtain ⟨u1, h1, c1, t1, hh, tip, -, hdr, txh⟩ := observables_of_fullInv' inva hfl
  refine ⟨?_, ?_, ?_, ?_, ?_, ?_, ?_, ?_⟩
  · intro hx; rw [hsame.obs.utxos hx]; exact u1 hx
  · intro hx limit; rw [hsame.obs.hist hx limit]; exact h1 hx limit
  · rw [hm]; exact c1
  · rw [hm]; exact t1
  · rw [hm]; exact hh
  · rw [hm]; exact tip
  · intro start count; rw [hsame.obs.headers start count]; exact hdr start count
  · intro h blk hblk; rw [hsame.obs.txHashes h]; exact txh h blk hblk

/-! ## any number of crashes -/

/-- a crash before the UTXO commit of a flush issued in a state `b` that is `ResEq` to a state `a`
    of the run invariant: the restart succeeds and is `ResEq` to the clean restart of `a` -/
theorem resEq_crash_before {cfg : Cfg} {t : Track} {a b : Sys} (ti : TrackInv cfg t a) (R : ResEq a b)
    {fu : Bool} {es : List Effect} {m' : Mem} (hf : flushDbs b fu = some (es, m'))
    {c : List Effect} (hc : c ∈ cuts es) (hnu : ∀ x ∈ c, x.isUtxoBatch = false) :
    ∃ r0 e r, stepOp2 cfg a .reopen = .ok r0 ∧ TrackInv cfg (t.step cfg .reopen) r0 ∧
      recover cfg (applyEffects b.p c) = some (e, r) ∧ ResEq r0 r := by
  rw [R.flushDbs] at hf
  have inv := ti.inv
  have f := inv.base.files
  obtain ⟨r0, hr0, ti0⟩ := trackInv_step ti .reopen trivial
  cases h0 : recover cfg a.p with
  | none =>
    simp only [stepOp2, reopen] at hr0
    rw [show openDbs cfg a.p false none = none from h0] at hr0
    cases hr0
  | some x =>
    obtain ⟨e0, r0'⟩ := x
    have : r0' = r0 := by
      simp only [stepOp2, reopen] at hr0
      rw [show openDbs cfg a.p false none = some (e0, r0') from h0] at hr0
      cases hr0
      rfl
    subst this
    -- the cut on the reference store restarts like the clean restart …
    have hRS := cut_before_utxo_batch cfg (flushPre_of_fullInv' inv) hf hc hnu
    obtain ⟨ea, ra, hra, Ra⟩ := resEq_of_recoversSame hRS h0
    -- … and the same cut on the other store restarts like that
    have hus : (applyEffects a.p c).ustate = a.p.ustate := by
      have h1 := hRS.ustate
      rw [openStore_eq, openStore_eq] at h1
      have h2 := (openStore1_rest (applyEffects a.p c)).2.2.2.1
      have h3 := (openStore1_rest a.p).2.2.2.1
      exact h2.symm.trans (h1.trans h3)
    have hu := ustate_getD_of_fullInv inv.base
    have hord := f.order
    have hT : a.m.dbst.txCount ≤ a.m.fsTxCount := by
      rw [f.dbTx, f.fsTx]
      exact allTxids_take_mono _ (by omega)
    obtain ⟨eb, rb, hrb, Rb⟩ := resEq_recover_of_stEq (stEq_cut f R hf hc)
      (by rw [hus, hu]; omega) (by rw [hus, hu]; omega) (by rw [hus, hu]; exact hT) hra
    exact ⟨r0', eb, rb, hr0, ti0, hrb, Ra.trans Rb⟩

/-- a crash after the UTXO commit: the restart is `ResEq` to the clean restart after the complete
    flush of `a` -/
theorem resEq_crash_after {cfg : Cfg} {t : Track} {a b : Sys} (ti : TrackInv cfg t a) (R : ResEq a b)
    {fu : Bool} {es : List Effect} {m' : Mem} (hf : flushDbs b fu = some (es, m'))
    {c : List Effect} (hc : c ∈ cuts es) (hu : ∃ x ∈ c, x.isUtxoBatch = true) :
    ∃ a1 r1 e r, stepOp2 cfg a (.flush fu) = .ok a1 ∧ stepOp2 cfg a1 .reopen = .ok r1 ∧
      TrackInv cfg ((t.step cfg (.flush fu)).step cfg .reopen) r1 ∧
      recover cfg (applyEffects b.p c) = some (e, r) ∧ ResEq r1 r := by
  have hcut := cut_after_utxo_batch hf hc hu
  obtain ⟨a1, ha1, ti1⟩ := trackInv_step ti (.flush fu) trivial
  obtain ⟨r1, hr1, tir⟩ := trackInv_step ti1 .reopen trivial
  have hb1 : stepOp2 cfg b (.flush fu) = .ok { m := m', p := applyEffects b.p es } := by
    show flush b fu = _
    unfold flush; rw [hf]
  have s1 := resEq_step (cfg := cfg) ti.inv.base R (.flush fu)
  rw [ha1, hb1] at s1
  have s2 := resEq_step (cfg := cfg) ti1.inv.base s1 .reopen
  rw [hr1] at s2
  cases hrec : recover cfg (applyEffects b.p es) with
  | none =>
    simp only [stepOp2, reopen] at s2
    rw [show openDbs cfg (applyEffects b.p es) false none = none from hrec] at s2
    exact s2.elim
  | some x =>
    obtain ⟨e, r⟩ := x
    simp only [stepOp2, reopen] at s2
    rw [show openDbs cfg (applyEffects b.p es) false none = some (e, r) from hrec] at s2
    exact ⟨a1, r1, e, r, ha1, hr1, tir, by rw [hcut]; exact hrec, s2⟩

/-- **A sync with any number of crashes.**  `Resumed cfg ops b`: `b` is reached from the empty
index by run operations and crashes — a crash being: a flush of either kind is started in the
current state, the process dies at ANY cut of its effect list, `open_for_sync` runs in a fresh
process.  `ops` is the crash-free run that explains `b`: the same operations with every crash
replaced by a clean restart, preceded by the flush itself when the cut contains the UTXO batch. -/
inductive Resumed (cfg : Cfg) : List IOp2 → Sys → Prop where
  | init : Resumed cfg [] {}
  | step {ops : List IOp2} {b b' : Sys} (op : IOp2) :
      Resumed cfg ops b → stepOp2 cfg b op = .ok b' → Resumed cfg (ops ++ [op]) b'
  | crashBefore {ops : List IOp2} {b r : Sys} {fu : Bool} {es c e : List Effect} {m' : Mem} :
      Resumed cfg ops b → flushDbs b fu = some (es, m') → c ∈ cuts es →
      (∀ x ∈ c, x.isUtxoBatch = false) → recover cfg (applyEffects b.p c) = some (e, r) →
      Resumed cfg (ops ++ [.reopen]) r
  | crashAfter {ops : List IOp2} {b r : Sys} {fu : Bool} {es c e : List Effect} {m' : Mem} :
      Resumed cfg ops b → flushDbs b fu = some (es, m') → c ∈ cuts es →
      (∃ x ∈ c, x.isUtxoBatch = true) → recover cfg (applyEffects b.p c) = some (e, r) →
      Resumed cfg (ops ++ [.flush fu, .reopen]) r

/-- **C04 (any number of crashes).**  If the crash-free run `ops` that explains a crashed-and-resumed
state `b` is valid, it succeeds with an end state `a` satisfying the run invariant for the surviving
chain, and `b` is in the same state as `a`: `ResEq`, hence the same answers, undo rows, flush
effects and behaviour from then on (`SameResume`). -/
theorem C04run_crashes {cfg : Cfg} {ops : List IOp2} {b : Sys} (hres : Resumed cfg ops b)
    (hv : ValidOps2 cfg {} ops) :
    ∃ a, runOps2 cfg {} ops = .ok a ∧ TrackInv cfg (Track.run cfg {} ops) a ∧
      FullInv' cfg (chainOf2 [] 0 ops) (Track.run cfg {} ops).kept a ∧ SameResume cfg a b := by
  suffices h : ∃ a, runOps2 cfg {} ops = .ok a ∧ TrackInv cfg (Track.run cfg {} ops) a ∧
      ResEq a b ∧ CompIdle a ∧ CompIdle b by
    obtain ⟨a, h1, ti, R, ca, cb⟩ := h
    have inv := ti.inv
    rw [Track.run_chain] at inv
    exact ⟨a, h1, ti, inv, R, hstate_eq_of_compIdle R ca cb, obsEq_of_resEq ti.inv.base.files R,
      R.undoRows, R.flushDbs, resEq_step ti.inv.base R⟩
  induction hres with
  | init => exact ⟨{}, rfl, trackInv_init cfg, ResEq.refl _, compIdle_init, compIdle_init⟩
  | @step ops b b' op _ hstep ih =>
    obtain ⟨hv1, hop, -⟩ := (validOps2_append cfg {} ops [op]).mp hv
    obtain ⟨a, h1, ti, R, ca, cb⟩ := ih hv1
    obtain ⟨a', ha', ti'⟩ := trackInv_step ti op hop
    have s1 := resEq_step (cfg := cfg) ti.inv.base R op
    rw [ha', hstep] at s1
    refine ⟨a', ?_, ?_, s1, compIdle_step ca op ha', compIdle_step cb op hstep⟩
    · rw [runOps2_append, h1]; simp only [runOps2, ha']
    · rw [Track.run_append]; exact ti'
  | @crashBefore ops b r fu es c e m' _ hf hc hnu hrec ih =>
    obtain ⟨hv1, -⟩ := (validOps2_append cfg {} ops [.reopen]).mp hv
    obtain ⟨a, h1, ti, R, ca, cb⟩ := ih hv1
    obtain ⟨r0, e', r', hr0, ti0, hrec', R'⟩ := resEq_crash_before ti R hf hc hnu
    rw [hrec] at hrec'
    simp only [Option.some.injEq, Prod.mk.injEq] at hrec'
    obtain ⟨-, rfl⟩ := hrec'
    refine ⟨r0, ?_, ?_, R', compIdle_step ca .reopen hr0, ?_⟩
    · rw [runOps2_append, h1]; simp only [runOps2, hr0]
    · rw [Track.run_append]; exact ti0
    · refine compIdle_recover ?_ hrec
      exact compIdleP_applyEffects (compIdle_cut (compIdle_flushDbs cb.mf cb.mc hf).1 hc)
        ⟨cb.pf, cb.pc⟩
  | @crashAfter ops b r fu es c e m' _ hf hc hu hrec ih =>
    obtain ⟨hv1, -⟩ := (validOps2_append cfg {} ops [.flush fu, .reopen]).mp hv
    obtain ⟨a, h1, ti, R, ca, cb⟩ := ih hv1
    obtain ⟨a1, r1, e', r', ha1, hr1, tir, hrec', R'⟩ := resEq_crash_after ti R hf hc hu
    rw [hrec] at hrec'
    simp only [Option.some.injEq, Prod.mk.injEq] at hrec'
    obtain ⟨-, rfl⟩ := hrec'
    refine ⟨r1, ?_, ?_, R', compIdle_step (compIdle_step ca _ ha1) .reopen hr1, ?_⟩
    · rw [runOps2_append, h1]; simp only [runOps2, ha1, hr1]
    · rw [Track.run_append]; exact tir
    · refine compIdle_recover ?_ hrec
      exact compIdleP_applyEffects (compIdle_cut (compIdle_flushDbs cb.mf cb.mc hf).1 hc)
        ⟨cb.pf, cb.pc⟩

/-- **…and the crashed sync never gets stuck**: in every such state a flush of either kind is
defined, the restart succeeds after EVERY cut of it, and every operation that is admissible for the
crash-free run succeeds. -/
theorem C04run_crashes_progress {cfg : Cfg} {ops : List IOp2} {b : Sys} (hres : Resumed cfg ops b)
    (hv : ValidOps2 cfg {} ops) :
    (∀ fu, ∃ es m', flushDbs b fu = some (es, m') ∧
      ∀ c ∈ cuts es, ∃ e r, recover cfg (applyEffects b.p c) = some (e, r)) ∧
    (∀ op, OkOp cfg (Track.run cfg {} ops) op → ∃ b', stepOp2 cfg b op = .ok b') := by
  obtain ⟨a, -, ti, -, hsame⟩ := C04run_crashes hres hv
  have R := hsame.res
  refine ⟨?_, ?_⟩
  · intro fu
    obtain ⟨a1, h1, -⟩ := trackInv_step ti (.flush fu) trivial
    have h1' : flush a fu = .ok a1 := h1
    unfold flush at h1'
    cases hfd : flushDbs a fu with
    | none => rw [hfd] at h1'; cases h1'
    | some x =>
      obtain ⟨es, m'⟩ := x
      have hfb : flushDbs b fu = some (es, m') := by rw [R.flushDbs]; exact hfd
      refine ⟨es, m', hfb, ?_⟩
      intro c hc
      by_cases hu : ∃ x ∈ c, x.isUtxoBatch = true
      · obtain ⟨-, -, e, r, -, -, -, hr, -⟩ := resEq_crash_after ti R hfb hc hu
        exact ⟨e, r, hr⟩
      · have hnu : ∀ x ∈ c, x.isUtxoBatch = false := by
          intro x hx
          cases h : x.isUtxoBatch
          · rfl
          · exact (hu ⟨x, hx, h⟩).elim
        obtain ⟨-, e, r, -, -, hr, -⟩ := resEq_crash_before ti R hfb hc hnu
        exact ⟨e, r, hr⟩
  · intro op hop
    obtain ⟨a', ha', -⟩ := trackInv_step ti op hop
    have s1 := hsame.next op
    rw [ha'] at s1
    cases hb : stepOp2 cfg b op with
    | error e => rw [hb] at s1; exact s1.elim
    | ok b' => exact ⟨b', rfl⟩


/-- **…and answers like a clean index.**  Whenever a sync with any number of crashes stands fully
flushed, every observable is the specification's of the surviving chain of the crash-free run that
explains it. -/
theorem C04run_crashes_observables {cfg : Cfg} {ops : List IOp2} {b : Sys} (hres : Resumed cfg ops b)
    (hv : ValidOps2 cfg {} ops) (hfl : b.m.dbst.height = b.m.st.height) :
    (∀ hx, ∃ rows, allUtxos b hx = some rows ∧
      rows.Perm (((specChain cfg.act (chainOf2 [] 0 ops)).utxos.filter (·.hx == hx)).map
        (fun u => ⟨u.txnum, u.idx, u.txid, u.height, u.value⟩))) ∧
    (∀ hx limit, limitedHistory b hx limit =
      some (historyPairs (specChain cfg.act (chainOf2 [] 0 ops)) hx limit)) ∧
    b.m.st.utxoCount = ((specChain cfg.act (chainOf2 [] 0 ops)).utxos.length : Int) ∧
    b.m.st.txCount = (specChain cfg.act (chainOf2 [] 0 ops)).txs.length ∧
    b.m.st.height = ((chainOf2 [] 0 ops).length : Int) - 1 ∧
    b.m.st.tip = ((chainOf2 [] 0 ops).getLast?.map (·.hash)).getD 0 ∧
    (∀ start count, readHeaders b start count =
      (((chainOf2 [] 0 ops).map (·.header)).drop start).take
        (min (count : Int) (((chainOf2 [] 0 ops).length : Int) - start)).toNat) ∧
    (∀ (h : Nat) (blk : Block), (chainOf2 [] 0 ops)[h]? = some blk →
      txHashesAt b h = some (blk.txs.map (·.id))) := by
  obtain ⟨a, -, -, inva, hsame⟩ := C04run_crashes hres hv
  have hm := hsame.res.m
  rw [hm] at hfl
  obtain ⟨u1, h1, c1, t1, hh, tip, -, hdr, txh⟩ := observables_of_fullInv' inva hfl
  refine ⟨?_, ?_, ?_, ?_, ?_, ?_, ?_, ?_⟩
  · intro hx; rw [hsame.obs.utxos hx]; exact u1 hx
  · intro hx limit; rw [hsame.obs.hist hx limit]; exact h1 hx limit
  · rw [hm]; exact c1
  · rw [hm]; exact t1
  · rw [hm]; exact hh
  · rw [hm]; exact tip
  · intro start count; rw [hsame.obs.headers start count]; exact hdr start count
  · intro h blk hblk; rw [hsame.obs.txHashes h]; exact txh h blk hblk

/-- **C04 ("… the same final state as an uninterrupted run").**  Let `b` be reached by a sync with
any number of crashes, explained by the valid crash-free run `ops`, and standing fully flushed.  Let
`opsU` be ANY other valid run from the empty index — in particular the run that was never
interrupted: no crash, no restart, its own flush schedule — that indexes the same surviving chain
and ends fully flushed in `u`.  Then `b` answers every query exactly like `u` (histories for every
limit, UTXOs, counters, height, tip, chain size, headers, per-block tx hashes), and the undo
information of every height that both runs retain is the same.  (Flush ids, the partition of
history rows by flush id and the set of retained undo heights legitimately depend on the flush and
restart schedule; no query shows them.) -/
theorem C04run_crashes_vs_uninterrupted {cfg : Cfg} {ops : List IOp2} {b : Sys}
    (hres : Resumed cfg ops b) (hv : ValidOps2 cfg {} ops) (hfl : b.m.dbst.height = b.m.st.height)
    (opsU : List IOp2) (hvU : ValidOps2 cfg {} opsU)
    (hchain : chainOf2 [] 0 opsU = chainOf2 [] 0 ops) {u : Sys}
    (hu : runOps2 cfg {} opsU = .ok u) (hflU : u.m.dbst.height = u.m.st.height) :
    SameAnswers b u ∧
    ∀ h ∈ (Track.run cfg {} ops).kept, h ∈ (Track.run cfg {} opsU).kept →
      undoLookup b h = undoLookup u h := by
  obtain ⟨a, -, -, inva, hsame⟩ := C04run_crashes hres hv
  have hm := hsame.res.m
  rw [hm] at hfl
  have invu := C04run_inv cfg opsU hvU hu
  rw [hchain] at invu
  have sa := obsEq_of_fullInv inva hfl invu hflU
  refine ⟨⟨?_, ?_, ?_, ?_, ?_, ?_, ?_, ?_, ?_⟩, ?_⟩
  · intro hx limit; rw [hsame.obs.hist hx limit]; exact sa.history hx limit
  · intro hx; rw [hsame.obs.utxos hx]; exact sa.utxos hx
  · rw [hm]; exact sa.utxoCount
  · rw [hm]; exact sa.txCount
  · rw [hm]; exact sa.height
  · rw [hm]; exact sa.tip
  · rw [hm]; exact sa.chainSize
  · intro start count; rw [hsame.obs.headers start count]; exact sa.headers start count
  · intro h; rw [hsame.obs.txHashes h]; exact sa.txHashes h
  · intro h hk hkU
    rw [(hsame.undo h).2]
    have hlt := inva.kBound h hk
    have hsplit : chainOf2 [] 0 ops =
        (chainOf2 [] 0 ops).take h ++ (chainOf2 [] 0 ops)[h] :: (chainOf2 [] 0 ops).drop (h + 1) := by
      rw [List.getElem_cons_drop, List.take_append_drop]
    have hlen : ((chainOf2 [] 0 ops).take h).length = h := by
      rw [List.length_take]; omega
    rw [inva.undo h hk _ _ _ hsplit hlen, invu.undo h hkU _ _ _ hsplit hlen]

/-- crash-free stretches -/
theorem Resumed.run {cfg : Cfg} {ops0 : List IOp2} {b : Sys} (h0 : Resumed cfg ops0 b)
    (ops : List IOp2) {s : Sys} (h : runOps2 cfg b ops = .ok s) : Resumed cfg (ops0 ++ ops) s := by
  induction ops generalizing ops0 b with
  | nil =>
    simp only [runOps2, Except.ok.injEq] at h
    subst h
    simpa using h0
  | cons op r ih =>
    simp only [runOps2] at h
    cases hs : stepOp2 cfg b op with
    | error e => rw [hs] at h; cases h
    | ok b1 =>
      rw [hs] at h
      have := ih (h0.step op hs) h
      simpa using this

/-! ### non-vacuity

The run `c04Ops = [adv rxB0, flush true, adv rxB1]` of `C04audit.lean` ends with block 0 committed and
block 1 in memory.  Its full flush has six effects; the cut `c04Cut` is "all three file writes and
the history batch done, the UTXO batch not" — the crash between the history commit and the UTXO
commit.  The restarted store really differs from the clean restart's (one more header, count and
hash on the files), the resumed sync `c04Resume` (re-index block 1, full flush) runs, ends at height
1 in the same state as the crash-free run, and the two stores are then equal outright. -/

def c04Resume : List IOp2 := [.adv rxB1 1, .flush true]

theorem c04Resume_valid : ValidOps2 rxCfg {} (c04Ops ++ .reopen :: c04Resume) := by decide

/-- the cut "all three file writes and the history batch done, UTXO batch not" of the full flush of `c04S` -/
def c04Cut : List Effect :=
  match flushDbs c04S true with
  | some r => cutAt r.1 4 0
  | none => []

theorem c04Cut_facts :
    c04Cut.all (fun x => !x.isUtxoBatch) = true ∧ c04Cut.any (·.isHistBatch) = true ∧
    c04Cut.length = 4 ∧
    c04S.p.headers = [100] ∧ (applyEffects c04S.p c04Cut).headers = [100, 101] ∧
    c04S.p.txcounts = [1] ∧ (applyEffects c04S.p c04Cut).txcounts = [1, 2] ∧
    c04S.p.hashes = [11] ∧ (applyEffects c04S.p c04Cut).hashes = [11, 12] ∧
    c04S.m.st.height = 1 ∧ c04S.m.st.txCount = 2 := by
  refine ⟨by decide, by decide, by decide, by decide, by decide, by decide, by decide, by decide,
    by decide, by decide, by decide⟩


/-- all hypotheses of `C04run_resume` hold; `ResEq` is not equality here; the conclusion's premises
    for `StoreEqv` are reached -/
example : ∃ es m' e0 r0 e r a b,
    flushDbs c04S true = some (es, m') ∧ c04Cut ∈ cuts es ∧
    (∀ x ∈ c04Cut, x.isUtxoBatch = false) ∧ c04Cut.any (·.isHistBatch) = true ∧
    recover rxCfg c04S.p = some (e0, r0) ∧ recover rxCfg (applyEffects c04S.p c04Cut) = some (e, r) ∧
    ResEq r0 r ∧
    r0.p.headers = [100] ∧ r.p.headers = [100, 101] ∧ r0.p.txcounts = [1] ∧ r.p.txcounts = [1, 2] ∧
    r0.p.hashes = [11] ∧ r.p.hashes = [11, 12] ∧ r.p ≠ r0.p ∧
    runOps2 rxCfg {} (c04Ops ++ .reopen :: c04Resume) = .ok a ∧
    runOps2 rxCfg r c04Resume = .ok b ∧ SameResume rxCfg a b ∧
    a.m.dbst.height = 1 ∧ StoreEqv a.p b.p := by
  have hv := c04Resume_valid
  have hv1 : ValidOps2 rxCfg {} c04Ops := by decide
  obtain ⟨es, m', hf⟩ := C04run_flush_defined rxCfg c04Ops hv1 c04S_run true
  have hcut : c04Cut = cutAt es 4 0 := by simp only [c04Cut, hf]
  obtain ⟨k1, k2, -, k4, k5, k6, k7, k8, k9, k10, k11⟩ := c04Cut_facts
  have hnu : ∀ x ∈ c04Cut, x.isUtxoBatch = false := by
    intro x hx
    have := List.all_eq_true.mp k1 x hx
    simpa using this
  have hc : c04Cut ∈ cuts es := by rw [hcut]; exact cutAt_mem_cuts es 4 0
  obtain ⟨e0, r0, e, r, a, b, h0, hr, R, hfull, -, hb, inva, hsame, -, heq⟩ :=
    C04run_resume rxCfg c04Ops c04Resume hv c04S_run hf hc hnu
  have hp0 := (recover_effects h0).2
  have hpr := (recover_effects hr).2
  obtain ⟨f1, f2, f3⟩ := files_openStore rxCfg c04S.p
  obtain ⟨g1, g2, g3⟩ := files_openStore rxCfg (applyEffects c04S.p c04Cut)
  -- the end state of the crash-free run is fully flushed at height 1
  obtain ⟨a', ha', tia⟩ := trackInv_run _ (trackInv_init rxCfg) hv
  rw [hfull] at ha'
  cases ha'
  have hfl := tia.flushed (by decide)
  have hchain : chainOf2 [] 0 (c04Ops ++ .reopen :: c04Resume) = [rxB0, rxB1] := by decide
  rw [hchain] at inva
  have f := inva.base.files
  have hht : a.m.st.height = 1 := by rw [f.height]; rfl
  have hord := f.order
  have hfs : a.m.fsHeight = 1 := by omega
  have hftx : a.m.fsTxCount = 2 := by rw [f.fsTx, hfs]; decide
  refine ⟨es, m', e0, r0, e, r, a, b, hf, hc, hnu, k2, h0, hr, R, ?_, ?_, ?_, ?_, ?_, ?_, ?_,
    hfull, hb, hsame, by omega, heq (by omega) (by omega)⟩
  · rw [hp0, f1, k4]
  · rw [hpr, g1, k5]
  · rw [hp0, f2, k6]
  · rw [hpr, g2, k7]
  · rw [hp0, f3, k8]
  · rw [hpr, g3, k9]
  · intro h
    have := congrArg Store.headers h
    rw [hp0, hpr, f1, g1, k4, k5] at this
    cases this


/-- …and the committed case: the complete flush is a cut with the UTXO batch -/
example : ∃ es m' e r, flushDbs c04S true = some (es, m') ∧ es ∈ cuts es ∧
    (∃ x ∈ es, x.isUtxoBatch = true) ∧ recover rxCfg (applyEffects c04S.p es) = some (e, r) ∧
    runOps2 rxCfg {} (c04Ops ++ [.flush true, .reopen]) = .ok r := by
  have hv1 : ValidOps2 rxCfg {} c04Ops := by decide
  obtain ⟨es, m', hf⟩ := C04run_flush_defined rxCfg c04Ops hv1 c04S_run true
  have hany : (match flushDbs c04S true with
      | some r => r.1.any (·.isUtxoBatch)
      | none => false) = true := by decide
  rw [hf] at hany
  obtain ⟨x, hx, hxu⟩ := List.any_eq_true.mp hany
  obtain ⟨e, r, h1, h2, -⟩ :=
    C04run_resume_committed rxCfg c04Ops hv1 c04S_run hf (self_mem_cuts es) ⟨x, hx, hxu⟩
  exact ⟨es, m', e, r, hf, self_mem_cuts es, ⟨x, hx, hxu⟩, h1, h2⟩

/-- the crash-free run that explains the two-crash sync of the example below -/
def c04Twice : List IOp2 :=
  c04Ops ++ [.reopen] ++ [.adv rxB1 1] ++ [.reopen] ++ [.adv rxB1 1] ++ [.flush true]

/-- two crashes: between the history commit and the UTXO commit of the flush of block 1 (`c04Cut`),
    then — block 1 indexed again — during block processing (cut `[]`); the third attempt gets
    through.  The end state is explained by `c04Twice`. -/
theorem c04Twice_resumed : ∃ b, Resumed rxCfg c04Twice b := by
  have R0 : Resumed rxCfg c04Ops c04S := by
    have := Resumed.run (Resumed.init (cfg := rxCfg)) c04Ops c04S_run
    simpa using this
  -- first crash
  obtain ⟨hp0, -⟩ := C04run_crashes_progress R0 (by decide)
  obtain ⟨es, m', hf, hrec⟩ := hp0 true
  have hcut : c04Cut = cutAt es 4 0 := by simp only [c04Cut, hf]
  have hc : c04Cut ∈ cuts es := by rw [hcut]; exact cutAt_mem_cuts es 4 0
  have hnu : ∀ x ∈ c04Cut, x.isUtxoBatch = false := by
    intro x hx
    have := List.all_eq_true.mp c04Cut_facts.1 x hx
    simpa using this
  obtain ⟨e1, r1, hr1⟩ := hrec c04Cut hc
  have R1 : Resumed rxCfg (c04Ops ++ [.reopen]) r1 := R0.crashBefore hf hc hnu hr1
  -- block 1 again
  obtain ⟨-, hp1⟩ := C04run_crashes_progress R1 (by decide)
  obtain ⟨b2, hb2⟩ := hp1 (.adv rxB1 1) (by decide)
  have R2 := R1.step _ hb2
  -- second crash, during block processing
  obtain ⟨hp2, -⟩ := C04run_crashes_progress R2 (by decide)
  obtain ⟨es2, m2, hf2, hrec2⟩ := hp2 true
  obtain ⟨e3, r3, hr3⟩ := hrec2 [] (nil_mem_cuts es2)
  have R3 := R2.crashBefore hf2 (nil_mem_cuts es2) (by simp) hr3
  -- third attempt
  obtain ⟨-, hp3⟩ := C04run_crashes_progress R3 (by decide)
  obtain ⟨b4, hb4⟩ := hp3 (.adv rxB1 1) (by decide)
  have R4 := R3.step _ hb4
  obtain ⟨-, hp4⟩ := C04run_crashes_progress R4 (by decide)
  obtain ⟨b5, hb5⟩ := hp4 (.flush true) trivial
  exact ⟨b5, R4.step _ hb5⟩

/-- `c04Twice` is valid, so `C04run_crashes` applies to the two-crash sync: committed height 1, same
    state as the crash-free run -/
example : ValidOps2 rxCfg {} c04Twice ∧
    ∃ b a, Resumed rxCfg c04Twice b ∧ runOps2 rxCfg {} c04Twice = .ok a ∧ SameResume rxCfg a b ∧
      b.m.dbst.height = 1 ∧ b.m.st.height = 1 := by
  have hv : ValidOps2 rxCfg {} c04Twice := by decide
  obtain ⟨b, R⟩ := c04Twice_resumed
  obtain ⟨a, ha, ti, inv, hsame⟩ := C04run_crashes R hv
  have h1 : a.m.st.height = 1 := by rw [ti.inv.base.files.height]; decide
  refine ⟨hv, b, a, R, ha, hsame, ?_, ?_⟩
  · rw [hsame.res.m, ti.flushed (by decide), h1]
  · rw [hsame.res.m, h1]

/-- the run that was never interrupted: both blocks, one flush -/
def c04Uninterrupted : List IOp2 := [.adv rxB0 0, .adv rxB1 1, .flush true]

/-- …and `C04run_crashes_vs_uninterrupted` applies: the two-crash sync answers like the run that was
    never interrupted and holds the same undo information for both blocks -/
example : ∃ b u, Resumed rxCfg c04Twice b ∧ runOps2 rxCfg {} c04Uninterrupted = .ok u ∧
    SameAnswers b u ∧ undoLookup b 0 = undoLookup u 0 ∧ undoLookup b 1 = undoLookup u 1 := by
  have hv : ValidOps2 rxCfg {} c04Twice := by decide
  have hvU : ValidOps2 rxCfg {} c04Uninterrupted := by decide
  obtain ⟨b, R⟩ := c04Twice_resumed
  obtain ⟨a, -, ti, -, hsame⟩ := C04run_crashes R hv
  obtain ⟨u, hu, tiu⟩ := trackInv_run c04Uninterrupted (trackInv_init rxCfg) hvU
  have hfl : b.m.dbst.height = b.m.st.height := by
    rw [hsame.res.m]; exact ti.flushed (by decide)
  obtain ⟨h1, h2⟩ := C04run_crashes_vs_uninterrupted R hv hfl c04Uninterrupted hvU (by decide) hu
    (tiu.flushed (by decide))
  exact ⟨b, u, R, hu, h1, h2 0 (by decide) (by decide), h2 1 (by decide) (by decide)⟩

end EV.Index

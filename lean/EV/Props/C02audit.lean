import EV.Props.C02
import EV.Props.C01audit

/-!
# C02 — audit strengthening: tx number ↦ (hash, HEIGHT)

`C01run_resolve` gives the HASH a committed tx number resolves to; the (hash, height) pair that
`limited_history` returns was only the unlisted Proofs lemma `fsTxHash_flushed`, stated against the
specification's own table `(specChain …).txs`.  `C02run_txnum` states it against the CHAIN, with no
reference to the specification's table: at a fully flushed state of the whole-run invariant, the
`i`-th transaction of the block at height `h` has tx number `(number of txs in blocks 0..h−1) + i`, and
`fs_tx_hash` of that number is `(its txid, h)` — for every transaction of the (surviving) chain.
`C02run_height_mono`: heights are non-decreasing in the tx number, so the order "by tx number" in
which histories are proved to be listed (`C02_spec_ordered`: strictly ascending tx numbers) IS the
order "(height, then position in the block)".

Scope: fully flushed states.  In other states the pair is given for the UTXOs of the committed chain
by `C01run_committed_view` (clause 3), and numbers above the committed height resolve to no hash
(clause 5).
-/
namespace EV.Index
open EV.Spec

/-- the tx number of the `i`-th transaction of the block at height `h` -/
def txnumAt (chain : List Block) (h i : Nat) : Nat := (allTxids (chain.take h)).length + i

theorem txnumAt_facts {chain : List Block} {h i : Nat} {b : Block} {tx : Tx}
    (hb : chain[h]? = some b) (ht : b.txs[i]? = some tx) :
    txnumAt chain h i < (allTxids chain).length ∧
    bisectRight (cumCounts chain) (txnumAt chain h i) = h ∧
    (allTxids chain).getD (txnumAt chain h i) 0 = tx.id := by
  obtain ⟨hlt, hget⟩ := List.getElem?_eq_some_iff.mp hb
  obtain ⟨hi, hgi⟩ := List.getElem?_eq_some_iff.mp ht
  have htake : chain.take (h + 1) = chain.take h ++ [b] := by
    rw [List.take_add_one, hb]; rfl
  have hlen1 : (allTxids (chain.take (h + 1))).length =
      (allTxids (chain.take h)).length + b.txs.length := by
    rw [htake, allTxids_append]
    simp [allTxids]
  have hle := allTxids_take_le chain (h + 1)
  have hn : txnumAt chain h i < (allTxids chain).length := by unfold txnumAt; omega
  refine ⟨hn, (bisect_spec chain hn h).mpr ⟨by unfold txnumAt; omega, by unfold txnumAt; omega⟩, ?_⟩
  have hn1 : txnumAt chain h i < (allTxids (chain.take (h + 1))).length := by unfold txnumAt; omega
  rw [allTxids_getD_take chain (h + 1) hn1, htake, allTxids_append, List.getD_eq_getElem?_getD]
  unfold txnumAt
  rw [List.getElem?_append_right (by omega)]
  simp [allTxids, hi, hgi]

/-- **C02 (tx number ↦ (hash, height), for every transaction of the chain).**  In a fully flushed
state of the whole-run invariant (after any valid run of advances, flushes, back-outs, restarts), for
every height `h`, block `b = chain[h]` and position `i` with `tx = b.txs[i]`: `fs_tx_hash` of the tx
number `txnumAt chain h i` is `(tx.id, h)`. -/
theorem C02run_txnum {cfg : Cfg} {chain : List Block} {K : List Nat} {s : Sys}
    (inv : FullInv' cfg chain K s) (hf : s.m.dbst.height = s.m.st.height)
    {h i : Nat} {b : Block} {tx : Tx} (hb : chain[h]? = some b) (ht : b.txs[i]? = some tx) :
    fsTxHash s (txnumAt chain h i) = (some tx.id, h) := by
  obtain ⟨hn, hbis, hid⟩ := txnumAt_facts hb ht
  have hlt : txnumAt chain h i < (specChain cfg.act chain).txs.length := by
    rw [specChain_txs_length]; exact hn
  rw [fsTxHash_flushed inv.base hf hlt]
  have hget := spec_txs_get cfg.act chain _ hn
  have hgd : (specChain cfg.act chain).txs.getD (txnumAt chain h i) (0, 0) =
      ((allTxids chain).getD (txnumAt chain h i) 0, bisectRight (cumCounts chain) (txnumAt chain h i)) := by
    rw [List.getD_eq_getElem?_getD, hget]; rfl
  rw [hgd, hbis, hid]

/-- **C02 (tx-number order is (height, position) order).**  In every state of the invariant, the
height `fs_tx_hash` reports is non-decreasing in the tx number (for tx numbers of the chain). -/
theorem C02run_height_mono {cfg : Cfg} {chain : List Block} {K : List Nat} {s : Sys}
    (inv : FullInv' cfg chain K s) {n n' : Nat} (hnn : n ≤ n') (hn' : n' < (allTxids chain).length) :
    (fsTxHash s n).2 ≤ (fsTxHash s n').2 := by
  rw [fsTxHash_eq, fsTxHash_eq, inv.base.files.txCounts]
  show bisectRight (cumCounts chain) n ≤ bisectRight (cumCounts chain) n'
  have hn : n < (allTxids chain).length := by omega
  obtain ⟨h1, -⟩ := (bisect_spec chain hn _).mp rfl
  obtain ⟨-, h2⟩ := (bisect_spec chain hn' _).mp rfl
  apply Classical.byContradiction
  intro hlt
  have := allTxids_take_mono chain (j := bisectRight (cumCounts chain) n' + 1)
    (k := bisectRight (cumCounts chain) n) (by omega)
  omega

/-- non-vacuity on the run with the prefix collision (`C01audit.lean`), fully flushed after four
    operations: chain `[colB0, colB1]`; tx numbers 0, 1 (block 0) and 2 (block 1) -/
example : ∃ s, FullInv' colCfg [colB0, colB1] [1, 0] s ∧ s.m.dbst.height = s.m.st.height ∧
    fsTxHash s (txnumAt [colB0, colB1] 0 1) = (some colB, 0) ∧
    fsTxHash s (txnumAt [colB0, colB1] 1 0) = (some 12, 1) ∧ txnumAt [colB0, colB1] 1 0 = 2 := by
  obtain ⟨s, -, ti⟩ := trackInv_run (colOps.take 4) (trackInv_init colCfg) (by decide)
  have inv : FullInv' colCfg [colB0, colB1] [1, 0] s := ti.inv
  have hf := ti.flushed (by decide)
  exact ⟨s, inv, hf, C02run_txnum inv hf (h := 0) (i := 1) rfl rfl,
    C02run_txnum inv hf (h := 1) (i := 0) rfl rfl, by decide⟩

end EV.Index

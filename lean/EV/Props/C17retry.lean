import EV.Model.Index
import EV.Props.C17audit

/-!
# C17 — the retry loop of `DB.limited_history`

`DB.limited_history(hashX, limit=limit)` reads the tx numbers (at most `limit`) and resolves each to
(hash, height); while some number does not resolve (a flush or a back-out is in progress) it sleeps
and reads again **with the same `limit`**.  The model of one attempt is `EV.Index.limitedHistory`
(`none` = "retry"); the loop sees one database view per attempt.

The caller (`SessionManager.limited_history`) treats a result of fewer than `limit` entries as the
WHOLE history.  `C17_retry_whole` is what makes that sound on the retry path too: whichever attempt
answered, a result shorter than the limit is the complete, unlimited history of the view it was read
from.  (Seeded change C17-5 re-entered `limited_history` without `limit=` on the retry path: the
answering attempt then ran with the default 1000 and the caller took 1000 entries for a whole
history; the flush-window part of the limits suite replays that on the real server.)
-/
namespace EV.Index

/-- the loop: the first attempt that resolves every number answers; `none` = still retrying after
    all the given views -/
def limitedHistoryLoop (views : List Sys) (hx : HashX) (limit : Option Nat) :
    Option (List (Hash × Nat)) :=
  views.findSome? (fun s => limitedHistory s hx limit)

theorem mapM_option_length {α β : Type} (f : α → Option β) :
    ∀ (l : List α) (r : List β), l.mapM f = some r → r.length = l.length := by
  intro l
  induction l with
  | nil => intro r h; simp at h; subst h; rfl
  | cons a l ih =>
    intro r h
    rw [List.mapM_cons] at h
    cases hfa : f a with
    | none => simp [hfa] at h
    | some b =>
      cases hl : l.mapM f with
      | none => simp [hfa, hl] at h
      | some r' =>
        simp [hfa, hl] at h
        subst h
        simp [ih r' hl]

/-- **C17 (retry: same limit).**  The answer of the loop is the answer of one attempt, made with the
    caller's limit, on one of the views. -/
theorem C17_retry_attempt (views : List Sys) (hx : HashX) (limit : Option Nat) (l : List (Hash × Nat))
    (h : limitedHistoryLoop views hx limit = some l) :
    ∃ s ∈ views, limitedHistory s hx limit = some l := by
  unfold limitedHistoryLoop at h
  exact List.exists_of_findSome?_eq_some h

/-- **C17 (retry: bounded).**  Never more than `limit` entries. -/
theorem C17_retry_bounded (views : List Sys) (hx : HashX) (n : Nat) (l : List (Hash × Nat))
    (h : limitedHistoryLoop views hx (some n) = some l) : l.length ≤ n := by
  obtain ⟨s, _, hs⟩ := C17_retry_attempt views hx (some n) l h
  unfold limitedHistory at hs
  rw [mapM_option_length _ _ _ hs]
  simp [getTxnums, List.length_take]
  omega

/-- **C17 (retry: whole or at the limit, never silently truncated).**  If the loop answers with fewer
    than `limit` entries, the answer is the complete history of the view it was read from: the
    unlimited read of that view resolves to the very same list. -/
theorem C17_retry_whole (views : List Sys) (hx : HashX) (n : Nat) (l : List (Hash × Nat))
    (h : limitedHistoryLoop views hx (some n) = some l) (hlt : l.length < n) :
    ∃ s ∈ views, limitedHistory s hx none = some l := by
  obtain ⟨s, hmem, hs⟩ := C17_retry_attempt views hx (some n) l h
  refine ⟨s, hmem, ?_⟩
  have hlen := mapM_option_length _ _ _ hs
  unfold limitedHistory at hs ⊢
  have : getTxnums s.p hx (some n) = getTxnums s.p hx none := by
    simp only [getTxnums] at hlen ⊢
    rw [List.length_take] at hlen
    apply List.take_of_length_le
    omega
  rw [← this]; exact hs

end EV.Index

/-! non-vacuity: the views of a real flush window.  Block 7 (one transaction paying script hash 1) is
advanced on the opened empty index; after a history-only flush the history row names tx number 0 while
the committed state has no block (the attempt answers "retry"); after the full flush it resolves. -/
namespace C17retryEx
open EV.Index

def cfg : Cfg := { act := 1, reorgLimit := 2 }
def blk : Block := ⟨7, 0, 0, 100, [⟨11, [⟨0, 4294967295⟩], [⟨50, 1, .normal⟩]⟩]⟩

def flushed (s : Sys) (fu : Bool) : Option Sys :=
  (flushDbs s fu).map (fun (es, m) => { m := m, p := applyEffects s.p es })

def views : Option (Sys × Sys) := do
  let (_, s0) ← openDbs cfg {} false none
  let s1 ← (advance cfg 0 s0 blk).toOption
  let s2 ← flushed s1 false
  let s3 ← flushed s2 true
  pure (s2, s3)

example : views.isSome = true := by decide +kernel
example : (views.map fun v => limitedHistory v.1 1 (some 5)) = some none := by decide +kernel
example : (views.map fun v => limitedHistory v.2 1 (some 5)) = some (some [(11, 0)]) := by decide +kernel
example : (views.map fun v => limitedHistoryLoop [v.1, v.1, v.2] 1 (some 5)) = some (some [(11, 0)]) := by
  decide +kernel

end C17retryEx

import EV.Props.C10
import EV.Props.C11tx

/-! C10: the history cache (`EV.Props.C10`) and the by-height caches (`EV.Props.C11tx`, model `EV.TxCache`:
`C10_tx_caches`, `C10_tx_hit_current`, `C11_tx_unchanged`).  This module only exists so that `check.py C10`
has one module to build and audit. -/

import EV.Props.C03
import EV.Props.C15

/-!
# C03 — audit strengthenings

* `C03_reorg_range_forced'`: the forced range with its side condition.  `C03_reorg_range_forced` is
  the else-branch of the definition and holds for every `k`, also `k > n`, where it "proves"
  `calcReorgRange _ _ 3 7 = (-3, 7)`.  With `k ≤ n` the range is the last `k` blocks, `start..n`
  with `start ≥ 1` (height 0 is never backed out); `C03_reorg_range_forced_out_of_range` states what
  the function returns otherwise (`start ≤ 0`) — the code then calls `fs_block_hashes(start, count)`
  with a start at or below 0 and fails (`DBError` from `read_headers`, or the `assert` /
  `ChainError` of `backup_block` at height 0); that exception escapes `fetch_and_process_blocks`.
  `rpc_reorg` bounds `count` only by `non_negative_integer`.  Not modelled beyond this statement.
* `C03_natural_reorg`: the composition "which blocks" (`calcReorgRange_exact`) + "can they be backed
  out" (`C15run_window`) + "what is left" (the whole-run invariant) for ONE natural reorganisation
  after catching up from the empty index.

What remains uncomposed (by hand / suites `sync`, `system`): that `reorg_chain` performs exactly the
back-outs `backOuts chain count` for the range it computed (flush, fetch the hashes of the range,
back out in reverse order — modelled only as the event `reorg bs` with `bs` an input in
`EV.SyncLoopT` / `EV.ShutdownTask`); that the daemon does not change chain between the calls of one
`_calc_reorg_range`; detection (tip check, mid-batch); and every LATER reorganisation: the bridge
`C15run_window` needs a back-out-free run, and `C15run_window_from.hold` is discharged by nothing
after a reorganisation (it is false in `C15run_counterexample_lowered_tip`).
-/
namespace EV.Index
open EV.Spec

/-- **C03 (forced range, inside the chain).**  For a forced reorganisation of `k` blocks with
`k ≤ n` at height `n`: the range is `(start, k)` with `start = n + 1 − k ≥ 1` — exactly the last
`k` blocks, none of them height 0 (`k = 0`: the empty range above the tip). -/
theorem C03_reorg_range_forced' (mine daemon : Nat → Reorg.Hash) (n k : Nat) (hkn : k ≤ n) :
    ∃ start : Nat, Reorg.calcReorgRange mine daemon n k = ((start : Int), (k : Int)) ∧
      1 ≤ start ∧ start + k = n + 1 := by
  refine ⟨n + 1 - k, ?_, by omega, by omega⟩
  rw [Reorg.calcReorgRange_forced]
  congr 1
  omega

/-- **C03 (forced range, out of range).**  For `k > n` the computed start is `n + 1 − k ≤ 0`: the
range reaches height 0 or below.  (`k = 0`: the empty range `(n + 1, 0)`.) -/
theorem C03_reorg_range_forced_out_of_range (mine daemon : Nat → Reorg.Hash) (n k : Nat) (hk : n < k) :
    (Reorg.calcReorgRange mine daemon n k).1 = (n : Int) + 1 - k ∧
    (Reorg.calcReorgRange mine daemon n k).1 ≤ 0 := by
  rw [Reorg.calcReorgRange_forced]
  constructor
  · show (n : Int) - k + 1 = n + 1 - k
    omega
  · show (n : Int) - k + 1 ≤ 0
    omega

/-- non-vacuity / the instance the audit quotes -/
example : Reorg.calcReorgRange (fun h => h) (fun h => h) 3 (7 : Nat) = (-3, 7) ∧
    Reorg.calcReorgRange (fun h => h) (fun h => h) 8 (3 : Nat) = (6, 3) := by decide

/-- the hash of the block at height `h` of a chain (`db.fs_block_hashes`), 0 beyond it -/
def hashAt (chain : List Block) (h : Nat) : Reorg.Hash := (chain[h]?.map (·.hash)).getD 0

/-- **C03 (one natural reorganisation after catch-up, composed).**  Index any valid back-out-free
run from the empty index (advances with daemon heights `≤ H`, flushes, restarts) ending caught up at
height `H` on chain `c`.  Let the daemon then be on a chain that agrees with `c` below height `f` and
differs from `f` on (`ForkAt`), with `1 ≤ f ≤ H`, the depth `H − f + 1` within the reorg limit and
the chain at least twice as high as the fork is deep.  Then

* `_calc_reorg_range` (natural, `count = −1`) returns exactly `(f, H − f + 1)`;
* after the full flush `reorg_chain` starts with, backing out that many blocks, tip first, is a valid
  continuation of the run: no back-out fails;
* the result is a fully flushed state satisfying the whole-run invariant for `c.take f` — the common
  prefix — so that advancing the daemon's blocks from `f` on is again covered by the run theorem
  (`C03run_steps` / `C03run_refinement`) and a final full flush gives the observables of
  `C03run_observables`. -/
theorem C03_natural_reorg (cfg : Cfg) (ops : List IOp2) (hv : ValidOps2 cfg {} ops) (hnb : NoBackup ops)
    (H : Nat) (hH : (chainOf2 [] 0 ops).length = H + 1) (hd : DaemonLe H ops)
    (daemon : Nat → Reorg.Hash) (f : Nat)
    (hfork : Reorg.ForkAt (hashAt (chainOf2 [] 0 ops)) daemon f)
    (hf1 : 1 ≤ f) (hfH : f ≤ H) (hcond : 2 * (H - f + 1) ≤ H) (hlim : H - f + 1 ≤ cfg.reorgLimit) :
    Reorg.calcReorgRange (hashAt (chainOf2 [] 0 ops)) daemon H (-1) = ((f : Int), (H : Int) - f + 1) ∧
    ValidOps2 cfg {} (ops ++ [.flush true] ++ backOuts (chainOf2 [] 0 ops) (H - f + 1)) ∧
    ∃ s' K', runOps2 cfg {} (ops ++ [.flush true] ++ backOuts (chainOf2 [] 0 ops) (H - f + 1)) = .ok s' ∧
      FullInv' cfg ((chainOf2 [] 0 ops).take f) K' s' ∧ s'.m.dbst.height = s'.m.st.height := by
  obtain ⟨h1, s', K', h2, h3, h4⟩ :=
    C15run_window cfg ops hv hnb H hH hd (H - f + 1) hlim (by omega)
  have hfe : H + 1 - (H - f + 1) = f := by omega
  rw [hfe] at h3
  exact ⟨Reorg.calcReorgRange_exact hfork hf1 hfH hcond, h1, s', K', h2, h3, h4⟩

/-- non-vacuity: reorg limit 2; five blocks indexed with exact daemon heights; the daemon forks at
    height 4 (depth 1; `2·1 ≤ 4`) -/
def nrCfg : Cfg := { act := 0, reorgLimit := 2 }
def nrGen : TxIn := ⟨0, 4294967295⟩
def nrB (h : Nat) : Block := ⟨100 + h, if h = 0 then 0 else 99 + h, 1000 + h, 80, [⟨11 + h, [nrGen], [⟨5, 1, .normal⟩]⟩]⟩
def nrOps : List IOp2 := [.adv (nrB 0) 0, .adv (nrB 1) 1, .adv (nrB 2) 2, .flush false, .adv (nrB 3) 3, .adv (nrB 4) 4]

example : ValidOps2 nrCfg {} nrOps ∧ (chainOf2 [] 0 nrOps).length = 4 + 1 ∧
    Reorg.calcReorgRange (hashAt (chainOf2 [] 0 nrOps)) (fun h => if h < 4 then 100 + h else 900 + h) 4 (-1)
      = (4, 1) := by
  refine ⟨by decide, by decide, by decide⟩

example : Reorg.ForkAt (hashAt (chainOf2 [] 0 nrOps)) (fun h => if h < 4 then 100 + h else 900 + h) 4 := by
  have hc : chainOf2 [] 0 nrOps = [nrB 0, nrB 1, nrB 2, nrB 3, nrB 4] := by decide
  constructor
  · intro h hh
    rw [hc]
    have : h = 0 ∨ h = 1 ∨ h = 2 ∨ h = 3 := by omega
    rcases this with rfl | rfl | rfl | rfl <;> decide
  · intro h hh
    rw [hc]
    simp only [show ¬ h < 4 by omega, if_false]
    by_cases h4 : h = 4
    · subst h4; decide
    · have : ([nrB 0, nrB 1, nrB 2, nrB 3, nrB 4] : List Block)[h]? = none := by
        apply List.getElem?_eq_none; simp; omega
      simp only [hashAt, this, Option.map_none, Option.getD_none]
      intro h0
      have : (0 : Nat) = 900 + h := h0
      omega

example : NoBackup nrOps ∧ DaemonLe (4 : Nat) nrOps := by
  constructor
  · intro b hb; simp [nrOps] at hb
  · intro b d hb
    simp only [nrOps, List.mem_cons, IOp2.adv.injEq, List.not_mem_nil, or_false, reduceCtorEq,
      false_or] at hb
    rcases hb with ⟨-, rfl⟩ | ⟨-, rfl⟩ | ⟨-, rfl⟩ | ⟨-, rfl⟩ | ⟨-, rfl⟩ <;> decide

end EV.Index

import EV.Props.C03run
import EV.Props.C04

/-!
# C04 composed with whole runs (audit item 5 / appendix A)

`EV/Props/C04.lean` is about ONE flush from a state *assumed* to satisfy `FlushPre`; its only witness
was the hand-built `exPre`.  Here `FlushPre` is derived from the whole-run invariant `FullInv'`
(`flushPre_of_fullInv'`), so that the crash theorems apply to every flush issued in the end state of
every valid run of advances, flushes, back-outs and restarts (`C04run_crash`,
`C04run_crash_observables`), and the restart is shown to SUCCEED on every cut and to give either the
observables of a fully flushed invariant state of the chain up to the committed height, or a fully
flushed invariant state of the chain up to the height the complete flush commits (`C04run_restart`):
"on restart the database opens, reports a height it had fully committed, and every observable equals
that of a clean index of the chain to that height".

Not proved here: "resuming sync then reaches exactly the same final state".  For cuts that contain the
UTXO batch the restarted state satisfies `FullInv'`, so the run theorems (`trackInv_run`) apply to the
resumed sync; for cuts before it only `ObsEq` with such a state is shown (the restarted stores differ in
unreadable file tails), not `FullInv'` itself.
-/
namespace EV.Index
open EV.Spec

/-- **`FlushPre` holds in every state of the whole-run invariant.**  (audit appendix A) -/
theorem flushPre_of_fullInv' {cfg : Cfg} {chain : List Block} {K : List Nat} {s : Sys}
    (inv : FullInv' cfg chain K s) : FlushPre s := by
  have f := inv.base.files
  have hord := f.order
  have hht := f.height
  have hu : s.p.ustate.getD {} = s.m.dbst := by
    rcases inv.base.ustate with ⟨h1, h2⟩ | h
    · rw [h1, h2]; rfl
    · rw [h]; rfl
  have hfsK := f.fsK
  have hlenH : (s.m.fsHeight + 1).toNat ≤ s.p.headers.length := by
    have := congrArg List.length f.headers
    simp only [List.length_take, List.length_map] at this
    omega
  have hlenC : (s.m.fsHeight + 1).toNat ≤ s.p.txcounts.length := by
    have := congrArg List.length f.txcountsFile
    simp only [List.length_take, cumCounts_length] at this
    omega
  have hlenX : s.m.fsTxCount ≤ s.p.hashes.length := by
    have := congrArg List.length f.hashes
    have h2 := f.fsTx_le
    simp only [List.length_take] at this
    omega
  have hdbfs : s.m.dbst.txCount ≤ s.m.fsTxCount := by
    rw [f.dbTx, f.fsTx]
    exact allTxids_take_mono _ (by omega)
  refine ⟨inv.hstate.symm, by rw [hu]; exact inv.fcLe, inv.base.hist.wf.ids, by rw [hu]; exact hord.2.1,
    ?_, by rw [hu]; omega, by rw [hu]; omega, by rw [hu]; omega⟩
  rw [hu]
  by_cases h0 : s.m.fsHeight ≥ 0
  · rw [if_pos h0, f.txCounts, cumCounts_getD _ (by omega : s.m.fsHeight.toNat < chain.length)]
    rw [f.dbTx]
    exact allTxids_take_mono _ (by omega)
  · rw [if_neg h0]
    have : s.m.dbst.height = -1 := by omega
    rw [f.dbTx, this]; simp [allTxids]

/-- the state a valid run ends in satisfies the invariant for the surviving chain (`C03run_refinement`
    with the result named) -/
theorem C04run_inv (cfg : Cfg) (ops : List IOp2) (hv : ValidOps2 cfg {} ops) {s : Sys}
    (hs : runOps2 cfg {} ops = .ok s) :
    FullInv' cfg (chainOf2 [] 0 ops) (Track.run cfg {} ops).kept s := by
  obtain ⟨s', h1, inv⟩ := C03run_refinement cfg ops hv
  rw [hs] at h1
  cases h1
  exact inv

/-- **C04 (`FlushPre` is reachable, and only reachable states need it).**  The end state of EVERY
valid run (advances with any daemon heights, history-only and full flushes, back-outs, restarts)
satisfies the hypothesis of the crash theorems. -/
theorem C04run_flushPre (cfg : Cfg) (ops : List IOp2) (hv : ValidOps2 cfg {} ops) {s : Sys}
    (hs : runOps2 cfg {} ops = .ok s) : FlushPre s :=
  flushPre_of_fullInv' (C04run_inv cfg ops hv hs)

/-- in such a state a flush of either kind is defined (none of `flush_dbs`' assertions fails), so its
    effect list and cuts exist -/
theorem C04run_flush_defined (cfg : Cfg) (ops : List IOp2) (hv : ValidOps2 cfg {} ops) {s : Sys}
    (hs : runOps2 cfg {} ops = .ok s) (fu : Bool) : ∃ es m', flushDbs s fu = some (es, m') := by
  obtain ⟨s', h1, -, -⟩ := fullInv'_flush (C04run_inv cfg ops hv hs) fu
  unfold flush at h1
  cases hfd : flushDbs s fu with
  | none => rw [hfd] at h1; cases h1
  | some r => exact ⟨r.1, r.2, rfl⟩

/-- **C04 (every crash point of every flush of every valid run).**  `C04_crash` without the
hypothesis `FlushPre`: for the end state `s` of any valid run, either kind of flush and every cut of
its effect list, the restart finds the committed state from before the flush or the store of the
complete flush. -/
theorem C04run_crash (cfg : Cfg) (ops : List IOp2) (hv : ValidOps2 cfg {} ops) {s : Sys}
    (hs : runOps2 cfg {} ops = .ok s) {fu : Bool} {es : List Effect} {m' : Mem}
    (hf : flushDbs s fu = some (es, m')) {c : List Effect} (hc : c ∈ cuts es) :
    RecoversSame cfg s.p (applyEffects s.p c) ∨ applyEffects s.p c = applyEffects s.p es :=
  C04_crash cfg (C04run_flushPre cfg ops hv hs) hf hc

/-- running totals are non-decreasing -/
theorem cumFrom_pairwise (acc : Nat) (l : List Block) :
    (cumFrom acc l).Pairwise (· ≤ ·) ∧ ∀ c ∈ cumFrom acc l, acc ≤ c := by
  induction l generalizing acc with
  | nil => simp [cumFrom]
  | cons b r ih =>
    obtain ⟨h1, h2⟩ := ih (acc + b.txs.length)
    refine ⟨?_, ?_⟩
    · simp only [cumFrom, List.pairwise_cons]
      exact ⟨fun c hc => h2 c hc, h1⟩
    · intro c hc
      simp only [cumFrom, List.mem_cons] at hc
      rcases hc with rfl | hc
      · omega
      · have := h2 c hc; omega

/-- `hmono` of `C04_crash_observables` holds in every invariant state -/
theorem txCounts_mono_of_fullInv' {cfg : Cfg} {chain : List Block} {K : List Nat} {s : Sys}
    (inv : FullInv' cfg chain K s) : s.m.txCounts.Pairwise (· ≤ ·) := by
  rw [inv.base.files.txCounts]
  exact (cumFrom_pairwise 0 chain).1

/-- **C04 ("on restart the database opens … clean index of the chain to that height"), over whole
runs.**  Let `s` be the end state of any valid run with surviving chain `chain`, `es` the effects of a
flush (either kind) issued there and `c` ANY cut of it.  Then the restart on the cut store SUCCEEDS
(`_open_dbs` returns; none of `_read_tx_counts`' assertions fails), and

* (cut without the UTXO batch) the restart on the store the flush started from succeeds too, giving a
  fully flushed state `r0` that satisfies the whole-run invariant for `chain` cut to the committed
  height `s.m.dbst.height` — so `observables_of_fullInv'` says its observables are the
  specification's of that chain — and every read-path answer after the crash (`ObsEq`: state,
  `fs_tx_hash`, `all_utxos`, `limited_history`, `lookup_utxos`, `fs_tx_hashes_at_blockheight`,
  `read_headers`) equals that of `r0`; or
* (cut with the UTXO batch) the restarted state itself is a fully flushed state satisfying the
  invariant for `chain` cut to the height the complete flush commits (`m'.dbst.height`: the tip for a
  full flush). -/
theorem C04run_restart (cfg : Cfg) (ops : List IOp2) (hv : ValidOps2 cfg {} ops) {s : Sys}
    (hs : runOps2 cfg {} ops = .ok s) {fu : Bool} {es : List Effect} {m' : Mem}
    (hf : flushDbs s fu = some (es, m')) {c : List Effect} (hc : c ∈ cuts es) :
    ∃ e r, recover cfg (applyEffects s.p c) = some (e, r) ∧
      ((∃ e0 r0 K0, recover cfg s.p = some (e0, r0) ∧
          FullInv' cfg ((chainOf2 [] 0 ops).take (s.m.dbst.height + 1).toNat) K0 r0 ∧
          r0.m.dbst.height = r0.m.st.height ∧ r0.m.dbst.height = s.m.dbst.height ∧ ObsEq r0 r) ∨
       (∃ K1, FullInv' cfg ((chainOf2 [] 0 ops).take (m'.dbst.height + 1).toNat) K1 r ∧
          r.m.dbst.height = r.m.st.height ∧ r.m.dbst.height = m'.dbst.height)) := by
  have inv := C04run_inv cfg ops hv hs
  rcases C04run_crash cfg ops hv hs hf hc with h | h
  · obtain ⟨e0, r0, h0, inv0, hfl0, hdb0⟩ := fullInv'_reopen inv
    obtain ⟨e, r, hr, hobs⟩ := obsEq_of_recoversSame h h0 (txCounts_mono_of_fullInv' inv0)
    exact ⟨e, r, hr, Or.inl ⟨e0, r0, _, h0, inv0, hfl0, hdb0, hobs⟩⟩
  · obtain ⟨s1, h1, inv1, -⟩ := fullInv'_flush inv fu
    have hs1 : s1 = { m := m', p := applyEffects s.p es } := by
      unfold flush at h1
      rw [hf] at h1
      cases h1
      rfl
    subst hs1
    obtain ⟨e1, r1, hr1, invr, hflr, hdbr⟩ := fullInv'_reopen inv1
    refine ⟨e1, r1, ?_, Or.inr ⟨_, invr, hflr, hdbr⟩⟩
    rw [h]
    exact hr1

/-- **C04 (observables) over whole runs**: `C04_crash_observables` with `FlushPre`, `h0`, `h1` and
`hmono` all discharged — for the end state of any valid run both endpoint restarts succeed, and for
every cut the restart succeeds with every read-path answer equal to that of one of the two. -/
theorem C04run_crash_observables (cfg : Cfg) (ops : List IOp2) (hv : ValidOps2 cfg {} ops) {s : Sys}
    (hs : runOps2 cfg {} ops = .ok s) {fu : Bool} {es : List Effect} {m' : Mem}
    (hf : flushDbs s fu = some (es, m')) :
    ∃ e0 r0 e1 r1, recover cfg s.p = some (e0, r0) ∧
      recover cfg (applyEffects s.p es) = some (e1, r1) ∧
      ∀ c ∈ cuts es, ∃ e r, recover cfg (applyEffects s.p c) = some (e, r) ∧ (ObsEq r0 r ∨ r = r1) := by
  have inv := C04run_inv cfg ops hv hs
  obtain ⟨e0, r0, h0, inv0, -, -⟩ := fullInv'_reopen inv
  obtain ⟨e1, r1, h1, -⟩ := C04run_restart cfg ops hv hs hf (self_mem_cuts es)
  exact ⟨e0, r0, e1, r1, h0, h1, fun c hc =>
    C04_crash_observables cfg (C04run_flushPre cfg ops hv hs) hf hc h0 h1
      (txCounts_mono_of_fullInv' inv0)⟩

/-! ### non-vacuity (the example the header of `C04.lean` announces)

The run `rxOps.take 3 = [adv rxB0, flush true, adv rxB1]` of `C03run.lean` ends with one block
committed and one in memory.  Its full flush has six effects and ten cuts; the theorems above apply to
all of them. -/

def c04Ops : List IOp2 := [.adv rxB0 0, .flush true, .adv rxB1 1]

def c04S : Sys := okSysD (runOps2 rxCfg {} c04Ops)

theorem c04S_run : runOps2 rxCfg {} c04Ops = .ok c04S := by
  obtain ⟨s, h, -⟩ := C03run_refinement rxCfg c04Ops (by decide)
  rw [c04S, h]; rfl

/-- the hypotheses of `C04run_restart` / `C04run_crash_observables` hold of a run whose end state has
    unflushed work; the flush has cuts of every kind (before / inside the file writes, between the
    history batch and the UTXO batch, after it) -/
example : ValidOps2 rxCfg {} c04Ops ∧ runOps2 rxCfg {} c04Ops = .ok c04S ∧
    c04S.m.dbst.height = 0 ∧ c04S.m.st.height = 1 ∧
    (flushDbs c04S true).map (fun r => (r.1.length, (cuts r.1).length,
      ((cuts r.1).filter (fun c => c.any (·.isHistBatch) && !c.any (·.isUtxoBatch))).length,
      ((cuts r.1).filter (fun c => c.any (·.isUtxoBatch))).length)) = some (6, 10, 1, 2) := by
  refine ⟨by decide, c04S_run, by decide, by decide, by decide⟩

/-- …and the instantiation of `C04_crash_observables` itself: `FlushPre`, `h0`, `h1`, `hmono` are all
    satisfiable together (they hold of this state) -/
example : ∃ es m' e0 r0 e1 r1, flushDbs c04S true = some (es, m') ∧ FlushPre c04S ∧
    recover rxCfg c04S.p = some (e0, r0) ∧ recover rxCfg (applyEffects c04S.p es) = some (e1, r1) ∧
    r0.m.txCounts.Pairwise (· ≤ ·) ∧ r0.m.dbst.height = 0 := by
  have hv : ValidOps2 rxCfg {} c04Ops := by decide
  obtain ⟨es, m', hf⟩ := C04run_flush_defined rxCfg c04Ops hv c04S_run true
  have inv := C04run_inv rxCfg c04Ops hv c04S_run
  obtain ⟨e0, r0, h0, inv0, -, hdb0⟩ := fullInv'_reopen inv
  obtain ⟨e1, r1, h1, hr⟩ := C04run_restart rxCfg c04Ops hv c04S_run hf (self_mem_cuts es)
  refine ⟨es, m', e0, r0, e1, r1, hf, C04run_flushPre rxCfg c04Ops hv c04S_run, h0, h1,
    txCounts_mono_of_fullInv' inv0, by rw [hdb0]; decide⟩

end EV.Index

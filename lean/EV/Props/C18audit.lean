import EV.Props.C18

/-!
# C18 — the lockstep hazard of a SHARED `url_index` (audit §C18; OUTSIDE C18's quantifier)

Every theorem of `C18.lean` is about ONE `_send` call in isolation: `sendLoop` threads `url_index`
through the iterations of that call only.  In the code `self.url_index` is an attribute of the one
`Daemon` object, shared by all concurrent `_send` calls (block prefetcher, mempool refresh, height
polling, session requests).  The closed form "ends at URL `(u + faults / period) % n`" of
`C18_failover` is therefore a statement about a single call; under concurrency it is false.

This file records the simplest bad schedule on a small model of TWO concurrent calls.  The per-call
iteration reuses the step functions of `EV/Model/Daemon.lean` literally (`logError`, `nextRetry` —
exactly the expressions `sendLoop` applies on a transient fault; `solo_matches_send` ties an isolated
call of this model to `send`).  Lockstep schedule (`round`): both calls were started together, so
they sleep the same `retry`, wake in the same event-loop iteration, start their attempts at the same
`url_index` (`current_url()` is read when the attempt starts), both attempts fail, and the two
`log_error` calls run one after the other.  With two URLs, URL 0 down and URL 1 up, both calls reach
`retry == max_retry` in the same round, so `failover()` runs TWICE in that round: `0 → 1 → 0`, both
`retry` are reset to 0, and the next round starts at URL 0 again.  URL 1 — which is up — is never
contacted, although a single call in the same environment reaches it after `period` attempts.

The audit observed this on the real class (2 URLs: k = 2 and k = 4 concurrent calls never contact
the second URL; k = 1 and k = 3 do).  Not a C18 violation as C18 is stated (single calls); recorded
in `harness/props/C18.py` as an acknowledged gap.
-/
namespace EV.Daemon

namespace Lockstep

/-- the per-call part of the state of one `_send` call: its local `retry`, the URLs it has contacted,
    whether it has returned -/
structure Call where
  retry : Nat
  contacted : List Nat := []
  done : Bool := false
deriving Repr, DecidableEq

/-- the part of one loop iteration after a FAILED attempt of call `k`, against the shared index `u`:
    `log_error` (possibly `failover`), `sleep`, `retry = max(min(max_retry, retry*2), init_retry)` —
    the same expressions as the transient branch of `sendLoop` -/
def fail (c : Cfg) (u : Nat) (k : Call) : Nat × Call :=
  ((logError c u k.retry).1, { k with retry := nextRetry c (logError c u k.retry).2 })

/-- an attempt of call `k` started at URL `u0` completes while the shared index is `u`: it returns if
    URL `u0` is up, otherwise it is a transient fault -/
def finish (c : Cfg) (up : Nat → Bool) (u0 u : Nat) (k : Call) : Nat × Call :=
  if k.done then (u, k)
  else if up u0 then (u, { k with contacted := k.contacted ++ [u0], done := true })
  else fail c u { k with contacted := k.contacted ++ [u0] }

/-- one lockstep round of two calls: both attempts start at the current index `u`; then call `a`'s
    attempt completes and is handled, then call `b`'s -/
def round (c : Cfg) (up : Nat → Bool) (s : Nat × Call × Call) : Nat × Call × Call :=
  let ra := finish c up s.1 s.1 s.2.1
  let rb := finish c up s.1 ra.1 s.2.2
  (rb.1, ra.2, rb.2)

def rounds (c : Cfg) (up : Nat → Bool) : Nat → Nat × Call × Call → Nat × Call × Call
  | 0, s => s
  | n + 1, s => rounds c up n (round c up s)

/-- a single call iterated alone (for comparison) -/
def soloRounds (c : Cfg) (up : Nat → Bool) : Nat → Nat × Call → Nat × Call
  | 0, s => s
  | n + 1, s => soloRounds c up n (finish c up s.1 s.1 s.2)

/-- URL 0 is down, URL 1 is up -/
def up01 (u : Nat) : Bool := u == 1

/-- the invariant of the lockstep run, on the components of the state after one round -/
theorem round_facts (c : Cfg) (hn : c.nUrls = 2) (a b : Call)
    (hr : a.retry = b.retry) (ha : a.done = false) (hb : b.done = false) :
    (round c up01 (0, a, b)).1 = 0 ∧
    (round c up01 (0, a, b)).2.1.retry = (round c up01 (0, a, b)).2.2.retry ∧
    (round c up01 (0, a, b)).2.1.done = false ∧ (round c up01 (0, a, b)).2.2.done = false ∧
    (round c up01 (0, a, b)).2.1.contacted = a.contacted ++ [0] ∧
    (round c up01 (0, a, b)).2.2.contacted = b.contacted ++ [0] := by
  by_cases hm : a.retry = c.maxRetry
  · have hm' : b.retry = c.maxRetry := hr ▸ hm
    simp [round, finish, fail, ha, hb, up01, logError, failover, hn, hm, hm']
  · have hm' : ¬ b.retry = c.maxRetry := hr ▸ hm
    simp [round, finish, fail, ha, hb, up01, logError, hm', hr]

theorem round_inv (c : Cfg) (hn : c.nUrls = 2) (a b : Call)
    (hr : a.retry = b.retry) (ha : a.done = false) (hb : b.done = false) :
    ∃ a' b', round c up01 (0, a, b) = (0, a', b') ∧ a'.retry = b'.retry ∧
      a'.done = false ∧ b'.done = false ∧
      a'.contacted = a.contacted ++ [0] ∧ b'.contacted = b.contacted ++ [0] := by
  obtain ⟨h1, h2, h3, h4, h5, h6⟩ := round_facts c hn a b hr ha hb
  refine ⟨(round c up01 (0, a, b)).2.1, (round c up01 (0, a, b)).2.2, ?_, h2, h3, h4, h5, h6⟩
  exact Prod.ext h1 rfl

end Lockstep

open Lockstep in
/-- **C18 — lockstep hazard (counterexample to "fail-over reaches the working URL" for CONCURRENT
calls; outside C18's quantifier, which is single calls).**  Two URLs, URL 0 down, URL 1 up, any
`init_retry` / `max_retry`, two calls started together at `url_index = 0` and scheduled in lockstep.
After ANY number `n` of rounds the shared index is 0 again, neither call has returned, and all `2n`
attempts went to URL 0: URL 1 is never contacted. -/
theorem C18_lockstep_counterexample (c : Cfg) (hn : c.nUrls = 2) (n : Nat) :
    ∃ a b, rounds c up01 n (0, { retry := c.initRetry }, { retry := c.initRetry }) = (0, a, b) ∧
      a.done = false ∧ b.done = false ∧
      a.contacted = List.replicate n 0 ∧ b.contacted = List.replicate n 0 := by
  suffices h : ∀ n (a b : Call), a.retry = b.retry → a.done = false → b.done = false →
      ∃ a' b', rounds c up01 n (0, a, b) = (0, a', b') ∧ a'.done = false ∧ b'.done = false ∧
        a'.contacted = a.contacted ++ List.replicate n 0 ∧
        b'.contacted = b.contacted ++ List.replicate n 0 by
    obtain ⟨a, b, h1, h2, h3, h4, h5⟩ := h n { retry := c.initRetry } { retry := c.initRetry } rfl rfl rfl
    exact ⟨a, b, h1, h2, h3, by simpa using h4, by simpa using h5⟩
  intro n
  induction n with
  | zero => intro a b _ ha hb; exact ⟨a, b, rfl, ha, hb, by simp, by simp⟩
  | succ n ih =>
    intro a b hr ha hb
    obtain ⟨a1, b1, h1, hr1, ha1, hb1, hca, hcb⟩ := round_inv c hn a b hr ha hb
    obtain ⟨a2, b2, h2, ha2, hb2, hca2, hcb2⟩ := ih a1 b1 hr1 ha1 hb1
    refine ⟨a2, b2, ?_, ha2, hb2, ?_, ?_⟩
    · simp only [rounds, h1]; exact h2
    · rw [hca2, hca, List.append_assoc]; rfl
    · rw [hcb2, hcb, List.append_assoc]; rfl

open Lockstep in
/-- the run is not trivial, and the hazard is one of CONCURRENCY: with the default configuration
(`init_retry` 1, `max_retry` 16 units, two URLs) the two `failover()` calls do happen (round 5: both
`retry` are 16 = `max_retry`; after it both are back at `init_retry`), whereas a SINGLE call in the same
environment contacts URL 1 at its 6th attempt and returns -/
example :
    let c : Cfg := { nUrls := 2, initRetry := Gen.daemonInitRetry, maxRetry := Gen.daemonMaxRetry }
    let s0 : Nat × Call × Call := (0, { retry := c.initRetry }, { retry := c.initRetry })
    ((rounds c up01 4 s0).2.1.retry, (rounds c up01 5 s0).2.1.retry, (rounds c up01 5 s0).1) = (16, 1, 0) ∧
    -- inside round 5 the index is 1 between the two `log_error` calls
    (finish c up01 0 0 (rounds c up01 4 s0).2.1).1 = 1 ∧
    -- a single call: URL 1 contacted at the 6th attempt, call returned
    soloRounds c up01 6 (0, { retry := c.initRetry }) =
      (1, { retry := 1, contacted := [0, 0, 0, 0, 0, 1], done := true }) := by
  decide

open Lockstep in
/-- tie of the small model to `send`: an isolated call of this model that meets only faults goes
    through the same `url_index` values and contacts the same URLs as `send` on `n` transient faults -/
theorem solo_matches_send {α ε σ ι : Type} (c : Cfg) (cls : ι → Outcome α ε) (eff : σ → ι → σ)
    (x : ι) (k : Transient) (hx : cls x = .transient k) (n : Nat) (u r : Nat) (g : Option GoodMsg)
    (s : σ) (pre : List Nat) :
    (soloRounds c (fun _ => false) n (u, { retry := r, contacted := pre })).1 =
      (sendLoop c cls eff u r g s (List.replicate n x)).urlIndex ∧
    (soloRounds c (fun _ => false) n (u, { retry := r, contacted := pre })).2.contacted =
      pre ++ (sendLoop c cls eff u r g s (List.replicate n x)).contacted := by
  induction n generalizing u r g s pre with
  | zero => simp [soloRounds, sendLoop]
  | succ n ih =>
    have := ih (logError c u r).1 (nextRetry c (logError c u r).2) (goodAfter k g) (eff s x) (pre ++ [u])
    simp only [soloRounds, finish, fail, List.replicate_succ, sendLoop, hx, consStep] at this ⊢
    simpa using this

end EV.Daemon

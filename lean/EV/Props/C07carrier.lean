import EV.Proofs.CarrierLoop
import EV.Props.C03run

/-!
# C07 / C10, the block side of "every change is carried"

C07 ("subscribers converge on the true status and tip") and C10 ("answers served to clients are
never stale once quiescent") are proved over the coherence model `EV/Model/System.lean`, in which a
`change x` event bumps the true version of script hash `x` AND puts `x` into the `carrier` (the
touched sets travelling `BlockProcessor.touched` → `Notifications.on_block` →
`SessionManager._notify_sessions`).  That *every change is carried* was an assumption there.  This
file proves its block side:

  "Whenever the block processor tells the notification layer a height, the touched set it hands
  over contains every script hash whose confirmed history or set of unspent outputs differs from
  what it was when the block processor last handed a set over — or, the first time, from what it
  was when the server finished catching up (no session exists before that).  This holds for every
  batching of the blocks, every placement of cache flushes, and any reorganisations in between."

Three levels:

  * specification (`C07carrier_block`, `C07carrier_backout`): on ANY chain and block, the
    client-visible confirmed state `confState` of a script hash (history as tx numbers, history as
    `(tx hash, height)` pairs, unspent outputs — the three things `C01_observables` shows the read
    path to answer) differs between `chain` and `chain ++ [b]` only if the script hash is in the
    block's touched list `touchedBy` (what `advanceTxs_spec` shows `advance_block` to collect);
  * model (`C07carrier_advance`, `C07carrier_backup`, `C07carrier_flush`): in invariant states
    `advance` appends exactly that list to `Mem.touched`, `backupFull` keeps what is there and adds
    every element of it, flushes leave the set alone;
  * loop (`C07carrier_loop`, `C07carrier_consecutive`, `C07carrier_first`, `C07carrier_reads`):
    `EV.SyncLoopT` = the task of `EV.SyncLoop` with the set emptied where the code empties it
    (`advance_blocks`: `if not self.caught_up: self.touched = set()`; `on_caught_up` after the
    hand-over), with `reorg_chain` (`flush(True)`, then back-outs, tip first) as an event, and with
    the iterations of `advance_blocks` whose block does not connect (only the forced flush happens).

How it composes.  (1) `C07carrier_reads`: what a client can read from the index at a told point is
`confState` of the chain `c` at that point, so "the true confirmed status changed between two told
points" = "`confState` differs between their chains".  (2) `C07carrier_consecutive` /
`C07carrier_first`: every such script hash is in the set handed to `Notifications.on_block` at the
later point — the block-side `handed` of `EV/Props/C20.lean`.  (3) `C20_no_loss`: everything handed
over is notified or still pending inside `Notifications`; `C20_complete` / `C20_complete_block`:
once both sources have reported at the current height, everything handed over has been passed to
`notify` = `SessionManager._notify_sessions`, i.e. has left the `carrier` through a `notify` event
of `EV/Model/System.lean`.  (4) In that model a `change x` event therefore never happens without `x`
entering the carrier, which is the modelling assumption under which `C07_converge` / `C10_fresh`
are proved.  The mempool side of the same assumption is `C08_touched` /
`C08_touched_handed_over` (every hashX of every tx that came or went is in the refresh's set).

Tie to the code: suite `sync` replays the event trace of the real `fetch_and_process_blocks` task —
block events, ends of `advance_blocks`, `on_caught_up` calls, `reorg_chain` calls with the blocks
actually backed out — on `EV.SyncLoopT` and compares, at every `Notifications.on_block` call, the
height and the touched set handed over (as sets) and the three heights after every event.
-/
namespace EV.SyncLoopT
open EV.Index EV.Spec EV.SyncLoop

/-! ## specification level -/

/-- **Every confirmed change made by a block is in the block's touched list** (any chain, any
block; no validity needed: the specification's touched list of a tx is the script hashes of what it
spends and creates). -/
theorem C07carrier_block (act : Nat) (chain : List Block) (b : Block) (hx : HashX)
    (h : confState act chain hx ≠ confState act (chain ++ [b]) hx) : hx ∈ touchedBy act chain b :=
  confState_change_advance act chain b hx h

/-- …and every confirmed change made by backing the last block out is in that block's list. -/
theorem C07carrier_backout (act : Nat) (chain : List Block) (b : Block) (hx : HashX)
    (h : confState act (chain ++ [b]) hx ≠ confState act chain hx) : hx ∈ touchedBy act chain b :=
  confState_change_backout act chain b hx h

/-- `confState` is what the specification-level observables of `C01_observables` are made of:
a limited history is a prefix of `history`, the UTXO rows are `utxos`. -/
theorem C07carrier_confState (act : Nat) (chain : List Block) (hx : HashX) :
    (confState act chain hx).txnums = historyOf (specChain act chain) hx ∧
    (∀ limit, historyPairs (specChain act chain) hx limit =
      match limit with
      | none => (confState act chain hx).history
      | some k => (confState act chain hx).history.take k) ∧
    (confState act chain hx).utxos = (specChain act chain).utxos.filter (·.hx == hx) := by
  refine ⟨rfl, ?_, rfl⟩
  intro limit
  cases limit with
  | none => rfl
  | some k => exact historyPairs_limit _ hx k

/-! ## model level -/

/-- **`advance_block` carries.**  In an invariant state of `chain`, `advance_block` of a valid next
block appends exactly the block's touched list; so afterwards `touched` contains what it contained
before and every script hash whose client-visible confirmed state the block changed. -/
theorem C07carrier_advance {cfg : Cfg} {daemonH : Int} {chain : List Block} {s s' : Sys} {b : Block}
    (inv : FullInv cfg chain s) (hv : ValidNext cfg chain b)
    (h : advance cfg daemonH s b = .ok s') :
    s'.m.touched = s.m.touched ++ touchedBy cfg.act chain b ∧
    (∀ hx ∈ s.m.touched, hx ∈ s'.m.touched) ∧
    (∀ hx, confState cfg.act chain hx ≠ confState cfg.act (chain ++ [b]) hx → hx ∈ s'.m.touched) :=
  ⟨advance_touched inv hv h, advance_carries inv hv h⟩

/-- **`backup_block` carries.**  In a fully flushed invariant state of `pre ++ [b]` whose tip
height is retained (the hypotheses of `C03run_backup`), a successful back-out of `b` leaves a
`touched` that contains what it contained before, every script hash of the block's touched list,
and so every script hash whose client-visible confirmed state the back-out changed. -/
theorem C07carrier_backup {cfg : Cfg} {pre : List Block} {b : Block} {K : List Nat} {s s' : Sys}
    {es : List Effect}
    (inv : FullInv' cfg (pre ++ [b]) K s) (hfl : s.m.dbst.height = s.m.st.height)
    (hpre : pre ≠ []) (hk : pre.length ∈ K) (h : backupFull cfg s b = .ok (es, s')) :
    (∀ hx ∈ s.m.touched, hx ∈ s'.m.touched) ∧
    (∀ hx ∈ touchedBy cfg.act pre b, hx ∈ s'.m.touched) ∧
    (∀ hx, confState cfg.act (pre ++ [b]) hx ≠ confState cfg.act pre hx → hx ∈ s'.m.touched) :=
  backup_carries inv hfl hpre hk h

/-- flushes of either kind leave `touched` alone -/
theorem C07carrier_flush {s s' : Sys} {fu : Bool} (h : flush s fu = .ok s') :
    s'.m.touched = s.m.touched :=
  flush_touched h

/-! ## loop level -/

/-- **Where the set is emptied** (the model's `step`, spelled out): a `batchEnd` empties it exactly
while the server has not caught up; the first `on_caught_up` hands nothing over and leaves it
alone; every later one hands over the whole set and empties it. -/
theorem C07carrier_resets (cfg : Cfg) (l l' : Loop) :
    (step cfg l .batchEnd = .ok (l', none) →
      l'.s.m.touched = (if l.caughtUp then l.s.m.touched else [])) ∧
    (∀ o, step cfg l .caughtUp = .ok (l', some o) →
      match o with
      | .first s => l.caughtUp = false ∧ l'.caughtUp = true ∧ l'.s = s
      | .told h T s => l.caughtUp = true ∧ T = s.m.touched ∧ h = s.m.st.height ∧
          l'.s.m.touched = []) := by
  constructor
  · intro h
    simp only [step, Except.ok.injEq, Prod.mk.injEq, and_true] at h
    subst h
    cases l.caughtUp <;> rfl
  · intro o h
    simp only [step, SyncLoop.step] at h
    split at h
    · simp at h
    · next l1 hs =>
      split at hs
      · simp at hs
      · next s1 hf =>
        split at hs
        · simp at hs
        · next hc =>
          have hc' : l.caughtUp = false := by simpa using hc
          simp only [Except.ok.injEq, Prod.mk.injEq] at hs
          obtain ⟨rfl, -⟩ := hs
          simp only [Except.ok.injEq, Prod.mk.injEq, Option.some.injEq] at h
          obtain ⟨rfl, rfl⟩ := h
          exact ⟨hc', rfl, rfl⟩
    · next l1 ht hs =>
      split at hs
      · simp at hs
      · next s1 hf =>
        split at hs
        · next hc =>
          simp only [Except.ok.injEq, Prod.mk.injEq, Option.some.injEq] at hs
          obtain ⟨rfl, rfl⟩ := hs
          simp only [Except.ok.injEq, Prod.mk.injEq, Option.some.injEq] at h
          obtain ⟨rfl, rfl⟩ := h
          exact ⟨hc, rfl, rfl, rfl⟩
        · simp at hs

/-- **C07 carrier (the loop theorem).**  For EVERY valid event list from the empty index — any
batching of the blocks, any history-only / full flushes requested between them, `on_caught_up`
calls anywhere, `reorg_chain` calls anywhere backing out any admissible number of blocks (each is
the tip at that moment, above height 0, with retained undo information: `ValidEvs`) — the task
never fails, and the emitted items (the first `on_caught_up`, then every
`Notifications.on_block(touched, height)`), paired with the surviving chains at their moments
(`chainsOf`, computed from the events alone), satisfy `Carried`:

  * at every item the index is a fully flushed invariant state of exactly that chain (up to
    `first_sync` flags) and a told height is the height of that chain (`OutOK`);
  * the first item is the first `on_caught_up`, all later ones are told points;
  * the touched set of every told point covers (`Cov`) every script hash whose client-visible
    confirmed state differs between the previous item's chain and this one's. -/
theorem C07carrier_loop (cfg : Cfg) (evs : List Ev) (hv : ValidEvs cfg {} evs) :
    ∃ (l : Loop) (ocs : List (Out × List Block)), run cfg {} evs = .ok (l, ocs.map (·.1)) ∧ ocs.map (·.2) = chainsOf cfg {} evs ∧
      Carried cfg false [] ocs := by
  obtain ⟨l, ocs, h1, h2, h3, -⟩ := run_inv evs (lInv_init cfg) hv
  exact ⟨l, ocs, h1, h2, h3⟩

/-- **Two consecutive items.**  Whenever an item emitted while the surviving chain was `c1` (the
first `on_caught_up` or a told point) is directly followed by a told point
`Notifications.on_block(T, ht)` emitted while the surviving chain was `c2`: every script hash whose
client-visible confirmed state differs between `c1` and `c2` is in `T`. -/
theorem C07carrier_consecutive (cfg : Cfg) (evs : List Ev) (hv : ValidEvs cfg {} evs) :
    ∃ (l : Loop) (ocs : List (Out × List Block)), run cfg {} evs = .ok (l, ocs.map (·.1)) ∧ ocs.map (·.2) = chainsOf cfg {} evs ∧
      ∀ (i : Nat) (o1 : Out) (c1 : List Block) (ht : Int) (T : List HashX) (s : Sys) (c2 : List Block),
        ocs[i]? = some (o1, c1) → ocs[i + 1]? = some (.told ht T s, c2) →
        ∀ hx, confState cfg.act c1 hx ≠ confState cfg.act c2 hx → hx ∈ T := by
  obtain ⟨l, ocs, h1, h2, h3⟩ := C07carrier_loop cfg evs hv
  exact ⟨l, ocs, h1, h2, fun i o1 c1 ht T s c2 e1 e2 =>
    carried_consecutive h3 i o1 c1 ht T s c2 e1 e2⟩

/-- **The first item is the catch-up, everything after it is told.**  So the first told point's
set is relative to the chain at the moment `caught_up` was set (by `C07carrier_consecutive` with
`i = 0`), and nothing is told before the server has caught up. -/
theorem C07carrier_first (cfg : Cfg) (evs : List Ev) (hv : ValidEvs cfg {} evs) :
    ∃ (l : Loop) (ocs : List (Out × List Block)), run cfg {} evs = .ok (l, ocs.map (·.1)) ∧
      (∀ o c, ocs[0]? = some (o, c) → ∃ s, o = .first s) ∧
      (∀ i o c, ocs[i + 1]? = some (o, c) → ∃ ht T s, o = .told ht T s) := by
  obtain ⟨l, ocs, h1, -, h3⟩ := C07carrier_loop cfg evs hv
  refine ⟨l, ocs, h1, ?_, ?_⟩
  · intro o c h0
    cases ocs with
    | nil => simp at h0
    | cons y r =>
      simp only [List.getElem?_cons_zero, Option.some.injEq] at h0
      subst h0
      cases o with
      | first s => exact ⟨s, rfl⟩
      | told ht T s => exact absurd h3.1 (by simp)
  · intro i o c hi
    cases ocs with
    | nil => simp at hi
    | cons y r =>
      obtain ⟨o0, c0⟩ := y
      have hrest : Carried cfg true c0 r := by
        cases o0 with
        | first s => exact h3.2.2
        | told _ _ _ => exact h3.2.2.2
      simp only [List.getElem?_cons_succ] at hi
      exact carried_true_told hrest (o, c) (List.mem_of_getElem? hi)

/-- the read path does not look at `first_sync` flags -/
theorem readPath_setFS (s : Sys) (f1 f2 f3 : Bool) :
    (∀ hx, allUtxos (setFS s f1 f2 f3) hx = allUtxos s hx) ∧
    (∀ hx limit, limitedHistory (setFS s f1 f2 f3) hx limit = limitedHistory s hx limit) :=
  ⟨fun _ => rfl, fun _ _ => rfl⟩

/-- **What clients read at the emitted items is `confState` of the paired chains.**  At every item
of a valid run (so from the moment sessions can exist, at every told point), `all_utxos` of every
script hash returns (up to order) the rows of `(confState … c hx).utxos`, `limited_history`
unlimited returns `(confState … c hx).history` and with a limit its prefix, and a told height is
the height of `c`. -/
theorem C07carrier_reads (cfg : Cfg) (evs : List Ev) (hv : ValidEvs cfg {} evs) :
    ∃ (l : Loop) (ocs : List (Out × List Block)), run cfg {} evs = .ok (l, ocs.map (·.1)) ∧ ocs.map (·.2) = chainsOf cfg {} evs ∧
      ∀ o c, (o, c) ∈ ocs →
        (∀ hx, ∃ rows, allUtxos o.sys hx = some rows ∧
          rows.Perm ((confState cfg.act c hx).utxos.map
            (fun u => ⟨u.txnum, u.idx, u.txid, u.height, u.value⟩))) ∧
        (∀ hx, limitedHistory o.sys hx none = some (confState cfg.act c hx).history) ∧
        (∀ hx k, limitedHistory o.sys hx (some k) = some ((confState cfg.act c hx).history.take k)) ∧
        (∀ ht T s, o = .told ht T s → ht = (c.length : Int) - 1) := by
  obtain ⟨l, ocs, h1, h2, h3⟩ := C07carrier_loop cfg evs hv
  refine ⟨l, ocs, h1, h2, ?_⟩
  have key : ∀ (cu : Bool) (ref : List Block) (l : List (Out × List Block)),
      Carried cfg cu ref l → ∀ o c, (o, c) ∈ l → OutOK cfg o c := by
    intro cu ref l
    induction l generalizing cu ref with
    | nil => intro _ o c hm; simp at hm
    | cons y r ih =>
      intro h o c hm
      obtain ⟨o0, c0⟩ := y
      cases o0 with
      | first s =>
        rcases List.mem_cons.mp hm with heq | hm
        · simp only [Prod.mk.injEq] at heq; obtain ⟨rfl, rfl⟩ := heq; exact h.2.1
        · exact ih true c0 h.2.2 o c hm
      | told ht T s =>
        rcases List.mem_cons.mp hm with heq | hm
        · simp only [Prod.mk.injEq] at heq; obtain ⟨rfl, rfl⟩ := heq; exact h.2.1
        · exact ih true c0 h.2.2.2 o c hm
  intro o c hm
  obtain ⟨⟨s0, f1, f2, f3, hs, inv, hfl⟩, hht⟩ := key false [] ocs h3 o c hm
  obtain ⟨hu, hh, -, -⟩ := C01_observables inv hfl
  obtain ⟨ru, rh⟩ := readPath_setFS s0 f1 f2 f3
  refine ⟨?_, ?_, ?_, ?_⟩
  · intro hx; rw [hs, ru]; exact hu hx
  · intro hx; rw [hs, rh]; exact hh hx none
  · intro hx k; rw [hs, rh, hh hx (some k)]; exact congrArg some (historyPairs_limit _ hx k)
  · intro ht T s ho
    subst ho
    exact hht

/-- **Forward runs** (no `reorg` event): the chains of the emitted items are prefixes of one
another in order of emission — told heights `h1 ≤ h2` with chains `c1 <+: c2`. -/
theorem C07carrier_forward (cfg : Cfg) (evs : List Ev) (hf : Forward evs) :
    (chainsOf cfg {} evs).Pairwise (· <+: ·) :=
  chainsOf_forward_chain cfg evs {} hf

/-! ## non-vacuity

The blocks of `EV/Props/C03run.lean` (reorg limit 2): `rxB0` creates outputs for script hashes 1
and 4; `rxB1` spends the first for script hash 2; the fork block `rxB1'` (same parent) spends the
second for script hash 3; `rxB2` on top of it spends that and the first output of `rxB0` for script
hash 1.

Initial sync of `rxB0` (the set is emptied at the end of the batch), first `on_caught_up`, `rxB1`
with a history-only flush (the set is kept: caught up), told at height 1, a block that does not
connect (with a full flush requested), a reorganisation backing `rxB1` out, the two blocks of the
other branch, told at height 2. -/

def cxEvs : List Ev :=
  [.block rxB0 0 none, .batchEnd, .caughtUp,
   .block rxB1 1 (some false), .batchEnd, .caughtUp,
   .stale (some true), .batchEnd, .reorg [rxB1], .block rxB1' 1 none, .block rxB2 2 none, .batchEnd, .caughtUp]

/-- the hypothesis of the loop theorems holds of a run with a reorganisation -/
example : ValidEvs rxCfg {} cxEvs := by decide

example : chainsOf rxCfg {} cxEvs = [[rxB0], [rxB0, rxB1], [rxB0, rxB1', rxB2]] := by decide

def outView : Out → Option (Int × List HashX)
  | .first _ => none
  | .told h T _ => some (h, T)

/-- what the run emits: the first catch-up, then height 1 with the script hashes of `rxB1`, then
    height 2 with those of the back-out of `rxB1` and of the two new blocks -/
example : (match run rxCfg {} cxEvs with
           | .ok (_, outs) => outs.map outView
           | .error _ => []) = [none, some (1, [1, 2]), some (2, [2, 1, 4, 3, 3, 1, 1])] := by
  decide

/-- the premise of `C07carrier_consecutive` is inhabited non-trivially: script hash 2 has a
    history entry and an unspent output on `[rxB0, rxB1]` and neither on `[rxB0, rxB1', rxB2]`
    (it is reported: by the back-out); script hash 4's output is spent by the new branch -/
example : confState rxCfg.act [rxB0, rxB1] 2 ≠ confState rxCfg.act [rxB0, rxB1', rxB2] 2 ∧
    confState rxCfg.act [rxB0, rxB1] 4 ≠ confState rxCfg.act [rxB0, rxB1', rxB2] 4 ∧
    confState rxCfg.act [rxB0, rxB1] 7 = confState rxCfg.act [rxB0, rxB1', rxB2] 7 := by decide

/-- …and relative to the catch-up chain for the first told point -/
example : confState rxCfg.act [rxB0] 1 ≠ confState rxCfg.act [rxB0, rxB1] 1 ∧
    touchedBy rxCfg.act [rxB0] rxB1 = [1, 2] := by decide

/-- a sibling of `rxB1` that spends the same output with another transaction -/
def cxB1s : Block := ⟨9, 7, 102, 82, [⟨15, [⟨11, 0⟩], [⟨50, 5, .normal⟩]⟩]⟩

/-- a history that is unchanged as tx numbers but changed as (hash, height) pairs — tx number 1 is
    `rxB1`'s transaction on one branch and `cxB1s`'s on the other — is a change too: `confState`
    compares both (and the script hash is in the touched lists of both blocks) -/
example : (confState rxCfg.act [rxB0, rxB1] 1).txnums = (confState rxCfg.act [rxB0, cxB1s] 1).txnums ∧
    (confState rxCfg.act [rxB0, rxB1] 1).history ≠ (confState rxCfg.act [rxB0, cxB1s] 1).history ∧
    1 ∈ touchedBy rxCfg.act [rxB0] rxB1 ∧ 1 ∈ touchedBy rxCfg.act [rxB0] cxB1s := by
  decide

/-- the hypotheses of `C07carrier_backup` are satisfiable (`C03run.lean`), and so are those of
    `C07carrier_advance`: the run theorems produce such states -/
example : ∃ s, FullInv rxCfg [rxB0] s ∧ ValidNext rxCfg [rxB0] rxB1 := by
  obtain ⟨s, -, ti⟩ := trackInv_run [.adv rxB0 0] (trackInv_init rxCfg) (by decide)
  exact ⟨s, ti.inv.base, by decide⟩

/-- a forward run is `Forward`; the run above is not -/
example : Forward (cxEvs.take 6) ∧ ¬ Forward cxEvs := by decide

/-- while the server has not caught up the set is dropped at the end of every batch and nothing
    is told: after `rxB0`, the end of its batch and `rxB1`, the set holds `rxB1`'s script hashes
    only (script hash 4 of `rxB0` is gone) -/
example : (match run rxCfg {} [.block rxB0 0 none, .batchEnd, .block rxB1 1 none] with
           | .ok (l, outs) => (outs.length, l.s.m.touched)
           | .error _ => (7, [])) = (0, [1, 2]) := by decide

end EV.SyncLoopT

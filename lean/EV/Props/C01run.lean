import EV.Proofs.IndexRun

/-!
# C01 / C02 over whole runs — every flush schedule

Composition of the layers of C01 (`advanceTxs_spec`, `sysIface`, `flushUtxo_rep`,
`allUtxos_flushed`) and C02 (`histInv_advance`, `histInv_flush`, `getTxnums_flushed`) with the
file / tx-number layer (`FilesInv`, `resolve_of_files`) into one refinement theorem about the
concrete model `EV/Model/Index.lean`:

  for EVERY sequence of `advance_block`s of valid next blocks and flushes (history-only or full,
  placed anywhere) starting from the empty index, the run cannot fail, every intermediate state
  satisfies `FullInv` (UTXO representation, history, tx-number tables and meta files, tip, counters
  all tied to `specChain` of the blocks advanced so far), and after a full flush `all_utxos`,
  `limited_history` (any limit) and the counters are exactly the specification's.

This discharges the hypotheses that `C01_flush` / `C01_all_utxos` / `C02_history` leave open
(`hres`: tx numbers resolve; `TxnumFun`; `hlen`; the `(fsTxHash s n).2` height) for every reachable
state.  Tie to the code: suite `index` (unchanged; the model is unchanged).
-/
namespace EV.Index
open EV.Spec

/-- **Whole-run refinement (C01 ∧ C02 invariant).**  `ValidOps cfg [] ops`: every advanced block
links to the tip of the blocks advanced before it and its transactions are valid on the
specification state (`ValidTxs`: inputs name outputs unspent at that point, txids are new). -/
theorem C01run_refinement (cfg : Cfg) (ops : List IOp) (hv : ValidOps cfg [] ops) :
    ∃ s, runOps cfg {} ops = .ok s ∧ FullInv cfg (chainOf ops) s :=
  C01_run cfg ops hv

/-- **One step each** (the induction steps of the run theorem, usable from any invariant state,
e.g. after a re-open): `advance_block` on a valid next block and every flush succeed and keep the
invariant. -/
theorem C01run_steps {cfg : Cfg} {chain : List Block} {s : Sys} (inv : FullInv cfg chain s) :
    (∀ b daemonH, ValidNext cfg chain b →
        ∃ s', advance cfg daemonH s b = .ok s' ∧ FullInv cfg (chain ++ [b]) s') ∧
    (∀ fu, ∃ s', flush s fu = .ok s' ∧ FullInv cfg chain s') :=
  ⟨fun _ _ hv => fullInv_advance inv hv, fun fu => fullInv_flush inv fu⟩

/-- **What a flushed index answers** in an invariant state. -/
theorem C01run_observables {cfg : Cfg} {chain : List Block} {s : Sys} (inv : FullInv cfg chain s)
    (hf : s.m.cache = [] ∧ s.m.deletes = [] ∧ s.m.unflushed = [] ∧
          s.m.dbst.height = s.m.st.height ∧ s.m.fsHeight = s.m.st.height) :
    (∀ hx, ∃ rows, allUtxos s hx = some rows ∧
        rows.Perm (((specChain cfg.act chain).utxos.filter (·.hx == hx)).map
          (fun u => ⟨u.txnum, u.idx, u.txid, u.height, u.value⟩))) ∧
    (∀ hx limit, limitedHistory s hx limit =
        some (historyPairs (specChain cfg.act chain) hx limit)) ∧
    s.m.st.utxoCount = ((specChain cfg.act chain).utxos.length : Int) ∧
    s.m.st.txCount = (specChain cfg.act chain).txs.length :=
  C01_observables inv hf

/-- **End to end**: any valid run followed by a full flush answers as the specification. -/
theorem C01run_end_to_end (cfg : Cfg) (ops : List IOp) (hv : ValidOps cfg [] ops) :
    ∃ s, runOps cfg {} (ops ++ [.flush true]) = .ok s ∧
      (∀ hx, ∃ rows, allUtxos s hx = some rows ∧
        rows.Perm (((specChain cfg.act (chainOf ops)).utxos.filter (·.hx == hx)).map
          (fun u => ⟨u.txnum, u.idx, u.txid, u.height, u.value⟩))) ∧
      (∀ hx limit, limitedHistory s hx limit =
        some (historyPairs (specChain cfg.act (chainOf ops)) hx limit)) ∧
      s.m.st.utxoCount = ((specChain cfg.act (chainOf ops)).utxos.length : Int) ∧
      s.m.st.txCount = (specChain cfg.act (chainOf ops)).txs.length :=
  C01_run_observables cfg ops hv

/-- the file layer: committed tx numbers resolve to the chain's tx hashes, and only those -/
theorem C01run_resolve {chain : List Block} {s : Sys} (f : FilesInv chain s) (n : Nat) :
    (n < (allTxids (chain.take (s.m.dbst.height + 1).toNat)).length →
      resolve s n = some ((allTxids chain).getD n 0)) ∧
    (∀ x, resolve s n = some x →
      n < (allTxids (chain.take (s.m.dbst.height + 1).toNat)).length) :=
  ⟨fun h => resolve_of_files f h, fun _ h => resolve_some_lt f h⟩

/-- the other file readers, in every invariant state (flushed or not): `read_headers` returns the
chain's headers cut at the last UTXO flush height; `fs_tx_hashes_at_blockheight(h)` returns the tx
hashes of block `h` for every height up to the last UTXO flush -/
theorem C01run_file_readers {chain : List Block} {s : Sys} (f : FilesInv chain s) :
    (∀ start count, readHeaders s start count =
      ((chain.map (·.header)).drop start).take
        (min (count : Int) (s.m.dbst.height + 1 - start)).toNat) ∧
    (∀ (h : Nat) (b : Block), chain[h]? = some b → (h : Int) ≤ s.m.dbst.height →
      txHashesAt s h = some (b.txs.map (·.id))) :=
  ⟨fun start count => readHeaders_of_files f start count,
   fun _ _ hb hh => txHashesAt_of_files f hb hh⟩

/-! ### non-vacuity

Two linked blocks — a generation-like tx creating an output, then a tx spending it (from the
flushed rows: a history-only flush and a full flush lie in between) and paying two script hashes —
form a valid run with all three kinds of operation. -/

def exCfg : Cfg := { act := 1, reorgLimit := 2 }
def exB0 : Block := ⟨7, 0, 100, 80, [⟨11, [⟨0, 4294967295⟩], [⟨50, 1, .normal⟩]⟩]⟩
def exB1 : Block := ⟨8, 7, 101, 80, [⟨12, [⟨11, 0⟩], [⟨20, 2, .normal⟩, ⟨30, 1, .normal⟩]⟩]⟩
def exOps : List IOp :=
  [.adv exB0 0, .flush false, .flush true, .adv exB1 1, .flush false]

example : ValidOps exCfg [] exOps := by
  have hS : specChain exCfg.act [exB0] = ⟨[⟨11, 0, 0, 0, 50, 1⟩], [[1]], [(11, 0)]⟩ := by decide
  refine ⟨⟨rfl, ?_, ?_, trivial⟩, ⟨rfl, ?_, ?_, trivial⟩, trivial⟩
  · simp [InputsOK, TxIn.isGen]
  · intro u hu; simp [specChain, specFrom] at hu
  · show InputsOK (specChain exCfg.act [exB0]).utxos [⟨11, 0⟩]
    rw [hS]
    simp [InputsOK, TxIn.isGen, opOf]
  · intro u hu
    change u ∈ (specChain exCfg.act [exB0]).utxos at hu
    rw [hS] at hu
    simp at hu
    subst hu
    decide

example : chainOf exOps = [exB0, exB1] := rfl

example : (specChain exCfg.act (chainOf exOps)).utxos =
    [⟨12, 0, 1, 1, 20, 2⟩, ⟨12, 1, 1, 1, 30, 1⟩] := by decide

example : historyOf (specChain exCfg.act (chainOf exOps)) 1 = [0, 1] := by decide

end EV.Index

import EV.Proofs.ShutdownTaskStop
import EV.Props.C03run

/-!
# C06 at task level — the end state of a shutdown requested at any moment

"When shutdown is requested at any point of indexing (while fetching, mid-block, mid-flush,
mid-reorg, while idle), the server stops without corrupting its database: reopening it yields an
index equal to a clean index of the chain up to the stored height, and every block whose processing
had completed before the stop is included in that height."

`EV.ShutdownTask` (`EV/Model/ShutdownTask.lean`) models `fetch_and_process_blocks` as a transition
system over the index model: the outer task's control points, the shielded inner task of every
`run_with_lock` section, `state_lock`, the worker job (atomic at its end), `ok`,
`force_flush_arg`, `caught_up`, `reorg_count`, and ONE `cancel` event enabled in every state in
which the task has not ended (also between a job's end and the delivery of its result, whilst the
inner task still waits for the lock, and whilst the outer task's wake-up is already scheduled).
All theorems quantify over EVERY event sequence the model accepts from the initial state
(`run cfg {} evs = some st`): any chain, any batching, any number of blocks, flushes requested by
the cache-size loop, natural and forced reorganisations before the request, the request anywhere.

Environment hypothesis `EnvOk cfg {} (att st.log)` (for the theorems that need one): every block
whose advance job ran had valid transactions on top of the surviving chain (that it connects is
checked by the job itself); for every back-out job, the daemon served for the tip's hash the block
indexed under it, the tip was above height 0, and its undo information was retained (C15: the
reorganisation stays inside the window).  That the index is fully flushed whenever a back-out job
runs is NOT assumed — it is proved from the control flow and the mutex.

Tie to the code: suite `shutdown` replays the event trace of every real run (request injected at
every scheduling point of five phases; job kind and argument, lock acquisitions, deliveries,
control points of the outer task) on this model through `evdrv shutdowntask`: every event must be
accepted, the three heights must agree after every job, the task must end the same way, and the
model's store after `_open_dbs` must equal, row by row, the dump of the real reopened database.
-/
namespace EV.ShutdownTask
open EV.Index

/-- **C06 (a) — the jobs are serialised.**  In every reachable state the index is exactly the
result of applying, one after the other and in the order in which they ended, the worker jobs that
did not raise: no two jobs overlap, no job's effect is lost or applied twice, whatever the
interleaving of the request, the inner tasks and the environment.  (No hypothesis on the
environment.) -/
theorem C06task_sequential (cfg : Cfg) (evs : List Ev) (st : St) (h : run cfg {} evs = some st) :
    runOps2 cfg {} (okOps st.log) = .ok st.sys :=
  (inv1_run h).seq

/-- **C06 — the task cannot end while a job is in flight.**  Once `fetch_and_process_blocks` has
returned (or died), no inner task exists and the lock is free: the handler has waited for the
section in flight at the request.  The "worker has drained" premise of the property is implied. -/
theorem C06task_drained (cfg : Cfg) (evs : List Ev) (st : St) (h : run cfg {} evs = some st)
    (hf : st.finished = true) : st.inner = none ∧ st.lock = false := by
  have w := (inv1_run h).shape
  have w3 := w.outer
  have hin : st.inner = none := by
    unfold St.finished at hf
    split at hf <;> simp_all
  exact ⟨hin, by rw [w.lock, hin]; rfl⟩

/-- **C06 (a) — `ok` at the handler.**  `ok` is false only if some job has raised: the handler's
`flush_if_safe` never skips the flush because of a job that was merely *in flight* at the request
(the handler's inner task gets the lock only after that job has returned and `ok` is true again). -/
theorem C06task_ok (cfg : Cfg) (evs : List Ev) (st : St) (h : run cfg {} evs = some st)
    (hok : st.ok = false) : ∃ e ∈ st.log, e.2 = false :=
  okInv_run h hok

/-- **C06 (a) — the run is a valid sequential run.**  In a valid environment, in every reachable
state: the operations of the jobs that ended, in that order, are a `ValidOps2` list (in particular
every back-out found the index fully flushed, with the tip handed to it), none of them raised,
`ok` holds, and the index state is `runOps2` of that list. -/
theorem C06task_valid (cfg : Cfg) (evs : List Ev) (st : St) (h : run cfg {} evs = some st)
    (henv : EnvOk cfg {} (att st.log)) :
    ValidOps2 cfg {} (att st.log) ∧ runOps2 cfg {} (att st.log) = .ok st.sys ∧
      (∀ e ∈ st.log, e.2 = true) ∧ st.ok = true ∧ (st.outer = .died → st.log = []) := by
  obtain ⟨i, g⟩ := good_run h henv
  refine ⟨g.valid, ?_, g.allOk, g.ok, g.died⟩
  rw [← okOps_eq_att g.allOk]
  exact i.seq

/-- **C06 (a) — the shutdown flush is the last operation.**  When the task has returned, the log
is the log at the request, followed by what the section in flight at the request still did
(`Rem`: at most the rest of that one section — see `Rem`), followed by the handler's `flush(True)`,
which succeeded; or `ok` was false (a job had raised) and no flush was attempted.  (No hypothesis
on the environment.) -/
theorem C06task_final_flush (cfg : Cfg) (evs : List Ev) (st : St) (h : run cfg {} evs = some st)
    (hr : st.outer = .returned) :
    ∃ done, Rem st.innerAtCancel done ∧
      ((att st.log = att st.logAtCancel ++ done ++ [.flush true] ∧
          ∃ pre, st.log = pre ++ [(.flush true, true)]) ∨
       (st.ok = false ∧ att st.log = att st.logAtCancel ++ done)) :=
  (afterCancel_run h).returned hr

/-- …in a valid environment the first alternative holds: the log ends with the successful
shutdown flush. -/
theorem C06task_final_flush_valid (cfg : Cfg) (evs : List Ev) (st : St)
    (h : run cfg {} evs = some st) (henv : EnvOk cfg {} (att st.log)) (hr : st.outer = .returned) :
    ∃ done, Rem st.innerAtCancel done ∧ att st.log = att st.logAtCancel ++ done ++ [.flush true] := by
  obtain ⟨done, hrem, hcase⟩ := C06task_final_flush cfg evs st h hr
  rcases hcase with ⟨h1, -⟩ | ⟨h1, -⟩
  · exact ⟨done, hrem, h1⟩
  · have := (good_run h henv).2.ok
    rw [this] at h1; simp at h1

/-- the surviving chain of a log: advances append, back-outs pop -/
def survivors (log : List (Op × Bool)) : List Block := chainOf2 [] 0 (att log)

/-- **C06 (b) — consistent, and exactly the finished work.**  In a valid environment, once the
task has returned: reopening the database (`_open_dbs` on the persistent part alone, all memory
dropped) succeeds, and every observable of the reopened index — UTXOs of every script hash (up to
row order), histories for every limit, UTXO and tx counts, height, tip, chain size, headers,
per-block tx hashes — is the specification's of `survivors st.log`: the chain of exactly the blocks
whose advance job had returned and that no back-out job removed.  The stored height is its length
minus one. -/
theorem C06task_reopen (cfg : Cfg) (evs : List Ev) (st : St) (h : run cfg {} evs = some st)
    (henv : EnvOk cfg {} (att st.log)) (hr : st.outer = .returned) :
    ∃ es s', openDbs cfg st.sys.p false none = some (es, s') ∧
      s'.m.dbst.height = ((survivors st.log).length : Int) - 1 ∧
      (∀ hx, ∃ rows, allUtxos s' hx = some rows ∧
        rows.Perm (((EV.Spec.specChain cfg.act (survivors st.log)).utxos.filter (·.hx == hx)).map
          (fun u => ⟨u.txnum, u.idx, u.txid, u.height, u.value⟩))) ∧
      (∀ hx limit, limitedHistory s' hx limit =
        some (EV.Spec.historyPairs (EV.Spec.specChain cfg.act (survivors st.log)) hx limit)) ∧
      s'.m.st.utxoCount = ((EV.Spec.specChain cfg.act (survivors st.log)).utxos.length : Int) ∧
      s'.m.st.txCount = (EV.Spec.specChain cfg.act (survivors st.log)).txs.length ∧
      s'.m.st.height = ((survivors st.log).length : Int) - 1 ∧
      s'.m.st.tip = ((survivors st.log).getLast?.map (·.hash)).getD 0 ∧
      s'.m.st.chainSize = ((survivors st.log).map (·.size)).sum ∧
      (∀ start count, readHeaders s' start count =
        (((survivors st.log).map (·.header)).drop start).take
          (min (count : Int) (((survivors st.log).length : Int) - start)).toNat) ∧
      (∀ (ht : Nat) (b : Block), (survivors st.log)[ht]? = some b →
        txHashesAt s' ht = some (b.txs.map (·.id))) := by
  obtain ⟨i, g⟩ := good_run h henv
  have ti := trackInv_of_good i g
  obtain ⟨done, -, hlog⟩ := C06task_final_flush_valid cfg evs st h henv hr
  have hfl : (Track.run cfg {} (att st.log)).dbLen = (Track.run cfg {} (att st.log)).chain.length := by
    rw [hlog, Track.run_flushTrue]
  have inv := ti.inv
  rw [Track.run_chain] at inv
  obtain ⟨es, s', h1, inv', hf'⟩ := C03run_reopen_clean inv (ti.flushed hfl)
  refine ⟨es, s', h1, ?_, observables_of_fullInv' inv' hf'⟩
  rw [hf', inv'.base.files.height]
  rfl

/-- **C06 (c) — kept work, and what a request during a reorganisation does.**  In a valid
environment, once the task has returned, compare the surviving chain at the moment of the request
(`survivors st.logAtCancel`: every block whose advance job had returned before the request and
that had not been backed out before it) with the stored chain (`survivors st.log`):

  * if no back-out job was in flight at the request (`pendingBackup = none`: the request came
    whilst fetching, idle, mid-advance, mid-flush, or between two back-outs of a reorganisation),
    the chain at the request is a prefix of the stored chain — every block finished before the
    request is at or below the stored height; the only block that can be added is the one whose
    advance was in flight;
  * if the back-out of block `b` was in flight (its section created; its job not yet returned),
    that back-out completes and the stored chain is the chain at the request without its tip: the
    orphaned blocks already backed out and `b` are gone, the orphaned blocks not yet reached stay
    indexed (the index is a consistent index of the old branch up to there — (b) — and the next
    start of the server detects the reorganisation again).

No further back-out and no further advance happens after the request: `reorg_chain` and
`advance_blocks` do not continue. -/
theorem C06task_kept_work (cfg : Cfg) (evs : List Ev) (st : St) (h : run cfg {} evs = some st)
    (henv : EnvOk cfg {} (att st.log)) (hr : st.outer = .returned) :
    (pendingBackup st.innerAtCancel = none → survivors st.logAtCancel <+: survivors st.log) ∧
    (∀ b, pendingBackup st.innerAtCancel = some b →
      survivors st.log = (survivors st.logAtCancel).dropLast) := by
  obtain ⟨done, hrem, hlog⟩ := C06task_final_flush_valid cfg evs st h henv hr
  have hc : survivors st.log =
      ((Track.run cfg {} (att st.logAtCancel)).run cfg done).chain := by
    unfold survivors
    rw [← Track.run_chain cfg {} (att st.log), hlog, Track.run_append, Track.run_append]
    rfl
  have hcc : survivors st.logAtCancel = (Track.run cfg {} (att st.logAtCancel)).chain := by
    unfold survivors
    rw [← Track.run_chain cfg {} (att st.logAtCancel)]
  rw [hc, hcc]
  exact rem_chain cfg _ hrem

/-- the section in flight at the request is a well-formed section of the main flow (never the
    handler's own), so `Rem st.innerAtCancel` in the theorems above has no spurious alternatives -/
theorem C06task_inflight_wf (cfg : Cfg) (evs : List Ev) (st : St) (h : run cfg {} evs = some st) :
    ∀ i, st.innerAtCancel = some i → InnerWf i ∧ i.sec ≠ .safe :=
  cancelWf_run h

/-- **C06 — the server stops.**  In the handler (i.e. from the request on, until the task ends)
some step of an inner task or of the worker thread is always enabled — the handler cannot wait for
the lock forever, and the section in flight cannot wait for the handler —, and every continuation of
a run after the request contains at most `todo st ≤ 11` such steps: the section in flight ends
(at most: lock, advance job, delivery, flush job, delivery), then the handler's flush runs (lock,
job, delivery), then the task has ended.  Events of the environment (cache pressure, `reorg`
RPCs) neither block nor prolong this.  (Fairness — worker threads and the event loop keep running —
is the only assumption; no hypothesis on the environment.) -/
theorem C06task_stops (cfg : Cfg) (evs : List Ev) (st : St) (h : run cfg {} evs = some st) :
    (st.outer = .handler → ∃ e, e.isWork = true ∧ (step cfg st e).isSome = true) ∧
    (st.cancelled = true → ∀ evs' st', run cfg st evs' = some st' →
      workCount evs' + todo st' ≤ todo st ∧ todo st ≤ 11) ∧
    (st.cancelled = true → todo st = 0 → st.finished = true) := by
  have w := (inv1_run h).shape
  refine ⟨fun ho => stop_enabled cfg w ho, fun hc evs' st' h' => ⟨stop_bound evs' w hc h', todo_le st⟩, ?_⟩
  intro hc h0
  rcases w.canc2 hc with ho | ho | ho
  · have := todo_handler_pos ho w; omega
  · simp [St.finished, ho]
  · simp [St.finished, ho]

/-! ## non-vacuity

The blocks of `EV/Props/C03run.lean` (reorg limit 2; `rxB1` spends an output of `rxB0`).

`exMidAdvance`: two blocks fetched; the request arrives whilst `advance_block(rxB1)` is in a worker
thread; the cache-size loop requests a history-only flush before the job's result is delivered, so
the section in flight still runs that flush; then the handler's flush. -/

def exMidAdvance : List Ev :=
  [.begin, .fetched [rxB0, rxB1], .nextBlock, .innerStart, .jobEnd 1, .deliver, .resume,
   .nextBlock, .innerStart, .cancel, .jobEnd 1, .pressure false, .deliver, .jobEnd 0, .deliver,
   .hStart, .jobEnd 0, .deliver]

def outerOf (r : Option St) : Option Outer := r.map (·.outer)
def attOf (r : Option St) : List IOp2 := match r with | some st => att st.log | none => []
def attCOf (r : Option St) : List IOp2 := match r with | some st => att st.logAtCancel | none => []
def innerCOf (r : Option St) : Option Inner := match r with | some st => st.innerAtCancel | none => none

example : outerOf (run rxCfg {} exMidAdvance) = some .returned := by decide
example : attOf (run rxCfg {} exMidAdvance) =
    [.adv rxB0 1, .adv rxB1 1, .flush false, .flush true] := by decide
example : attCOf (run rxCfg {} exMidAdvance) = [.adv rxB0 1] ∧
    innerCOf (run rxCfg {} exMidAdvance) = some (.job (.adv rxB1) (.adv rxB1)) := by decide
/-- the environment hypothesis holds of this run -/
example : EnvOk rxCfg {} (attOf (run rxCfg {} exMidAdvance)) := by decide

/-- `exMidBackup`: both blocks indexed, caught up, a forced reorganisation of one block; the
request arrives after the back-out section of `rxB1` has been created, before its inner task has
even taken the lock.  The back-out completes, the handler's flush (a no-op on the store) follows. -/
def exMidBackup : List Ev :=
  [.begin, .fetched [rxB0, rxB1], .nextBlock, .innerStart, .jobEnd 1, .deliver, .resume,
   .nextBlock, .innerStart, .jobEnd 1, .deliver, .resume, .endBatch,
   .fetchedNone, .innerStart, .jobEnd 0, .deliver, .resume, .caughtUpDone, .forceReorg 1, .wake,
   .innerStart, .jobEnd 0, .deliver, .resume, .reorgRange [rxB1], .nextBackup, .cancel,
   .innerStart, .jobEnd 0, .deliver, .hStart, .jobEnd 0, .deliver]

example : outerOf (run rxCfg {} exMidBackup) = some .returned := by decide
example : attOf (run rxCfg {} exMidBackup) =
    [.adv rxB0 1, .adv rxB1 1, .flush true, .flush true, .backup rxB1, .flush true] := by decide
example : innerCOf (run rxCfg {} exMidBackup) = some (.wantLock (.backup rxB1)) := by decide
example : EnvOk rxCfg {} (attOf (run rxCfg {} exMidBackup)) := by decide
example : chainOf2 [] 0 (attCOf (run rxCfg {} exMidBackup)) = [rxB0, rxB1] ∧
    chainOf2 [] 0 (attOf (run rxCfg {} exMidBackup)) = [rxB0] := by decide

/-- a request before the `try` (during `open_for_sync` / `scan_files`): the task dies with
    `CancelledError`, nothing was done -/
example : outerOf (run rxCfg {} [.cancel]) = some .died := by decide

/-- a second request is not an event of the model -/
example : outerOf (run rxCfg {} [.begin, .cancel, .cancel]) = none := by decide

/-- a job that raises (here: a block whose input does not exist, i.e. an environment outside
    `EnvOk`): `ok` stays false, the handler does not flush, the task returns; `C06task_ok` /
    `C06task_final_flush` describe this case -/
def exBad : Block := ⟨9, 7, 102, 82, [⟨13, [⟨99, 0⟩], [⟨60, 3, .normal⟩]⟩]⟩

def exFailing : List Ev :=
  [.begin, .fetched [rxB0, exBad], .nextBlock, .innerStart, .jobEnd 1, .deliver, .resume,
   .nextBlock, .innerStart, .cancel, .jobEnd 1, .deliver, .hStart]

example : outerOf (run rxCfg {} exFailing) = some .returned ∧
    (run rxCfg {} exFailing).map (·.ok) = some false ∧
    (run rxCfg {} exFailing).map (fun st => st.log.map (·.2)) = some [true, false] := by decide

end EV.ShutdownTask

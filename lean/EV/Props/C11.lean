import EV.Proofs.HeaderCacheInv
import EV.Proofs.HeaderCacheProgress

/-!
# C11 — Every merkle proof the server hands out verifies against the current chain

> For any indexed chain, also after reorganisations and with requests in flight while blocks are
> undone, a transaction merkle proof (by hash or by position, classic or TSC format) folds to the
> merkle root in the header of that block, and a header proof for (height, checkpoint height)
> folds to the merkle root of all current block hashes up to the checkpoint; requests outside the
> chain are refused rather than answered wrongly.

Composition (DESIGN.md §6 C11):
 1. C12 (`EV/Props/C12.lean`): whatever list the server folds, the branch it returns folds to that
    list's Bitcoin merkle root — classic and TSC, direct path and `MerkleCache` path.
 2. *Which* list, transaction proofs: the tx-hash list of the block at that height on the current
    chain (tx table of the index, C02; by-height caches cleared on reorg, C10) — validated by suite
    `system` (every tx of every block, by hash and by position, classic and TSC, folded by an
    independent verifier against the header's merkle root, after every phase of every history).
 3. *Which* list, header proofs — **this file**: model `EV/Model/HeaderCache.lean`: any number of
    concurrent `block.header(height, cp)` / `block.headers(start, count, cp)` requests, each the
    WHOLE handler: a program counter over the handler's own header read, then the awaits of
    `MerkleCache.branch_and_root` / `_extend_to` / `_level_for`, then the consistency check of the
    reply and the re-read; every read cut into issue / perform in a worker thread against the
    hashes visible *then* / deliver; back-outs cut into their two effects (lowering `DB.state`,
    `header_mc.truncate`) in the order of the code; new blocks.  Headers are modelled by their
    hashes.  Theorems, for **all** event sequences and any number of requests:
      * `C11_reply_safe`      the WHOLE reply `(headers, branch, root)`: branch and root are those of
                              ONE chain visible during the request, and the last header folds
                              along the branch to the root (composed fold statement; no hypothesis
                              on the hash)
      * `C11_reply_header`    … and that header IS the block at the proven height of that very chain,
                              if the hash has no collision a fold could meet (`Cancel`)
      * `C11_reply_chunk`, `C11_plain_reply`
                              all headers of a `block.headers` reply; replies without proof
      * `C11_header_progress` a request inside the chain that runs alone from a quiescent state is
                              answered within four read round trips
      * `C11_header_safe`     every answer is the from-scratch branch and Bitcoin merkle root of
                              the first `cp+1` hashes of a chain that was visible during the request
      * `C11_header_current`  … of the chain visible at the moment of the answer, when no back-out
                              overlapped the request
      * `C11_header_inv`      the cache is consistent with the visible chain whenever no back-out
                              is half done, and with the chain before the back-out in the window
      * `C11_header_refused`, `C11_header_never_wrong`
                              out-of-range requests are refused; a request ends refused, with an
                              error, or with an answer satisfying the safety clause
      * `seen_sound`          the ghost history `Req.seen` is what it is said to be
    and the pinned code violates the property in four ways, each fixed by its own commit:
      * `F24_counterexample`  header read and proof in separate awaits, a reorganisation in between:
                              orphaned header with the proof of the new chain
      * `F17_counterexample`  two extensions in flight (`_extend_to` without the `cached_length` test)
      * `F18_counterexample`  `flush_backup` truncating before it lowers `DB.state`
      * `F19_counterexample`  a truncation between `_extend_to` and `_level_for` of one request
Tie to the code: suite `headercache` (the real `block_header` / `block_headers` → `raw_header` →
`read_headers`, `_merkle_proof` → `header_branch_and_root` → `MerkleCache` → `fs_block_hashes` →
`read_headers` coroutines, reads performed and delivered under the control of the event sequence;
the real `reorg_chain` with its back-up job in a second thread held between its two effects) and
suite `system` (real server).
-/
namespace EV.HeaderCache
open EV.Merkle

variable {Node : Type} (H : Node → Node → Node)

/-! ## the ghost history is what it is said to be (every variant of the code) -/

theorem see_seen (S : List Node) (r : Req Node) :
    (r.see S).seen = r.seen ∨ ((r.see S).seen = S :: r.seen ∧ r.active = true) := by
  unfold Req.see; split
  · next h => exact Or.inr ⟨rfl, h⟩
  · exact Or.inl rfl

theorem markBo_seen (r : Req Node) : r.markBo.seen = r.seen := by
  unfold Req.markBo; split <;> rfl

/-- **the ghost history is sound** (every variant of the code): a new request starts with the
singleton history `[src]`; in one step the history of an existing request either stays as it is or
gets the *new* visible chain pushed in front, and the latter only for a request that has not
finished.  So `seen` lists values the visible chain had between the request's start and its end. -/
theorem seen_sound [DecidableEq Node] (cfg : Cfg) (s : St Node) (ev : Ev Node) :
    (∀ (i : Nat) (r : Req Node), s.reqs[i]? = some r → ∃ r' : Req Node, (step H cfg s ev).reqs[i]? = some r' ∧
      (r'.seen = r.seen ∨ (r'.seen = (step H cfg s ev).src :: r.seen ∧ r.active = true))) ∧
    (∀ (i : Nat) (r' : Req Node), s.reqs.length ≤ i → (step H cfg s ev).reqs[i]? = some r' →
      r'.seen = [(step H cfg s ev).src]) := by
  have hmap : ∀ (f : Req Node → Req Node) (S : List Node),
      (∀ r, (f r).seen = r.seen ∨ ((f r).seen = S :: r.seen ∧ r.active = true)) →
      ∀ (i : Nat) (r : Req Node), s.reqs[i]? = some r → ∃ r' : Req Node, (s.reqs.map f)[i]? = some r' ∧
        (r'.seen = r.seen ∨ (r'.seen = S :: r.seen ∧ r.active = true)) := by
    intro f S hf i r hr
    exact ⟨f r, by rw [List.getElem?_map, hr]; rfl, hf r⟩
  have hmapnew : ∀ (f : Req Node → Req Node) (S : List Node) (i : Nat) (r' : Req Node), s.reqs.length ≤ i →
      (s.reqs.map f)[i]? = some r' → r'.seen = [S] := by
    intro f S i r' hi hr'
    rw [List.getElem?_eq_none (by rw [List.length_map]; exact hi)] at hr'
    cases hr'
  have hsetnew : ∀ (j : Nat) (x : Req Node) (S : List Node) (i : Nat) (r' : Req Node), s.reqs.length ≤ i →
      (s.reqs.set j x)[i]? = some r' → r'.seen = [S] := by
    intro j x S i r' hi hr'
    rw [List.getElem?_eq_none (by rw [List.length_set]; exact hi)] at hr'
    cases hr'
  have hset : ∀ (j : Nat) (r0 x : Req Node) (S : List Node), s.reqs[j]? = some r0 → x.seen = r0.seen →
      ∀ (i : Nat) (r : Req Node), s.reqs[i]? = some r → ∃ r' : Req Node, (s.reqs.set j x)[i]? = some r' ∧
        (r'.seen = r.seen ∨ (r'.seen = S :: r.seen ∧ r.active = true)) := by
    intro j r0 x S hj hx i r hr
    by_cases hij : j = i
    · subst hij
      rw [hj] at hr; cases hr
      have hlt : j < s.reqs.length := by
        by_contra hc
        rw [List.getElem?_eq_none (by omega)] at hj; cases hj
      exact ⟨x, by rw [List.getElem?_set_self hlt], Or.inl hx⟩
    · exact ⟨r, by rw [List.getElem?_set_ne hij, hr], Or.inl rfl⟩
  have hid : ∀ (i : Nat) (r : Req Node), s.reqs[i]? = some r → ∃ r' : Req Node, s.reqs[i]? = some r' ∧
      (r'.seen = r.seen ∨ (r'.seen = s.src :: r.seen ∧ r.active = true)) :=
    fun i r hr => ⟨r, hr, Or.inl rfl⟩
  have hidnew : ∀ (i : Nat) (r' : Req Node), s.reqs.length ≤ i → s.reqs[i]? = some r' → r'.seen = [s.src] := by
    intro i r' hi hr'
    rw [List.getElem?_eq_none hi] at hr'
    cases hr'
  have hnew : ∀ x : Req Node, x.seen = [s.src] →
      (∀ (i : Nat) (r : Req Node), s.reqs[i]? = some r → ∃ r' : Req Node, (s.reqs ++ [x])[i]? = some r' ∧
        (r'.seen = r.seen ∨ (r'.seen = s.src :: r.seen ∧ r.active = true))) ∧
      (∀ (i : Nat) (r' : Req Node), s.reqs.length ≤ i → (s.reqs ++ [x])[i]? = some r' → r'.seen = [s.src]) := by
    intro x hx
    refine ⟨fun i r hr => ⟨r, ?_, Or.inl rfl⟩, ?_⟩
    · have hlt : i < s.reqs.length := by
        by_contra hc
        rw [List.getElem?_eq_none (by omega)] at hr; cases hr
      rw [List.getElem?_append_left hlt, hr]
    · intro i r' hi hr'
      rw [List.getElem?_append_right hi] at hr'
      cases hk : i - s.reqs.length with
      | zero =>
        rw [hk] at hr'
        simp only [List.getElem?_cons_zero, Option.some.injEq] at hr'
        subst hr'
        exact hx
      | succ k => rw [hk] at hr'; simp at hr'
  cases ev with
  | header height cp => exact hnew _ rfl
  | headers first count cp => exact hnew _ rfl
  | perform j =>
    simp only [step]
    split
    · exact ⟨hid, hidnew⟩
    · next r0 hj => exact ⟨hset j r0 _ _ hj (performReq_ghost _ _ _).1, hsetnew j _ _⟩
  | deliver j =>
    simp only [step]
    split
    · exact ⟨hid, hidnew⟩
    · next r0 hj => exact ⟨hset j r0 _ _ hj (deliverAll_seen H _ _ _ _ _).1, hsetnew j _ _⟩
  | boBegin n =>
    simp only [step]
    split
    · split
      · exact ⟨hmap _ _ (fun r => by rw [markBo_seen]; exact see_seen _ r), hmapnew _ _⟩
      · exact ⟨hmap _ _ (fun r => Or.inl (markBo_seen r)), hmapnew _ _⟩
    · exact ⟨hid, hidnew⟩
  | boEnd =>
    simp only [step]
    split
    · exact ⟨hid, hidnew⟩
    · split
      · exact ⟨hmap _ _ (fun r => Or.inl (markBo_seen r)), hmapnew _ _⟩
      · exact ⟨hmap _ _ (fun r => by rw [markBo_seen]; exact see_seen _ r), hmapnew _ _⟩
  | append ns =>
    simp only [step]
    split
    · exact ⟨hmap _ _ (fun r => see_seen _ r), hmapnew _ _⟩
    · exact ⟨hid, hidnew⟩

/-! ## safety -/

/-- **C11 (header proofs verify — linearizability).**  Start from a cache that is consistent with
the visible block hashes (`initialize`, C12 `cache_init`) and let *any* sequence of events happen:
any number of header-proof requests started at any time, each of their reads performed by a worker
thread at any later time and delivered at any time after that, back-outs of any number of blocks
(the visible chain lowered, later `truncate`), new blocks — in any order.  Then every answer
`(branch, root)` a request for `(length = cp+1, index = height)` returns is exactly the
from-scratch `branch_and_root` of `S[:length]` at `index`, for a chain `S` that was the visible chain
at some moment between the request's start and its answer (`S ∈ seen`, see `seen_sound`) and that
reaches the checkpoint (`length ≤ len S`); in particular `root` is the Bitcoin merkle root of the
first `cp+1` block hashes of that chain (and by C12 `bar_fold` the branch folds to it). -/
theorem C11_header_safe [DecidableEq Node] (s : St Node) (evs : List (Ev Node)) (h0 : Init H s) :
    ∀ r ∈ (run H Cfg.fixed s evs).reqs, ∀ br root, r.pc = .done (.answer br root) →
      ∃ S ∈ r.seen, r.length ≤ S.length ∧
        branchAndRoot H (S.take r.length) (.int r.index) none false = .ok (br, root) ∧
        ∃ hne, root = merkleRoot H (S.take r.length) hne := by
  intro r hr br root hpc
  have hsafe := ((inv_run H s evs h0.inv).reqs r hr).safe
  unfold Req.Safe at hsafe
  rw [hpc] at hsafe
  obtain ⟨S, hS, hlen, hbar⟩ := hsafe
  refine ⟨S, hS, hlen, hbar, ?_⟩
  obtain ⟨h1, h2⟩ := branchAndRoot_ok_range H hbar
  have hidx : r.index < (S.take r.length).length := by omega
  obtain ⟨br', hbr'⟩ := bar_root H (S.take r.length) r.index false hidx
  rw [hbar] at hbr'
  injection hbr' with hbr'
  injection hbr' with _ hroot
  exact ⟨_, hroot⟩

/-- **C11 (no back-out overlapping the request: the current chain).**  If no back-out was half
done, began or ended while the request was active (`bo = false`), its answer is the from-scratch
branch and root of the first `cp+1` hashes of the chain visible *at the moment of the answer* (the
head of the history), which reaches the checkpoint. -/
theorem C11_header_current [DecidableEq Node] (s : St Node) (evs : List (Ev Node)) (h0 : Init H s) :
    ∀ r ∈ (run H Cfg.fixed s evs).reqs, ∀ br root, r.pc = .done (.answer br root) → r.bo = false →
      ∀ cur, r.seen.head? = some cur → r.length ≤ cur.length ∧
        branchAndRoot H (cur.take r.length) (.int r.index) none false = .ok (br, root) := by
  intro r hr br root hpc hbo cur hcur
  obtain ⟨S, hS, hlen, hbar, _⟩ := C11_header_safe H s evs h0 r hr br root hpc
  have hpre := ((inv_run H s evs h0.inv).reqs r hr).nobo hbo S hS cur hcur
  exact ⟨by have := hpre.length_le; omega, by rw [take_of_prefix hpre hlen]; exact hbar⟩

/-! ## cache invariant -/

/-- **C11 (header cache invariant).**  In every reachable state — any number of extensions in
flight —: when no back-out is half done the cache is consistent with the visible block hashes
(`CacheInv`: its level is level `depth_higher` of the tree of the first `length` visible hashes);
between the two halves of a back-out to `n` hashes it is consistent with the reference chain `ref`,
of which the visible chain is the first `n` hashes (the cache may still cover hashes that are no
longer visible; the pending `truncate` removes them).  `ref_window` below: `ref` is the chain that
was visible before the back-out began. -/
theorem C11_header_inv [DecidableEq Node] (s : St Node) (evs : List (Ev Node)) (h0 : Init H s) :
    ((run H Cfg.fixed s evs).pending = none →
      CacheInv H (run H Cfg.fixed s evs).c (run H Cfg.fixed s evs).src) ∧
    (∀ n, (run H Cfg.fixed s evs).pending = some n →
      CacheInv H (run H Cfg.fixed s evs).c (run H Cfg.fixed s evs).ref ∧
      (run H Cfg.fixed s evs).src = (run H Cfg.fixed s evs).ref.take n ∧
      0 < n ∧ n < (run H Cfg.fixed s evs).ref.length) := by
  have hinv := inv_run H s evs h0.inv
  exact ⟨fun hp => by have := hinv.cache; rw [hinv.quiet hp] at this; exact this,
    fun n hn => ⟨hinv.cache, hinv.half n hn⟩⟩

/-- the reference chain of the half-done window: when a back-out begins in a state satisfying the
invariant, `ref` is (and stays) the chain that was visible before; no event inside the window
changes it -/
theorem ref_window [DecidableEq Node] (s : St Node) (hinv : Inv H s) :
    (∀ n, s.pending = none → (step H Cfg.fixed s (.boBegin n)).ref = s.src) ∧
    (∀ ev n n', s.pending = some n → (step H Cfg.fixed s ev).pending = some n' →
      (step H Cfg.fixed s ev).ref = s.ref) := by
  refine ⟨fun n hp => ?_, fun ev n n' hp hp' => ?_⟩
  · simp only [step]
    split
    · simp only [fixed_lowerFirst, if_true]; exact hinv.quiet hp
    · exact hinv.quiet hp
  · cases ev with
    | header height cp => rfl
    | headers first count cp => rfl
    | perform i => simp only [step]; split <;> rfl
    | deliver i => simp only [step]; split <;> rfl
    | boBegin m => simp only [step, hp]; simp
    | boEnd => simp only [step, hp, fixed_lowerFirst, if_true] at hp'; cases hp'
    | append ns => simp only [step, hp]; simp

/-- **C11 (quiescent header proof).**  In every reachable state in which no back-out is half done,
a header-proof request `(height, cp_height)` inside the chain answered atomically through the cache
returns exactly the from-scratch branch of the current first `cp_height + 1` block hashes and
their Bitcoin merkle root. -/
theorem C11_header_proof [DecidableEq Node] (s : St Node) (evs : List (Ev Node)) (h0 : Init H s)
    (hq : (run H Cfg.fixed s evs).pending = none) (height cp : Nat)
    (hh : height ≤ cp) (hcp : cp < (run H Cfg.fixed s evs).src.length) :
    ((run H Cfg.fixed s evs).c.query H (run H Cfg.fixed s evs).src (.int (cp + 1 : Nat)) (.int height) false).2 =
      Outcome.ofExcept (branchAndRoot H ((run H Cfg.fixed s evs).src.take (cp + 1)) (.int height) none false) ∧
    ∃ br hne, branchAndRoot H ((run H Cfg.fixed s evs).src.take (cp + 1)) (.int height) none false =
      .ok (br, merkleRoot H ((run H Cfg.fixed s evs).src.take (cp + 1)) hne) := by
  have hinv := (C11_header_inv H s evs h0).1 hq
  have h1 := cache_correct H (run H Cfg.fixed s evs).c (run H Cfg.fixed s evs).src (cp + 1 : Nat) height false hinv
    (by omega) (by simp; omega) (by omega)
  refine ⟨by simpa using h1.1, ?_⟩
  have hlen : height < ((run H Cfg.fixed s evs).src.take (cp + 1)).length := by
    simp only [List.length_take]; omega
  obtain ⟨br, hbr⟩ := bar_root H ((run H Cfg.fixed s evs).src.take (cp + 1)) height false hlen
  exact ⟨br, _, hbr⟩

/-! ## refusal -/

/-- **C11 (starting a request).**  Whatever the variant of the code: the start of a
`block_header(height, cp)` / `block_headers(first, count, cp)` request changes nothing but the list
of requests; the new request waits for its header read and has seen the visible chain. -/
theorem C11_header_started [DecidableEq Node] (cfg : Cfg) (s : St Node) (kind : Handler) (first count cp : Nat) :
    (step H cfg s (.header first cp)).c = s.c ∧ (step H cfg s (.headers first count cp)).c = s.c ∧
    (step H cfg s (.header first cp)).src = s.src ∧ (step H cfg s (.headers first count cp)).src = s.src ∧
    (step H cfg s (.header first cp)).reqs =
      s.reqs ++ [newReq s.truncations s.src s.pending.isSome .header first 1 cp] ∧
    (step H cfg s (.headers first count cp)).reqs =
      s.reqs ++ [newReq s.truncations s.src s.pending.isSome .headers first count cp] ∧
    (newReq s.truncations s.src s.pending.isSome kind first count cp).pc = .hdr .issued ∧
    (newReq s.truncations s.src s.pending.isSome kind first count cp).length = cp + 1 ∧
    (newReq s.truncations s.src s.pending.isSome kind first count cp).seen = [s.src] :=
  ⟨rfl, rfl, rfl, rfl, rfl, rfl, rfl, rfl, rfl⟩

/-- **C11 (requests outside the chain are refused).**  Whatever the variant of the code, when the
handler's header read is delivered (`hs` = the headers it returned, `vis` = the number of visible
hashes at that moment, i.e. `db.state.height + 1`, `cp = length - 1`):
`block_header`: no header at `height` → refused; `cp = 0` → the header alone; else the range check
`height ≤ cp < vis`: outside → refused at once, inside → the request enters the proof with
`index = height`.  `block_headers`: nothing read or `cp = 0` → the headers alone; else the range
check for the last header read, `first + |hs| − 1`. -/
theorem C11_header_refused (c : Cache Node) (T vis : Nat) (r : Req Node) (hs : List Node) :
    (r.kind = .header →
      (hs.length ≠ 1 → (afterHdr c T vis r hs).pc = .done .refused) ∧
      (hs.length = 1 → r.length = 1 →
        (afterHdr c T vis r hs).pc = .done .plain ∧ (afterHdr c T vis r hs).hdrs = hs) ∧
      (hs.length = 1 → r.length ≠ 1 → ¬ (r.first < r.length ∧ r.length ≤ vis) →
        (afterHdr c T vis r hs).pc = .done .refused) ∧
      (hs.length = 1 → r.length ≠ 1 → (r.first < r.length ∧ r.length ≤ vis) →
        (afterHdr c T vis r hs).proving = true ∧ (afterHdr c T vis r hs).hdrs = hs ∧
          (afterHdr c T vis r hs).index = r.first)) ∧
    (r.kind = .headers →
      (hs.length = 0 ∨ r.length = 1 →
        (afterHdr c T vis r hs).pc = .done .plain ∧ (afterHdr c T vis r hs).hdrs = hs) ∧
      (¬ (hs.length = 0 ∨ r.length = 1) → ¬ (r.first + hs.length - 1 < r.length ∧ r.length ≤ vis) →
        (afterHdr c T vis r hs).pc = .done .refused) ∧
      (¬ (hs.length = 0 ∨ r.length = 1) → (r.first + hs.length - 1 < r.length ∧ r.length ≤ vis) →
        (afterHdr c T vis r hs).proving = true ∧ (afterHdr c T vis r hs).hdrs = hs ∧
          (afterHdr c T vis r hs).index = r.first + hs.length - 1)) := by
  have hin : ∀ r0 : Req Node, (r0.index < r0.length ∧ r0.length ≤ vis) →
      (enterProof c T vis r0).proving = true ∧ (enterProof c T vis r0).hdrs = r0.hdrs ∧
        (enterProof c T vis r0).index = r0.index := by
    intro r0 h
    unfold enterProof beginIter enterExtend
    rw [if_pos h]
    split <;> exact ⟨rfl, rfl, rfl⟩
  have hout : ∀ r0 : Req Node, ¬ (r0.index < r0.length ∧ r0.length ≤ vis) →
      (enterProof c T vis r0).pc = .done .refused := by
    intro r0 h
    unfold enterProof
    rw [if_neg h]
  refine ⟨fun hk => ?_, fun hk => ?_⟩
  · unfold afterHdr
    split
    case h_2 hk' => rw [hk] at hk'; cases hk'
    refine ⟨fun h1 => by simp only [h1, ne_eq, not_false_eq_true, if_true],
      fun h1 h2 => by simp only [h1, h2, ne_eq, not_true_eq_false, if_false, if_true, and_self],
      fun h1 h2 h3 => ?_, fun h1 h2 h3 => ?_⟩
    · simp only [h1, h2, ne_eq, not_true_eq_false, if_false]
      exact hout { r with hdrs := hs, index := r.first } h3
    · simp only [h1, h2, ne_eq, not_true_eq_false, if_false]
      exact hin { r with hdrs := hs, index := r.first } h3
  · unfold afterHdr
    split
    case h_1 hk' => rw [hk] at hk'; cases hk'
    refine ⟨fun h1 => by simp only [h1, if_true, and_self], fun h1 h3 => ?_, fun h1 h3 => ?_⟩
    · simp only [h1, if_false]
      exact hout { r with hdrs := hs, index := r.first + hs.length - 1 } h3
    · simp only [h1, if_false]
      exact hin { r with hdrs := hs, index := r.first + hs.length - 1 } h3

/-- the delivery of a header read is `afterHdr` and touches nothing else (every variant) -/
theorem deliver_hdr [DecidableEq Node] (cfg : Cfg) (s : St Node) (i : Nat) (r : Req Node) (hs : List Node)
    (hr : s.reqs[i]? = some r) (hpc : r.pc = .hdr (.got hs)) :
    step H cfg s (.deliver i) =
      { s with reqs := s.reqs.set i (afterHdr s.c s.truncations s.src.length r hs) } := by
  simp only [step, hr, deliverAll, hpc]

/-- **C11 (never a wrong answer).**  However a request ends — in every reachable state — it was
refused, it failed with an error, it returned headers without a proof, or it returned an answer
that satisfies the safety clause. -/
theorem C11_header_never_wrong [DecidableEq Node] (s : St Node) (evs : List (Ev Node)) (h0 : Init H s) :
    ∀ r ∈ (run H Cfg.fixed s evs).reqs, ∀ res, r.pc = .done res →
      res = .refused ∨ (∃ e, res = .error e) ∨ res = .plain ∨
      ∃ br root, res = .answer br root ∧ ∃ S ∈ r.seen, r.length ≤ S.length ∧
        branchAndRoot H (S.take r.length) (.int r.index) none false = .ok (br, root) := by
  intro r hr res hpc
  cases res with
  | refused => exact Or.inl rfl
  | error e => exact Or.inr (Or.inl ⟨e, rfl⟩)
  | plain => exact Or.inr (Or.inr (Or.inl rfl))
  | answer br root =>
    obtain ⟨S, hS, hlen, hbar, _⟩ := C11_header_safe H s evs h0 r hr br root hpc
    exact Or.inr (Or.inr (Or.inr ⟨br, root, rfl, S, hS, hlen, hbar⟩))

/-! ## the reply as a whole (F24) -/

theorem branchNodes_map (nodes : List Node) : branchNodes (nodes.map Elt.node) = nodes := by
  induction nodes with
  | nil => rfl
  | cons x rest ih => simp only [List.map_cons, branchNodes, ih]

/-- **C11 (the whole reply verifies, and against a chain that was visible).**  Every completed reply
`(headers, branch, root)` of a `block_header(height, cp)` / `block_headers(first, count, cp)` request
— after any event sequence, with any number of requests, reorganisations between the header read
and the proof included — satisfies, for ONE chain `S` that was visible at some moment between the
request's start and its answer (`S ∈ seen`, `seen_sound`) and reaches the checkpoint:
 * `(branch, root)` is the from-scratch branch and root of `S[:cp+1]` at the proven height `index`,
   and `root` is the Bitcoin merkle root of `S[:cp+1]` (`C11_header_safe`);
 * the branch consists of nodes only, and **the reply folds**: `root_from_proof(h, branch, index) =
   root` for the last header `h` of the reply (as its hash) — what the client checks; this is the
   composed fold statement, by the consistency check of the handler;
 * the block hash `x` of `S` at `index` folds along the same branch to the same root (C12 `bar_fold`).
No property of the hash function is used.  (`C11_reply_header` adds `h = x` from collision-freedom.) -/
theorem C11_reply_safe [DecidableEq Node] (s : St Node) (evs : List (Ev Node)) (h0 : Init H s) :
    ∀ r ∈ (run H Cfg.fixed s evs).reqs, ∀ br root, r.pc = .done (.answer br root) →
      ∃ S ∈ r.seen, r.length ≤ S.length ∧ r.index < r.length ∧
        branchAndRoot H (S.take r.length) (.int r.index) none false = .ok (br, root) ∧
        (∃ hne, root = merkleRoot H (S.take r.length) hne) ∧
        ∃ (h x : Node) (nodes : List Node), r.hdrs.getLast? = some h ∧ S[r.index]? = some x ∧
          br = nodes.map .node ∧
          rootFromProof H h nodes r.index = .ok root ∧ rootFromProof H x nodes r.index = .ok root := by
  intro r hr br root hpc
  obtain ⟨S, hS, hlen, hbar, hroot⟩ := C11_header_safe H s evs h0 r hr br root hpc
  obtain ⟨_, h2⟩ := branchAndRoot_ok_range H hbar
  have htl : (S.take r.length).length = r.length := by rw [List.length_take]; omega
  have hidx : r.index < (S.take r.length).length := by omega
  obtain ⟨nodes, r', hb, hf⟩ := bar_fold H (S.take r.length) r.index hidx
  rw [hbar] at hb
  injection hb with hb
  injection hb with hbr hrt
  subst hrt
  have hfolds := ((inv_run H s evs h0.inv).hdrs r hr).folds
  unfold Req.Folds at hfolds
  rw [hpc] at hfolds
  simp only at hfolds
  cases hl : r.hdrs.getLast? with
  | none => rw [hl] at hfolds; exact hfolds.elim
  | some h =>
    rw [hl] at hfolds
    simp only at hfolds
    rw [hbr, branchNodes_map] at hfolds
    have hx : (S.take r.length)[r.index] = S[r.index]'(by omega) := List.getElem_take
    refine ⟨S, hS, hlen, by omega, hbar, hroot, h, S[r.index]'(by omega), nodes, rfl,
      List.getElem?_eq_getElem (by omega), hbr, hfolds, ?_⟩
    rw [← hx]; exact hf

/-- `hash_func(a + b)` has no collision a fold could meet: if two inputs that agree in one half
hash to the same value, they agree in the other half too.  (Implied by collision-freedom of
SHA-256d on 64-byte inputs; true of every injective `H`.) -/
def Cancel (H : Node → Node → Node) : Prop :=
  (∀ e a b, H e a = H e b → a = b) ∧ (∀ e a b, H a e = H b e → a = b)

theorem rfpLoop_inj (hc : Cancel H) (br : List Node) :
    ∀ (a b : Node) (i : Int), (rfpLoop H a br i).1 = (rfpLoop H b br i).1 → a = b := by
  induction br with
  | nil => intro a b i h; exact h
  | cons e rest ih =>
    intro a b i h
    simp only [rfpLoop] at h
    have h' := ih _ _ _ h
    by_cases hi : i % 2 = 1
    · simp only [hi, if_true] at h'; exact hc.1 e a b h'
    · simp only [hi, if_false] at h'; exact hc.2 e a b h'

/-- two leaves that fold along the same branch at the same index to the same root are equal -/
theorem rootFromProof_inj (hc : Cancel H) {a b r : Node} {br : List Node} {i : Int}
    (ha : rootFromProof H a br i = .ok r) (hb : rootFromProof H b br i = .ok r) : a = b := by
  unfold rootFromProof at ha hb
  split at ha
  · cases ha
  · split at hb
    · cases hb
    · injection ha with ha
      injection hb with hb
      exact rfpLoop_inj H hc br a b i (ha.trans hb.symm)

/-- **C11 (the header of the reply is the header of the chain proven — F24 fixed).**  If the hash
function has no collision a fold could meet (`Cancel`), then in every completed reply the last
header `h` — the one at height `index = first + |headers| − 1`, which for `block_header` is the only
header and `index = height` — IS the block (hash) at that height of the very chain `S` whose first
`cp+1` hashes `(branch, root)` are computed from, and `S` was visible at some moment between the
request's start and its answer.  An orphaned header with the proof of another chain is impossible,
also under reorganisations A → B → A (the check is on the contents, not on a second read). -/
theorem C11_reply_header [DecidableEq Node] (hc : Cancel H) (s : St Node) (evs : List (Ev Node)) (h0 : Init H s) :
    ∀ r ∈ (run H Cfg.fixed s evs).reqs, ∀ br root, r.pc = .done (.answer br root) →
      ∃ S ∈ r.seen, r.length ≤ S.length ∧
        branchAndRoot H (S.take r.length) (.int r.index) none false = .ok (br, root) ∧
        (∃ hne, root = merkleRoot H (S.take r.length) hne) ∧
        r.hdrs ≠ [] ∧ r.hdrs.getLast? = S[r.index]? ∧ r.index = r.first + r.hdrs.length - 1 ∧
        (r.kind = .header → r.hdrs.length = 1 ∧ r.index = r.first) := by
  intro r hr br root hpc
  obtain ⟨S, hS, hlen, _, hbar, hroot, h, x, nodes, hh, hx, _, hf1, hf2⟩ :=
    C11_reply_safe H s evs h0 r hr br root hpc
  have hne : r.hdrs ≠ [] := by intro he; rw [he] at hh; cases hh
  have hok := (inv_run H s evs h0.inv).hdrs r hr
  have hidx : r.index = r.first + r.hdrs.length - 1 := by
    rcases hok.hidx with h1 | h1
    · exact absurd h1 hne
    · exact h1
  refine ⟨S, hS, hlen, hbar, hroot, hne, ?_, hidx, fun hk => ?_⟩
  · rw [hh, hx, rootFromProof_inj H hc hf1 hf2]
  · obtain ⟨A, _, hA⟩ := hok.hsrc (by rw [hpc]; trivial)
    have hcount := hok.one hk
    have hle : r.hdrs.length ≤ 1 := by
      rw [hA, hcount, srcSlice, List.length_take]; omega
    have hpos : 0 < r.hdrs.length := List.length_pos_iff.mpr hne
    exact ⟨by omega, by omega⟩

/-- **C11 (replies without a proof).**  A reply without a proof (`cp_height = 0`, or no header in
range) consists of the headers ONE read returned: `A[first : first+count]` for a chain `A` that was
visible during the request. -/
theorem C11_plain_reply [DecidableEq Node] (s : St Node) (evs : List (Ev Node)) (h0 : Init H s) :
    ∀ r ∈ (run H Cfg.fixed s evs).reqs, r.pc = .done .plain →
      ∃ A ∈ r.seen, r.hdrs = srcSlice A r.first r.count :=
  fun r hr hpc => ((inv_run H s evs h0.inv).hdrs r hr).hplain hpc

/-- **C11 (all headers of a `block_headers` reply).**  The headers of a reply with a proof were
returned by ONE read of a chain `A` visible during the request (`headers = A[first : first+count]`);
the proof is of the last one.  If chains are linked by their hashes — two visible chains with the
same block hash at a height have the same hashes below it (`hlink`; true of real block chains,
each header contains the hash of its predecessor) — and the hash is `Cancel`, then ALL headers of
the reply are the blocks `first … index` of the chain `S` the proof is computed from. -/
theorem C11_reply_chunk [DecidableEq Node] (hc : Cancel H) (s : St Node) (evs : List (Ev Node)) (h0 : Init H s) :
    ∀ r ∈ (run H Cfg.fixed s evs).reqs, ∀ br root, r.pc = .done (.answer br root) →
      (hlink : ∀ A ∈ r.seen, ∀ S ∈ r.seen, ∀ i x, A[i]? = some x → S[i]? = some x →
        A.take (i + 1) = S.take (i + 1)) →
      ∃ S ∈ r.seen, r.length ≤ S.length ∧
        branchAndRoot H (S.take r.length) (.int r.index) none false = .ok (br, root) ∧
        r.hdrs = (S.take (r.index + 1)).drop r.first := by
  intro r hr br root hpc hlink
  obtain ⟨S, hS, hlen, hbar, _, hne, hlast, hidx, _⟩ := C11_reply_header H hc s evs h0 r hr br root hpc
  have hok := (inv_run H s evs h0.inv).hdrs r hr
  obtain ⟨A, hAm, hA⟩ := hok.hsrc (by rw [hpc]; trivial)
  refine ⟨S, hS, hlen, hbar, ?_⟩
  have hpos : 0 < r.hdrs.length := List.length_pos_iff.mpr hne
  have hlenA : r.hdrs.length = min r.count (A.length - r.first) := by
    rw [hA, srcSlice, List.length_take, List.length_drop]
  have hiA : r.index < A.length := by omega
  -- the last header read is `A[index]`
  have hlastA : r.hdrs.getLast? = A[r.index]? := by
    rw [List.getLast?_eq_getElem?]
    have h1 : r.hdrs[r.hdrs.length - 1]? = (srcSlice A r.first r.count)[r.hdrs.length - 1]? :=
      congrArg (fun l => l[r.hdrs.length - 1]?) hA
    rw [h1, srcSlice, List.getElem?_take_of_lt (by omega), List.getElem?_drop]
    congr 1
    omega
  have hx : A[r.index]? = some (A[r.index]'hiA) := List.getElem?_eq_getElem hiA
  have heq := hlink A hAm S hS r.index _ hx (by rw [← hlast, hlastA, hx])
  -- `headers = (A[:index+1])[first:]`
  have hA' : r.hdrs = (A.take (r.index + 1)).drop r.first := by
    rw [List.drop_take]
    refine hA.trans ?_
    rw [srcSlice]
    by_cases hcase : r.count ≤ A.length - r.first
    · congr 1; omega
    · rw [List.take_of_length_le (by rw [List.length_drop]; omega),
        List.take_of_length_le (by rw [List.length_drop]; omega)]
  rw [hA', heq]

/-! ## progress -/

/-- `k` read round trips of request `i` with nothing in between -/
def rounds (i : Nat) : Nat → List (Ev Node)
  | 0 => []
  | k + 1 => .perform i :: .deliver i :: rounds i k

theorem step_solo [DecidableEq Node] (s : St Node) (i : Nat) (r : Req Node) (hr : s.reqs[i]? = some r) :
    step H Cfg.fixed (step H Cfg.fixed s (.perform i)) (.deliver i) =
      { s with c := (soloStep H s.src s.truncations (s.c, r)).1,
               reqs := s.reqs.set i (soloStep H s.src s.truncations (s.c, r)).2 } := by
  have hlt : i < s.reqs.length := by
    by_contra hc
    rw [List.getElem?_eq_none (by omega)] at hr; cases hr
  simp only [step, hr, List.getElem?_set_self hlt, soloStep, List.set_set]

theorem run_solo [DecidableEq Node] (i : Nat) :
    ∀ (k : Nat) (s : St Node) (r : Req Node), s.reqs[i]? = some r →
      (run H Cfg.fixed s (rounds i k)).reqs[i]? = some (soloRun H s.src s.truncations k (s.c, r)).2 := by
  intro k
  induction k with
  | zero => intro s r hr; exact hr
  | succ k ih =>
    intro s r hr
    have hlt : i < s.reqs.length := by
      by_contra hc
      rw [List.getElem?_eq_none (by omega)] at hr; cases hr
    show (run H Cfg.fixed (step H Cfg.fixed (step H Cfg.fixed s (.perform i)) (.deliver i)) (rounds i k)).reqs[i]? = _
    rw [step_solo H s i r hr]
    exact ih _ (soloStep H s.src s.truncations (s.c, r)).2 (List.getElem?_set_self hlt)

/-- **C11 (progress).**  In every state that satisfies the invariant (every reachable state,
`inv_run`) and in which no back-out is half done, a `block_header(height, cp)` request inside the
chain (`height ≤ cp < len(visible chain)`, `cp ≠ 0`) that is scheduled alone — its reads performed
and delivered, nothing else in between: in particular it meets no back-out — is ANSWERED after at
most four read round trips (header, [cache extension], leaf hashes, [level]): no read comes back
short, nothing raises, the consistency check of the reply passes.  By `C11_reply_header` (applied
to the longer event list) that answer is header and proof of the visible chain.  So a model in
which every delivery failed would not satisfy this. -/
theorem C11_header_progress [DecidableEq Node] (s : St Node) (hinv : Inv H s) (hq : s.pending = none)
    (height cp : Nat) (h1 : height ≤ cp) (h2 : 0 < cp) (h3 : cp < s.src.length) :
    ∃ k, k ≤ 4 ∧ ∃ r br root,
      (run H Cfg.fixed s (.header height cp :: rounds s.reqs.length k)).reqs[s.reqs.length]? = some r ∧
      r.pc = .done (.answer br root) := by
  have hc : CacheInv H s.c s.src := by have := hinv.cache; rw [hinv.quiet hq] at this; exact this
  obtain ⟨k, hk, br, root, hans⟩ := solo_answered H s.c s.truncations s.src s.pending.isSome height cp hc h1 h2 h3
  refine ⟨k, hk, _, br, root, ?_, hans⟩
  show (run H Cfg.fixed (step H Cfg.fixed s (.header height cp)) (rounds s.reqs.length k)).reqs[s.reqs.length]? = _
  have hnew : (step H Cfg.fixed s (.header height cp)).reqs[s.reqs.length]? =
      some (newReq s.truncations s.src s.pending.isSome .header height 1 cp) := by
    simp only [step, List.getElem?_append_right (Nat.le_refl _), Nat.sub_self, List.getElem?_cons_zero]
  exact run_solo H s.reqs.length k _ _ hnew

/-- the same for every reachable state -/
theorem C11_header_progress_reachable [DecidableEq Node] (s0 : St Node) (evs : List (Ev Node)) (h0 : Init H s0)
    (hq : (run H Cfg.fixed s0 evs).pending = none)
    (height cp : Nat) (h1 : height ≤ cp) (h2 : 0 < cp) (h3 : cp < (run H Cfg.fixed s0 evs).src.length) :
    ∃ k, k ≤ 4 ∧ ∃ r br root,
      (run H Cfg.fixed s0 (evs ++ .header height cp :: rounds (run H Cfg.fixed s0 evs).reqs.length k)).reqs[
        (run H Cfg.fixed s0 evs).reqs.length]? = some r ∧
      r.pc = .done (.answer br root) := by
  obtain ⟨k, hk, r, br, root, hr, hpc⟩ :=
    C11_header_progress H _ (inv_run H s0 evs h0.inv) hq height cp h1 h2 h3
  refine ⟨k, hk, r, br, root, ?_, hpc⟩
  rw [← hr]
  simp only [run, List.foldl_append]

/-! ## non-vacuity, and the ways the pinned code violates the property -/

/-- Cantor pairing: an *injective* stand-in for the hash on `Nat`, so two different trees have
different roots -/
def Hc (a b : Nat) : Nat := (a + b) * (a + b + 1) / 2 + b

def src9 : List Nat := [10, 11, 12, 13, 14, 15, 16, 17, 18]

/-- nine visible block hashes, the cache initialised by the real `initialize(4)`
(`depth_higher = 1`: segments of two) -/
def s9 : St Nat := { c := (({} : Cache Nat).init Hc src9 4).1, src := src9, ref := src9 }

/-- the hypothesis `Init` of the theorems is satisfiable (C12 `cache_init`) -/
theorem s9_init : Init Hc s9 :=
  ⟨(cache_init Hc {} src9 4 (by decide) (by decide)).2, rfl, rfl, rfl⟩

/-- the hypothesis `Cancel` of `C11_reply_header` is satisfiable: the free term constructor (the
hash the suites use) has no collision at all -/
example : Cancel T.n :=
  ⟨fun _ _ _ h => by injection h, fun _ _ _ h => by injection h⟩

instance (r : Req Nat) : Decidable (r.Safe Hc) := by
  unfold Req.Safe
  split <;> infer_instance

instance (r : Req Nat) : Decidable (r.Folds Hc) := by
  unfold Req.Folds
  split
  · split <;> infer_instance
  · infer_instance

/-- F17: A = `block.header(0, cp=8)` and B = `block.header(0, cp=5)` both above the cache (4) (their
header reads done at once): both extension reads in flight; A's `_extend_to(9)` finishes, then B's
shorter one. -/
def evsF17 : List (Ev Nat) :=
  startAtomic 0 8 0 ++ startAtomic 0 5 1 ++
  [.perform 0, .perform 1, .deliver 0, .deliver 1, .perform 0, .deliver 0, .perform 0, .deliver 0]

/-- **F17 (pinned `_extend_to`: no `cached_length` test).**  B's extension writes
`level[2:] = level(h4,h5)` and `length = 6` over A's longer one; A's `_level_for(9)` then takes
`level[:4]` of a 3-entry level and returns a root over the hashes 0–5 and 8: not the root of any
chain.  (The other flags as in the current code: no reorganisation is involved, and the consistency
check of the reply passes — the wrong proof is self-consistent.) -/
theorem F17_counterexample :
    (run Hc { extFix := false } s9 evsF17).reqs.map (fun r => decide (r.Safe Hc)) = [false, true] ∧
    (run Hc { extFix := false } s9 evsF17).c.length = 6 := by decide

/-- F18: a back-out to 7 hashes begins; a request for `cp = 8` starts between its two halves,
extends the cache, the back-out ends, two new blocks arrive, a second request for `cp = 8`. -/
def evsF18 : List (Ev Nat) :=
  [.boBegin 7] ++ startAtomic 0 8 0 ++ [.perform 0, .deliver 0, .boEnd, .append [27, 28],
   .perform 0, .deliver 0, .perform 0, .deliver 0] ++
  startAtomic 0 8 1 ++ [.perform 1, .deliver 1, .perform 1, .deliver 1, .perform 1, .deliver 1]

/-- **F18 (pinned `flush_backup`: `truncate` before `DB.state` is lowered).**  The request
started in the window passes the range check against the not-yet-lowered state, re-reads the
hashes being undone and stores them (`truncate` already ran, so neither `truncations` test fires);
the cache keeps orphaned hashes in a quiescent state, and the *next* request is answered with a root
over them. -/
theorem F18_counterexample :
    (run Hc { lowerFirst := false } s9 evsF18).reqs.map (fun r => decide (r.Safe Hc)) = [true, false] ∧
    (run Hc { lowerFirst := false } s9 evsF18).pending = none ∧
    (run Hc { lowerFirst := false } s9 evsF18).src = [10, 11, 12, 13, 14, 15, 16, 27, 28] ∧
    (run Hc { lowerFirst := false } s9 evsF18).c.level ≠
      lvl Hc 1 ((run Hc { lowerFirst := false } s9 evsF18).src.take 9) := by decide

/-- F19: one request for `cp = 8`; its extension completes (cache 9); while it waits for its leaf
hashes a back-out to 5 hashes truncates the cache to 4 and four new blocks arrive. -/
def evsF19 : List (Ev Nat) :=
  startAtomic 1 8 0 ++ [.perform 0, .deliver 0, .boBegin 5, .boEnd, .append [25, 26, 27, 28],
   .perform 0, .deliver 0, .perform 0, .deliver 0]

/-- **F19 (pinned `branch_and_root`: one pass, no truncation check).**  `_level_for(9)` takes
`self.level[:4]` from the truncated 2-entry level and appends the final partial segment: a root over
the hashes 0–3 and 8; the "leaf hashes inconsistent with level" check passes because the leaf's own
segment is intact. -/
theorem F19_counterexample :
    (run Hc { retry := false } s9 evsF19).reqs.map (fun r => decide (r.Safe Hc)) = [false] := by decide

/-- F24: `block.header(7, cp=8)`; its header read is performed (hash 17, the block at height 7);
before the result is delivered a reorganisation replaces the blocks at heights 7 and 8 (back-out
to 7 hashes, two new blocks 27, 28); the header read is delivered, the range check passes against
the new chain, and the proof is computed entirely from the new chain. -/
def evsF24 : List (Ev Nat) :=
  [.header 7 8, .perform 0, .boBegin 7, .boEnd, .append [27, 28], .deliver 0,
   .perform 0, .deliver 0, .perform 0, .deliver 0]

/-- **F24 (pinned `block_header` / `block_headers`: no consistency check of the reply).**  The
proof part is right — `(branch, root)` is the from-scratch proof for height 7 of the chain
`10,…,16,27,28` that is visible (`Safe`) — but the reply's header is the orphaned block 17, not the
block 27 at height 7 of that chain: the reply does not fold (`Folds` fails), it verifies against no
chain. -/
theorem F24_counterexample :
    (run Hc { hdrCheck := false } s9 evsF24).reqs.map
      (fun r => (decide (r.Safe Hc), decide (r.Folds Hc), r.hdrs, r.index, r.active)) =
      [(true, false, [17], 7, false)] ∧
    (run Hc { hdrCheck := false } s9 evsF24).src = [10, 11, 12, 13, 14, 15, 16, 27, 28] := by decide

/-- the same schedule under the current code: the check fails (the request is back at its header
read), the header is read again, the proof recomputed, and the reply — header 27 — folds -/
example :
    (run Hc Cfg.fixed s9 evsF24).reqs.map (fun r => (r.pc, r.hdrs)) = [(.hdr .issued, [17])] ∧
    (run Hc Cfg.fixed s9 (evsF24 ++ [.perform 0, .deliver 0, .perform 0, .deliver 0])).reqs.map
      (fun r => (decide (r.Safe Hc), decide (r.Folds Hc), r.hdrs, r.index, r.active)) =
      [(true, true, [27], 7, false)] := by decide

/-- a reorganisation A → B → A between the header read and the proof: the check passes, rightly —
the reply is header and proof of chain A, which was visible during the request -/
example :
    (run Hc Cfg.fixed s9 ([.header 7 8, .perform 0, .boBegin 7, .boEnd, .append [27, 28], .boBegin 7, .boEnd,
      .append [17, 18], .deliver 0, .perform 0, .deliver 0, .perform 0, .deliver 0])).reqs.map
      (fun r => (decide (r.Safe Hc), decide (r.Folds Hc), r.hdrs, r.active)) = [(true, true, [17], false)] := by
  decide

/-- `block_headers(5, 10, cp=8)`: four headers (heights 5–8, the count is clipped by the chain), the
proof is of the last one; after a reorganisation of the last two blocks between the read and the
proof the pinned code returns headers 15,16,17,18 with the proof of block 28 … -/
example :
    (run Hc { hdrCheck := false } s9 [.headers 5 10 8, .perform 0, .boBegin 7, .boEnd, .append [27, 28],
      .deliver 0, .perform 0, .deliver 0, .perform 0, .deliver 0]).reqs.map
      (fun r => (decide (r.Safe Hc), decide (r.Folds Hc), r.hdrs, r.index, r.active)) =
      [(true, false, [15, 16, 17, 18], 8, false)] := by decide

/-- … and the current code reads them again: 15,16,27,28 -/
example :
    (run Hc Cfg.fixed s9 [.headers 5 10 8, .perform 0, .boBegin 7, .boEnd, .append [27, 28],
      .deliver 0, .perform 0, .deliver 0, .perform 0, .deliver 0,
      .perform 0, .deliver 0, .perform 0, .deliver 0]).reqs.map
      (fun r => (decide (r.Safe Hc), decide (r.Folds Hc), r.hdrs, r.index, r.active)) =
      [(true, true, [15, 16, 27, 28], 8, false)] := by decide

/-- the three older schedules under the current code: every request that has ended is safe (as the
theorem says), and answers do occur (the theorem is not vacuous) -/
example :
    (run Hc Cfg.fixed s9 evsF17).reqs.map (fun r => (decide (r.Safe Hc), r.active)) = [(true, false), (true, true)] ∧
    (run Hc Cfg.fixed s9 evsF18).reqs.map (fun r => (decide (r.Safe Hc), r.active)) = [(true, false), (true, false)] ∧
    (run Hc Cfg.fixed s9 (evsF19 ++ [.perform 0, .deliver 0, .perform 0, .deliver 0])).reqs.map
      (fun r => (decide (r.Safe Hc), decide (r.Folds Hc), r.active, r.bo)) = [(true, true, false, true)] := by decide

/-- `C11_header_current` is not vacuous: a request that no back-out overlapped, answered -/
example : (run Hc Cfg.fixed s9 (startAtomic 0 8 0 ++ [.perform 0, .deliver 0, .perform 0, .deliver 0])).reqs.map
    (fun r => (r.bo, r.active, r.seen.head?)) = [(false, false, some src9)] := by decide

/-- the hypotheses of `C11_header_progress` are satisfiable -/
example : ∃ k, k ≤ 4 ∧ ∃ r br root,
    (run Hc Cfg.fixed s9 (.header 7 8 :: rounds 0 k)).reqs[0]? = some r ∧ r.pc = .done (.answer br root) :=
  C11_header_progress Hc s9 s9_init.inv rfl 7 8 (by decide) (by decide) (by decide)

/-- the refusal clauses are not vacuous: checkpoint beyond the chain, checkpoint below the height,
no header at the height; and replies without proof -/
example : (run Hc Cfg.fixed s9 (startAtomic 0 9 0)).reqs.map (·.pc) = [.done .refused] ∧
    (run Hc Cfg.fixed s9 (startAtomic 4 3 0)).reqs.map (·.pc) = [.done .refused] ∧
    (run Hc Cfg.fixed s9 (startAtomic 9 0 0)).reqs.map (·.pc) = [.done .refused] ∧
    (run Hc Cfg.fixed s9 (startAtomic 8 0 0)).reqs.map (fun r => (r.pc, r.hdrs)) = [(.done .plain, [18])] ∧
    (run Hc Cfg.fixed s9 [.headers 7 5 0, .perform 0, .deliver 0]).reqs.map (fun r => (r.pc, r.hdrs)) =
      [(.done .plain, [17, 18])] ∧
    (run Hc Cfg.fixed s9 [.headers 9 5 8, .perform 0, .deliver 0]).reqs.map (fun r => (r.pc, r.hdrs)) =
      [(.done .plain, [])] := by decide

end EV.HeaderCache
